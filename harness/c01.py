"""C01 — compiled IC10 behaves like the Python source it came from.   (partial)

Theorems: PV/Props/C01.lean (branch selection tables: the emitted branch is taken iff the source condition is false, the
set instruction computes the comparison, negation) over the tables regenerated from utils.py; PV/Props/C01Core.lean
(compile-correctness of the model code generator `comp` for the core sub-language: `compile_correct_done`,
`compile_correct_running`, and `negOk_of_real_tables`, which discharges their hypothesis for the regenerated suffix tables).
Tie of the model generator to the real one (stream `incore`): the captured pre-allocation code of the real transpiler must
equal `comp (flatten src)` instruction for instruction; `flatten` is compared with PV.Src executably.
Oracle (differential, reported as such): the reference semantics PV.Src and the IC10 machine PV.IC10 — both trusted
specifications, compiled into pvdrv — run the generated source program and the REAL emitted code against the same
pseudo-random device environments and compare the effect traces (prefix rule for non-terminating programs).
Streams: core (no functions), out-of-line functions, each under option vectors that must not change behaviour;
witnesses of the known findings.
"""
from __future__ import annotations

import json
import re
import sys

from . import c04, common, progen, srcpy, whole
from .common import Check, Driver, proof_stage, rng_for

PROP = "C01"
MODULE = "PV.Props.C01"
MODULE_CORE = "PV.Props.C01Strip"
MODULE_FRONT = "PV.Props.C01Front"
THEOREMS = ([f"PV.Props.C01.{t}" for t in ["tables_cover", "cmp_set_correct", "branch_neg_correct", "negated_table_negates", "branch_variant_table"]]
            + ["PV.Core.sim"] + [f"PV.Props.C01Core.{t}" for t in ["compile_correct_done", "compile_correct_running", "goodB_sound", "real_pairs_negate", "good_of_real_tables", "compProg_proc"]]
            + [f"PV.Props.C01Strip.{t}" for t in ["comp_ok", "compile_correct_running_stripped", "compile_correct_done_stripped"]]
            + [f"PV.Front.{t}" for t in ["sound_expr", "sound_test", "sound_stmt", "front_sound", "exec_grows", "fuel_stmt", "front_prefix"]]
            + [f"PV.Props.C01Front.{t}" for t in ["source_to_chip_done", "source_to_chip_running", "source_to_chip_done_stripped", "source_to_chip_running_stripped", "intSemOk"]])

N = float

# witnesses of known findings, as PV.Src programs (printed by progen)
def _w(main, funcs=()):
    return {"funcs": list(funcs), "main": main, "decls": []}


DB = ("num", -7.0)
def rd(lt): return ("read", "l", [DB, ("num", float(lt))], {"form": "pin", "pin": "db", "lt": {12: "Setting", 28: "On", 3: "Mode", 1: "Power"}[lt]})
def wr(lt, e): return ("write", "s", [DB, ("num", float(lt)), e], {"form": "pin", "pin": "db", "lt": {12: "Setting", 28: "On", 3: "Mode", 1: "Power"}[lt]})


WITNESSES = {
    "F-C01-a": (_w([("gassign", "y", rd(12)), ("gassign", "x", ("gvar", "y")), ("gassign", "y", ("bin", "add", ("gvar", "y"), ("num", 1.0))), wr(12, ("gvar", "x"))]),
                "x = y (a copy of a variable that is assigned again later) is aliased to y's register"),
    "F-C01-c": (_w([("forRange", True, "i", ("num", 0.0), ("num", 3.0), ("num", 1.0),
                     [("ite", ("bin", "sgt", rd(12), ("num", 5.0)), [("cont",)], []), wr(28, ("gvar", "i"))], {"nargs": 1})]),
                "continue inside for-range jumps before the exit test and skips the increment"),
    "F-C01-f": (_w([("forRange", True, "i", ("num", 0.0), ("num", 6.0), ("num", 1.0),
                     [wr(12, ("index", [("num", 90.0), ("num", 91.0), ("num", 92.0), ("num", 93.0), ("num", 94.0), ("num", 95.0)], ("gvar", "i")))], {"nargs": 1})]),
                "constant list of 6+ elements with a dynamic index yields the neighbouring element (jump table select operands swapped)"),
    "F-C01-h": (_w([("gassign", "x", rd(12)), ("gassign", "y", ("ifexp", ("bin", "sgt", ("gvar", "x"), ("num", -100.0)), ("gvar", "x"), ("call", "fa", [("gvar", "x")]))), wr(28, ("gvar", "y"))],
                   funcs=[{"name": "fa", "params": ["a"], "body": [wr(3, ("lvar", "a")), ("ret", ("bin", "add", ("lvar", "a"), ("num", 1.0)))]}]),
                "both arms of a conditional expression are evaluated (select): a call in the arm that is not chosen is executed, and emitted twice"),
    "F-C01-j": (_w([("gassign", "n", ("bin", "add", rd(12), ("num", 3.0))),
                    ("forRange", True, "i", ("num", 0.0), ("gvar", "n"), ("num", 1.0),
                     [("gassign", "n", ("bin", "sub", ("gvar", "n"), ("num", 1.0))), wr(28, ("gvar", "i"))], {"nargs": 1}),
                    ("while", ("num", 1.0), [("yield",)])]),
                "a `range` bound held in a variable is read again at every iteration: a loop body that changes the variable changes the number of iterations (Python evaluates range(n) once)"),
    "F-C01-k": (_w([("gassign", "n", ("bin", "add", rd(12), ("num", 3.0))),
                    ("forRange", True, "i", ("num", 0.0), ("gvar", "n"), ("num", 1.0), [wr(28, ("gvar", "i"))], {"nargs": 1}),
                    wr(3, ("gvar", "i")),
                    ("while", ("num", 1.0), [("yield",)])]),
                "after a for-range loop the loop variable holds the value that failed the exit test (one step past the last iteration), not the last value it had in the body"),
    "F-C01-l": (_w([("forRange", True, "i", ("num", 0.0), ("num", 6.0), ("num", 1.0),
                     [("gassign", "i", ("bin", "add", ("gvar", "i"), rd(12))), wr(28, ("gvar", "i"))], {"nargs": 1}),
                    ("while", ("num", 1.0), [("yield",)])]),
                "assigning the loop variable inside a for-range body changes the iteration (the variable's register is the iterator): Python restarts from the range's next value"),
    # the next three: the reference program spells the meaning out, the SOURCE TEXT (third component) uses the construct itself
    "F-C01-m": (_w([("gassign", "a", rd(12)),
                    ("ite", ("bin", "and", ("bin", "slt", ("num", 1.0), ("gvar", "a")), ("bin", "slt", ("gvar", "a"), ("num", 3.0))), [wr(28, ("num", 1.0))], [wr(28, ("num", 0.0))]),
                    ("while", ("num", 1.0), [("yield",)])]),
                "a chained comparison `1 < a < 3` is compiled as its first comparison only (`1 < a`); the second one is dropped",
                lambda src: src.replace("if 1 < a and a < 3:", "if 1 < a < 3:")),
    "F-C01-n": (_w([("gassign", "a", rd(12)),
                    ("ite", ("bin", "sgt", ("gvar", "a"), ("num", 5.0)), [("ite", ("bin", "sgt", ("call", "fa", [("gvar", "a")]), ("num", 1.0)), [wr(28, ("num", 1.0))], [])], []),
                    ("gassign", "y", ("call", "fa", [("num", 1.0)])),
                    ("while", ("num", 1.0), [("yield",)])],
                   funcs=[{"name": "fa", "params": ["x"], "body": [wr(3, ("lvar", "x")), ("ret", ("lvar", "x"))]}]),
                "`and` / `or` evaluate both operands: in `a > 5 and fa(a) > 1` the call (and its effects) happens even when `a > 5` is false",
                lambda src: src.replace("if a > 5:\n    if fa(a) > 1:\n        db.On = 1\n", "if a > 5 and fa(a) > 1:\n    db.On = 1\n")),
    "F-C01-o": (_w([("gassign", "a", rd(12)),
                    ("while", ("bin", "slt", ("gvar", "a"), ("num", 3.0)), [("gassign", "a", ("bin", "add", ("gvar", "a"), ("num", 1.0)))]),
                    wr(28, ("gvar", "a")),
                    ("while", ("num", 1.0), [("yield",)])]),
                "the `else:` clause of a `while` loop is dropped without a message (its statements are never emitted)",
                lambda src: src.replace("while a < 3:\n    a = a + 1\ndb.On = a\n", "while a < 3:\n    a = a + 1\nelse:\n    db.On = a\n")),
    "F-C01-p": (_w([("gassign", "x", rd(12)), ("expr", ("call", "fa", [("gvar", "x"), ("num", 2.0)])), ("expr", ("call", "fa", [("gvar", "x"), ("num", 2.0)])),
                    ("while", ("num", 1.0), [("yield",)])],
                   funcs=[{"name": "fa", "params": ["a", "b"], "body": [wr(3, ("bin", "add", ("lvar", "a"), ("bin", "mul", ("lvar", "b"), ("num", 10.0))))]}]),
                "keyword arguments of a call are dropped: `fa(b=2, a=x)` passes nothing, the callee reads argument cells nobody wrote",
                lambda src: re.sub(r"fa\((\w+), 2\)", r"fa(b=2, a=\1)", src)),
    "F-C01-q": (_w([("gassign", "x", rd(12)), wr(3, ("num", 6.0)), wr(28, ("gvar", "x")), ("while", ("num", 1.0), [("yield",)])]),
                "a negative index into a constant list (`[4, 5, 6][-1]`, Python: the last element) goes through the select chain like any other number and yields the second element",
                lambda src: src.replace("db.Mode = 6", "db.Mode = [4, 5, 6][-1]")),
    # the reference program passes both arguments; the SOURCE TEXT (third component) leaves the second one to its default value
    "F-C01-i": (_w([("gassign", "x", rd(12)), ("expr", ("call", "fa", [("gvar", "x"), ("num", 2.0)])), ("expr", ("call", "fa", [("gvar", "x"), ("num", 2.0)])),
                    ("while", ("num", 1.0), [("yield",)])],
                   funcs=[{"name": "fa", "params": ["a", "b"], "body": [wr(3, ("bin", "add", ("lvar", "a"), ("lvar", "b")))]}]),
                "a parameter's default value is never passed to a function compiled out of line: `def fa(a, b=2)` called as `fa(x)` reads an unwritten argument cell (0) for b",
                lambda src: re.sub(r"fa\((\w+), 2\)", r"fa(\1)", src.replace("def fa(a, b):", "def fa(a, b=2):"))),
}


# programs on which repaired defects showed (known_findings.json, status fixed): run first, must behave like the source
K1 = ("num", 1.0, {"name": "K1"})
K3 = ("num", 3.0, {"name": "K3"})
REGRESSIONS = {
    "F-C01-g not CONST": {"funcs": [], "decls": ["K1 = 1"], "main": [("ite", ("un", "not", K1), [wr(12, ("num", 1.0))], []), wr(28, ("num", 0.0))]},
    "F-C01-g not CONST else": {"funcs": [], "decls": ["K1 = 1"], "main": [("ite", ("un", "not", K1), [wr(12, ("num", 1.0))], [wr(12, ("num", 2.0))]), wr(28, ("num", 0.0))]},
    "F-C01-g not (CONST > c)": {"funcs": [], "decls": ["K3 = 3"], "main": [("ite", ("un", "not", ("bin", "sgt", K3, ("num", 2.0))), [wr(12, ("num", 1.0))], []), wr(28, ("num", 0.0))]},
    "F-C01-e break under two ifs": {"funcs": [], "decls": [], "main": [("gassign", "n", ("num", 0.0)), ("while", ("bin", "slt", ("gvar", "n"), ("num", 4.0)), [
        ("gassign", "n", ("bin", "add", ("gvar", "n"), ("num", 1.0))),
        ("ite", ("bin", "sgt", rd(12), ("num", 1.0)), [wr(3, ("gvar", "n")), ("ite", ("bin", "sgt", rd(28), ("num", 1.0)), [wr(1, ("gvar", "n")), ("brk",)], [])], []),
        wr(12, ("gvar", "n"))])]},
}


def run(tier: str, seed: int) -> int:
    chk = Check(PROP, tier, seed, "other")
    chk.assumptions = ["PV.Src (reference semantics of the dialect) and PV.IC10 (machine) are hand-written trusted specifications; NaN and non-finite values are outside the compared domain",
                       "proved: branch-selection tables (all operators, all values of a linear order). NOT proved for the real generator: whole-program trace equality — explored by the executable oracle on generated programs",
                       "generated programs avoid the trigger patterns of the known findings (progen.Profile); witnesses of those findings are run separately"]
    rep, br, audit = proof_stage(chk, MODULE_FRONT, THEOREMS, extra_targets=[MODULE, MODULE_CORE])
    drv = Driver()
    r = rng_for(PROP, seed)
    budget = whole.QUICK_BUDGET if tier == "quick" else whole.THOROUGH_BUDGET
    failures = []
    for rid, rprog in REGRESSIONS.items():
        rsrc = progen.print_program(rprog)
        st, d = whole.judge_equiv(drv, rprog, rsrc, [0.0, 1.0, 2.0, 5.0, 6.0, 7.0], whole.default_opts(append_version=False), [1, 2, 3, 4], budget)
        chk.bump(f"regression:{st}")
        chk.count(("regression", rsrc), nontrivial=True)
        if st != "ok":
            failures.append({"what": f"regression corpus ({rid}): " + (f"emitted code and source disagree: {d['verdict']}" if st == "bad" else f"not comparable any more ({st})"),
                             "profile": "regression", "src": rsrc, "prog": progen.jprogram(rprog), "opts": whole.default_opts(append_version=False),
                             "env_seed": (d or {}).get("env_seed", 1), "pool": [0.0, 1.0, 2.0, 5.0, 6.0, 7.0], "budget": budget, "code": (d or {}).get("code")})
    plan = [("core", 240 if tier == "quick" else 1500), ("funcs", 120 if tier == "quick" else 800), ("calls", 160 if tier == "quick" else 1000)]
    n_env = 3 if tier == "quick" else 5
    feats = {}
    for kind, n in plan:
        for i in range(n):
            g, prog, src, pool = whole.gen_program(r, kind)
            for k, v in g.features.items():
                feats[k] = feats.get(k, 0) + v
            # options that must not matter for behaviour; inlining only where no function exists (see DESIGN §5: F-C04-b/c)
            opts = whole.default_opts(inline_functions=(kind == "core"), remove_labels=r.random() < 0.3, compact=r.random() < 0.3,
                                      generated_comments=r.random() < 0.2, original_code_as_comment=r.random() < 0.2, append_version=r.random() < 0.2)
            envs = [r.randrange(1 << 30) for _ in range(n_env)]
            st, d = whole.judge_equiv(drv, prog, src, pool, opts, envs, budget)
            chk.bump(f"{kind}:{st}" + (":" + d["verdict"] if st == "ok" and d else ""))
            if st in ("error", "outside"):
                continue
            chk.count((src,), nontrivial=True)
            if len(chk.coverage["samples"]) < 3:
                chk.sample({"profile": kind, "opts": opts, "src": src, "verdict": d["verdict"] if d else None})
            if st == "bad":
                small = whole.shrink_failure(drv, prog, pool, opts, d["env_seed"], budget, d["verdict"])
                ssrc = progen.print_program(small)
                st2, d2 = whole.judge_equiv(drv, small, ssrc, pool, opts, [d["env_seed"]], budget)
                if st2 != "bad":
                    small, ssrc, d2 = prog, src, d
                failures.append({"what": f"emitted code and source disagree: {d2['verdict']} (source effect {d2.get('src_at')}, chip effect {d2.get('ic_at')}, after {d2.get('common')} equal effects)",
                                 "profile": kind, "src": ssrc, "prog": progen.jprogram(small), "opts": opts, "env_seed": d["env_seed"], "pool": pool, "budget": budget,
                                 "verdict": {k: v for k, v in d2.items() if k != "code"}, "code": d2.get("code"), "unshrunk_src": src})
                if len(failures) >= 3:
                    break
        if len(failures) >= 3:
            break
    # --- the proved model generator against the real one (stream `incore`) -------------------------------------------
    # For programs of the core sub-language the REAL pre-allocation code must be, instruction for instruction (registers
    # renamed by first occurrence, labels as the no-op lines they occupy, jump targets as line numbers), `comp (flatten src)`;
    # `compile_correct_done/running` then speak about the real code.  `flatten` itself (unproved) is run under the core
    # reference semantics against PV.Src on the same environment.
    n_core = 150 if tier == "quick" else 1500
    diffs = []
    for i in range(n_core + n_core // 2):
        if len(failures) >= 3:
            break
        # function-free programs, and (last third) programs with functions compiled out of line: leaf functions / functions that call functions
        with_funcs = i >= n_core
        # function streams: leaf functions / functions that call functions, compiled out of line; and the default option
        # (single-use functions inlined at their call site)
        fprof = ["incoref", "incoren", "incorei"][i % 3] if with_funcs else "incore"
        inl = (fprof in ("incore", "incorei"))
        g, prog, src, pool = whole.gen_program(r, fprof)
        opts = whole.default_opts(append_version=False, inline_functions=inl)
        res, cap = whole.compile_captured(src, opts)
        if "error" in res or not cap.lines:
            chk.bump("incore:compile-error")
            continue
        vtext = c04.texts(cap)[0]
        v = drv.call(cmd="core-compare", prog=progen.jprogram(prog), text=vtext, seed=r.randrange(1 << 30), fuel=budget["fuel"], pool=pool, inline=inl)
        chk.bump(fprof + ":" + v["verdict"])
        if v["verdict"] == "same":
            chk.count(("incore", src), nontrivial=True)
            # the proved front-end fragment (PV.Front, theorem source_to_chip_done): inside / outside / model disagreement
            chk.bump("front:" + v.get("front", "?"))
            if v.get("front") == "differ" or v.get("semok") is False:
                chk.coverage.setdefault("model_internal", []).append({"src": src, "detail": "PV.Front.flatten differs from PV.Flatten.flatten" if v.get("front") == "differ" else "SemOk fails on the value pool"})
            # the next link of the chain: the real register allocation of this program, judged by the validator of C04
            # (`checkAlloc_sound_static`: accepted ⇒ the allocated code runs in lock step with the pre-allocation code)
            av = c04.validator_verdict(drv, cap)
            chk.bump("incore:alloc-" + av.get("verdict", "?"))
        elif v["verdict"] in ("differ", "length", "parse-error"):
            # correspondence broken for this program: is the property broken on it?
            envs = [r.randrange(1 << 30) for _ in range(8)]
            st, d = whole.judge_equiv(drv, prog, src, pool, opts, envs, budget)
            if st == "bad":
                failures.append({"what": f"real code differs from the proved model generator's and from the source: {d['verdict']}", "profile": "incore", "src": src,
                                 "prog": progen.jprogram(prog), "opts": opts, "env_seed": d["env_seed"], "pool": pool, "budget": budget,
                                 "verdict": {k: x for k, x in d.items() if k != "code"}, "code": d.get("code")})
            else:
                diffs.append({"src": src, "verdict": {k: x for k, x in v.items() if k not in ("model_code", "real_code")},
                              "model_code": v.get("model_code"), "real_code": v.get("real_code")})
        elif v["verdict"] in ("flatten-disagrees", "negok-false"):
            # model-internal: the unproved flattening step does not reproduce PV.Src on this program; the chain through the theorem
            # does not cover it (the direct oracle above still does).  Reported in the evidence, no statement about /repo.
            chk.coverage.setdefault("model_internal", []).append({"src": src, "detail": v.get("detail", v["verdict"])})
    if diffs:
        chk.broken.append(f"correspondence `comp (flatten src)` = real pre-allocation code fails on {len(diffs)} core programs; first: {json.dumps(diffs[0]['verdict'])}")
        chk.coverage["core_correspondence_failures"] = diffs[:3]
    # --- the reference semantics itself against CPython -----------------------------------------------------------------------
    # PV.Src is a trusted specification; here it is validated: the generated abstract program, printed as plain Python over
    # ENV / EFF, is executed by CPython and by PV.Src on the same explicit environment.  A disagreement says nothing about /repo:
    # it is reported in the evidence (and on stderr), the oracle above would then be in doubt.
    n_ref = 80 if tier == "quick" else 1000
    for i in range(n_ref):
        kind = ["core", "funcs", "calls", "loopctl", "incoren"][i % 5]
        g, prog, src, pool = whole.gen_program(r, kind)
        verdict, det = srcpy.compare(drv, prog, progen.jprogram(prog), r.randrange(1 << 30), [float(x) for x in pool])
        chk.bump("refsem:" + verdict.split(":")[0])
        if verdict == "differ":
            chk.coverage.setdefault("reference_semantics_disagreements", []).append({"src": src, "why": det["why"]})
            print(f"[C01] warning: PV.Src and CPython disagree on a generated program: {det['why']}", file=sys.stderr)
    chk.coverage["features"] = dict(sorted(feats.items()))
    # witnesses of the known findings
    known_ids = {f["id"] for f in chk.known}
    for fid, w in WITNESSES.items():
        prog, what = w[0], w[1]
        src = progen.print_program(prog)
        if len(w) > 2:
            src = w[2](src)
        st, d = whole.judge_equiv(drv, prog, src, [0.0, 1.0, 2.0, 5.0, 6.0, 7.0], whole.default_opts(append_version=False), [1, 2, 3], budget)
        if st == "bad":
            if fid in known_ids:
                chk.known_finding(fid, what)
            else:
                failures.append({"what": what, "src": src, "prog": progen.jprogram(prog), "opts": whole.default_opts(append_version=False), "env_seed": d["env_seed"],
                                 "pool": [0.0, 1.0, 2.0, 5.0, 6.0, 7.0], "budget": budget, "code": d.get("code")})
    drv.close()
    chk.coverage["programs"] = chk.evaluations
    chk.coverage["rule"] = ("type-directed generator over the PV.Src grammar (progen.py), profiles core / funcs, each program compiled by the real transpiler under a random vector of the "
                            "behaviour-neutral options and run against several pseudo-random device environments; distinct = distinct source text; every counted program compiled and was compared")
    chk.coverage["explanation"] = ("table theorems and compile-correctness of the model generator for the core sub-language proved in Lean; the real pre-allocation code of in-core programs compared with the model generator's "
                                   "instruction for instruction; whole-program equivalence beyond the core explored by the reference-semantics oracle on real outputs (differential testing, not a proof)")
    if failures:
        f = min(failures, key=lambda x: len(x.get("src", "")))
        chk.violation(dict(f, broken=chk.broken, n_failures=len(failures)))
    elif chk.broken:
        chk.violation({"what": "proof obligation no longer checks (no program found on which source and emitted code disagree)", "broken": chk.broken}, no_failing_input=True)
    return chk.finish()


def replay(path: str) -> int:
    rp = json.loads(open(path).read())
    if "prog" not in rp:
        print("replay names a broken obligation only:", rp.get("broken"))
        return 1
    drv = Driver()
    res = whole.compile_real(rp["src"], rp["opts"])
    if "error" in res:
        print("replay: compile error now:", res["error"]["description"][:200])
        return 0
    v = drv.call(cmd="equiv", prog=rp["prog"], text=res["code"], seed=rp["env_seed"], pool=rp["pool"], **rp["budget"])
    drv.close()
    if v["verdict"] in whole.BAD_VERDICTS:
        print(f"VIOLATION property=C01 replay={path}\n   {v['verdict']}: source {v.get('src_at')} chip {v.get('ic_at')}")
        return 1
    print("replay: holds now")
    return 0
