"""C02 — every combination of compile options preserves program behaviour.   (partial)

Theorems: PV/Props/C02.lean — per textual option a corollary of the model theorem of its own property (comments are
invisible to the loader; compact tokens denote the same values; a removed label is replaced by the index of the instruction
that follows it; pragma = API).
Oracle (differential): each generated source is compiled by the real transpiler under many option vectors — given through
the API and through '# pytrapic:' comments — and every output is run against the reference semantics with the shadow call
stack; so all outputs of one source have the same observable behaviour.  Option vectors per stream are all 2^8 vectors except
where a known finding of the pinned tree makes a combination meaningless (inlining of functions with parameters / results,
tail calls next to other calls): those combinations are exercised on the profiles that avoid the trigger.
"""
from __future__ import annotations

import json

from . import common, progen, whole
from .common import Check, Driver, proof_stage, rng_for

PROP = "C02"
MODULE = "PV.Props.C02"
THEOREMS = [f"PV.Props.C02.{t}" for t in ["comment_is_invisible", "compact_tokens_same_value", "label_is_next_instruction_index", "pragma_equals_api", "remove_labels_preserves_behaviour"]]

# which options may vary freely per profile (the others are fixed to the value given)
STREAMS = {
    "core":   dict(fixed={}),                                                         # no functions: all 2^8 vectors
    "procs0": dict(fixed={"tail_call_optimization": False}),                          # parameterless procedures: inlining on/off, both conventions
    "tco0":   dict(fixed={}),                                                         # tail-call-safe parameterless procedures: all 2^8 vectors
    "funcs":  dict(fixed={"inline_functions": False, "tail_call_optimization": False}),
    "tco":    dict(fixed={"inline_functions": False}),
    "calls":  dict(fixed={"inline_functions": False, "tail_call_optimization": False}),
}


def pragma_header(opts: dict, r):
    tags = []
    for k, v in opts.items():
        name = k if r.random() < 0.5 else k.replace("_", "-")
        tags.append(name if v else r.choice(["no-", "no_"]) + name)
    r.shuffle(tags)
    cut = r.randrange(1, len(tags))
    return "# pytrapic: " + ", ".join(tags[:cut]) + "\n# pytrapic: " + ", ".join(tags[cut:]) + "\n"


def tail_family(r):
    """a chain p0 → p1 → … of parameterless procedures, each ending in the call of the next (no other call, no early return in
    them: F-C02-a), p0 entered from two or three sites of the main loop; inner procedures used only in the tail position or also
    called directly; they talk through globals"""
    k = r.randrange(2, 4)
    L = ["g = 0", ""]
    effects = ["d0.On = g", "d1.Setting = g + 1", "db.Power = g * 2", "d2.Mode = 1", "d0.Setting = g - 1", "db.Lock = g"]
    for j in reversed(range(k)):
        body = [r.choice(effects) for _ in range(r.randrange(1, 3))]
        if j == k - 1:
            if r.random() < 0.5:
                body.append("if g > 1:\n        d3.On = g")
        else:
            body.append(f"p{j + 1}()")
        L += [f"def p{j}():"] + ["    " + b for b in body] + [""]
    main = ["x = 0", "while x < 3:", "    x = x + 1", "    g = x", "    p0()", "    yield_()", "    p0()"]
    if r.random() < 0.4:
        main.append("    p0()")
    if k > 1 and r.random() < 0.4:
        main.append(f"    p{r.randrange(1, k)}()")       # an inner procedure is also called directly
    main += ["db.Mode = x", "while True:", "    yield_()"]
    return "\n".join(L + main) + "\n"


def param_family(r):
    """functions that overwrite their parameters (out of line a parameter is a copy; inlined it has to behave like one): count-down
    loops, clamps, accumulations; the arguments are register variables (read only by the call, or also afterwards), literals,
    expressions; the calls sit in a loop, so the caller's variables must survive every call"""
    nf = r.randrange(1, 3)
    L, calls = [], []
    for j in range(nf):
        form = r.choice(["countdown", "clamp", "accumulate"])
        if form == "countdown":
            L += [f"def f{j}(k):", "    while k > 0:", f"        d{j}.Setting = k", "        k -= 1", ""]
        elif form == "clamp":
            L += [f"def f{j}(k):", f"    if k > {r.choice([1, 2])}:", f"        k = {r.choice([1, 2])}", f"    d{j}.Mode = k", ""]
        else:
            L += [f"def f{j}(k):", f"    k = k * 2 + {j}", "    k += 1", f"    d{j}.On = k", ""]
        calls.append(f"f{j}({r.choice(['n', 'n', 'm', 'n + 1', '3'])})")
        if r.random() < 0.3:
            calls.append(f"f{j}({r.choice(['n', 'm', '2'])})")       # a second call site: the function is not inlined
    main = ["n = d4.Setting + 2", "m = d5.Setting + 1", "x = 0", "while x < 3:", "    x = x + 1"] + ["    " + c for c in calls] + ["    yield_()"]
    if r.random() < 0.5:
        main.append("    db.Power = n + m")
    main += ["db.Mode = x", "while True:", "    yield_()"]
    return "\n".join(L + main) + "\n"


def run(tier: str, seed: int) -> int:
    chk = Check(PROP, tier, seed, "other")
    chk.assumptions = ["PV.Src / PV.IC10 are trusted specifications; behaviour = effect trace against pseudo-random device environments (prefix rule)",
                       "proved: the textual options (comments, compact, label removal, pragma route) at token / line level; NOT proved: that inlining, tail calls and the calling convention are behaviour-preserving lowerings — explored only",
                       "combinations hit by known findings (F-C01-a, F-C02-a/b, F-C04-b/c: inlining of functions with parameters or results, tail calls next to other calls) are exercised only on profiles that avoid the trigger"]
    rep, br, audit = proof_stage(chk, MODULE, THEOREMS)
    drv = Driver()
    r = rng_for(PROP, seed)
    budget = whole.QUICK_BUDGET if tier == "quick" else whole.THOROUGH_BUDGET
    failures = []
    stats = {}
    per = {"core": 35, "procs0": 35, "tco0": 40, "funcs": 25, "tco": 30, "calls": 20} if tier == "quick" else {k: 150 for k in STREAMS}
    nvec = 5 if tier == "quick" else 6
    for kind, n in per.items():
        fixed = STREAMS[kind]["fixed"]
        for i in range(n):
            g, prog, src, pool = whole.gen_program(r, kind)
            envs = [r.randrange(1 << 30) for _ in range(2)]
            outs = []
            vecs = []
            for k in range(nvec):
                o = whole.random_opts(r)
                o.update(fixed)
                vecs.append((o, "api"))
            # the same vector through in-source pragmas, caller passing the opposite values
            o = dict(vecs[0][0])
            vecs.append((o, "pragma"))
            for o, route in vecs:
                if route == "pragma":
                    text = pragma_header(o, r) + src
                    res = whole.compile_real(text, {k: (not v) for k, v in o.items()})
                    ref = whole.compile_real(src, o)
                    if ("code" in res) != ("code" in ref) or ("code" in res and res["code"].split("\n")[-len(ref["code"].split("\n")):] != ref["code"].split("\n") and not o.get("original_code_as_comment")):
                        # with source comments the echoed line numbers shift; otherwise the code must be identical
                        failures.append({"what": "options given by '# pytrapic:' comments do not give the code the same options give through the API", "src": text, "opts": o,
                                         "prog": progen.jprogram(prog), "pool": pool, "env_seed": envs[0], "budget": budget, "route": route})
                else:
                    res = whole.compile_real(src, o)
                if "error" in res:
                    stats["compile_errors"] = stats.get("compile_errors", 0) + 1
                    continue
                stats[f"{kind}_runs"] = stats.get(f"{kind}_runs", 0) + 1
                chk.count((res["code"],), nontrivial=True)
                for es in envs:
                    v = drv.call(cmd="equiv", prog=progen.jprogram(prog), text=res["code"], seed=es, pool=pool, **budget)
                    if v["verdict"] == "src-undefined":
                        break
                    bad = None
                    if v["verdict"] in whole.BAD_VERDICTS and not v.get("ic_nonfinite") and not (v["verdict"] == "trace-mismatch" and whole.nonfinite_in_trace(drv, prog, pool, es, budget["fuel"])):
                        bad = f"{v['verdict']} (source {v.get('src_at')}, chip {v.get('ic_at')}, after {v.get('common')} equal effects)"
                    elif any("goes to" in c or "without a call" in c for c in v.get("call_violations", [])):
                        bad = "call discipline broken: " + v["call_violations"][0]
                    if bad:
                        failures.append({"what": f"under options {[k for k, x in o.items() if x]} ({route}) the emitted code does not behave like the source: {bad}", "src": src if route == "api" else text,
                                         "opts": o if route == "api" else {k: (not v) for k, v in o.items()}, "prog": progen.jprogram(prog), "pool": pool, "env_seed": es, "budget": budget,
                                         "code": res["code"], "profile": kind, "route": route})
                        break
            if len(chk.coverage["samples"]) < 3:
                chk.sample({"profile": kind, "vectors": [[k for k, x in o.items() if x] for o, _ in vecs[:3]], "src": src[:300]})
    # -- name family: suffix-related function names (an inlined `pre_run` inside `run`): outputs compared pairwise -------------------
    for i in range(40 if tier == "quick" else 300):
        base = r.choice(["run", "tick", "update", "f", "set"])
        inner = r.choice(["pre_" + base, "on_" + base, "re" + base, "other", "x" + base])
        helper = r.choice(["emit", "h", "log_" + base, "z"])
        src = (f"def {helper}(a):\n    db.Setting = a\n    db.On = a + 1\n\n"
               f"def {inner}(a):\n    if a > 2:\n        return\n    d0.Setting = a\n\n"
               f"def {base}(a):\n    {inner}(a)\n    {helper}(a)\n    {helper}(a + 1)\n    d1.Setting = a\n\n"
               f"x = 0\nwhile x < 3:\n    x = x + 1\n    {base}(x)\n    {base}(x + 10)\n    yield_()\ndb.Mode = x\nwhile True:\n    yield_()\n")
        traces = []
        for k in range(4):
            o = whole.random_opts(r)
            o.update(remove_labels=False, tail_call_optimization=False, append_version=False)   # F-C05-a / F-C02-a
            res = whole.compile_real(src, o)
            if "error" in res:
                continue
            d = drv.call(cmd="run-ic10", text=res["code"], seed=7, steps=2500, pool=[0.0, 1.0, 2.0, 3.0])
            if "parse_error" in d:
                continue
            stats["name_family_runs"] = stats.get("name_family_runs", 0) + 1
            chk.count((res["code"],), nontrivial=True)
            traces.append((o, d["trace"], res["code"]))
        for (o1, t1, c1), (o2, t2, c2) in zip(traces, traces[1:]):
            m = min(len(t1), len(t2))
            if t1[:m] != t2[:m] or min(len(t1), len(t2)) < 10:
                failures.append({"what": f"the same source behaves differently under options {[k for k, x in o1.items() if x]} and {[k for k, x in o2.items() if x]} "
                                         f"(traces of {len(t1)} and {len(t2)} effects, first difference at {next((j for j in range(m) if t1[j] != t2[j]), m)})",
                                 "src": src, "opts": o1, "opts2": o2, "code": c1, "code2": c2, "template": True})
                break
    # -- tail family: chains of parameterless procedures ending in a call, entered from several sites; every combination of
    #    inlining x tail calls x calling convention, outputs compared pairwise ------------------------------------------------
    import itertools
    for i in range(40 if tier == "quick" else 320):
        # (… and the parameter family: functions that overwrite their parameters, called from a loop)
        src = tail_family(r) if i % 8 < 5 else param_family(r)
        traces = []
        for inl, tco, pp in itertools.product([False, True], repeat=3):
            o = whole.random_opts(r)
            o.update(inline_functions=inl, tail_call_optimization=tco, use_push_pop_functions=pp, append_version=False)
            res = whole.compile_real(src, o)
            if "error" in res:
                stats["tail_family_errors"] = stats.get("tail_family_errors", 0) + 1
                continue
            d = drv.call(cmd="run-ic10", text=res["code"], seed=7, steps=2500, pool=[0.0, 1.0, 2.0, 3.0])
            if "parse_error" in d:
                continue
            stats["tail_family_runs"] = stats.get("tail_family_runs", 0) + 1
            chk.count((res["code"],), nontrivial=True)
            traces.append((o, d["trace"], res["code"]))
        for (o1, t1, c1), (o2, t2, c2) in zip(traces, traces[1:]):
            m = min(len(t1), len(t2))
            if t1[:m] != t2[:m] or m < 10:
                failures.append({"what": f"the same source behaves differently under options {[k for k, x in o1.items() if x]} and {[k for k, x in o2.items() if x]} "
                                         f"(traces of {len(t1)} and {len(t2)} effects, first difference at {next((j for j in range(m) if t1[j] != t2[j]), m)})",
                                 "src": src, "opts": o1, "opts2": o2, "code": c1, "code2": c2, "template": True})
                break
    drv.close()
    chk.coverage["streams"] = stats
    chk.coverage["rule"] = ("per generated source (profiles core / procs0 / tco0: all 2^8 vectors; funcs / calls / tco: vectors restricted as documented) several random option vectors through the API plus one "
                            "through in-source pragmas; every output run against the reference semantics on two environments; distinct = distinct emitted text")
    chk.coverage["explanation"] = "token/line-level corollaries proved; behaviour preservation of the lowering options explored by differential execution of real outputs"
    if failures:
        f = min(failures, key=lambda x: len(x["src"]))
        chk.violation(dict(f, broken=chk.broken, n_failures=len(failures), all_failures=[x["what"][:220] for x in failures[:8]]))
    elif chk.broken:
        chk.violation({"what": "proof obligation no longer checks (no option vector found that changes behaviour)", "broken": chk.broken}, no_failing_input=True)
    return chk.finish()


def replay(path: str) -> int:
    rp = json.loads(open(path).read())
    if rp.get("template"):
        drv = Driver()
        a = whole.compile_real(rp["src"], rp["opts"]); b = whole.compile_real(rp["src"], rp["opts2"])
        ta = drv.call(cmd="run-ic10", text=a.get("code", ""), seed=7, steps=2500, pool=[0.0, 1.0, 2.0, 3.0]).get("trace", [])
        tb = drv.call(cmd="run-ic10", text=b.get("code", ""), seed=7, steps=2500, pool=[0.0, 1.0, 2.0, 3.0]).get("trace", [])
        drv.close()
        m = min(len(ta), len(tb))
        bad = ta[:m] != tb[:m] or m < 10
        print(f"VIOLATION property=C02 replay={path}" if bad else "replay: holds now")
        return 1 if bad else 0
    if "prog" not in rp:
        print("replay names a broken obligation only:", rp.get("broken"))
        return 1
    drv = Driver()
    res = whole.compile_real(rp["src"], rp["opts"])
    if "error" in res:
        print("replay: compile error now")
        return 0
    v = drv.call(cmd="equiv", prog=rp["prog"], text=res["code"], seed=rp["env_seed"], pool=rp["pool"], **rp["budget"])
    drv.close()
    if v["verdict"] in whole.BAD_VERDICTS or v.get("call_violations"):
        print(f"VIOLATION property=C02 replay={path}\n   {v['verdict']} {v.get('call_violations')}")
        return 1
    print("replay: holds now")
    return 0
