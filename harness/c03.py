"""C03 — compile-time evaluation gives the same value the chip would compute.   (integer operators proved; the rest explored)

Theorems: PV/Props/C03.lean — tables_are_spec (the operator tables regenerated from utils.py equal the specification tables),
fold_binop_agrees_partial (every exact integer operator: folded value = value of the paired opcode, for ALL operands in the
unambiguous range), fold_bool_ops_01, fold_unop_agrees, icmod_eq_pymod.
Tie: regeneration of the tables; correspondence of the Python-semantics model `pyEval` with the REAL lambdas of
get_binop_instruction / get_unop_instruction on an integer grid.
Oracle — the property's own experiment, entirely on the real transpiler: an expression over constants (folded to a literal)
and the same expression with every operand loaded from the chip's stack (computed at run time by the emitted
instructions) are compiled, both outputs run on the IC10 machine model with the stack preloaded, and the two values written
to the device must be equal.  Shapes: all operators × operand grid, nesting, unary, math functions, HASH, constant lists,
named constants, single-assignment variables, function boundaries.
"""
from __future__ import annotations

import json
import math

from . import common, progen, whole
from .common import Check, Driver, proof_stage, rng_for

PROP = "C03"
MODULE = "PV.Props.C03"
THEOREMS = [f"PV.Props.C03.{t}" for t in ["tables_are_spec", "icmod_eq_pymod", "fold_binop_agrees_partial", "fold_bool_ops_01", "fold_unop_agrees"]]

INT_GRID = [0, 1, -1, 2, 3, -3, 5, 7, -7, 10, 16, 255, 1000, -1000, 65536, 2 ** 31, -(2 ** 31), 2 ** 40 + 3, 2 ** 52 - 1]
FLOAT_GRID = [0.5, -0.5, 0.05, 0.02, 0.07, -0.25, 0.125, 1.5, -2.5, 3.75, 100.25, 1e-3, -1e-3, 1e6 + 0.5, 0.1, 0.3]
BINOPS = ["+", "-", "*", "/", "%", "**", "^", "&", ">>", "<<", "==", "!=", "<", ">", "<=", ">=", "and", "or"]
MATH = ["sin", "cos", "tan", "asin", "acos", "atan", "sqrt", "log", "exp"]


def lit(v):
    s = repr(v) if isinstance(v, float) and not v.is_integer() else str(int(v))
    return f"({s})" if s.startswith("-") else s


def in_range(op, a, b):
    """the range where IC10 semantics are unambiguous (property text)"""
    if op in ("/",) and b == 0:
        return False
    if op == "%" and not b > 0:
        return False
    if op in ("^", "&", ">>", "<<"):
        if not (float(a).is_integer() and float(b).is_integer()):
            return False
        if abs(a) >= 2 ** 53 or abs(b) >= 2 ** 53:
            return False
        if op in (">>", "<<") and not (0 <= b < 40):
            return False
        if op == ">>" and a < 0:
            return False
        if op == "<<" and abs(a) * 2 ** int(b) >= 2 ** 53:
            return False
    if op == "**":
        try:
            v = float(a) ** float(b)
        except Exception:
            return False
        if isinstance(v, complex) or v != v or abs(v) > 1e15 or (a == 0 and b < 0):
            return False
        if a < 0 and not float(b).is_integer():
            return False
    if op in ("and", "or") and not (a in (0, 1) and b in (0, 1)):
        return False          # known finding F-C03-b beyond truth values
    return True


def result_value(drv, code, mem):
    d = drv.call(cmd="run-ic10", text=code, seed=1, steps=400, pool=[0.0], mem=[[k, progen.f2bits(v)] for k, v in mem.items()])
    if "parse_error" in d:
        return ("parse-error", d["parse_error"])
    w = [e for e in d["trace"] if e[0] == "s"]
    if not w:
        return ("no-write", len(d["trace"]))
    return ("value", progen.bits2f(w[-1][3]))


def same(x, y, exact):
    if x != x and y != y:
        return True
    if x == y:
        return True
    # literals carry 16 significant digits (C09): equality is judged to that precision; transcendental functions a few ulps
    tol = 1.2e-15 if exact else 4e-15
    return abs(x - y) <= tol * max(abs(x), abs(y), 1e-300)


def experiment(r, kind):
    """(description, constant program, run-time program, stack preload, exact?) for one expression shape"""
    ops = BINOPS
    def operand():
        return r.choice(INT_GRID) if r.random() < 0.65 else r.choice(FLOAT_GRID)
    if kind == "binop":
        op = r.choice(ops)
        a, b = operand(), operand()
        if not in_range(op, a, b):
            return None
        wrap = " + 0" if op in ("==", "!=", "<", ">", "<=", ">=", "and", "or") else ""
        e_c = f"({lit(a)} {op} {lit(b)}){wrap}"
        e_r = f"(stack[0] {op} stack[1]){wrap}"
        return (f"{a} {op} {b}", f"db.Setting = {e_c}\n", f"db.Setting = {e_r}\n", {0: a, 1: b}, op != "**")
    if kind == "nested":
        op1, op2 = r.choice(["+", "-", "*", "/", "%"]), r.choice(["+", "-", "*", "<", ">=", "=="])
        a, b, c = operand(), operand(), operand()
        if not in_range(op1, a, b):
            return None
        try:
            inner = eval(f"({a!r}) {op1} ({b!r})")
        except Exception:
            return None
        if not in_range(op2, inner, c):
            return None
        wrap = " + 0" if op2 in ("<", ">=", "==") else ""
        return (f"({a} {op1} {b}) {op2} {c}", f"db.Setting = (({lit(a)} {op1} {lit(b)}) {op2} {lit(c)}){wrap}\n", f"db.Setting = ((stack[0] {op1} stack[1]) {op2} stack[2]){wrap}\n", {0: a, 1: b, 2: c}, True)
    if kind == "mixed":
        # some operands are literals (or constants held in variables), the others are loaded at run time: a partly constant
        # chain may be regrouped / partly folded by the transpiler — the value must be that of the fully run-time expression
        op1, op2 = r.choice(["+", "-", "*", "/"]), r.choice(["+", "-", "*", "/"])
        a, b, c = operand(), operand(), operand()
        left = r.random() < 0.7
        try:
            if left:
                inner = eval(f"({a!r}) {op1} ({b!r})")
                ok = in_range(op1, a, b) and in_range(op2, inner, c)
            else:
                inner = eval(f"({b!r}) {op2} ({c!r})")
                ok = in_range(op2, b, c) and in_range(op1, a, inner)
        except Exception:
            return None
        if not ok:
            return None
        const = [r.random() < 0.6 for _ in range(3)]
        if all(const) or not any(const):
            const = [False, True, True]
        named = r.random() < 0.3
        pre = ""
        names = []
        for i, (v, k) in enumerate(zip((a, b, c), const)):
            if k and named:
                pre += f"K{i} = {lit(v)}\n"
                names.append(f"K{i}")
            elif k:
                names.append(lit(v))
            else:
                names.append(f"stack[{i}]")
        rt = [f"stack[{i}]" for i in range(3)]
        shape = (lambda x, y, z: f"(({x} {op1} {y}) {op2} {z})") if left else (lambda x, y, z: f"({x} {op1} ({y} {op2} {z}))")
        return (f"{shape(a, b, c)} with operands {[i for i, k in enumerate(const) if k]} constant", pre + f"db.Setting = {shape(*names)}\n", f"db.Setting = {shape(*rt)}\n",
                {0: a, 1: b, 2: c}, True)
    if kind == "unary":
        a = operand()
        u = r.choice(["-", "not "])
        wrap = " + 0" if u == "not " else ""
        return (f"{u}{a}", f"db.Setting = ({u}({lit(a)})){wrap}\n", f"db.Setting = ({u}(stack[0])){wrap}\n", {0: a}, True)
    if kind == "math":
        f = r.choice(MATH)
        a = r.choice([0.0, 0.5, -0.5, 1.0, 0.25, 2.0, 10.0, 0.01, -0.01, 0.999, 3.0, 100.0])
        try:
            getattr(math, f)(a)
        except Exception:
            return None
        return (f"{f}({a})", f"db.Setting = {f}({lit(a)})\n", f"db.Setting = {f}(stack[0])\n", {0: a}, False)
    if kind == "named":
        a, b = operand(), operand()
        op = r.choice(["+", "-", "*", "%", "/"])
        if not in_range(op, a, b):
            return None
        return (f"K1 {op} K2 with K1={a}, K2={b}", f"K1 = {lit(a)}\nK2 = {lit(b)}\ndb.Setting = K1 {op} K2\n", f"K1 = stack[0]\nK2 = stack[1]\ndb.Setting = K1 {op} K2\n", {0: a, 1: b}, True)
    if kind == "variable":
        a, b = operand(), operand()
        op = r.choice(["+", "-", "*"])
        return (f"x={a}; y=x {op} {b}; y*2", f"x = {lit(a)}\ny = x {op} {lit(b)}\ndb.Setting = y * 2\n", f"x = stack[0]\ny = x {op} stack[1]\ndb.Setting = y * 2\n", {0: a, 1: b}, True)
    if kind == "function":
        a, b = operand(), operand()
        op = r.choice(["+", "-", "*"])
        body = f"def f(p, q):\n    return p {op} q + 1\n"
        return (f"f({a}, {b}) with f(p,q)=p {op} q + 1", body + f"db.Setting = f({lit(a)}, {lit(b)})\n", body + f"db.Setting = f(stack[0], stack[1])\n", {0: a, 1: b}, True)
    if kind in ("clamp", "reassign"):
        # a parameter / variable that gets a constant on one path only: it is NOT a constant, whatever the single assignment says
        a = float(r.choice([-3, 0, 5, 42, 99, 100, 101, 250, 0.5]))
        c = float(r.choice([10, 100, 50]))
        c2 = c if r.random() < 0.6 else float(r.choice([0, 7]))
        cmp_ = r.choice([">", "<", ">="])
        hit = {">": a > c, "<": a < c, ">=": a >= c}[cmp_]
        expect = (c2 if hit else a) + 1
        if kind == "clamp":
            body = f"def f(v):\n    if v {cmp_} {lit(c)}:\n        v = {lit(c2)}\n    return v + 1\n"
            return (f"f({a}) with f(v): if v {cmp_} {c}: v = {c2}; return v + 1", body + f"db.Setting = f({lit(a)})\n", body + "db.Setting = f(stack[0])\n", {0: a}, True, expect)
        return (f"x = {a}; if x {cmp_} {c}: x = {c2}; x + 1", f"x = {lit(a)}\nif x {cmp_} {lit(c)}:\n    x = {lit(c2)}\ndb.Setting = x + 1\n",
                f"x = stack[0]\nif x {cmp_} {lit(c)}:\n    x = {lit(c2)}\ndb.Setting = x + 1\n", {0: a}, True, expect)
    if kind == "list":
        vals = [operand() for _ in range(r.randrange(2, 6))]
        k = r.randrange(len(vals))
        L = "[" + ", ".join(lit(v) for v in vals) + "]"
        return (f"{L}[{k}]", f"db.Setting = {L}[{k}]\n", f"i = stack[0]\ndb.Setting = {L}[i]\n", {0: float(k)}, True)
    if kind == "hash":
        nm = r.choice(["abc", "Sensor 1", "H", "x y z", "ItemIronIngot"])
        c = r.choice([1, 2, 16, 255])
        op = r.choice(["+", "-", "*", "&", "%"])
        from stationeers_pytrapic.utils import calc_hash
        if not in_range(op, calc_hash(nm), c):
            return None
        return (f'HASH("{nm}") {op} {c}', f'db.Setting = HASH("{nm}") {op} {c}\n', f'h = stack[0]\ndb.Setting = h {op} {c}\n', {0: float(calc_hash(nm))}, True)
    return None


def run(tier: str, seed: int) -> int:
    chk = Check(PROP, tier, seed, "proof")
    chk.assumptions = ["opcode meaning on whole numbers (PV.Fold.icAlu) and on binary64 (PV.IC10.FloatSem) are trusted specifications; transcendental functions use this machine's libm on both sides (compared to 4e-15 relative)",
                       "range of the property: finite doubles, integers below 2^53 for bitwise/shift, positive modulus; `and`/`or` of non-truth values is known finding F-C03-b and `~` F-C03-c (excluded from the grid)",
                       "boolean-valued folds are wrapped in `+ 0` (a bare folded comparison is spelled True/False: known finding F-C09-a)"]
    rep, br, audit = proof_stage(chk, MODULE, THEOREMS)
    from stationeers_pytrapic import utils as U
    drv = Driver()
    r = rng_for(PROP, seed)
    failures, diffs = [], []
    stats = {}
    # -- correspondence: the Python-semantics model vs the real lambdas --------------------------------------------------------
    for op in ["+", "-", "*", "%", "^", "&", ">>", "<<", "==", "!=", "<", ">", "<=", ">=", "and", "or"]:
        opcode, fn = U.get_binop_instruction(op)
        for a in INT_GRID:
            for b in INT_GRID[:12]:
                if op in (">>", "<<") and not (0 <= b < 40):
                    continue
                try:
                    real = fn(a, b)
                except Exception:
                    real = None
                m = drv.call(cmd="pyfold", table="bin", op=op, args=[a, b])
                chk.count(("fold", op, a, b))
                if m is None:
                    diffs.append({"stream": "pyEval vs get_binop_instruction", "op": op, "why": "row missing"})
                    break
                want = None if real is None else (int(real) if float(real).is_integer() else "nonint")
                if real is not None and (abs(float(real)) >= 2 ** 53 or abs(a) * max(abs(b), 1) >= 2 ** 53):
                    continue      # beyond exact integers in binary64: outside the integer model
                if m["opcode"] != opcode or (want != "nonint" and m["value"] != want):
                    diffs.append({"stream": "pyEval vs get_binop_instruction", "op": op, "a": a, "b": b, "model": m, "real": [opcode, repr(real)]})
    for op in ["-", "not"]:
        opcode, fn = U.get_unop_instruction(op)
        for a in INT_GRID:
            real = fn(a)
            m = drv.call(cmd="pyfold", table="un", op=op, args=[a])
            if m is None or m["opcode"] != opcode or m["value"] != int(real):
                diffs.append({"stream": "pyEval vs get_unop_instruction", "op": op, "a": a, "model": m, "real": [opcode, repr(real)]})
    # -- the experiment ----------------------------------------------------------------------------------------------------------
    kinds = ["binop"] * 8 + ["nested"] * 3 + ["mixed"] * 4 + ["unary", "math", "math", "named", "variable", "function", "list", "hash", "clamp", "reassign"]
    n = 900 if tier == "quick" else 40000
    opts_list = [whole.default_opts(append_version=False), whole.default_opts(append_version=False, inline_functions=False), whole.default_opts(append_version=False, compact=True)]
    done = 0
    while done < n:
        kind = r.choice(kinds)
        ex = experiment(r, kind)
        if ex is None:
            continue
        done += 1
        desc, src_c, src_r, mem, exact = ex[:5]
        expect = ex[5] if len(ex) > 5 else None
        opts = r.choice(opts_list)
        rc = whole.compile_real(src_c, opts)
        rr = whole.compile_real(src_r, opts)
        stats[kind] = stats.get(kind, 0) + 1
        if "error" in rc or "error" in rr:
            stats["compile_errors"] = stats.get("compile_errors", 0) + 1
            if ("error" in rc) != ("error" in rr) and "error" in rc:
                failures.append({"what": f"the constant form of {desc} is rejected ({rc['error']['description'][:120]}) while the run-time form compiles", "src": src_c, "src_runtime": src_r, "opts": opts, "mem": mem})
            continue
        chk.count((src_c,), nontrivial=True)
        vc = result_value(drv, rc["code"], mem)
        vr = result_value(drv, rr["code"], mem)
        folded = len([l for l in rc["code"].split("\n") if l.strip()]) < len([l for l in rr["code"].split("\n") if l.strip()])
        stats["folded"] = stats.get("folded", 0) + (1 if folded else 0)
        if len(chk.coverage["samples"]) < 4 and folded:
            chk.sample({"expression": desc, "constant_form_code": rc["code"], "runtime_form_code": rr["code"], "values": [str(vc), str(vr)]})
        if vc[0] != "value" or vr[0] != "value":
            failures.append({"what": f"{desc}: output not runnable ({vc if vc[0] != 'value' else vr})", "src": src_c, "src_runtime": src_r, "opts": opts, "mem": mem, "code": rc["code"], "code_runtime": rr["code"]})
            continue
        if not same(vc[1], vr[1], exact):
            failures.append({"what": f"{desc}: folded at compile time it is {vc[1]!r}, computed by the chip it is {vr[1]!r}", "src": src_c, "src_runtime": src_r, "opts": opts,
                             "mem": {str(k): v for k, v in mem.items()}, "code": rc["code"], "code_runtime": rr["code"]})
        elif expect is not None and not same(vr[1], expect, True):
            failures.append({"what": f"{desc}: Python gives {expect!r}, both the constant and the run-time form give {vr[1]!r} (something that is not constant was evaluated at compile time)",
                             "src": src_c, "src_runtime": src_r, "opts": opts, "mem": {str(k): v for k, v in mem.items()}, "code": rc["code"], "code_runtime": rr["code"], "expect": expect})
    # -- witnesses ---------------------------------------------------------------------------------------------------------------------
    known_ids = {f["id"] for f in chk.known}
    rc = whole.compile_real("db.Setting = (2 and 4) + 0\n", opts_list[0])
    rr = whole.compile_real("db.Setting = (stack[0] and stack[1]) + 0\n", opts_list[0])
    if "code" in rc and "code" in rr:
        vc, vr = result_value(drv, rc["code"], {0: 2.0, 1: 4.0}), result_value(drv, rr["code"], {0: 2.0, 1: 4.0})
        if vc != vr:
            if "F-C03-b" in known_ids:
                chk.known_finding("F-C03-b", f"2 and 4 folds to {vc[1]} (Python returns an operand) but the chip's bitwise 'and' gives {vr[1]}")
            else:
                failures.append({"what": "2 and 4: fold vs chip", "src": "db.Setting = (2 and 4) + 0\n", "src_runtime": "db.Setting = (stack[0] and stack[1]) + 0\n", "opts": opts_list[0], "mem": {"0": 2.0, "1": 4.0}})
    drv.close()
    chk.coverage["shapes"] = stats
    chk.coverage["rule"] = ("operator × operand grid (19 integers incl. signs, zero, powers of two, 2^52; 16 non-integral values) restricted to the property's range, nested expressions, unary, 9 math functions, HASH arithmetic, "
                            "constant lists, named constants, single-assignment variables, function arguments; each compared: folded literal vs run-time computation on the machine; distinct = distinct constant program")
    chk.coverage["explanation"] = "integer operators proved for all operands over regenerated tables; the rest decided by the property's own experiment on the real transpiler"
    if diffs:
        chk.broken.append(f"correspondence differs on {len(diffs)} cases; first: {json.dumps(diffs[0], default=str)[:400]}")
    if failures:
        f = min(failures, key=lambda x: len(x["src"]))
        chk.violation(dict(f, broken=chk.broken, n_failures=len(failures), all_failures=[x["what"][:200] for x in failures[:10]]))
    elif chk.broken:
        chk.violation({"what": "proof obligation or correspondence no longer checks (no expression found whose folded value differs from the run-time value)", "broken": chk.broken,
                       "first_difference": diffs[0] if diffs else None}, no_failing_input=True)
    return chk.finish()


def replay(path: str) -> int:
    rp = json.loads(open(path).read())
    if "src" not in rp:
        print("replay names a broken obligation only:", rp.get("broken"))
        return 1
    drv = Driver()
    rc = whole.compile_real(rp["src"], rp["opts"])
    rr = whole.compile_real(rp["src_runtime"], rp["opts"])
    mem = {int(k): v for k, v in rp.get("mem", {}).items()}
    bad = True
    if "code" in rc and "code" in rr:
        vc, vr = result_value(drv, rc["code"], mem), result_value(drv, rr["code"], mem)
        bad = not (vc[0] == "value" and vr[0] == "value" and same(vc[1], vr[1], False))
        if not bad and rp.get("expect") is not None:
            bad = not same(vr[1], rp["expect"], True)
    drv.close()
    print(f"VIOLATION property=C03 replay={path}" if bad else "replay: holds now")
    return 1 if bad else 0
