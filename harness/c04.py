"""C04 — register allocation never lets one live value overwrite another.

Theorems: PV/Props/C04.lean (allocator model: overlapping intervals get different colours; a scope's registers are r0–r15,
avoid every caller's blocked registers and are all counted; out of registers ⇒ error) and PV/Proofs/AllocSound.lean
(`checkAlloc_sound`: an allocation accepted by the validator makes the renamed program run in lock step with the program
before allocation — same line, stack, effect trace, halting — for every environment and any number of steps).
Tie: (1) the model `assignRegisters` must reproduce the REAL virtual→physical map from the real intervals / scope order /
call relation (captured by a harness-side wrapper + profile hook, no change to /repo); (2) the captured pre-allocation
code renamed by that map must be the real output; (3) the validator is run on the real (code, map) of every program.
A validator rejection is not a violation (its liveness is context-insensitive): it triggers the dynamic search —
virtual and renamed code run side by side on the IC10 machine model; a divergence is the replay.
"""
from __future__ import annotations

import json
import re

from . import common, progen, whole
from .common import Check, Driver, proof_stage, rng_for

PROP = "C04"
MODULE = "PV.Props.C04"
THEOREMS = [f"PV.Props.C04.{t}" for t in ["colors_proper", "scope_registers_ok", "out_of_registers_is_error", "available_spec"]] + \
           ["PV.AllocCheck.checkAlloc_sound", "PV.AllocCheck.checkAlloc_sound_static", "PV.Cfg.step_pc_mem_succs", "PV.AllocCheck.checkAlloc_trace_eq", "PV.AllocCheck.step_rel", "PV.AllocCheck.writeBack_agree"]
EXTRA_TARGETS = ["PV.Proofs.AllocSound"]

VREG = re.compile(r"^__register\.(\d+)_$")
ALU = {"move", "add", "sub", "mul", "div", "mod", "pow", "max", "min", "abs", "ceil", "floor", "round", "trunc", "sqrt", "exp", "log", "sin", "cos", "tan", "asin", "acos",
       "atan", "atan2", "and", "or", "xor", "nor", "not", "sll", "sla", "sra", "srl", "seq", "sne", "slt", "sgt", "sle", "sge", "seqz", "snez", "sltz", "sgtz", "slez", "sgez",
       "snan", "snanz", "select", "lerp"}
LOAD = {"l", "ls", "lb", "lbn", "lbs", "lbns", "lr", "rmap", "ld", "rand", "sdse", "sdns", "getd", "get"}
HASDST = ALU | LOAD | {"pop", "peek"}


def regtok(name: str, mapping=None):
    m = VREG.match(name)
    if m:
        if mapping is not None:
            return mapping.get(name, name)
        return "v" + m.group(1)
    return name


def regnum(tok: str):
    if tok == "sp":
        return 16
    if tok == "ra":
        return 17
    m = re.fullmatch(r"r(\d+)", tok)
    if m and int(m.group(1)) < 16:
        return int(m.group(1))
    m = re.fullmatch(r"v(\d+)", tok)
    if m:
        return 100 + int(m.group(1))
    return None


def texts(cap):
    """(virtual text, renamed text, parsed lines) from the captured allocator input"""
    vt, pt, parsed = [], [], []
    for l in cap.lines:
        op = l["op"]
        if op.endswith(":"):
            vt.append(op)
            pt.append(op)
            parsed.append({"label": op[:-1]})
            continue
        vtoks, ptoks = [op], [op]
        out = None
        if l["out"] is not None and op not in ("define",):
            vtoks.append(regtok(l["out"]))
            ptoks.append(regtok(l["out"], cap.mapping))
            out = regtok(l["out"])
        elif l["out"] is not None:
            vtoks.append(l["out"])
            ptoks.append(l["out"])
        ins = []
        for kind, txt in l["ins"]:
            if kind == "r":
                vtoks.append(regtok(txt))
                ptoks.append(regtok(txt, cap.mapping))
                ins.append(regtok(txt))
            else:
                vtoks.append(txt)
                ptoks.append(txt)
                ins.append(None if regnum(txt) is None else txt)
        vt.append(" ".join(str(t) for t in vtoks))
        pt.append(" ".join(str(t) for t in ptoks))
        parsed.append({"op": op, "out": out, "ins": ins, "raw": [t for _, t in l["ins"]]})
    return "\n".join(vt), "\n".join(pt), parsed


def liveness(parsed):
    """context-insensitive liveness over the whole program; returns live_in, live_out (register numbers), indirect successors"""
    n = len(parsed)
    labels = {p["label"]: i for i, p in enumerate(parsed) if "label" in p}
    ret_points = [i + 1 for i, p in enumerate(parsed) if p.get("op") == "jal"]
    succs, use, de, indirect = [], [], [], []
    for i, p in enumerate(parsed):
        if "label" in p:
            succs.append([i + 1]); use.append(set()); de.append(set())
            continue
        op = p["op"]
        u = {regnum(t) for t in p["ins"] if t is not None and regnum(t) is not None}
        d = set()
        if op in HASDST and p["out"] is not None and regnum(p["out"]) is not None:
            d.add(regnum(p["out"]))
        if op in ("push", "pop", "peek"):
            u.add(16)
        if op in ("push", "pop"):
            d.add(16)
        if op == "jal":
            d.add(17)
        raw = p["raw"]
        def tgt(tok):
            tok = str(tok)
            if tok in labels:
                return labels[tok]
            if re.fullmatch(r"\d+", tok):
                return int(tok)
            return None
        s = [i + 1]
        if op in ("j", "jal"):
            t = tgt(raw[0]) if raw else None
            if t is None:
                # j ra (return) / j <register>: declared successors = every return point
                s = list(ret_points)
                indirect.append([i, s])
            else:
                s = [t]
        elif op == "jr":
            # jump table: any line up to and including the next label line
            k = i + 1
            s = []
            while k < n:
                s.append(k)
                if "label" in parsed[k]:
                    break
                k += 1
            t = raw[0] if raw else ""
            if regnum(str(t)) is None and re.fullmatch(r"-?\d+", str(t)):
                s = [i + int(t)]
            else:
                indirect.append([i, s])
        elif op in ("hcf",):
            s = []
        elif op.startswith("b") and op not in ("bdseal", "bdnsal") and raw:
            t = tgt(raw[-1])
            if op.startswith("br") and re.fullmatch(r"-?\d+", str(raw[-1])):
                t = i + int(raw[-1])
            if t is not None:
                s = [i + 1, t]
        succs.append(s); use.append(u); de.append(d)
    live_in = [set([16, 17]) for _ in range(n)]
    live_out = [set([16, 17]) for _ in range(n)]
    changed = True
    while changed:
        changed = False
        for i in reversed(range(n)):
            out = set([16, 17])
            for s in succs[i]:
                if 0 <= s < n:
                    out |= live_in[s]
            inn = use[i] | (out - de[i]) | {16, 17}
            if out != live_out[i] or inn != live_in[i]:
                live_out[i], live_in[i] = out, inn
                changed = True
    return [sorted(x) for x in live_in], [sorted(x) for x in live_out], indirect


def model_scopes(cap):
    by_scope = {}
    for s in cap.symbols:
        if s.get("used"):
            by_scope.setdefault(s["scope"], []).append([s["virt"], s["start"], s["stop"]])
    out = []
    for sc in cap.sorted_scopes:
        if sc in by_scope or True:
            out.append({"name": sc, "callers": cap.called_from.get(sc, []), "syms": by_scope.get(sc, []), "has_table": sc in by_scope})
    return out


def validator_verdict(drv, cap):
    """the allocation validator (`okProg` + `edgesOk`, hypothesis of `checkAlloc_sound_static`) on one captured compilation"""
    vtext, ptext, parsed = texts(cap)
    live_in, live_out, indirect = liveness(parsed)
    vmap = [[100 + int(VREG.match(k).group(1)), int(v[1:])] for k, v in cap.mapping.items() if VREG.match(k) and re.fullmatch(r"r\d+", str(v))]
    return drv.call(cmd="check-alloc", text=vtext, map=vmap, live_in=live_in, live_out=live_out, indirect=indirect)


def check_program(drv, chk, name, src, opts, pool, envs, steps, failures, diffs, stats):
    try:
        res, cap = whole.compile_captured(src, opts)
    except Exception as e:
        failures.append({"what": f"compile_code raised {type(e).__name__}: {e}", "src": src, "opts": opts})
        return
    if "error" in res:
        stats["compile_errors"] = stats.get("compile_errors", 0) + 1
        if "Running out of registers" in res["error"]["description"]:
            stats["out_of_registers"] = stats.get("out_of_registers", 0) + 1
        return res
    if not cap.lines:
        return res
    vtext, ptext, parsed = texts(cap)
    chk.count((vtext,), nontrivial=len(cap.mapping) > 1)
    stats["programs"] = stats.get("programs", 0) + 1
    # -- tie 1: the model allocator reproduces the real map ---------------------------------------------------------
    scopes = model_scopes(cap)
    # scopes without a symbol table are skipped by the real code except for blocked-register inheritance
    m = drv.call(cmd="regalloc", scopes=[{"name": s["name"], "callers": s["callers"], "syms": s["syms"]} for s in scopes])
    real_map = {k: int(v[1:]) for k, v in cap.mapping.items() if re.fullmatch(r"r\d+", str(v))}
    if m == "out-of-registers":
        diffs.append({"stream": "assignRegisters vs register_assignment", "name": name, "model": m, "real": real_map})
    else:
        mm = {k: v for k, v in m["mapping"]}
        if mm != real_map or m["used"] != list(cap.used or []):
            diffs.append({"stream": "assignRegisters vs register_assignment", "name": name, "model": mm, "real": real_map, "model_used": m["used"], "real_used": cap.used,
                          "src": src if isinstance(src, str) else None, "opts": opts})
    # only registers r0..r15
    for v, p in cap.mapping.items():
        if not re.fullmatch(r"r(1[0-5]|[0-9])", str(p)):
            failures.append({"what": f"virtual register {v} is mapped to {p!r}, not one of r0–r15", "src": src, "opts": opts})
    # -- tie 2: renamed pre-allocation code = real output ---------------------------------------------------------------
    src_text = src if isinstance(src, str) else "\n".join(src.values())
    if not opts.get("remove_labels") and "pytrapic:" not in src_text:
        from stationeers_pytrapic import generate_code as G
        want = [l.split() for l in G.remove_unused_labels(ptext).split("\n")]
        got = [l.split("#")[0].split() for l in res["code"].split("\n")]
        got = [g for g in got]
        if [w for w in want if w] != [g for g in got if g] and "#" not in ptext:
            diffs.append({"stream": "captured code renamed by the map vs real output", "name": name, "first_want": next((w for w, g in zip(want, got) if w != g), None),
                          "first_got": next((g for w, g in zip(want, got) if w != g), None)})
    # -- the validator on the real artefact ------------------------------------------------------------------------------
    live_in, live_out, indirect = liveness(parsed)
    vmap = [[100 + int(VREG.match(k).group(1)), int(v[1:])] for k, v in cap.mapping.items() if VREG.match(k) and re.fullmatch(r"r\d+", str(v))]
    v = drv.call(cmd="check-alloc", text=vtext, map=vmap, live_in=live_in, live_out=live_out, indirect=indirect)
    stats["validator_" + v["verdict"] + ("_" + v.get("reason", "") if v["verdict"] == "reject" else "")] = stats.get("validator_" + v["verdict"] + ("_" + v.get("reason", "") if v["verdict"] == "reject" else ""), 0) + 1
    if len(chk.coverage["samples"]) < 3 and v["verdict"] == "accept" and len(cap.mapping) > 3:
        chk.sample({"name": name, "virtual_code_head": vtext[:300], "map": dict(list(cap.mapping.items())[:8]), "validator": v})
    known_ids = {f["id"] for f in chk.known}
    # -- dynamic search (always for rejected programs, and for every program in this run: it is cheap) ----------------------
    # a rejected artefact is not known to be right: it gets many more environments (derived from the run's own, so replayable)
    envs_here = list(envs) + ([(envs[0] * 7919 + 104729 * k) % (1 << 30) for k in range(1, 4 * len(envs) + 5)] if v["verdict"] == "reject" else [])
    for es in envs_here:
        d = drv.call(cmd="run-pair", a=vtext, b=ptext, seed=es, steps=steps, pool=pool, indirect=indirect)
        if d["verdict"] == "outside-declared-successors":
            stats["pair_left_declared_successors"] = stats.get("pair_left_declared_successors", 0) + 1
        if d["verdict"] == "diverge" and "ref_id=" in src_text and v["verdict"] == "reject" and "F-C04-e" in known_ids and not name.startswith("witness"):
            chk.known_finding("F-C04-e", "a register-held device id captured by a Stack(ref_id=…) object is not kept live until the object's last use (" + name + ")")
            break
        if d["verdict"] == "diverge":
            failures.append({"what": f"the allocated code diverges from the code before allocation: {d['detail']}" +
                                     (f" (validator: {v})" if v["verdict"] == "reject" else ""), "name": name, "src": src, "opts": opts,
                             "virtual": vtext, "allocated": ptext, "env_seed": es, "pool": pool, "steps": steps, "map": cap.mapping, "validator": v})
            break
        if d["verdict"].startswith("parse-error"):
            stats["pair_unparsed"] = stats.get("pair_unparsed", 0) + 1
            break
    return res


# witnesses of the known findings: programs whose interval lifetimes do not cover the real liveness
WITNESSES = {
    "F-C04-b": ("def fa(a):\n    return db.Power\ng = fa(1)\nwhile True:\n    db.Setting = stack[6] - g\n    yield_()\n", dict(inline_functions=True),
                "a variable assigned from an inlined call shares the function's result register, whose lifetime ends at the call"),
    "F-C04-c": ("def fb():\n    return d0.Horizontal\ndef fa(a):\n    for i in range(0, 4, 2):\n        db.Setting = a + fb()\ng2 = d2.Horizontal\nfor k in range(3):\n    fa(g2)\n", dict(inline_functions=True),
                "the result register of an inlined function collides with a register that is live in the caller"),
    "F-C04-e": ("def build():\n    lathe_id = Autolathes.Minimum.ReferenceId\n    st = Stack(ref_id=lathe_id)\n    st[0] = db.Setting + 1\nwhile True:\n    yield_()\n    if db.On:\n        build()\n    if db.Mode:\n        build()\n", dict(inline_functions=False),
                "a register-held device id captured by a Stack(ref_id=…) object is not kept live until the object's last use"),
}


def run(tier: str, seed: int) -> int:
    chk = Check(PROP, tier, seed, "proof")
    chk.assumptions = ["checkAlloc_sound has a dynamic side condition for indirect jumps (j ra, jr): they must land on the declared successors (every return point / the jump-table window); the machine PV.IC10 is a trusted specification",
                       "the validator's liveness is context-insensitive: programs that call one function from contexts with different live sets are rejected although correct; rejected programs are judged by side-by-side execution (search), counted separately",
                       "that line intervals cover liveness is NOT claimed for the real allocator (known findings F-C04-b/c/e); it is decided per compiled program"]
    rep, br, audit = proof_stage(chk, MODULE, THEOREMS, EXTRA_TARGETS)
    drv = Driver()
    r = rng_for(PROP, seed)
    failures, diffs, stats = [], [], {}
    steps = 3000 if tier == "quick" else 5000
    n_env = 2 if tier == "quick" else 3
    # shipped programs under both test configurations, generated programs (core/funcs/calls) with out-of-line functions
    for name, src in whole.repo_sources():
        for opts in (whole.default_opts(inline_functions=False, append_version=False), whole.default_opts(append_version=False)):
            check_program(drv, chk, name, src, opts, [0.0, 1.0, 2.0, 3.0, 5.0, 10.0, 0.5, -1.0], [1, 2], steps, failures, diffs, stats)
    plan = [("core", 40 if tier == "quick" else 120), ("funcs", 70 if tier == "quick" else 220), ("calls", 40 if tier == "quick" else 120),
            ("deep", 70 if tier == "quick" else 220)]
    for kind, n in plan:
        for i in range(n):
            g, prog, src, pool = whole.gen_program(r, kind)
            opts = whole.default_opts(inline_functions=(kind == "core"), append_version=False, use_push_pop_functions=r.random() < 0.3)
            check_program(drv, chk, f"{kind}:{i}", src, opts, pool, [r.randrange(1 << 30) for _ in range(n_env)], steps, failures, diffs, stats)
    # state machines: module-level variables that are updated and read only inside functions, main loop = calls + temporaries
    for i in range(20 if tier == "quick" else 80):
        k = r.randrange(1, 4)
        gs = [f"st{j}" for j in range(k)]
        lines = []
        order = r.random() < 0.5
        for j, gname in enumerate(gs):
            lines += [f"def bump{j}():", f"    global {gname}", f"    {gname} = {gname} + {j + 1}", ""]
            lines += [f"def show{j}():", f"    d{j}.Setting = {gname}", ""]
        inits = [f"{gname} = {r.choice(['0', 'db.Mode', 'd3.On + 1'])}" for gname in gs]
        if not order:
            lines = inits + [""] + lines
        else:
            lines = lines + inits
        lines.append("while True:")
        body = []
        for j in range(k):
            body.append(f"    bump{j}()")
            body.append(f"    t{j} = d4.On * {j + 2} + d5.On")
            body.append(f"    db.Power = t{j} - d4.Mode * (d5.Mode + {j})")
            body.append(f"    show{j}()")
        r.shuffle(body) if r.random() < 0.3 else None
        lines += body + ["    yield_()"]
        src = "\n".join(lines) + "\n"
        check_program(drv, chk, f"state:{i}", src, whole.default_opts(inline_functions=False, append_version=False), [0.0, 1.0, 2.0, 3.0, 5.0], [r.randrange(1 << 30) for _ in range(n_env)],
                      steps, failures, diffs, stats)
    # loop headers: arguments / locals whose last textual use is the header of a loop (range bound, start, step, while limit),
    # with bodies that need fresh temporaries and locals — the value must stay in its register as long as the loop runs
    for i in range(24 if tier == "quick" else 100):
        nf = r.randrange(1, 3)
        lines = []
        calls = []
        for j in range(nf):
            form = r.choice(["stop", "start_stop", "step", "while"])
            c1, c2 = r.choice([2, 3, 5]), r.choice([1, 4, 7])
            body = [f"        acc += i * {c1} + {c2}"]
            if r.random() < 0.6:
                body += [f"        t = acc * 2 - i", f"        d{j}.Setting = t"]
            if r.random() < 0.3:
                body += [f"        u = d{j}.Mode + i", f"        acc = acc + u % 3"]
            if form == "stop":
                hdr, params, args = "for i in range(n):", "n", [r.choice(["4", "d4.Mode % 5", "3"])]
            elif form == "start_stop":
                hdr, params, args = "for i in range(lo, n):", "lo, n", [r.choice(["1", "2"]), r.choice(["5", "d4.Mode % 4 + 2"])]
            elif form == "step":
                hdr, params, args = "for i in range(0, n, st):", "n, st", [r.choice(["6", "7"]), r.choice(["2", "3"])]
            else:
                hdr, params, args = "while i < n:", "n", [r.choice(["4", "d4.Mode % 5"])]
                body = ["        i = i + 1"] + body
            pre = ["    acc = 0"] + (["    i = 0"] if form == "while" else [])
            lines += [f"def f{j}({params}):"] + pre + ["    " + hdr] + body + [f"    d{j}.On = acc", ""]
            calls.append(f"f{j}({', '.join(args)})")
        main = ["while True:"] + ["    " + c for c in calls] + ["    yield_()"] + (["    " + calls[0]] if r.random() < 0.5 else [])
        src = "\n".join(lines + main) + "\n"
        check_program(drv, chk, f"header:{i}", src, whole.default_opts(inline_functions=False, append_version=False, use_push_pop_functions=r.random() < 0.3), [0.0, 1.0, 2.0, 3.0, 4.0, 7.0],
                      [r.randrange(1 << 30) for _ in range(n_env)], steps, failures, diffs, stats)
    # layout: expressions laid out over several lines inside parentheses; a variable whose last use is the first line of such a
    # statement is still needed when the operands on the following lines are computed
    for i in range(16 if tier == "quick" else 64):
        nf = r.randrange(1, 3)
        lines, calls = [], []
        for j in range(nf):
            c1, c2, c3 = r.choice([28.5, 3, 7]), r.choice([20.0, 2, 5]), r.choice([1, 4])
            op1, op2 = r.choice(["+", "-"]), r.choice(["+", "-", "*"])
            first = r.choice(["base", "a"])
            body = ["    base = a + " + str(c3)] if first == "base" else []
            k = r.random()
            if k < 0.5:
                body += [f"    total = ({first}", f"             {op1} a * {c1}" if first == "base" else f"             {op1} b * {c1}", f"             {op2} b * {c2})"]
            else:
                body += [f"    total = ({first}", f"             {op1} (b * {c1} {op2} {c2}))"]
            if r.random() < 0.5:
                body += [f"    d{j}.Setting = total"]
            else:
                body += [f"    d{j}.Setting = (total", f"        * {c2} - b * {c3})"]
            lines += [f"def g{j}(a, b):"] + body + [""]
            calls.append(f"g{j}({r.choice(['2', 'd4.Mode', '5'])}, {r.choice(['3', 'd4.On + 1', '7'])})")
        main = ["while True:"] + ["    " + c for c in calls] + ["    yield_()"]
        src = "\n".join(lines + main) + "\n"
        check_program(drv, chk, f"layout:{i}", src, whole.default_opts(inline_functions=r.random() < 0.3, append_version=False), [0.0, 1.0, 2.0, 3.0, 4.0, 7.0],
                      [r.randrange(1 << 30) for _ in range(n_env)], steps, failures, diffs, stats)
    # an inlined function (single call site: its parameters are other names for the caller's registers, not registers of its own)
    # that keeps values in locals across calls of a function compiled out of line — the callee must keep clear of all of them
    for i in range(16 if tier == "quick" else 64):
        np_, nl, ncall = r.randrange(1, 3), r.randrange(1, 4), r.randrange(2, 4)
        lines = ["def report(value):", f"    shown = value * {r.choice([100, 2, 7])}", "    db.Setting = shown", ""]
        params = [f"p{j}" for j in range(np_)]
        body, locs = [], []
        for j in range(nl):
            body.append(f"    v{j} = " + r.choice([f"d{j + 1}.Setting", f"{params[0]} - d{j + 1}.Temperature", f"d{j + 1}.Mode + {j}"]))
            locs.append(f"v{j}")
        for c in range(ncall):
            body.append(f"    report({r.choice(locs + params)})")
        for j, v in enumerate(locs):
            body.append(f"    d3.{['Setting', 'Mode', 'On'][j % 3]} = {v}")
        body.append(f"    d4.Mode = {params[-1]}")
        lines += [f"def regulate({', '.join(params)}):"] + body + [""]
        args = [r.choice(["d0.Setting", "d0.Mode + 1", "db.On"]) for _ in params]
        src = "\n".join(lines + ["while True:", f"    regulate({', '.join(args)})", "    report(1)", "    yield_()"]) + "\n"
        check_program(drv, chk, f"inlined-caller:{i}", src, whole.default_opts(append_version=False), [0.0, 1.0, 2.0, 3.0, 4.0, 7.0],
                      [r.randrange(1 << 30) for _ in range(n_env)], steps, failures, diffs, stats)
    # register pressure: many simultaneously live variables, up to and beyond 16
    for k in list(range(10, 22)) * (1 if tier == "quick" else 3):
        names = [f"q{i}" for i in range(k)]
        src = "".join(f"{n} = d0.Setting + {i}\n" for i, n in enumerate(names)) + "while True:\n" + "".join(f"    {n} = {n} + {names[(i + 1) % k]}\n" for i, n in enumerate(names)) + \
              "    db.Setting = " + " + ".join(names[:3]) + "\n    yield_()\n"
        res = check_program(drv, chk, f"pressure:{k}", src, whole.default_opts(append_version=False), [0.0, 1.0, 2.0], [1], steps, failures, diffs, stats)
        if res is not None and "code" in res:
            regs = set(re.findall(r"\br(\d+)\b", "\n".join(l.split("#")[0] for l in res["code"].split("\n"))))
            if any(int(x) > 15 for x in regs):
                failures.append({"what": f"a register beyond r15 is used with {k} live variables", "src": src, "opts": whole.default_opts(append_version=False)})
            if k > 16:
                failures.append({"what": f"{k} simultaneously live variables were compiled instead of the out-of-registers error", "src": src, "opts": whole.default_opts(append_version=False)})
        stats[f"pressure_{k}"] = "code" if (res is not None and "code" in res) else "error"
    # witnesses
    known_ids = {f["id"] for f in chk.known}
    for fid, (src, o, what) in WITNESSES.items():
        f2, d2, s2 = [], [], {}
        check_program(drv, chk, "witness:" + fid, src, whole.default_opts(append_version=False, **o), [0.0, 1.0, 2.0, 3.0, 5.0], [1, 2, 3, 4], steps, f2, d2, s2)
        if f2:
            if fid in known_ids:
                chk.known_finding(fid, what)
            else:
                failures.extend(f2)
    drv.close()
    chk.coverage["validator_and_streams"] = stats
    chk.coverage["rule"] = ("every shipped program (two option sets), generated programs (core / funcs / calls) and a register-pressure family (10–21 simultaneously live variables); for each: allocator "
                            "model vs real map, renamed captured code vs real output, validator on the real (code, map), side-by-side execution; non-trivial = more than one virtual register")
    chk.coverage["explanation"] = "allocator model theorems + validator soundness proved; hypotheses of the soundness theorem established per artefact by the validator run, rejected artefacts explored dynamically"
    if diffs:
        chk.broken.append(f"correspondence differs on {len(diffs)} cases; first: {json.dumps(diffs[0], default=str)[:600]}")
    if failures:
        f = min(failures, key=lambda x: len(x["src"]) if isinstance(x.get("src"), str) else 10 ** 6)
        chk.violation(dict(f, broken=chk.broken, n_failures=len(failures), all_failures=[x["what"][:200] for x in failures[:10]]))
    elif chk.broken:
        chk.violation({"what": "proof obligation or correspondence no longer checks (no program found whose allocated code diverges from its pre-allocation code)", "broken": chk.broken,
                       "first_difference": diffs[0] if diffs else None}, no_failing_input=True)
    return chk.finish()


def replay(path: str) -> int:
    rp = json.loads(open(path).read())
    if "src" not in rp:
        print("replay names a broken obligation only:", rp.get("broken"))
        return 1
    drv = Driver()
    chk = Check(PROP, "quick", 0, "proof")
    f2, d2, s2 = [], [], {}
    check_program(drv, chk, "replay", rp["src"], rp["opts"], rp.get("pool", [0.0, 1.0, 2.0]), [rp.get("env_seed", 1)], rp.get("steps", 3000), f2, d2, s2)
    drv.close()
    if f2:
        print(f"VIOLATION property=C04 replay={path}\n   {f2[0]['what']}")
        return 1
    print("replay: holds now")
    return 0
