"""C05 — every jump lands on the instruction the source construct meant.

Theorems: PV/Props/C05.lean over the declarative label semantics PV.Labels (a label stands for the index of the
instruction that follows it; every numeric target exists; removal is line for line the instruction list with label operands
substituted and every other token untouched; unrelated label lines do not move any target).
Tie / oracle on the real code: for shipped and generated programs the REAL output with remove_labels=True must be line for
line `specRemove` of the REAL output with labels kept (other options equal); each label is defined once; every jump operand
resolves (loader model); and the emitted code keeps the behaviour of the source under remove_labels (reference-semantics
oracle), which is what "the location of the construct it was generated for" means observably.
Identifier stream: function names that are prefixes of one another / look like opcodes, registers or generated labels —
the known collisions are findings F-C05-a/b/c, printed from their witnesses.
"""
from __future__ import annotations

import json
import re

from . import c13, common, progen, whole
from .common import Check, Driver, proof_stage, rng_for

PROP = "C05"
MODULE = "PV.Props.C05"
THEOREMS = [f"PV.Props.C05.{t}" for t in ["labelIndexFrom_add", "labelIndex_le", "labelIndex_correct", "specRemove_eq_map", "specRemove_length",
                                           "substTok_other", "substTok_label", "substInstr_head", "labelIndex_erase_other",
                                           "label_removal_preserves_traces", "initial_states_related", "label_removal_preserves_traces_typed"]] + \
           ["PV.Strip.strip_sim_fwd", "PV.Strip.strip_sim_bwd", "PV.Strip.exec_renum", "PV.Strip.strip_get", "PV.Strip.strip_sim_typed", "PV.Strip.exec_rel",
            "PV.Strip.step_kept_typed"]

SAFE_NAMES = ["alpha", "beta2", "run", "tick", "work", "zeta", "q", "mainloop", "doit", "x1", "calc", "report", "Heat", "B"]
# names that exercise the textual label substitution without hitting a known collision
TRICKY_NAMES = ["j2", "jalx", "r16", "sp2", "rax", "db1", "d6", "lbwhile", "lbfor", "move1", "yields", "ends", "send", "e1", "l1", "s2", "bnez1", "HASHx"]


def ident_program(r, names):
    """functions with the given names, each called at least twice (so that they are not inlined), bodies with jumps"""
    lines = []
    for i, n in enumerate(names):
        lines += [f"def {n}(a):", f"    if a > {i}:", f"        db.Setting = a + {i}", "    else:", f"        db.On = {i}", f"    return a + {i + 1}"]
    lines.append("x = db.Setting")
    lines.append("while x < 3:")
    lines.append("    x = x + 1")
    for n in names:
        lines.append(f"    db.Mode = {n}(x)")
        lines.append(f"    db.Power = {n}(x + 1)")
    lines.append("    yield_()")
    return "\n".join(lines) + "\n"


WITNESSES = {
    "F-C05-b": ("def f(a):\n    if a > 1:\n        return 1\n    return 2\ndef fend(a):\n    return a\ndb.Setting = f(1)\ndb.Setting = f(2)\ndb.On = fend(1)\ndb.On = fend(2)\n",
                "mangled labels collide: 'fend' is both the end label of f and the entry of function fend"),
    "F-C05-a": ("def update(a):\n    db.On = a\ndef update_display(a):\n    db.Setting = a\nupdate(1)\nupdate(2)\nupdate_display(3)\nupdate_display(4)\n",
                "with remove_labels a function label that extends another one is corrupted (jal N.display)"),
    "F-C05-c": ("def main(a):\n    WallLights[\"main\"].On = a\nmain(1)\nmain(2)\n",
                "with remove_labels the name inside HASH(\"main\") is replaced by the line number of function main"),
}


def pair(src, base):
    a = whole.compile_any(src, dict(base, remove_labels=False, append_version=False))
    b = whole.compile_any(src, dict(base, remove_labels=True, append_version=False))
    return a, b


def judge_pair(drv, a, b):
    """→ (None | description, detail)"""
    v = drv.call(cmd="labels-compare", labelled=a["code"], numeric=b["code"])
    if v["duplicate_labels"]:
        return f"labels defined more than once: {v['duplicate_labels']}", v
    if v["verdict"] != "same":
        return f"output with labels removed is not the labelled output with labels replaced by instruction indices ({ {k: v[k] for k in v if k != 'spec_text'} })", v
    for text, which in ((a["code"], "labelled"), (b["code"], "label-free")):
        w = drv.call(cmd="wf", text=text)
        for ln, err in w["errors"]:
            line = text.split("\n")[ln]
            if "unresolvable operand" in err and re.match(r"\s*(j|jal|jr|b\w+)\s", line):
                return f"jump operand does not resolve in the {which} output: {line.strip()!r} ({err})", v
    return None, v


def known_prefix_collision(detail):
    return detail.get("verdict") == "differ" and re.fullmatch(r".*\b\d+\.[\w.]+.*", detail.get("real", "")) is not None


def run(tier: str, seed: int) -> int:
    chk = Check(PROP, tier, seed, "proof")
    chk.assumptions = ["PV.Labels.specRemove is the declarative meaning of label removal (hand-written); the real remove_labels is tied to it by comparing real output pairs, not by a theorem about its regex substitution",
                       "behavioural part (the jump reaches the construct it was generated for) is explored with the reference-semantics oracle, as in C01",
                       "function/module names that collide after mangling are known findings F-C05-a/b/c (witnesses), avoided by the main identifier stream"]
    rep, br, audit = proof_stage(chk, MODULE, THEOREMS)
    drv = Driver()
    r = rng_for(PROP, seed)
    budget = whole.QUICK_BUDGET if tier == "quick" else whole.THOROUGH_BUDGET
    failures = []
    known_ids = {f["id"] for f in chk.known}
    # -- a. output pairs -------------------------------------------------------------------------------------
    progs = [(n, s, None) for n, s in whole.repo_sources()]
    plan = [("core", 60 if tier == "quick" else 600), ("funcs", 60 if tier == "quick" else 600), ("calls", 40 if tier == "quick" else 400),
            ("loopctl", 80 if tier == "quick" else 800)]
    for kind, n in plan:
        for i in range(n):
            g, prog, src, pool = whole.gen_program(r, kind)
            progs.append((f"{kind}:{i}", src, (prog, pool)))
    for i in range(40 if tier == "quick" else 400):
        names = r.sample(SAFE_NAMES + TRICKY_NAMES, r.randrange(2, 5))
        if r.random() < 0.4:
            # names that differ only where the mangled label has its dot: `valve_a` (label `valve.a`) next to `valvesa`,
            # `valve_a` next to `valve_ab` is the known prefix finding and is left out
            stem, tail = r.choice(["valve", "tank", "set", "x"]), r.choice(["a", "on", "1", "up"])
            names = [n for n in names if not n.startswith(stem)][:2] + [f"{stem}_{tail}", f"{stem}{r.choice('sxz0')}{tail}"]
            r.shuffle(names)
        progs.append((f"ident:{i}", ident_program(r, names), None))
    # programs split into library modules (function labels carry the module name; early returns inside library functions)
    for i in range(30 if tier == "quick" else 300):
        msrc, merged, desc = c13.gen_split(r)
        progs.append((f"split:{i}", msrc, None))
    for name, src, gp in progs:
        base = whole.random_opts(r)
        if gp is not None or name.startswith("ident") or name.startswith("split"):
            # calling-convention / tail-call / inlining options have their own property (C02) and known findings;
            # here only the behaviour-neutral options vary
            base.update(tail_call_optimization=False, use_push_pop_functions=False, inline_functions=False)
        try:
            a, b = pair(src, base)
        except Exception as e:
            failures.append({"what": f"compile_code raised {type(e).__name__}: {e}", "src": src, "opts": base})
            continue
        if "error" in a or "error" in b:
            if ("error" in a) != ("error" in b) and "Timeout during" not in str(a.get("error", b.get("error"))):
                failures.append({"what": "compiles only with labels kept / only with labels removed: " + str((a.get("error") or b.get("error"))["description"])[:200], "src": src, "opts": base})
            chk.bump("compile_errors")
            continue
        chk.count(("pair", a["code"]), nontrivial=":" in a["code"])
        chk.bump("pairs")
        bad, detail = judge_pair(drv, a, b)
        # machine level: is this real pair an instance of `label_removal_preserves_traces` (label-free output = strip of the
        # labelled one, every kept line simple)?  Informational: a pair outside the fragment (jal, jr, a label used as a value)
        # is judged by the text-level comparison above and by the behavioural run below.
        sv = drv.call(cmd="strip-compare", labelled=a["code"], stripped=b["code"])
        chk.bump("strip:" + sv["verdict"] + (":covered" if sv.get("covered") and sv["verdict"] == "same" else ""))
        # programs with calls: hypothesis of `label_removal_preserves_traces_typed` on one run (no line number used as a value),
        # and what it concludes (the label-free output's effects extend the labelled output's)
        if sv["verdict"] == "same":
            sr = drv.call(cmd="strip-run", labelled=a["code"], stripped=b["code"], seed=r.randrange(1 << 30), steps=1500, pool=gp[1] if gp is not None else [0.0, 1.0, 2.0, 3.0, 5.0])
            if sr.get("verdict") == "done":
                chk.bump("strip-run:" + ("typed" if sr["typed"] else "ill-typed") + (":calls" if not sv.get("covered") else ""))
                if sr["typed"] and sr["same"] and not sr["traces_ok"]:
                    # the theorem's hypotheses hold on this run and its conclusion does not: the machine model and its proof disagree
                    raise common.Infra(f"strip-run: well-typed run with different traces ({name}) — model inconsistency")
                if not sr["typed"] and len(chk.coverage.setdefault("ill_typed_samples", [])) < 3:
                    chk.coverage["ill_typed_samples"].append({"name": name, "at": sr["ill_typed_at"]})
        if len(chk.coverage["samples"]) < 3 and detail.get("labels"):
            chk.sample({"name": name, "labelled_head": a["code"][:200], "label_free_head": b["code"][:200], "labels": detail.get("labels")})
        if bad:
            if known_prefix_collision(detail) and "F-C05-a" in known_ids:
                chk.known_finding("F-C05-a", WITNESSES["F-C05-a"][1])
                chk.bump("known_prefix_collisions")
            else:
                failures.append({"what": bad, "name": name, "src": src, "opts": base, "labelled": a["code"], "label_free": b["code"]})
        # -- b. behaviour under both settings (generated programs only) -----------------------------------------------
        if gp is not None and not bad:
            prog, pool = gp
            for rl in (False, True):
                opts = dict(base, remove_labels=rl, append_version=False)
                if any(f["params"] or True for f in prog["funcs"]) and prog["funcs"]:
                    opts["inline_functions"] = False
                st, d = whole.judge_equiv(drv, prog, src, pool, opts, [r.randrange(1 << 30) for _ in range(2)], budget)
                chk.bump(f"equiv:{st}")
                if st == "bad":
                    failures.append({"what": f"with remove_labels={rl} the emitted code does not behave like the source: {d['verdict']} (source {d.get('src_at')}, chip {d.get('ic_at')})",
                                     "name": name, "src": src, "opts": opts, "prog": progen.jprogram(prog), "pool": pool, "env_seed": d["env_seed"], "budget": budget, "code": d.get("code")})
    # -- witnesses ---------------------------------------------------------------------------------------------------
    for fid, (src, what) in WITNESSES.items():
        a, b = pair(src, whole.default_opts(inline_functions=False))
        if "code" in a and "code" in b:
            bad, detail = judge_pair(drv, a, b)
            if bad:
                if fid in known_ids:
                    chk.known_finding(fid, what)
                else:
                    failures.append({"what": what + ": " + bad, "src": src, "opts": whole.default_opts(inline_functions=False), "labelled": a["code"], "label_free": b["code"]})
    drv.close()
    chk.coverage["rule"] = ("pairs of real outputs (labels kept / removed, other options equal and random) for shipped programs, generated programs (core, funcs, calls) and an identifier stream "
                            "(function names that look like opcodes, registers, generated labels); non-trivial = the labelled output contains a label; generated programs are also run against the reference semantics under both settings")
    chk.coverage["explanation"] = ("label semantics theorems proved; real remove_labels tied to specRemove by comparing real output pairs; pairs counted under strip:same:covered are "
                                   "instances of the machine-level theorem label_removal_preserves_traces (the label-free output is PV.Strip.strip of the labelled one and has no jal / relative branch)")
    if failures:
        f = min(failures, key=lambda x: len(x["src"]) if isinstance(x.get("src"), str) else 10 ** 6)
        chk.violation(dict(f, broken=chk.broken, n_failures=len(failures), all_failures=[x["what"][:240] for x in failures[:10]]))
    elif chk.broken:
        chk.violation({"what": "proof obligation no longer checks (no output pair found that violates the label semantics)", "broken": chk.broken}, no_failing_input=True)
    return chk.finish()


def replay(path: str) -> int:
    rp = json.loads(open(path).read())
    if "src" not in rp:
        print("replay names a broken obligation only:", rp.get("broken"))
        return 1
    drv = Driver()
    a, b = pair(rp["src"], rp["opts"])
    if "error" in a or "error" in b:
        print("replay: compile error now")
        return 0
    bad, detail = judge_pair(drv, a, b)
    if not bad and "prog" in rp:
        v = drv.call(cmd="equiv", prog=rp["prog"], text=(b if rp["opts"].get("remove_labels") else a)["code"], seed=rp["env_seed"], pool=rp["pool"], **rp["budget"])
        if v["verdict"] in whole.BAD_VERDICTS:
            bad = v["verdict"]
    drv.close()
    if bad:
        print(f"VIOLATION property=C05 replay={path}\n   {bad}")
        return 1
    print("replay: holds now")
    return 0
