"""C06 — calls return to their call site; arguments and results arrive intact.   (partial)

Theorems: PV/Props/C06.lean — on the machine model: jal_sets_ra, return_lands_on_ra, call_return_roundtrip (a return whose ra
still holds what the call stored resumes right after the call); the model of add_ra_instructions puts `push ra` directly after
the function label and `pop ra` directly after the end label in the fixed-slot convention (addRaFixed_shape), and leaves
functions that make no call or never return unchanged; the fixed stack slots are pairwise distinct (slots_distinct).
Tie: correspondence of the model `addRa` with the real FunctionData.add_ra_instructions on the real function bodies of every
generated program (both conventions) and on synthetic instruction lists.
Oracle (differential): real outputs run on the IC10 machine with a shadow call stack — every executed `j ra` must go to the
instruction after the call being served and `sp` must differ from its value at the call by exactly what the calling
convention prescribes — and against the reference semantics (arguments in order, result delivered), under all four
convention × tail-call combinations, arities 0–3, early returns, nesting up to 4.
"""
from __future__ import annotations

import json
import re

from . import common, progen, whole
from .common import Check, Driver, proof_stage, rng_for

PROP = "C06"
MODULE = "PV.Props.C06"
THEOREMS = ["PV.Leaf.leaf_step", "PV.Leaf.leaf_returns", "PV.Leaf.call_leaf_returns", "PV.Props.C06.leaf_call_returns_to_call_site", "PV.Props.C06.core_call_returns", "PV.Core.sim"] + \
           [f"PV.Props.C06.{t}" for t in ["jal_sets_ra", "return_lands_on_ra", "call_return_roundtrip", "addRaFixed_shape", "addRa_unchanged",
                                           "slots_distinct", "slots_in_stack", "lastIdx_last"]]


def ins_of(line):
    from stationeers_pytrapic.types import IC10Register
    ins = []
    for i in line.inputs:
        v = i.value
        ins.append(str(v.code_expr) if isinstance(v, IC10Register) else str(v))
    out = None
    if line.output is not None and line.output != "":
        out = str(getattr(line.output, "code_expr", line.output))
    return [line.op, ins, out]


class RaTap:
    """records (name, push_pop, code before, code after) of every real add_ra_instructions call"""

    def __init__(self):
        from stationeers_pytrapic import compile_pass as CP
        self.CP = CP
        self.orig = CP.FunctionData.add_ra_instructions
        self.calls = []
        tap = self

        def wrapped(fd, options=None):
            before = [ins_of(l) for l in fd.code]
            err = None
            try:
                tap.orig(fd, options)
            except Exception as e:
                err = f"{type(e).__name__}: {e}"
                tap.calls.append({"name": fd.name.replace("_", "."), "push_pop": bool(options and options.use_push_pop_functions), "before": before, "after": None, "error": err})
                raise
            tap.calls.append({"name": fd.name.replace("_", "."), "push_pop": bool(options and options.use_push_pop_functions), "before": before,
                              "after": [ins_of(l) for l in fd.code]})
        self.wrapped = wrapped

    def __enter__(self):
        self.CP.FunctionData.add_ra_instructions = self.wrapped
        return self

    def __exit__(self, *a):
        self.CP.FunctionData.add_ra_instructions = self.orig


def expectations(code: str, prog, opts):
    """entry line of each function → sp(return) - sp(at the jal) required by the calling convention"""
    lines = code.split("\n")
    labels = {}
    for i, l in enumerate(lines):
        t = l.split("#")[0].split()
        if len(t) == 1 and t[0].endswith(":"):
            labels[t[0][:-1]] = i
    exp = []
    for f in prog["funcs"]:
        lbl = f["name"].replace("_", ".")
        if lbl in labels:
            d = (-len(f["params"]) + (1 if f["returns"] else 0)) if opts.get("use_push_pop_functions") else 0
            exp.append([labels[lbl], d])
    return exp


def function_regions(code: str, prog):
    """[lo, hi) of every function body in the labelled output: from its entry label to the `j ra` that follows `<name>end:`"""
    lines = [l.split("#")[0].split() for l in code.split("\n")]
    labels = {t[0][:-1]: i for i, t in enumerate(lines) if len(t) == 1 and t[0].endswith(":")}
    out = []
    for f in prog["funcs"]:
        lbl = f["name"].replace("_", ".")
        if lbl in labels and lbl + "end" in labels:
            lo, e = labels[lbl], labels[lbl + "end"]
            hi = next((k + 1 for k in range(e, len(lines)) if lines[k][:2] == ["j", "ra"]), None)
            if hi is not None and lo < e:
                out.append((f["name"], lo, hi))
    return out


def leaf_check(drv, code, prog, stats):
    """static part (theorem `leaf_call_returns_to_call_site`): every function body without a call must pass `checkLeaf` — it keeps
    `ra`, and control leaves it only through `j ra`.  → failure description or None"""
    regs = function_regions(code, prog)
    if not regs:
        return None
    v = drv.call(cmd="check-leaf", text=code, regions=[[lo, hi] for _, lo, hi in regs])
    if v.get("verdict") != "done":
        stats["leaf_unparsed"] = stats.get("leaf_unparsed", 0) + 1
        return None
    for (name, lo, hi), rv in zip(regs, v["regions"]):
        if rv["has_call"]:
            stats["bodies_with_calls"] = stats.get("bodies_with_calls", 0) + 1
        elif rv["leaf_ok"]:
            stats["leaf_bodies_accepted"] = stats.get("leaf_bodies_accepted", 0) + 1
        else:
            stats["leaf_bodies_rejected"] = stats.get("leaf_bodies_rejected", 0) + 1
            return (f"the body of {name} (lines {lo}–{hi - 1}) contains no call, yet it " +
                    ("overwrites ra" if rv["writes_ra"] else "can be left other than through its `j ra`") + " (checkLeaf rejects it)")
    return None


WITNESS_PROGS = {}


def run(tier: str, seed: int) -> int:
    chk = Check(PROP, tier, seed, "other")
    chk.assumptions = ["PV.IC10 machine and PV.Src reference semantics are trusted specifications",
                       "proved: machine-level call/return facts, the shape of the inserted ra bracket (fixed-slot convention), slot distinctness; NOT proved for the real generator: that every emitted program keeps the discipline — "
                       "monitored per execution by the shadow call stack",
                       "known findings avoided by the generator: F-C06-a (call inside a for-over-list body), F-C02-a (tail call next to an early return / another call)"]
    rep, br, audit = proof_stage(chk, MODULE, THEOREMS)
    drv = Driver()
    r = rng_for(PROP, seed)
    budget = whole.QUICK_BUDGET if tier == "quick" else whole.THOROUGH_BUDGET
    failures, diffs = [], []
    known_ids = {f["id"] for f in chk.known}
    stats = {}
    plan = [("funcs", 50 if tier == "quick" else 300), ("calls", 60 if tier == "quick" else 350), ("deep", 50 if tier == "quick" else 300), ("tco", 60 if tier == "quick" else 350)]
    with RaTap() as tap:
        for kind, n in plan:
            for i in range(n):
                g, prog, src, pool = whole.gen_program(r, kind)
                combos = [(False, False), (True, False)] + ([(False, True), (True, True)] if kind == "tco" else [])
                for pp, tco in combos:
                    opts = whole.default_opts(inline_functions=False, append_version=False, use_push_pop_functions=pp, tail_call_optimization=tco,
                                              remove_labels=False, compact=r.random() < 0.2)
                    tap.calls.clear()
                    res = whole.compile_real(src, opts)
                    if "error" in res:
                        stats["compile_errors"] = stats.get("compile_errors", 0) + 1
                        continue
                    # -- correspondence: add_ra_instructions --------------------------------------------------------------------
                    for c in tap.calls:
                        if c["after"] is None:
                            continue
                        m = drv.call(cmd="addra", name=c["name"], push_pop=c["push_pop"], code=c["before"])
                        stats["addra_calls"] = stats.get("addra_calls", 0) + 1
                        if c["before"] != c["after"]:
                            stats["addra_inserting"] = stats.get("addra_inserting", 0) + 1
                        if m != c["after"]:
                            diffs.append({"stream": "addRa vs FunctionData.add_ra_instructions", "name": c["name"], "push_pop": c["push_pop"], "before": c["before"], "model": m, "real": c["after"]})
                    # -- oracle: shadow call stack + reference semantics ---------------------------------------------------------------
                    exp = expectations(res["code"], prog, opts)
                    chk.count((res["code"],), nontrivial=bool(prog["funcs"]))
                    lf = leaf_check(drv, res["code"], prog, stats)
                    if lf:
                        failures.append({"what": lf + f" [push_pop={pp}, tail_call={tco}]", "src": src, "prog": progen.jprogram(prog), "opts": opts, "pool": pool, "env_seed": 1,
                                         "budget": budget, "expect": exp, "code": res["code"], "static_only": True})
                    stats[f"runs_pp{int(pp)}_tco{int(tco)}"] = stats.get(f"runs_pp{int(pp)}_tco{int(tco)}", 0) + 1
                    for es in [r.randrange(1 << 30) for _ in range(2 if tier == "quick" else 4)]:
                        v = drv.call(cmd="equiv", prog=progen.jprogram(prog), text=res["code"], seed=es, pool=pool, expect=exp, **budget)
                        if v["verdict"] == "src-undefined":
                            break
                        stats["max_depth_%d" % min(v.get("max_depth", 0), 4)] = stats.get("max_depth_%d" % min(v.get("max_depth", 0), 4), 0) + 1
                        bad = None
                        if v.get("call_violations"):
                            bad = "call discipline broken: " + v["call_violations"][0]
                        elif v["verdict"] in whole.BAD_VERDICTS and not v.get("ic_nonfinite") and not (v["verdict"] == "trace-mismatch" and whole.nonfinite_in_trace(drv, prog, pool, es, budget["fuel"])):
                            bad = f"arguments / result / behaviour differ from the source: {v['verdict']} (source {v.get('src_at')}, chip {v.get('ic_at')})"
                        if bad:
                            failures.append({"what": bad + f" [push_pop={pp}, tail_call={tco}]", "src": src, "prog": progen.jprogram(prog), "opts": opts, "pool": pool, "env_seed": es,
                                             "budget": budget, "expect": exp, "code": res["code"]})
                            break
                    if len(chk.coverage["samples"]) < 3 and prog["funcs"]:
                        chk.sample({"profile": kind, "push_pop": pp, "tail_call": tco, "src": src[:400]})
        # name family: a function inlined into another one whose label is a suffix of its own (pre_run inside run), both conventions
        for i in range(60 if tier == "quick" else 600):
            base = r.choice(["run", "tick", "update", "f", "set"])
            inner = r.choice(["pre_" + base, "on_" + base, "re" + base, base + "_more", "other", "x" + base])
            helper = r.choice(["emit", "h", "log_" + base, "z"])
            pp = r.random() < 0.5
            src = (f"def {helper}(a):\n    db.Setting = a\n    db.On = a + 1\n\n"
                   f"def {inner}(a):\n    if a > 2:\n        return\n    d0.Setting = a\n\n"
                   f"def {base}(a):\n    {inner}(a)\n    {helper}(a)\n    {helper}(a + 1)\n    d1.Setting = a\n\n"
                   f"x = 0\nwhile x < 3:\n    x = x + 1\n    {base}(x)\n    {base}(x + 10)\n    yield_()\ndb.Mode = x\nwhile True:\n    yield_()\n")
            opts = whole.default_opts(inline_functions=True, append_version=False, use_push_pop_functions=pp)
            tap.calls.clear()
            res = whole.compile_real(src, opts)
            if "error" in res:
                stats["compile_errors"] = stats.get("compile_errors", 0) + 1
                continue
            for c in tap.calls:
                if c["after"] is None:
                    continue
                m = drv.call(cmd="addra", name=c["name"], push_pop=c["push_pop"], code=c["before"])
                if m != c["after"]:
                    diffs.append({"stream": "addRa vs FunctionData.add_ra_instructions", "name": c["name"], "push_pop": c["push_pop"], "before": c["before"], "model": m, "real": c["after"]})
            chk.count((res["code"],), nontrivial=True)
            stats["name_family_runs"] = stats.get("name_family_runs", 0) + 1
            fake = {"funcs": [{"name": n, "params": ["a"], "returns": False} for n in (base, inner, helper)]}
            d = drv.call(cmd="run-ic10", text=res["code"], seed=1, steps=3000, pool=[0.0, 1.0, 2.0, 3.0], expect=expectations(res["code"], fake, opts))
            if "parse_error" in d:
                if re.search(r"unresolvable operand '\d+\.", d["parse_error"]) is None:
                    stats["name_family_unparsed"] = stats.get("name_family_unparsed", 0) + 1
                continue
            nyield = sum(1 for e in d["trace"] if e[0] == "yield")
            if d.get("call_violations") or nyield < 3:
                failures.append({"what": ("call discipline broken: " + d["call_violations"][0]) if d.get("call_violations") else
                                 f"the program never gets past its calls (only {nyield} of its yields executed in 3000 steps, {len(d['trace'])} effects)",
                                 "src": src, "opts": opts, "code": res["code"], "template": True})
        # branch-return family: a value-returning function whose `return`s are the last statements of the branches of a trailing
        # if / elif / else, and which calls another function (so it saves ra); both conventions, out of line
        for i in range(40 if tier == "quick" else 400):
            c, a, b = r.choice([10, 3, 7]), r.choice([4, 5, 6]), r.choice([1, 2, 3])
            pre = r.choice(["", "    d0.Setting = x\n", "    y = x + 1\n    d0.Mode = y\n"])
            arms = [f"    if x > {a}:\n        return scale(x)\n"]
            if r.random() < 0.6:
                arms.append(f"    elif x > {b}:\n        return scale(x) + 2\n")
            arms.append("    else:\n        return " + r.choice(["scale(x) + 1", "x", "scale(x + 1)"]) + "\n")
            pp = r.random() < 0.6
            src = (f"def scale(v):\n    return v * {c}\n\n" + "def classify(x):\n" + pre + "".join(arms) + "\n" +
                   "n = 0\nwhile n < 4:\n    n = n + 1\n    db.Setting = classify(n * 2)\n    db.On = classify(n)\n    yield_()\ndb.Mode = n\nwhile True:\n    yield_()\n")
            opts = whole.default_opts(inline_functions=False, append_version=False, use_push_pop_functions=pp)
            res = whole.compile_real(src, opts)
            if "error" in res:
                stats["compile_errors"] = stats.get("compile_errors", 0) + 1
                continue
            chk.count((res["code"],), nontrivial=True)
            stats["branch_return_runs"] = stats.get("branch_return_runs", 0) + 1
            fake = {"funcs": [{"name": "scale", "params": ["v"], "returns": True}, {"name": "classify", "params": ["x"], "returns": True}]}
            d = drv.call(cmd="run-ic10", text=res["code"], seed=1, steps=3000, pool=[0.0, 1.0, 2.0, 3.0], expect=expectations(res["code"], fake, opts))
            if "parse_error" in d:
                continue
            nyield = sum(1 for e in d["trace"] if e[0] == "yield")
            if d.get("call_violations") or nyield < 4:
                failures.append({"what": ("call discipline broken: " + d["call_violations"][0]) if d.get("call_violations") else
                                 f"the program never gets past its calls (only {nyield} of its yields executed in 3000 steps, {len(d['trace'])} effects)",
                                 "src": src, "opts": opts, "code": res["code"], "template": True, "fake": fake})
        # synthetic instruction lists for the add_ra model
        from stationeers_pytrapic.compile_pass import FunctionData, CompileOptions
        from stationeers_pytrapic.types import IC10Instruction, IC10Register
        n_syn = 400 if tier == "quick" else 8000
        for i in range(n_syn):
            name = r.choice(["f", "g.h", "run", "tick"])
            pp = r.random() < 0.5
            body = []
            nargs = r.randrange(0, 3)
            code = [[name + ":", [], None]]
            for k in range(nargs):
                code.append(["pop", [], f"__register.{k}_"] if pp else ["get", ["db", str(510 - k)], f"__register.{k}_"])
            for _ in range(r.randrange(0, 7)):
                k = r.random()
                if k < 0.25:
                    code.append(["jal", [r.choice(["g", "h", "lbfor.body3"])], None])
                elif k < 0.4:
                    if r.random() < 0.5:
                        code.append(["push", ["__register.9_"], None] if pp else ["put", ["db", "511", "__register.9_"], None])
                    code.append(["j", [name + "end"], None])
                elif k < 0.5:
                    code.append(["j", [r.choice(["lbwhile2", "other" + "end"])], None])
                elif k < 0.56:
                    code.append([r.choice(["pre.", "x", "on."]) + name + "end:", [], None])
                elif k < 0.6:
                    code.append(["push", ["3"], None])
                else:
                    code.append(["add", ["__register.0_", "1"], "__register.5_"])
            if r.random() < 0.5:
                code.append(["push", ["__register.5_"], None] if pp else ["put", ["db", "511", "__register.5_"], None])
            code.append([name + "end:", [], None])
            if r.random() < 0.85:
                code.append(["j", ["ra"], None])

            class _N:
                pass
            node = _N()
            node.name = name.replace(".", "_")
            fd = FunctionData(node, IC10Register(name))
            fd.code = [IC10Instruction(op, list(ins), IC10Register(out, code_expr=out) if out else None) for op, ins, out in code]
            before = [ins_of(l) for l in fd.code]
            try:
                tap.orig(fd, CompileOptions(use_push_pop_functions=pp))
            except Exception as e:
                stats["synthetic_raises"] = stats.get("synthetic_raises", 0) + 1
                continue
            after = [ins_of(l) for l in fd.code]
            m = drv.call(cmd="addra", name=name, push_pop=pp, code=before)
            chk.count(("syn", json.dumps(before)), nontrivial=before != after)
            if m != after:
                diffs.append({"stream": "addRa vs add_ra_instructions (synthetic)", "name": name, "push_pop": pp, "before": before, "model": m, "real": after})
    drv.close()
    chk.coverage["streams"] = stats
    chk.coverage["rule"] = ("generated programs with out-of-line functions (profiles funcs / calls / deep / tco: arities 0–3, early returns, nesting up to 4, tail calls), each compiled under fixed-slot and push/pop "
                            "conventions (tco profile: also with tail-call optimisation) and executed with the shadow call stack on several environments; plus synthetic function bodies for the add_ra model")
    chk.coverage["explanation"] = "machine-level call/return lemmas and the ra-bracket shape proved; discipline of real outputs monitored per execution (differential), add_ra model tied by correspondence"
    if diffs:
        chk.broken.append(f"correspondence differs on {len(diffs)} cases; first: {json.dumps(diffs[0])[:700]}")
    if failures:
        f = min(failures, key=lambda x: len(x["src"]))
        chk.violation(dict(f, broken=chk.broken, n_failures=len(failures), all_failures=[x["what"][:200] for x in failures[:8]]))
    elif chk.broken:
        chk.violation({"what": "proof obligation or correspondence no longer checks (no execution found that breaks the call discipline)", "broken": chk.broken,
                       "first_difference": diffs[0] if diffs else None}, no_failing_input=True)
    return chk.finish()


def replay(path: str) -> int:
    rp = json.loads(open(path).read())
    if rp.get("template"):
        drv = Driver()
        res = whole.compile_real(rp["src"], rp["opts"])
        names = re.findall(r"^def (\w+)\(", rp["src"], flags=re.M)
        fake = rp.get("fake") or {"funcs": [{"name": n, "params": ["a"], "returns": False} for n in names]}
        d = drv.call(cmd="run-ic10", text=res.get("code", ""), seed=1, steps=3000, pool=[0.0, 1.0, 2.0, 3.0], expect=expectations(res.get("code", ""), fake, rp["opts"]))
        drv.close()
        bad = d.get("call_violations") or sum(1 for e in d.get("trace", []) if e[0] == "yield") < 3
        print(f"VIOLATION property=C06 replay={path}" if bad else "replay: holds now")
        return 1 if bad else 0
    if "prog" not in rp:
        print("replay names a broken obligation only:", rp.get("broken"))
        return 1
    drv = Driver()
    res = whole.compile_real(rp["src"], rp["opts"])
    if "error" in res:
        print("replay: compile error now")
        return 0
    v = drv.call(cmd="equiv", prog=rp["prog"], text=res["code"], seed=rp["env_seed"], pool=rp["pool"], expect=rp.get("expect", []), **rp["budget"])
    drv.close()
    if v.get("call_violations") or v["verdict"] in whole.BAD_VERDICTS:
        print(f"VIOLATION property=C06 replay={path}\n   {v.get('call_violations') or v['verdict']}")
        return 1
    print("replay: holds now")
    return 0
