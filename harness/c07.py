"""C07 — when the top-level script finishes, nothing else runs.

Theorems: PV/Props/C07.lean — checkFall_sound (if the static region check accepts an emitted program, every step that leaves
its region is a call to a function entry, a jump through a register, the end of the program or an explicitly allowed
edge — for every environment and any number of steps), end_halts / halted_forever / after_end_nothing_runs (running off the
end stops the chip and the trace never grows again); PV/Proofs/Cfg.lean step_pc_mem_succs.
Tie: the check runs on the real allocated code of every program (captured allocator input renamed by the real map; C04
ties that text to the real output); regions come from the transpiler's own per-function code lists.
On the pinned tree the end of a terminating main script falls into the first emitted function (known finding F-C07-a,
encoded in stored references): that single edge — into a function that IS called — is the allowed edge; any other
cross-region edge (into a body no call reaches, from one function into the next, a branch into a body) is a violation,
and the machine run names the effects performed after it.
"""
from __future__ import annotations

import json
import re

from . import common, progen, whole, c04
from .common import Check, Driver, proof_stage, rng_for

PROP = "C07"
MODULE = "PV.Props.C07"
THEOREMS = [f"PV.Props.C07.{t}" for t in ["checkFall_sound", "end_halts", "halted_forever", "after_end_nothing_runs"]] + ["PV.Cfg.step_pc_mem_succs"]


def regions(cap, ptext):
    """owners (region id per line), entries (lines that are targets of jal / tail j to a function label), main_end edge"""
    names = []
    owners = []
    for l in cap.lines:
        o = l["owner"]
        if o not in names:
            names.append(o)
        owners.append(names.index(o))
    if "" in names and names.index("") != 0:
        # region ids are arbitrary; the main script must be region 0 for the report only
        pass
    lines = ptext.split("\n")
    labels = {}
    for i, ln in enumerate(lines):
        t = ln.split()
        if len(t) == 1 and t[0].endswith(":"):
            labels.setdefault(t[0][:-1], i)
    func_labels = {}
    for i, l in enumerate(cap.lines):
        if l["op"].endswith(":") and l["owner"] != "" and (i == 0 or cap.lines[i - 1]["owner"] != l["owner"]):
            func_labels[l["op"][:-1]] = i
    called = set()
    for i, ln in enumerate(lines):
        t = ln.split()
        if len(t) >= 2 and t[0] in ("jal", "j") and t[1] in func_labels:
            called.add(t[1])
    entries = sorted(func_labels[n] for n in called)
    return owners, entries, func_labels, called, names


def check_program(drv, chk, name, src, opts, pool, envs, steps, failures, stats, known_ids, live_called=None):
    try:
        res, cap = whole.compile_captured(src, opts)
    except Exception as e:
        failures.append({"what": f"compile_code raised {type(e).__name__}: {e}", "src": src, "opts": opts})
        return
    if "error" in res or not cap.lines:
        stats["compile_errors"] = stats.get("compile_errors", 0) + 1
        return
    vtext, ptext, parsed = c04.texts(cap)
    owners, entries, func_labels, called, names = regions(cap, ptext)
    n_regions = len(set(owners))
    chk.count((ptext,), nontrivial=n_regions > 1)
    stats["programs"] = stats.get("programs", 0) + 1
    stats["with_function_regions"] = stats.get("with_function_regions", 0) + (1 if n_regions > 1 else 0)
    # the known edge: last line of the main region → first line of the following region, when that region is a called function
    allow = []
    main_id = names.index("") if "" in names else None
    if main_id is not None:
        main_lines = [i for i, o in enumerate(owners) if o == main_id]
        if main_lines:
            last = max(main_lines)
            nxt = last + 1
            if nxt < len(owners) and owners[nxt] != main_id:
                lbl = cap.lines[nxt]["op"][:-1] if cap.lines[nxt]["op"].endswith(":") else None
                # the known finding concerns functions the source really calls; a function that only compile-time-dead code
                # mentions (known for the family stream) is not covered by it
                if lbl in called and (live_called is None or lbl in live_called):
                    allow.append([last, nxt])
    v = drv.call(cmd="check-fall", text=ptext, owners=owners, entries=entries, allow=allow)
    stats["checkfall_" + v["verdict"]] = stats.get("checkfall_" + v["verdict"], 0) + 1
    v0 = drv.call(cmd="check-fall", text=ptext, owners=owners, entries=entries, allow=[]) if allow else v
    uses_known_edge = bool(allow) and v0["verdict"] == "reject" and v["verdict"] == "accept"
    if len(chk.coverage["samples"]) < 3 and n_regions > 1:
        chk.sample({"name": name, "regions": n_regions, "entries": entries, "allowed_edge": allow, "verdict": v["verdict"], "code_head": ptext[:240]})
    if v["verdict"] == "parse-error":
        stats["unparsed"] = stats.get("unparsed", 0) + 1
        return
    # dynamic: does an execution really enter a region illegally, and what happens afterwards?
    dyn_bad = None
    for es in envs:
        d = drv.call(cmd="run-regions", text=ptext, owners=owners, entries=entries, seed=es, steps=steps, pool=pool)
        ill = [e for e in d.get("illegal_entries", []) if [e[0], e[1]] not in allow]
        if ill:
            dyn_bad = (es, d, ill)
            break
        if uses_known_edge and d.get("illegal_entries"):
            stats["known_edge_taken"] = stats.get("known_edge_taken", 0) + 1
            if "F-C07-a" in known_ids:
                chk.known_finding("F-C07-a", "the end of a terminating top-level script falls into the first emitted function (" +
                                  f"{d['effects_after_first']} further effects, chip {'stops' if d['halted'] else 'keeps running'} in {name})")
            else:
                dyn_bad = (es, d, d["illegal_entries"])
                break
    if v["verdict"] == "reject" or dyn_bad:
        lines = ptext.split("\n")
        edges = v.get("bad_edges", [])
        desc = "; ".join(f"line {a} ({lines[a].strip()!r}) → line {b} ({lines[b].strip() if b < len(lines) else 'end'!r})" for a, b in edges[:3])
        if dyn_bad:
            es, d, ill = dyn_bad
            failures.append({"what": f"execution enters a function body without a call: line {ill[0][0]} → {ill[0][1]}, then {d['effects_after_first']} more effects, chip {'stopped' if d['halted'] else 'still running'}; static edges: {desc}",
                             "name": name, "src": src, "opts": opts, "code": ptext, "owners": owners, "entries": entries, "allow": allow, "env_seed": es, "pool": pool, "steps": steps, "live_called": sorted(live_called) if live_called is not None else None})
        else:
            failures.append({"what": f"control-flow edge crosses into another function body without a call (not taken in the runs tried): {desc}", "name": name, "src": src, "opts": opts,
                             "code": ptext, "owners": owners, "entries": entries, "allow": allow, "static_only": True, "live_called": sorted(live_called) if live_called is not None else None})


def family(r):
    """terminating top-level scripts with functions: live calls, calls in compile-time-dead branches (named constants, also
    compared with each other), conditional expressions.  → (source, names of the functions some LIVE source-level call reaches)"""
    lines = []
    level = r.choice([0, 1, 2, 3])
    consts = {"DEBUG": r.random() < 0.3, "ENABLED": r.random() < 0.7}
    for k, v in consts.items():
        lines.append(f"{k} = {v}")
    lines.append(f"LEVEL = {level}")
    lines.append("LIMIT = 2")
    # (text, compile-time value)
    tests = [("DEBUG", consts["DEBUG"]), ("ENABLED", consts["ENABLED"]), ("LEVEL > 2", level > 2), ("LEVEL < LIMIT", level < 2),
             ("LEVEL == 1", level == 1), ("LIMIT <= LEVEL", 2 <= level), ("not DEBUG", not consts["DEBUG"])]
    nf = r.randrange(1, 4)
    rets = {}
    for j in range(nf):
        body = r.choice([f"    d{j}.Setting = a + {j}", f"    d{j}.On = a\n    d{j}.Mode = a * 2", f"    if a > {j}:\n        d{j}.Setting = a\n    d{j}.Power = {j}"])
        ret = r.random() < 0.5
        if ret and r.random() < 0.45:
            # early returns: from an `if`, from inside a `for` loop, from inside a `while` loop (the function's end label and its
            # `j ra` must still be reached by every one of them)
            body += "\n" + r.choice([f"    if a > {j + 2}:\n        return a * 2",
                                     f"    for i{j} in range(3):\n        if a > i{j}:\n            return i{j} + {j}",
                                     f"    while a < {j + 4}:\n        a += 1\n        if a == {j + 3}:\n            return a"])
        tail = (not ret) and r.random() < 0.4
        if tail:
            # a helper used only as the last statement of f{j}: inlined there; with tail-call optimisation the call site is a tail call
            lines += [f"def h{j}():", f"    d{j}.Lock = {j + 1}", ""]
        lines += [f"def f{j}(a):", body] + ([f"    return a + {j + 1}"] if ret else []) + ([f"    h{j}()"] if tail else []) + [""]
        rets[j] = ret
    lines.append("x = db.Setting")
    live = set()
    for j in range(nf):
        k = r.random()
        call = f"f{j}(x + {j})"
        use = (lambda c: f"db.Power = {c}") if rets[j] else (lambda c: c)
        flag, val = r.choice(tests)
        if k < 0.3:
            lines.append(use(call))
            live.add(f"f{j}")
            if r.random() < 0.6:
                lines.append(use(f"f{j}(x)"))
        elif k < 0.55:
            lines += [f"if {flag}:", "    " + use(call)]
            if val and r.random() < 0.5:
                lines += ["    " + use(f"f{j}(x)")]
            if val:
                live.add(f"f{j}")
        elif k < 0.7:
            lines += [f"if {flag}:", "    db.Mode = 1", "else:", "    " + use(call)]
            if not val:
                live.add(f"f{j}")
        elif k < 0.85 and rets[j]:
            lines.append(f"y{j} = {call} if {flag} else x")
            lines.append(f"db.Lock = y{j}")
            live.add(f"f{j}")        # both arms of a conditional expression are evaluated by the emitted code (known finding F-C01-h)
        elif rets[j]:
            lines.append(f"y{j} = x if {flag} else {call}")
            lines.append(f"db.Lock = y{j}")
            live.add(f"f{j}")        # (F-C01-h)
        else:
            lines.append(use(call))
            live.add(f"f{j}")
    if r.random() < 0.35:
        # a function used ONCE that returns from inside a loop, and one used twice that is emitted after it (functions are laid
        # out sorted by name): whatever the inliner decides about the first, it must not run on into the second
        loop = r.choice(["    for i in range(a):\n        if stack[i] > 0:\n            return i", "    while a > 0:\n        a -= 1\n        if stack[a] > 0:\n            return a"])
        defs = ["def aascan(a):", loop, "    return -1", "", "def zzshow(v):", "    d5.Setting = v", ""]
        k = next(i for i, l in enumerate(lines) if l == "x = db.Setting")
        lines[k:k] = defs
        lines += ["found = aascan(x)", "zzshow(found)", "zzshow(found + 10)"]
        live |= {"aascan", "zzshow"}
    lines.append("db.On = 0")
    return "\n".join(lines) + "\n", live


def run(tier: str, seed: int) -> int:
    chk = Check(PROP, tier, seed, "proof")
    chk.assumptions = ["regions are the transpiler's own per-function code lists (captured harness-side); the analysed text is the captured allocator input renamed by the real map, which C04 ties to the real output",
                       "F-C07-a (main end falls into the first called function) is a known finding encoded in stored references: that edge is the single allowed edge of the region check",
                       "PV.IC10 machine is a trusted specification"]
    rep, br, audit = proof_stage(chk, MODULE, THEOREMS, ["PV.Proofs.Cfg"])
    drv = Driver()
    r = rng_for(PROP, seed)
    failures, stats = [], {}
    known_ids = {f["id"] for f in chk.known}
    steps = 3000 if tier == "quick" else 8000
    for name, src in whole.repo_sources():
        for opts in (whole.default_opts(inline_functions=False, append_version=False), whole.default_opts(append_version=False)):
            check_program(drv, chk, name, src, opts, [0.0, 1.0, 2.0, 3.0, 5.0], [1, 2], steps, failures, stats, known_ids)
    for i in range(120 if tier == "quick" else 1500):
        src, live = family(r)
        opts = whole.default_opts(append_version=False, inline_functions=r.random() < 0.5, use_push_pop_functions=r.random() < 0.3)
        check_program(drv, chk, f"family:{i}", src, opts, [0.0, 1.0, 2.0, 3.0, 5.0, 10.0], [r.randrange(1 << 30) for _ in range(2)], steps, failures, stats, known_ids, live_called=live)
    for kind, n in [("terminating", 80 if tier == "quick" else 800), ("funcs", 40 if tier == "quick" else 400)]:
        for i in range(n):
            g, prog, src, pool = whole.gen_program(r, kind)
            opts = whole.default_opts(append_version=False, inline_functions=False, use_push_pop_functions=r.random() < 0.3)
            check_program(drv, chk, f"{kind}:{i}", src, opts, pool, [r.randrange(1 << 30) for _ in range(2)], steps, failures, stats, known_ids)
    drv.close()
    chk.coverage["streams"] = stats
    chk.coverage["rule"] = ("shipped programs (two option sets), a family of terminating scripts with functions called live / only from compile-time-dead branches / in conditional expressions, generated "
                            "programs with terminating and endless main scripts; non-trivial = the emitted program has at least one function region")
    chk.coverage["explanation"] = "region theorem proved for all programs and executions; its hypothesis (checkFall) established per real artefact; dynamic run shows what happens after an illegal entry"
    if failures:
        f = min(failures, key=lambda x: (x.get("static_only", False), len(x["src"]) if isinstance(x.get("src"), str) else 10 ** 6))
        chk.violation(dict(f, broken=chk.broken, n_failures=len(failures), all_failures=[x["what"][:220] for x in failures[:8]]))
    elif chk.broken:
        chk.violation({"what": "proof obligation no longer checks (no emitted program found with an illegal region entry)", "broken": chk.broken}, no_failing_input=True)
    return chk.finish()


def replay(path: str) -> int:
    rp = json.loads(open(path).read())
    if "src" not in rp:
        print("replay names a broken obligation only:", rp.get("broken"))
        return 1
    drv = Driver()
    chk = Check(PROP, "quick", 0, "proof")
    f2, s2 = [], {}
    check_program(drv, chk, "replay", rp["src"], rp["opts"], rp.get("pool", [0.0, 1.0, 2.0]), [rp.get("env_seed", 1)], rp.get("steps", 3000), f2, s2, {f["id"] for f in chk.known}, live_called=(set(rp["live_called"]) if rp.get("live_called") is not None else None))
    drv.close()
    if f2:
        print(f"VIOLATION property=C07 replay={path}\n   {f2[0]['what']}")
        return 1
    print("replay: holds now")
    return 0
