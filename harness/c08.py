"""C08 — compact output means the same as verbose output.

Theorems: PV/Props/C08.lean (hash/str/enum spellings in every output mode denote the same number; numerals read
back; a number replaces a symbolic token only if it is its value).
Tie: correspondence of PV.Tokens (computeHash, computeString, formatEnum, formatInt) with types.compute_hash,
types.compute_string, utils.format_enum, IC10Operand.to_string on generated strings and on every member of every
enum (exhaustive); regeneration of the enum tables.
Oracle: the loader model parses the real verbose and the real compact output of the same source (other options
equal) and compares the two instruction sequences operand by operand.
"""
from __future__ import annotations

import enum
import json

from . import common, progen, whole
from .common import Check, Driver, proof_stage, rng_for

PROP = "C08"
MODULE = "PV.Props.C08"
THEOREMS = [f"PV.Props.C08.{t}" for t in [
    "int_denotes", "hash_text_denotes", "str_text_denotes", "computeString_eq_pack", "hash_compact_denotes_verbose",
    "str_compact_denotes_verbose", "enum_bare_compact_denotes_verbose", "enum_qualified_compact_denotes_verbose", "numeric_only_if_exact"]]
EXTRA = ["PV.Digits.formatInt_roundtrip"]

MODES = {"verbose": 0, "compact": 1, "numeric": 2}


def rand_name(r):
    k = r.random()
    if k < 0.33:
        words = ["Sensor", "Array", "Tank", "Hydro", "Airlock", "Solar", "Heater", "A", "H", "S", "HASH", "STR", "x", "Bay", "(O2)", "1", "2", "Main Bank", "é", "Ωmega", "日本", "😀"]
        return r.choice([" ", "", "-", "_"]).join(r.choice(words) for _ in range(r.randrange(1, 4)))
    if k < 0.62:
        alphabet = "ABCDEFGHIJKLMNOPQRSTUVWXYZabcdefghijklmnopqrstuvwxyz0123456789 _-()[].,:;!?+*/='"
        return "".join(r.choice(alphabet) for _ in range(r.randrange(1, 14)))
    if k < 0.75:
        return "".join(chr(r.choice([r.randrange(32, 127), r.randrange(160, 256), r.randrange(0x100, 0x800), r.randrange(0x800, 0xD800), r.randrange(0x10000, 0x10FFFF)]))
                       for _ in range(r.randrange(1, 6)))
    if k < 0.83:
        # whitespace inside a name is part of the name: runs of blanks, no-break and other Unicode spaces, blanks at the ends
        words = ["Tank", "North", "Vent", "Out", "Bay", "7", "Main", "X"]
        nm = r.choice(["  ", "   ", "\u00a0", " \u00a0", "\u2003", "\u3000", " \u2009 "]).join(r.choice(words) for _ in range(r.randrange(2, 4)))
        return r.choice(["", "", " ", "  "]) + nm + r.choice(["", "", " ", "  "])
    # names that look like parts of the token syntax around them: brackets and quotes at the ends, token names, register names
    return r.choice(["H", "A", "S", "(", ")", "a)", "HASH", "HASH(", "STR(x)", "x)", "ASH", "HS", "-1", "12", "$FF", "r0", "db", "sp", "Setting", "a.b", "a b",
                     "Tank (2)", "Room (east)", "Slot (3)", "((x))", "y))", "(Bay", "'q'", "it's"])


def name_ok_for_hash(s: str) -> bool:
    """domain of compute_hash as a function of a plain name"""
    if s == "" or '"' in s or "\n" in s or "\r" in s:
        return False
    if s.startswith('HASH("') and s.endswith('")'):
        return False
    if s.startswith("__register."):
        return False
    return True


def real_token(T, U, what, mode, **kw):
    U.set_output_mode(U.OutputMode(MODES[mode]) if mode != "numeric" else U.OutputMode.COMPACT)
    om = U.OutputMode(MODES[mode])
    if what == "hash":
        v = T.compute_hash(kw["s"], om)
    elif what == "str":
        v = T.compute_string(kw["s"], om)
    else:
        U.set_output_mode(om)
        v = U.format_enum(kw["member"])
    return T.IC10Operand(v).to_string()


def string_program(r, S):
    """a program exercising names, display strings, enum members (printed as dialect Python)"""
    lines = []
    structs = S["structs"]
    for _ in range(r.randrange(2, 7)):
        k = r.random()
        nm = rand_name(r)
        while not name_ok_for_hash(nm) or "#" in nm or "\\" in nm or any(ord(c) < 32 for c in nm):
            nm = rand_name(r)
        st = r.choice(structs)
        if k < 0.15:
            lines.append(f'db.Setting = HASH("{nm}")')
        elif k < 0.3:
            lines.append(f'db.Setting = HASH("{nm}") {r.choice(["+", "-", "*"])} {r.choice([1, 2, 3])}')
        elif k < 0.45 and st["writes"]:
            lt = r.choice(st["writes"])[0]
            lines.append(f'{st["plural"]}["{nm}"].{lt} = {r.choice([0, 1, 5])}')
        elif k < 0.6 and st["reads"]:
            lt = r.choice(st["reads"])[0]
            bm = r.choice(list(S["bm"]))
            form = r.choice([f'{st["plural"]}["{nm}"].{lt}.{bm}', f'{st["plural"]}["{nm}"].{bm}.{lt}', f'{st["plural"]}.{lt}.{bm}', f'{st["plural"]}.{bm}.{lt}'])
            lines.append(f"db.Setting = {form}")
        elif k < 0.72:
            s = "".join(c for c in nm if ord(c) < 256)[:6] or "A"
            lines.append(f'db.Setting = STR("{s}")')
        elif k < 0.86:
            en, mem = r.choice(S["enum_members"])
            lines.append(f"db.Setting = {en}.{mem}")
        else:
            cands = [s for s in structs if s["slots"] and any(p for _, _, p in s["slots"])]
            st2 = r.choice(cands)
            sl = r.choice([s for s in st2["slots"] if s[2]])
            prop = r.choice(sl[2])[0]
            lines.append(f"db.Setting = {st2['name']}(d0).{sl[0]}.{prop}")
    return "\n".join(lines) + "\n"


def run(tier: str, seed: int) -> int:
    chk = Check(PROP, tier, seed, "proof")
    chk.assumptions = ["IC10 token semantics (HASH = signed CRC-32 of the UTF-8 bytes, STR = big-endian byte packing, enum names by operand position) is the hand-written PV.Tokens.denote / PV.IC10.Parse",
                       "names contain no double quote (the emitted HASH(\"…\") token would be ambiguous)",
                       "STR strings of characters above U+00FF are known finding F-C08-a (hypothesis of str_compact_denotes_verbose)"]
    rep, br, audit = proof_stage(chk, MODULE, THEOREMS + EXTRA)
    from stationeers_pytrapic import types as T, utils as U, types_generated as TG
    drv = Driver()
    r = rng_for(PROP, seed)
    U.format_int(1)
    hashes = sorted(U._all_hashes)
    failures, diffs = [], []

    def model_token(what, mode, **kw):
        return drv.call(cmd="token", what=what, mode=mode, hashes=hashes, **kw)

    # -- 1. tokens: strings ---------------------------------------------------------------------
    n_str = 1500 if tier == "quick" else 60000
    for i in range(n_str):
        s = rand_name(r)
        if not name_ok_for_hash(s):
            continue
        chk.count(("name", s))
        chk.bump("names_nonascii" if any(ord(c) > 127 for c in s) else "names_ascii")
        if i < 2:
            chk.sample({"name": s})
        texts = {}
        for mode in ("verbose", "compact", "numeric"):
            try:
                real = real_token(T, U, "hash", mode, s=s)
            except Exception as e:
                failures.append({"what": f"compute_hash raised {type(e).__name__}: {e}", "name": s, "mode": mode})
                continue
            texts[mode] = real
            m = model_token("hash", mode, s=[ord(c) for c in s])
            if m != real:
                diffs.append({"stream": "computeHash", "name": s, "mode": mode, "model": m, "real": real})
        # oracle: every spelling denotes the signed CRC-32 of the name
        want = U.calc_hash(s)
        import zlib
        z = zlib.crc32(s.encode())
        z = z - (1 << 32) if z >= (1 << 31) else z
        for mode, txt in texts.items():
            d = drv.call(cmd="denote", src=[ord(c) for c in txt])
            if d != z:
                failures.append({"what": f"HASH of {s!r} is spelled {txt!r} in {mode} mode, which denotes {d}, not the signed CRC-32 {z}", "name": s, "mode": mode})
        # STR
        if all(ord(c) < 256 for c in s) and len(s) <= 6:
            pk = 0
            for c in s:
                pk = pk * 256 + ord(c)
            for mode in ("verbose", "compact", "numeric"):
                real = real_token(T, U, "str", mode, s=s)
                m = model_token("str", mode, s=[ord(c) for c in s])
                if m != real:
                    diffs.append({"stream": "computeString", "s": s, "mode": mode, "model": m, "real": real})
                d = drv.call(cmd="denote", src=[ord(c) for c in real])
                if d != pk:
                    failures.append({"what": f"STR of {s!r} is spelled {real!r} in {mode} mode, which denotes {d}, not the byte packing {pk}", "s": s, "mode": mode})
    # -- 2. tokens: every member of every enum (exhaustive) ---------------------------------------
    n_members = 0
    for name, obj in vars(TG).items():
        if isinstance(obj, type) and issubclass(obj, enum.IntEnum) and obj is not enum.IntEnum and not name.startswith("_"):
            for mname, member in obj.__members__.items():
                n_members += 1
                chk.count(("enum", name, mname))
                vals = {}
                for mode in ("verbose", "compact"):
                    real = real_token(T, U, "enum", mode, member=member)
                    m = model_token("enum", mode, ty=name, m=mname, v=int(member.value))
                    if m != str(real):
                        diffs.append({"stream": "formatEnum", "enum": name, "member": mname, "mode": mode, "model": m, "real": str(real)})
                    pos = name if name in ("LogicType", "LogicBatchMethod", "LogicSlotType") else None
                    kw = {"pos": pos} if pos else {}
                    vals[mode] = drv.call(cmd="denote", src=[ord(c) for c in str(real)], **kw)
                if vals["verbose"] != vals["compact"] or vals["compact"] != int(member.value):
                    failures.append({"what": f"enum member {name}.{mname} (= {int(member.value)}): verbose spelling denotes {vals['verbose']}, compact {vals['compact']}",
                                     "enum": name, "member": mname})
    chk.coverage["enum_members_exhaustive"] = n_members
    U.set_output_mode(U.OutputMode.VERBOSE)
    # -- 3. whole programs: verbose vs compact under otherwise equal options -----------------------
    S = dict(progen.load_structs())
    S["enum_members"] = [(n, m) for n, o in vars(TG).items() if isinstance(o, type) and issubclass(o, enum.IntEnum) and o is not enum.IntEnum and not n.startswith("_")
                         and n not in ("LogicType", "LogicBatchMethod", "LogicSlotType") for m in list(o.__members__)[:6]]
    progs = [(n, s) for n, s in whole.repo_sources()]
    n_gen = 60 if tier == "quick" else 2500
    n_strp = 150 if tier == "quick" else 6000
    for i in range(n_gen):
        g = progen.Gen(r, progen.Profile(max_stmts=5))
        progs.append((f"gen:{i}", progen.print_program(g.program())))
    for i in range(n_strp):
        progs.append((f"str:{i}", string_program(r, S)))
    known_ids = {f["id"] for f in chk.known}
    for name, src in progs:
        base = whole.random_opts(r)
        base["append_version"] = False
        ov = dict(base, compact=False)
        oc = dict(base, compact=True)
        try:
            rv = whole.compile_any(src, ov)
            rc = whole.compile_any(src, oc)
        except Exception as e:
            failures.append({"what": f"compile_code raised {type(e).__name__}: {e}", "src": src, "opts": base})
            continue
        if ("error" in rv) != ("error" in rc):
            desc = (rv.get("error") or rc.get("error"))["description"]
            if common.load_timeout(desc):
                chk.bump("constexpr_timeouts_skipped")
                continue
            failures.append({"what": "compiles in one output mode only: " + desc[:200], "src": src, "opts": base})
            continue
        if "error" in rv:
            chk.bump("compile_errors")
            continue
        chk.count(("prog", rv["code"], rc["code"]), nontrivial=rv["code"] != rc["code"])
        chk.bump("programs")
        chk.bump("programs_differing_textually" if rv["code"] != rc["code"] else "programs_textually_equal")
        if len(chk.coverage["samples"]) < 5 and rv["code"] != rc["code"]:
            chk.sample({"src": src if isinstance(src, str) else src[""], "verbose": rv["code"][:300], "compact": rc["code"][:300]})
        v = drv.call(cmd="same-program", a=rv["code"], b=rc["code"])
        if v["verdict"] != "same":
            la = rv["code"].split("\n")
            lb = rc["code"].split("\n")
            k = v.get("line")
            failures.append({"what": f"verbose and compact outputs are not the same instruction sequence ({v})" +
                                     (f": verbose line {la[k]!r} vs compact line {lb[k]!r}" if isinstance(k, int) and k < len(la) and k < len(lb) else ""),
                             "src": src, "opts": base, "verdict": v, "verbose": rv["code"], "compact": rc["code"]})
    # -- known finding witness -------------------------------------------------------------------------
    wsrc = 'db.Setting = STR("a€")\n'
    rv = whole.compile_any(wsrc, whole.default_opts(append_version=False))
    rc = whole.compile_any(wsrc, whole.default_opts(append_version=False, compact=True))
    if "code" in rv and "code" in rc:
        v = drv.call(cmd="same-program", a=rv["code"], b=rc["code"])
        if v["verdict"] != "same":
            if "F-C08-a" in known_ids:
                chk.known_finding("F-C08-a", f"STR(\"a€\"): compact {rc['code']!r} is not the byte packing of verbose {rv['code']!r} (compute_string packs ord(c) per character)")
            else:
                failures.append({"what": "STR with a character above U+00FF", "src": wsrc, "opts": {}, "verbose": rv["code"], "compact": rc["code"]})
    drv.close()
    chk.coverage["rule"] = ("generated names (ASCII words, punctuation, Latin-1, BMP, astral, look-alikes of HASH/STR/numerals), all members of all enums (exhaustive), "
                            "shipped programs, generated programs and string-heavy programs each compiled verbose and compact under a random vector of the other options; "
                            "programs are non-trivial when the two texts differ")
    chk.coverage["explanation"] = "token theorems for all strings/integers/members; PV.Tokens tied to the code by correspondence; oracle = loader model on real output pairs"
    if diffs:
        chk.broken.append(f"correspondence differs on {len(diffs)} cases; first: {json.dumps(diffs[0], ensure_ascii=True)[:400]}")
    if failures:
        def size(f):
            s = f.get("src", f.get("name", ""))
            return len(s) if isinstance(s, str) else 10**6
        f = min(failures, key=size)
        chk.violation(dict(f, broken=chk.broken, n_failures=len(failures), all_failures=[x["what"][:300] for x in failures[:12]]))
    elif chk.broken:
        chk.violation({"what": "proof obligation or correspondence no longer checks (no token or program found on which compact and verbose differ in meaning)",
                       "broken": chk.broken, "first_difference": diffs[0] if diffs else None}, no_failing_input=True)
    return chk.finish()


def replay(path: str) -> int:
    rp = json.loads(open(path).read())
    if "src" not in rp:
        print("replay without a program:", rp.get("what"), rp.get("broken"))
        return 1
    drv = Driver()
    base = dict(rp.get("opts") or whole.default_opts())
    rv = whole.compile_any(rp["src"], dict(base, compact=False))
    rc = whole.compile_any(rp["src"], dict(base, compact=True))
    if "error" in rv or "error" in rc:
        print("replay: compile error now")
        return 0
    v = drv.call(cmd="same-program", a=rv["code"], b=rc["code"])
    drv.close()
    if v["verdict"] != "same":
        print(f"VIOLATION property=C08 replay={path}\n   {v}")
        return 1
    print("replay: holds now")
    return 0
