"""C09 — emitted text is loadable IC10.

Theorems: PV/Props/C09.lean (formatInt_roundtrip for all integers and hash sets; version note: at most one line changed,
only by appending, line stays within 90 characters, is a trailing comment).
Tie: correspondence of PV.Digits.formatInt with utils.format_int (exact text) and of PV.Version.addVersion with the real
placement (compile with / without append_version); float literals are differential only (Lean's Float printing is opaque).
Oracle: the loader model (PV.IC10.Parse over the hand-written signature table PV.IC10.Spec) checks every line of every
real output of shipped programs, generated programs and a literal grid under random option vectors.
"""
from __future__ import annotations

import json
import math
import re

from . import common, progen, whole
from .common import Check, Driver, proof_stage, rng_for

PROP = "C09"
MODULE = "PV.Props.C09"
THEOREMS = [f"PV.Props.C09.{t}" for t in ["formatInt_roundtrip", "version_note_length", "version_note_lines", "version_note_fits",
                                           "version_note_once", "stripComment_no_hash", "version_note_is_comment"]]

NUM_RE = re.compile(r"^-?\d+(\.\d+)?$")


def classify_known(err: str, line: str, src_text: str, name: str):
    """known-finding id for a loader error, by error signature AND trigger in the source; None if it is new"""
    if "unknown opcode 'neg'" in err and "~" in src_text:
        return "F-C03-c", "unary ~ is lowered to the non-existent opcode 'neg'"
    if re.search(r"unresolvable operand '(True|False)'", err) and (re.search(r"\bnot\b", src_text) or "constexpr" in src_text or re.search(r"\b(True|False)\b", src_text)):
        return "F-C09-a", "a folded boolean is spelled True/False as an operand"
    if "unresolvable operand 'None'" in err and line.strip().startswith("j ") and re.search(r"for\s+\w+\s+in\s+[\[\(\w]", src_text) and "break" in src_text:
        return "F-C09-c", "break inside a for-over-list loop emits 'j None' (the loop has no end label)"
    if re.search(r"unresolvable operand '\d+\.[\w.]+'", err) and re.match(r"\s*(jal|j)\s", line):
        return "F-C05-a", "with remove_labels a label that extends another label is corrupted (jal 5.display)"
    if name == "example:stack" and "Settings" in err:
        return "F-C09-d", "attribute names of the generic device are passed through unvalidated (example stack.py writes db.Settings)"
    if name == "example:intrinsics" and "lbn" in err:
        return "F-C09-d", "raw string arguments of intrinsics are passed through unvalidated (example intrinsics.py passes an empty name to lbn)"
    return None


def float_text_ok(v: float, text: str):
    if not NUM_RE.match(text):
        return f"literal {text!r} is not IC10 number syntax"
    try:
        back = float(text)
    except ValueError:
        return f"literal {text!r} does not read back"
    if v == 0:
        return None if back == 0 else f"literal {text!r} reads back as {back}, value 0"
    if abs(back - v) > abs(v) * 2e-16 * 8:
        return f"literal {text!r} reads back as {back!r}, value {v!r} (more than 16 significant digits off)"
    return None


def literal_grid(r, tier):
    vals = []
    for e in range(-12, 16):
        for m in (1.0, 1.5, 2.5, 9.999, 1.2345678901234567, 7.0):
            vals += [m * 10.0 ** e, -m * 10.0 ** e]
    vals += [0.1, 0.09999999999999999, 0.10000000000000002, 0.5, 1 / 3, 2 / 3, math.pi, math.e, 1e-7, 1.5e-7, 123456.789, 9999.5, 10000.5,
             -0.05, -0.0001, -0.00002, -1e-5, -2.5e-6, 1e15 + 0.5, 4503599627370496.5, 0.30000000000000004, 5e-324, 2.2250738585072014e-308]
    n = 300 if tier == "quick" else 6000
    for _ in range(n):
        k = r.random()
        if k < 0.4:
            vals.append(r.uniform(-1, 1) * 10.0 ** r.randrange(-9, 3))
        elif k < 0.8:
            vals.append(r.uniform(-1, 1) * 10.0 ** r.randrange(0, 15))
        else:
            vals.append(float(r.randrange(-10 ** 6, 10 ** 6)) / r.choice([3, 7, 16, 1000]))
    return [v for v in vals if not float(v).is_integer()]


def int_grid(r, tier, hashes):
    vals = [0, 1, -1, 9999, 10000, 10001, 10002, 65535, 65536, -10000, -10001, -65536, 2 ** 31 - 1, 2 ** 31, -2 ** 31, 2 ** 32, 2 ** 53 - 1, 2 ** 53, 2 ** 53 + 1, 2 ** 63 - 1, 255, 256, 4095, 4096]
    vals += list(hashes[:40]) + [h + 1 for h in hashes[:20]] + [h - 1 for h in hashes[:20]]
    n = 500 if tier == "quick" else 15000
    for _ in range(n):
        vals.append(r.randrange(-2 ** r.randrange(1, 63), 2 ** r.randrange(1, 63)))
    return vals


def run(tier: str, seed: int) -> int:
    chk = Check(PROP, tier, seed, "proof")
    chk.assumptions = ["the IC10 grammar (opcodes, operand counts and kinds, register/device spellings, number syntax) is the hand-written loader model PV.IC10.Parse / PV.IC10.Spec",
                       "float literals are checked by CPython (reads back within 16 significant digits, plain decimal syntax); no Lean theorem covers float printing",
                       "that every compiled program is grammatical is established by the loader model on the outputs of this run, not by a theorem about the code generator"]
    rep, br, audit = proof_stage(chk, MODULE, THEOREMS)
    from stationeers_pytrapic import types as T, utils as U, _version
    drv = Driver()
    r = rng_for(PROP, seed)
    U.format_int(1)
    hashes = sorted(U._all_hashes)
    failures, diffs = [], []
    known_ids = {f["id"] for f in chk.known}

    # -- A. integers --------------------------------------------------------------------------------
    for n in int_grid(r, tier, hashes):
        chk.count(("int", n))
        real = T.IC10Operand(n).to_string()
        m = drv.call(cmd="fmtint", n=n, hashes=hashes)
        if m != real:
            diffs.append({"stream": "formatInt vs utils.format_int", "n": n, "model": m, "real": real})
        back = drv.call(cmd="parsenum", src=[ord(c) for c in real])
        if back != n:
            if abs(n) >= 2 ** 63 and "F-C09-b" in known_ids:
                chk.known_finding("F-C09-b", "integers beyond 64 bits are printed as hex literals longer than 16 digits")
            else:
                failures.append({"what": f"integer {n} is printed as {real!r}, which reads back as {back}", "value": n})
    # -- B. floats ------------------------------------------------------------------------------------
    for v in literal_grid(r, tier):
        chk.count(("float", v))
        try:
            text = T.IC10Operand(v).to_string()
        except Exception as e:
            failures.append({"what": f"IC10Operand({v!r}).to_string() raised {type(e).__name__}: {e}", "value": v})
            continue
        bad = float_text_ok(v, text)
        if bad:
            if len(text) > 60 and "F-C09-b" in known_ids:
                chk.known_finding("F-C09-b", "very small / very large magnitudes are printed as literals of hundreds of characters")
            else:
                failures.append({"what": bad, "value": v, "text": text})
    chk.bump("float_literals", 0)
    # -- C. grammar of real outputs ---------------------------------------------------------------------
    progs = list(whole.repo_sources())
    n_gen = 100 if tier == "quick" else 1200
    for i in range(n_gen):
        g = progen.Gen(r, progen.Profile(max_stmts=5))
        progs.append((f"gen:{i}", progen.print_program(g.program())))
    lits = literal_grid(r, "quick")
    for i in range(40 if tier == "quick" else 150):
        vs = [r.choice(lits) for _ in range(4)]
        ints = [r.choice([10001, 65536, 2 ** 31, -70000, 2 ** 40 + 1, 12345678]) for _ in range(2)]
        src = "".join(f"db.Setting = {v!r}\n" for v in vs) + f"x = db.Setting + {vs[0]!r}\ndb.Setting = x * {ints[0]}\ndb.Setting = {ints[1]}\ndb.Setting = {vs[1]!r} * {vs[2]!r}\n"
        progs.append((f"lit:{i}", src))
    note = f" # Generated by PyTrapIC v{_version.__version__}"
    for name, src in progs:
        nvec = 2 if tier == "quick" else 4
        for k in range(nvec):
            opts = whole.random_opts(r)
            try:
                res = whole.compile_any(src, opts)
            except Exception as e:
                failures.append({"what": f"compile_code raised {type(e).__name__}: {e}", "src": src, "opts": opts, "name": name})
                continue
            if "error" in res:
                chk.bump("compile_errors")
                continue
            code = res["code"]
            chk.count(("out", code))
            chk.bump("outputs")
            if len(chk.coverage["samples"]) < 3:
                chk.sample({"name": name, "opts": opts, "code_head": code[:240]})
            v = drv.call(cmd="wf", text=code)
            lines = code.split("\n")
            src_text = src if isinstance(src, str) else "\n".join(src.values())
            for ln, err in v["errors"]:
                kf = classify_known(err, lines[ln], src_text, name)
                if kf and kf[0] in known_ids:
                    chk.known_finding(kf[0], kf[1])
                    chk.bump("known_finding_lines")
                else:
                    failures.append({"what": f"line {ln} of the output is not loadable IC10: {err}: {lines[ln]!r}", "src": src, "opts": opts, "name": name, "code": code})
            for lb in v["duplicate_labels"]:
                failures.append({"what": f"label {lb} is defined more than once", "src": src, "opts": opts, "name": name, "code": code})
            for ln, l in enumerate(lines):
                if "__register." in l.split("#")[0] or "<stationeers" in l or " object at " in l:
                    failures.append({"what": f"placeholder in line {ln}: {l!r}", "src": src, "opts": opts, "name": name, "code": code})
            # -- D. version note --------------------------------------------------------------------------
            if opts.get("append_version") and "pytrapic:" not in src_text:
                res0 = whole.compile_any(src, dict(opts, append_version=False))
                if "code" in res0:
                    l0 = res0["code"].split("\n") if res0["code"] else []
                    l1 = lines if code else []
                    m = drv.call(cmd="addversion", note=[ord(c) for c in note], lines=[[ord(c) for c in l] for l in l0])
                    ml = ["".join(chr(c) for c in l) for l in m]
                    if ml != l1 and all(ord(c) < 0xD800 or ord(c) > 0xDFFF for c in code):
                        diffs.append({"stream": "addVersion vs get_code", "name": name, "opts": opts, "first_model": next((a for a, b in zip(ml, l1) if a != b), None),
                                      "first_real": next((b for a, b in zip(ml, l1) if a != b), None)})
                    changed = [i for i, (a, b) in enumerate(zip(l0, l1)) if a != b]
                    bad = None
                    if len(l0) != len(l1) or len(changed) > 1:
                        bad = f"the version note changes {len(changed)} lines / the number of lines"
                    elif changed:
                        i = changed[0]
                        if not l1[i].startswith(l0[i]) or not l1[i][len(l0[i]):].lstrip(" ").startswith("#"):
                            bad = f"line {i} is changed by more than a trailing comment: {l1[i]!r}"
                        elif len(l1[i]) > 90:
                            bad = f"line {i} with the version note has {len(l1[i])} characters: {l1[i]!r}"
                    if bad:
                        failures.append({"what": bad, "src": src, "opts": opts, "name": name, "code": code})
    # -- witnesses of the known findings that concern loadability ------------------------------------------
    for f in chk.known:
        if f["id"] not in ("F-C03-c", "F-C09-a", "F-C09-b", "F-C09-c", "F-C05-a") or "witness" not in f:
            continue
        for opts in (whole.default_opts(append_version=False), whole.default_opts(append_version=False, remove_labels=True, inline_functions=False)):
            res = whole.compile_any(f["witness"], opts)
            if "code" not in res:
                continue
            v = drv.call(cmd="wf", text=res["code"])
            lines = res["code"].split("\n")
            for ln, err in v["errors"]:
                kf = classify_known(err, lines[ln], f["witness"], "witness")
                if kf and kf[0] == f["id"]:
                    chk.known_finding(kf[0], kf[1])
            if f["id"] == "F-C09-b":
                for tok in res["code"].split():
                    if tok.startswith("$") and len(tok) > 17:
                        chk.known_finding("F-C09-b", f"1e20 is printed as {tok} (more than 16 hex digits)")
    drv.close()
    chk.coverage["rule"] = ("integers: boundary grid + random up to 63 bits + prefab hashes; floats: magnitude grid + random; outputs: shipped programs, generated programs and a literal grid, "
                            "each under random option vectors; distinct = distinct value / distinct output text")
    chk.coverage["explanation"] = "numeral and version-note theorems proved; grammar decided per output by the loader model (not a theorem about the generator)"
    if diffs:
        chk.broken.append(f"correspondence differs on {len(diffs)} cases; first: {json.dumps(diffs[0])[:400]}")
    if failures:
        def size(f):
            s = f.get("src", "")
            return len(s) if isinstance(s, str) else 10 ** 6
        f = min(failures, key=size)
        chk.violation(dict(f, broken=chk.broken, n_failures=len(failures), all_failures=[x["what"][:200] for x in failures[:12]]))
    elif chk.broken:
        chk.violation({"what": "proof obligation or correspondence no longer checks (no output found that is not loadable)", "broken": chk.broken,
                       "first_difference": diffs[0] if diffs else None}, no_failing_input=True)
    return chk.finish()


def replay(path: str) -> int:
    rp = json.loads(open(path).read())
    if "src" not in rp:
        print("replay without a program:", rp.get("what"), rp.get("broken"))
        return 1
    drv = Driver()
    res = whole.compile_any(rp["src"], rp["opts"])
    if "error" in res:
        print("replay: compile error now")
        return 0
    v = drv.call(cmd="wf", text=res["code"])
    drv.close()
    if v["errors"] or v["duplicate_labels"]:
        print(f"VIOLATION property=C09 replay={path}\n   {v['errors'][:3]} {v['duplicate_labels']}")
        return 1
    print("replay: holds now")
    return 0
