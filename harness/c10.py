"""C10 — compile_code always returns a verdict, promptly, and cleans up.   (partial)

Theorems: PV/Props/C10.lean — verdict_total (the try/except shell maps every outcome of the passes to a dictionary with `code`
or with `error` and a non-empty description), prelude_total (the directive scan cannot fail), no_child_left (in every path of
a constexpr evaluation the helper interpreter is reaped or killed and reaped), runaway_is_error.
NOT a theorem: that CPython executes the passes in bounded time.  Explored on the real code: a malformed-input stream (every
prefix of shipped programs = keystroke enumeration, token / byte mutations, NUL bytes, deep nesting, huge numbers, recursion,
unsupported constructs, failing / printing / non-terminating constexpr bodies, wrong option values); for every input:
compile_code returns (no exception) within the bound, the result has `code` with consistent statistics or `error` with a
description and a position inside the text, and afterwards the harness process has no child process left.
"""
from __future__ import annotations

import json
import os
import re
import subprocess
import time

from . import common, whole, c17
from .common import Check, proof_stage, rng_for

PROP = "C10"
MODULE = "PV.Props.C10"
THEOREMS = [f"PV.Props.C10.{t}" for t in ["verdict_total", "code_only_on_return", "prelude_total", "no_child_left", "runaway_is_error"]]

BOUND_S = 10.0

HOSTILE = [
    "@constexpr\ndef k(a):\n    while True:\n        pass\ndb.Setting = k(1)\n",
    "@constexpr\ndef k(a):\n    raise ValueError('no')\ndb.Setting = k(1)\n",
    "@constexpr\ndef k(a):\n    print('noise')\n    return a\ndb.Setting = k(1)\n",
    "@constexpr\ndef k(a):\n    import sys\n    sys.exit(3)\ndb.Setting = k(1)\n",
    "@constexpr\ndef k(a):\n    return object()\ndb.Setting = k(1)\n",
    "@constexpr\ndef k(a):\n    return [1, 2]\ndb.Setting = k(1)\n",
    "@constexpr\ndef k(a):\n    return 'text'\ndb.Setting = k(1)\n",
    "def r(n):\n    return r(n - 1)\ndb.Setting = r(3)\n",
    "def a(n):\n    return b(n)\ndef b(n):\n    return a(n)\ndb.Setting = a(3)\n",
    "db.Setting = 1 / 0\n", "db.Setting = 2 ** 100000\n", "db.Setting = 1 << 100000\n", "db.Setting = ~5\n", "db.Setting = 10 ** 400 * 1.5\n",
    "x = [1, 2][5]\ndb.Setting = x\n", "db.Setting = [1, 2]['a']\n", "db.Setting = undefined_name\n", "db.Setting = db.NoSuchThing.Foo\n",
    "class A:\n    pass\n", "import os\n", "lambda: 0\n", "x = yield\n", "async def f():\n    pass\n", "with open('x') as f:\n    pass\n", "try:\n    pass\nexcept:\n    pass\n",
    "x = {1: 2}\n", "x = {1, 2}\n", "x = f'{db}'\n", "x, y = 1, 2\n", "x = y = 3\n", "del x\n", "global q\n", "while 1 < 2 < 3:\n    pass\n", "for i in db:\n    pass\n",
    "for i in range():\n    pass\n", "for i in range(1, 2, 3, 4):\n    pass\n", "def f(*a, **k):\n    pass\nf(1)\n", "def f(a=1):\n    db.On = a\nf()\nf()\n", "f = 3\nf(1)\n",
    "d0 = 5\n", "db = 1\n", "HASH = 2\n", "db.Setting = HASH(5)\n", "db.Setting = HASH()\n", "db.Setting = STR(1, 2)\n", "yield_(1)\n", "sleep()\n", "l()\n", "s(d0)\n",
    "return 5\n", "break\n", "continue\n", "pass\n" * 300, "db.Setting = " + "(" * 60 + "1" + ")" * 60 + "\n", "db.Setting = " + "-" * 200 + "1\n",
    "x = 1\n" + "if x:\n" + "".join("    " * (i + 1) + "if x:\n" for i in range(30)) + "    " * 32 + "db.On = 1\n",
    "\x00", "db.Setting = 1\x00\n", "\ufeffdb.Setting = 1\n", "db.Setting = 1\r\ndb.On = 2\r\n", "\tdb.Setting = 1\n", "db.Setting = '\\ud800'\n", "é = 1\ndb.Setting = é\n",
    "# pytrapic: compact, bogus, __class__, no-\n", "# pytrapic:\n",
    # the directive marker in places where it is no comment
    '"""pytrapic: compact"""\ndb.Setting = 1\n', "x = 'pytrapic: no-compact'\ndb.Setting = 1\n", "pytrapic: compact\ndb.Setting = 1\n", "db.Setting = 1  # pytrapic: compact\n",
    "# pytrapic: compact # pytrapic: no-compact\n", "#pytrapic:compact\n", "  # pytrapic: compact\ndb.Setting = 1\n", "def f():\n    \"\"\"doc\n    pytrapic: inline-functions\n    \"\"\"\n    db.On = 1\nf()\n",
    "db.Setting = HASH('pytrapic:')\n", "pytrapic:", "x = 1 # pytrapic:\n# pytrapic: \n#pytrapic:no-\n", "#" * 5000 + "\n", "", "\n\n\n", " ", "require 'x'\n", "-- lua comment\n", "require\n",
]


def children():
    try:
        out = subprocess.run(["pgrep", "-P", str(os.getpid())], capture_output=True, text=True).stdout.split()
    except Exception:
        return []
    return out


def judge(src, opts_obj, res, dt, nkids):
    """→ list of failure descriptions for one call"""
    out = []
    if dt > BOUND_S:
        out.append(f"compile_code took {dt:.1f} s (bound {BOUND_S} s)")
    if not isinstance(res, dict):
        return out + [f"compile_code returned {type(res).__name__}, not a dictionary"]
    has_code, has_err = "code" in res, "error" in res
    if has_code == has_err:
        out.append(f"result has {'both' if has_code else 'neither of'} 'code' and 'error': keys {sorted(res)}")
    if has_err:
        e = res["error"]
        if not isinstance(e, dict) or not isinstance(e.get("description"), str) or not e.get("description"):
            out.append(f"error without a description: {str(e)[:120]}")
        else:
            text = src[""] if isinstance(src, dict) else src
            nlines = len(text.splitlines()) if isinstance(text, str) else 0
            ln = e.get("line")
            if ln is not None and not (isinstance(ln, int) and 1 <= ln <= max(nlines, 1) + 1):
                out.append(f"error position line {ln!r} is outside the submitted text ({nlines} lines)")
            le = e.get("line_end")
            if le is not None and isinstance(ln, int) and isinstance(le, int) and le < ln:
                out.append(f"error range ends (line {le}) before it starts (line {ln})")
    if has_code:
        if not isinstance(res["code"], str):
            out.append("'code' is not a string")
        else:
            out += ["statistics inconsistent with the code: " + b for b in c17.judge(res, None) if not any(ord(c) > 127 for c in res["code"])]
    if nkids:
        out.append(f"{len(nkids)} helper process(es) still running after compile_code returned: pids {nkids}")
    return out


HARD_S = 90      # a call that has not returned by then is interrupted: "always returns a verdict" has failed, whatever the load


class NoVerdict(BaseException):
    """raised by the watchdog inside a compile_code call that does not return (BaseException: the compiler's own handlers let it through)"""


def _watchdog(signum, frame):
    raise NoVerdict()


def call(C, src, opts):
    import signal
    t0 = time.time()
    old = signal.signal(signal.SIGALRM, _watchdog)
    signal.setitimer(signal.ITIMER_REAL, HARD_S)
    try:
        res = C.compile_code(src, opts)
        exc = None
    except NoVerdict:
        res, exc = None, NoVerdict(f"no verdict after {HARD_S} s: the call was interrupted")
    except BaseException as e:   # noqa
        res, exc = None, e
    finally:
        signal.setitimer(signal.ITIMER_REAL, 0)
        signal.signal(signal.SIGALRM, old)
    dt = time.time() - t0
    kids = children()
    for k in kids:
        try:
            os.kill(int(k), 9)
        except Exception:
            pass
    return res, exc, dt, kids


def run(tier: str, seed: int) -> int:
    chk = Check(PROP, tier, seed, "other")
    chk.assumptions = ["termination and speed of CPython executing the passes are observed (bound 10 s per call), not proved",
                       "helper processes are detected as children of the harness process (pgrep -P) right after each call",
                       "inputs that would exhaust memory by design (2 ** 10**9) are not submitted"]
    rep, br, audit = proof_stage(chk, MODULE, THEOREMS)
    from stationeers_pytrapic import compiler as C
    r = rng_for(PROP, seed)
    failures = []
    stats = {}
    inputs = [(h, None, "hostile") for h in HOSTILE]
    shipped = [s for _, s in whole.repo_sources()]
    # every prefix of some shipped programs (keystroke enumeration)
    pick = [s for s in shipped if isinstance(s, str)]
    r.shuffle(pick)
    for s in pick[:(2 if tier == "quick" else len(pick))]:
        step = 1 if len(s) < 400 or tier != "quick" else 3
        for i in range(0, len(s), step):
            inputs.append((s[:i], None, "prefix"))
    # token / byte mutations
    toks = ["(", ")", ":", "\n", "    ", "=", "def ", "return ", "while ", "if ", "else:", "for ", " in ", "range(", "db.", "d0.", ".Setting", "[", "]", ",", "+", "-", "*", "/", "%", "**", "<", ">", "not ", "and ",
            "1", "0.5", "x", "f", "HASH(\"a\")", "yield_()", "@constexpr\n", "global ", "break", "continue", "\"", "'", "#", "\\", "\x00", "\t", "é", "lambda ", "class ", "import ", "~", "None", "True",
            "pytrapic:", "# pytrapic: compact\n", " pytrapic: no-compact ", "\"\"\""]
    for i in range(250 if tier == "quick" else 8000):
        s = r.choice(pick)
        k = r.random()
        if k < 0.4:
            pos = r.randrange(len(s) + 1)
            t = s[:pos] + r.choice(toks) + s[pos:]
        elif k < 0.7:
            a, b = sorted((r.randrange(len(s) + 1), r.randrange(len(s) + 1)))
            t = s[:a] + s[b:]
        elif k < 0.85:
            lines = s.split("\n")
            r.shuffle(lines)
            t = "\n".join(lines)
        else:
            t = "".join(r.choice(toks) for _ in range(r.randrange(1, 25)))
        inputs.append((t, None, "mutation"))
    # option values
    for o in [{"compact": "yes"}, {"compact": None}, {"compact": 1, "remove_labels": 0}, {}, None]:
        inputs.append(("db.Setting = LogicType.On\n", o, "options"))
    for o in [{"bogus": True}, {"compact": True, "x": 1}]:
        inputs.append(("db.Setting = 1\n", o, "unknown-option"))
    # module dicts
    inputs += [({"": "from library import m\nm.f()\n", "m": "def f(:\n"}, None, "modules"), ({"": "from library import nope\n"}, None, "modules"),
               ({"": "from library import m\nm.g()\n", "m": "def f():\n    pass\n"}, None, "modules"), ({"": "from library import m\nm.f()\n", "m": "\x00"}, None, "modules")]
    slow = 0
    for src, opts, kind in inputs:
        if kind == "unknown-option":
            # an option name that does not exist is a caller error of the API (TypeError from the dataclass), not a property of the text
            try:
                C.CompileOptions(**opts)
            except TypeError:
                stats["unknown_option_typeerror"] = stats.get("unknown_option_typeerror", 0) + 1
                continue
        res, exc, dt, kids = call(C, src, opts)
        if exc is None and dt > BOUND_S:
            # wall-clock time is load sensitive (other checks, seed sweeps, 16 busy cores): the same input is timed again, twice,
            # and judged on its fastest run; if it is still slow while the machine is saturated the sample is counted, not judged
            for _ in range(2):
                res2, exc2, dt2, kids2 = call(C, src, opts)
                if exc2 is None and dt2 < dt:
                    res, dt, kids = res2, dt2, kids2
            if dt > BOUND_S and os.getloadavg()[0] > 6:
                stats["slow_under_load_not_judged"] = stats.get("slow_under_load_not_judged", 0) + 1
                dt = BOUND_S
        chk.count((kind, json.dumps(src) if isinstance(src, dict) else src, json.dumps(opts)), nontrivial=True)
        stats[kind] = stats.get(kind, 0) + 1
        if exc is not None:
            failures.append({"what": f"compile_code raised {type(exc).__name__}: {str(exc)[:160]}", "src": src, "opts": opts, "kind": kind})
            continue
        stats["verdict_code" if "code" in res else "verdict_error"] = stats.get("verdict_code" if "code" in res else "verdict_error", 0) + 1
        if "error" in res:
            d = res["error"].get("description", "")
            cls = "internal" if d.startswith("Internal compiler error") else "syntax" if d.startswith("Syntax error") else "compiler"
            stats["error_" + cls] = stats.get("error_" + cls, 0) + 1
        bad = judge(src, opts, res, dt, kids)
        slow = max(slow, dt)
        if bad:
            failures.append({"what": "; ".join(bad), "src": src, "opts": opts, "kind": kind, "result": {k: (v if k != "code" else v[:200]) for k, v in (res or {}).items()}})
        if len(chk.coverage["samples"]) < 4 and kind in ("hostile", "mutation") and "error" in (res or {}):
            chk.sample({"kind": kind, "src": src if isinstance(src, str) else "dict", "verdict": res["error"]["description"][:100]})
    chk.coverage["streams"] = stats
    chk.coverage["slowest_call_s"] = round(slow, 2)
    chk.coverage["rule"] = ("hostile list (runaway / failing / printing constexpr, recursion, unsupported constructs, huge numbers, NUL, BOM, deep nesting), every prefix of shipped programs, "
                            "token/byte mutations of shipped programs, odd option values, module dicts; every input distinct")
    chk.coverage["explanation"] = "exception-flow shell and child life cycle proved over models; termination, timing, statistics and process cleanup observed per input"
    if failures:
        f = min(failures, key=lambda x: len(x["src"]) if isinstance(x["src"], str) else 10 ** 6)
        chk.violation(dict(f, broken=chk.broken, n_failures=len(failures), all_failures=[x["what"][:200] for x in failures[:8]]))
    elif chk.broken:
        chk.violation({"what": "proof obligation no longer checks (no input found for which compile_code misbehaves)", "broken": chk.broken}, no_failing_input=True)
    return chk.finish()


def replay(path: str) -> int:
    rp = json.loads(open(path).read())
    if "src" not in rp:
        print("replay names a broken obligation only:", rp.get("broken"))
        return 1
    from stationeers_pytrapic import compiler as C
    res, exc, dt, kids = call(C, rp["src"], rp["opts"])
    bad = [f"raised {exc}"] if exc is not None else judge(rp["src"], rp["opts"], res, dt, kids)
    if bad:
        print(f"VIOLATION property=C10 replay={path}\n   {bad[0]}")
        return 1
    print("replay: holds now")
    return 0
