"""C11 — a compilation's result does not depend on what was compiled before.

Theorems: PV/Props/C11.lean over the process model PV.Process — history_independent (every result of a long-lived process
equals the fresh-process result of its request, for all request sequences), step_result_fresh / step_inv (the invariant: the
constexpr memo only holds fresh-evaluation values; the hash set, once filled, is the constant), mode_is_set_from_options.
Tie: (1) global-state census — around every compile_code call of a history every module-level object of every loaded
stationeers_pytrapic module is fingerprinted; the set of cells that ever change must be ⊆ the three modelled ones;
(2) histories (mixed sources, options, errors, constexpr, repeated requests, dict sources) served by this process are
compared with the results of the same requests in fresh interpreter processes.
Also: the options object and the source mapping handed in are not modified.
"""
from __future__ import annotations

import copy
import dataclasses
import json
import os
import subprocess
import sys
import types
from concurrent.futures import ThreadPoolExecutor

from . import common, progen, whole
from .common import Check, proof_stage, rng_for

PROP = "C11"
MODULE = "PV.Props.C11"
THEOREMS = [f"PV.Props.C11.{t}" for t in ["lookup_sound", "evalM_eq", "step_result_fresh", "step_inv", "runAll_fresh", "history_independent", "mode_is_set_from_options"]]

MODELLED = {"stationeers_pytrapic.utils._output_mode", "stationeers_pytrapic.utils._eval_constexpr_cache", "stationeers_pytrapic.utils._all_hashes"}

SOURCES = [
    "db.Setting = LogicType.On\nx = WallLights.On.Sum\ndb.Mode = x\n",
    "x = db.Setting\nwhile x > 0:\n    x = x - 1\n    db.Setting = x\n    yield_()\n",
    "def f(a):\n    return a * 2\ndb.Setting = f(db.On)\ndb.On = f(3)\nwhile True:\n    yield_()\n",
    "db.Setting = HASH(\"abc\") + SlotClass.Helmet\nWallHeaters[\"Bay 1\"].On = 1\n",
    "foo(1)\n",                                                     # compiler error (undefined function)
    "this is not python ((\n",                                      # syntax error
    "# pytrapic: compact\ndb.Setting = LogicType.Temperature\nd0.Mode = LogicBatchMethod.Sum\n",
    "# pytrapic: no-compact, remove-labels\nx = 0\nwhile x < 3:\n    x += 1\n    db.Setting = x\n",
    "@constexpr\ndef k(a):\n    return a * 7\ndb.Setting = k(6)\n",
    "@constexpr\ndef k(a):\n    return a * 9\ndb.Setting = k(6)\n",       # same call text, different body
    "@constexpr\ndef k(a):\n    return HASH('x' * a)\ndb.Setting = k(2)\n",
    "for e in [3, 4]:\n    db.Setting = e\ndb.On = [1, 2, 3][db.Mode]\n",
    "@constexpr\ndef k(a):\n    raise ValueError('no')\ndb.Setting = k(1)\n",          # constexpr evaluations that fail
    "@constexpr\ndef k(a):\n    return undefined_name + a\ndb.On = 1\ndb.Setting = k(2)\n",
    "@constexpr\ndef k(a):\n    return [a]\ndb.Setting = k(1)\n",
    # constexpr results that are containers: iterated and indexed with a run-time value (jump table for 6+ elements)
    "@constexpr\ndef tab(n):\n    return [i * i + 1 for i in range(n)]\nT = tab(7)\nfor v in T:\n    db.Setting = v\ndb.On = T[db.Mode]\n",
    "@constexpr\ndef tab(n):\n    return [i + 2 for i in range(n)]\nT = tab(9)\nx = 0\nfor v in T:\n    x = x + v\ndb.Setting = x\ndb.On = T[db.Mode]\nd0.On = T[d0.Mode]\n",
    "@constexpr\ndef tab(n):\n    return [3 * i for i in range(n)]\nT = tab(4)\nfor v in T:\n    db.Setting = v\ndb.On = T[db.Mode]\n",
]
DICT_SOURCES = [
    {"": "from library import m\n# pytrapic: compact, remove-labels\ndb.Setting = m.g(db.On)\ndb.On = m.g(2)\n", "m": "def g(a):\n    return a + LogicType.On\n"},
    {"": "from library import m\nm.h()\nm.h()\n", "m": "v = 0\ndef h():\n    global v\n    v = v + 1\n    db.Setting = v\n"},
]


def fingerprint(obj, depth=0, seen=None):
    """structural fingerprint of module-level state: containers and package objects by content (bounded depth), functions/classes/modules by identity"""
    seen = seen if seen is not None else set()
    if isinstance(obj, (int, float, str, bytes, bool, type(None))):
        return repr(obj)
    if isinstance(obj, (types.FunctionType, types.BuiltinFunctionType, types.ModuleType, type, types.MethodType, property, staticmethod, classmethod)):
        return f"<{type(obj).__name__}@{id(obj)}>"
    if id(obj) in seen or depth > 4:
        return f"<{type(obj).__name__}…>"
    seen.add(id(obj))
    try:
        if isinstance(obj, dict):
            items = sorted(((fingerprint(k, depth + 1, seen), fingerprint(v, depth + 1, seen)) for k, v in list(obj.items())[:20000]))
            return "{" + ",".join(f"{k}:{v}" for k, v in items) + "}"
        if isinstance(obj, (list, tuple)):
            return "[" + ",".join(fingerprint(x, depth + 1, seen) for x in obj[:20000]) + "]"
        if isinstance(obj, (set, frozenset)):
            return "s{" + ",".join(sorted(fingerprint(x, depth + 1, seen) for x in obj)) + "}"
        d = getattr(obj, "__dict__", None)
        if isinstance(d, dict) and type(obj).__module__.startswith("stationeers_pytrapic"):
            return f"<{type(obj).__name__} " + fingerprint(d, depth + 1, seen) + ">"
    except Exception:
        pass
    return f"<{type(obj).__name__}>"


def census():
    cells = {}
    for mname, mod in list(sys.modules.items()):
        if mname.startswith("stationeers_pytrapic") and mod is not None:
            for k, v in list(vars(mod).items()):
                if k.startswith("__") and k.endswith("__"):
                    continue
                cells[f"{mname}.{k}"] = fingerprint(v)
    return cells


FRESH = r"""
import sys, json, dataclasses
sys.path.insert(0, sys.argv[1])
from stationeers_pytrapic.compiler import compile_code
from stationeers_pytrapic.compile_pass import CompileOptions
req = json.loads(sys.stdin.read())
src = req["src"]
opts = req["opts"]
o = CompileOptions(**opts) if opts is not None else None
res = compile_code(src, o)
if "error" in res:
    res["error"].pop("stack_trace", None)
print("\n##RESULT##" + json.dumps(res))
"""


def fresh_result(req, hashseed):
    env = dict(os.environ)
    env["PYTHONHASHSEED"] = str(hashseed)
    p = subprocess.run(["/venv/bin/python", "-c", FRESH, str(common.REPO / "src")], input=json.dumps(req), capture_output=True, text=True, env=env, timeout=300)
    if "##RESULT##" not in p.stdout:
        return {"fresh_process_failed": p.stderr[-400:]}
    return json.loads(p.stdout.split("##RESULT##", 1)[1])


def norm(res):
    res = json.loads(json.dumps(res))
    if "error" in res:
        res["error"].pop("stack_trace", None)
    return res


def gen_history(r, tier):
    n = r.choice([2, 3, 4, 6, 8] if tier == "quick" else [2, 4, 8, 16, 40])
    reqs = []
    for _ in range(n):
        if reqs and r.random() < 0.3:
            reqs.append(copy.deepcopy(r.choice(reqs)))      # repeated request
            continue
        src = copy.deepcopy(r.choice(DICT_SOURCES)) if r.random() < 0.2 else r.choice(SOURCES)
        if isinstance(src, str) and r.random() < 0.35:
            # the same program further down the file: positions in error reports move, nothing else does
            src = "".join(r.choice(["# note\n", "\n", "# pytrapic-free comment\n"]) for _ in range(r.randrange(1, 4))) + src
        k = r.random()
        opts = None if k < 0.15 else whole.random_opts(r)
        if opts is not None:
            opts["append_version"] = False
        reqs.append({"src": src, "opts": opts})
    return reqs


def run(tier: str, seed: int) -> int:
    chk = Check(PROP, tier, seed, "proof")
    chk.assumptions = ["the passes are an uninterpreted deterministic function of (source, options, output mode, constexpr evaluator, hash set) — that no OTHER module-level state carries over is established by the census, not by a theorem",
                       "astroid's own caches and CPython internals are outside the census; their effect is visible only through the fresh-process comparison",
                       "results are compared after dropping 'stack_trace' (contains addresses / paths)"]
    rep, br, audit = proof_stage(chk, MODULE, THEOREMS)
    from stationeers_pytrapic import compiler as C
    r = rng_for(PROP, seed)
    failures = []
    changed_cells = {}
    known_ids = {f["id"] for f in chk.known}
    n_hist = 14 if tier == "quick" else 300
    histories = [gen_history(r, tier) for _ in range(n_hist)]
    # a few scripted histories around the cells of the model
    histories.append([{"src": "foo(1)\n", "opts": whole.default_opts(compact=True, append_version=False)},
                      {"src": SOURCES[0], "opts": whole.default_opts(compact=False, append_version=False)},
                      {"src": SOURCES[3], "opts": whole.default_opts(compact=False, append_version=False)}])
    histories.append([{"src": SOURCES[8], "opts": None}, {"src": SOURCES[9], "opts": None}, {"src": SOURCES[8], "opts": None}])
    histories.append([{"src": copy.deepcopy(DICT_SOURCES[0]), "opts": whole.default_opts(append_version=False)}, {"src": SOURCES[0], "opts": whole.default_opts(append_version=False)}])
    distinct = {}
    in_process = []
    for hi, reqs in enumerate(histories):
        for ri, req in enumerate(reqs):
            src_before = copy.deepcopy(req["src"])
            o = C.CompileOptions(**req["opts"]) if req["opts"] is not None else None
            o_before = dataclasses.asdict(o) if o is not None else None
            before = census()
            try:
                res = C.compile_code(req["src"], o)
            except Exception as e:
                failures.append({"what": f"compile_code raised {type(e).__name__}: {e}", "history": reqs[:ri + 1]})
                continue
            after = census()
            for k in after:
                if before.get(k) != after[k]:
                    changed_cells[k] = changed_cells.get(k, 0) + 1
            for k in before:
                if k not in after:
                    changed_cells[k] = changed_cells.get(k, 0) + 1
            if o is not None and dataclasses.asdict(o) != o_before:
                failures.append({"what": f"compile_code modified the options object it was given: {o_before} → {dataclasses.asdict(o)}", "history": reqs[:ri + 1]})
            if req["src"] != src_before:
                failures.append({"what": f"compile_code modified the source mapping it was given: keys {sorted(src_before) if isinstance(src_before, dict) else '-'} → "
                                         f"{sorted(req['src']) if isinstance(req['src'], dict) else '-'}", "history": copy.deepcopy(reqs[:ri]) + [dict(req, src=src_before)]})
                req["src"] = copy.deepcopy(src_before)      # the rest of this run (keys, samples, fresh processes) uses the request as it was submitted
            key = json.dumps(req, sort_keys=True)
            chk.count((hi, ri, key), nontrivial=ri > 0)
            in_process.append((hi, ri, key, norm(res)))
            distinct.setdefault(key, req)
        if len(chk.coverage["samples"]) < 2:
            chk.sample({"history": [{"src": (q["src"] if isinstance(q["src"], str) else q["src"][""])[:60], "opts": [k for k, v in (q["opts"] or {}).items() if v]} for q in reqs]})
    # same request again in the same process must give the same result (first occurrence vs later ones)
    first = {}
    for hi, ri, key, res in in_process:
        if key in first and first[key][2] != res and not common.load_timeout_result(first[key][2], res):
            failures.append({"what": f"the same request gives a different result later in the same process (history {first[key][0]} request {first[key][1]} vs history {hi} request {ri})",
                             "history": histories[hi][:ri + 1], "first": first[key][2], "later": res})
        first.setdefault(key, (hi, ri, res))
    # fresh processes (random hash seeds)
    keys = list(distinct)
    if tier == "quick" and len(keys) > 48:
        keys = keys[:48]
    with ThreadPoolExecutor(12) as ex:
        fresh = dict(zip(keys, ex.map(lambda k: fresh_result(distinct[k], r.randrange(1, 1 << 20)), keys)))
    for k in keys:
        f = fresh[k]
        if common.load_timeout_result(f):
            # the transpiler gives its constexpr child 1 s; under the load of the parallel fresh processes that is an
            # artefact of this run, not of the code: retry alone, and leave the request out if it still times out
            f = fresh[k] = fresh_result(distinct[k], 7)
            if common.load_timeout_result(f):
                chk.bump("fresh_constexpr_timeouts_skipped")
                continue
        if "fresh_process_failed" in f:
            raise common.Infra("fresh interpreter failed: " + f["fresh_process_failed"])
        hi, ri, res = first[k]
        if common.load_timeout_result(res):
            # the in-process compile itself ran into the 1 s child timeout (machine load): not comparable
            chk.bump("in_process_constexpr_timeouts_skipped")
            continue
        if f != res:
            src = distinct[k]["src"]
            if isinstance(src, dict) and len(src) > 2 and "F-C11-b" in known_ids:
                chk.known_finding("F-C11-b", "register numbering depends on PYTHONHASHSEED with several library modules")
                continue
            failures.append({"what": f"result in the long-lived process (history {hi}, request {ri}) differs from the result of the same request in a fresh process", "history": histories[hi][:ri + 1],
                             "in_process": res, "fresh": f})
    chk.coverage["fresh_processes"] = len(keys)
    # census verdict
    surprise = sorted(c for c in changed_cells if c not in MODELLED)
    chk.coverage["cells_that_changed"] = changed_cells
    if surprise:
        chk.broken.append(f"global-state census: module-level cells outside the model changed across compile_code calls: {surprise[:6]}")
    # witness of F-C11-b: three library modules with module-level variables under different hash seeds
    lib = lambda n: f"v{n} = 0\ndef h():\n    global v{n}\n    v{n} = v{n} + 1\n    db.Setting = v{n}\n"
    wsrc = {"": "from library import ma\nfrom library import mb\nfrom library import mc\nma.h()\nmb.h()\nmc.h()\nma.h()\nmb.h()\nmc.h()\n", "ma": lib(1), "mb": lib(2), "mc": lib(3)}
    outs = {json.dumps(fresh_result({"src": wsrc, "opts": whole.default_opts(append_version=False)}, hs), sort_keys=True) for hs in (1, 2, 3, 4, 5, 6)}
    if len(outs) > 1:
        if "F-C11-b" in known_ids:
            chk.known_finding("F-C11-b", f"three library modules with module-level variables: {len(outs)} different outputs under 6 values of PYTHONHASHSEED (set iteration order in register_assignment)")
        else:
            failures.append({"what": "the result depends on PYTHONHASHSEED", "history": [{"src": wsrc, "opts": whole.default_opts(append_version=False)}]})
    chk.coverage["rule"] = ("request histories over sources with enums/hashes (mode-sensitive), errors, pragmas, constexpr functions with equal call text and different bodies, library-module dicts, "
                            "repeated requests; non-trivial = a request that is not the first of its history; each distinct request also compiled in a fresh interpreter under a random PYTHONHASHSEED")
    chk.coverage["explanation"] = "history independence proved over the process model; the model's completeness (no other surviving cell) checked by the census; histories compared with fresh processes"
    if failures:
        f = min(failures, key=lambda x: len(json.dumps(x.get("history", ""))))
        chk.violation(dict(f, broken=chk.broken, n_failures=len(failures), all_failures=[x["what"][:200] for x in failures[:8]]))
    elif chk.broken:
        chk.violation({"what": "proof obligation or census no longer checks (no history found whose result differs from the fresh-process result)", "broken": chk.broken}, no_failing_input=True)
    return chk.finish()


def replay(path: str) -> int:
    rp = json.loads(open(path).read())
    if "history" not in rp:
        print("replay names a broken obligation only:", rp.get("broken"))
        return 1
    from stationeers_pytrapic import compiler as C
    last = None
    bad = False
    for req in rp["history"]:
        o = C.CompileOptions(**req["opts"]) if req["opts"] is not None else None
        ob = dataclasses.asdict(o) if o is not None else None
        given = copy.deepcopy(req["src"])
        last = norm(C.compile_code(given, o))
        if o is not None and dataclasses.asdict(o) != ob:
            bad = True
        if given != req["src"]:          # the source mapping handed to compile_code was modified
            bad = True
    f = fresh_result(rp["history"][-1], 1)
    if bad or f != last:
        print(f"VIOLATION property=C11 replay={path}")
        return 1
    print("replay: holds now")
    return 0
