"""C12 — constexpr calls are replaced by exactly what the function returns.   (partial)

Theorems: PV/Props/C12.lean — forbidden_word_rejected (a constexpr source containing open / eval / exec as a whole word is
rejected, every source and position), script_position_independent, int_result_roundtrip.
Tie: correspondence of the scan model with the real check_constexpr_function on generated texts.
Oracle on the real transpiler: a program with a call of a generated @constexpr function must compile to exactly the code of the
same program with the call replaced by the literal value that calling the function returns in this interpreter (and the
function definition removed): the call is replaced by what the function returns and the decorated function emits nothing —
at several call positions (top level, nested in an expression, as an argument, inside a function body) and with positional /
keyword arguments; a process-level history (same call text, edited body) checks the value is not taken from an older function.
"""
from __future__ import annotations

import json
import re

from . import common, whole
from .common import Check, Driver, proof_stage, rng_for

PROP = "C12"
MODULE = "PV.Props.C12"
THEOREMS = [f"PV.Props.C12.{t}" for t in ["scan_append", "forbidden_word_rejected", "scan_prefix_irrelevant", "script_position_independent", "int_result_roundtrip"]]

BODIES = [
    ("a, b", "return a * {c} + b"),
    ("a, b", "return (a << 8) | b"),
    ("a, b=3", "if a > {c}:\n        return a - b\n    return a + b"),
    ("a, b", "t = 0\n    for i in range(a):\n        t += i * {c} + b\n    return t"),
    ("a, b", "return HASH(\"{s}\" + str(a)) + b"),
    ("a, b", "return HASH(\"{s}\") % 1000 + a * b"),
    ("a, b", "return int(LogicType.{lt}) * a + b"),
    ("a, b", "return (a + b) / {d}"),
    ("a, b", "return len(\"{s}\") * a - b"),
    ("a, b", "xs = [a, b, {c}]\n    return max(xs) * 10 + min(xs)"),
    ("a, b", "return a ** 2 + b // 2"),
    ("a, b=2", "return -(a * b) - {c}"),
]
POSITIONS = ["top", "expr", "arg", "func", "twice"]


def make(r):
    params, body = r.choice(BODIES)
    c = r.choice([2, 3, 7, 10, 12345])
    body = body.format(c=c, s=r.choice(["abc", "Item Iron", "x"]), lt=r.choice(["On", "Setting", "Temperature"]), d=r.choice([4, 8, 3, 7]))
    a, b = r.choice([0, 1, 2, 5, 9, 17]), r.choice([0, 1, 3, 4, 250])
    kw = r.random() < 0.3
    call = f"k(a={a}, b={b})" if kw else (f"k({a})" if "b=" in params and r.random() < 0.4 else f"k({a}, {b})")
    fdef = f"@constexpr\ndef k({params}):\n    {body}\n"
    return fdef, call, params, body


def expected_value(fdef_plain: str, call: str):
    ns = {}
    exec("from stationeers_pytrapic.symbols import *\nfrom stationeers_pytrapic.types import *\nfrom stationeers_pytrapic.types_generated import *\n"
         "from stationeers_pytrapic.utils import calc_hash as HASH\n", ns, ns)
    exec(fdef_plain, ns, ns)
    return eval(call, ns, ns)


def programs(fdef, call, value, pos):
    """(program with the constexpr call, program with the literal value and no constexpr function)"""
    lit = repr(value)
    if pos == "top":
        body = "db.Setting = {X}\ndb.On = 1\n"
    elif pos == "expr":
        body = "x = db.Mode\ndb.Setting = x * 2 + {X}\n"
    elif pos == "arg":
        body = "def f(p, q):\n    db.Setting = p + q\nf(db.On, {X})\nf(1, 2)\n"
    elif pos == "func":
        body = "def f(p):\n    db.Setting = p + {X}\nf(db.On)\nf(3)\n"
    else:
        body = "db.Setting = {X}\ndb.Mode = {X}\nd0.On = db.On\n"
    return fdef + body.replace("{X}", call), body.replace("{X}", lit)


def run(tier: str, seed: int) -> int:
    chk = Check(PROP, tier, seed, "other")
    chk.assumptions = ["'what the function returns under ordinary Python evaluation' is obtained by evaluating the same function in the harness interpreter (an external parameter of the model)",
                       "results are numbers (int / float); a boolean result is spelled True/False (known finding F-C09-a), a library module calling its own constexpr unqualified fails (known finding F-C12-a)",
                       "a constexpr child that exceeds the transpiler's own 1 s timeout on a loaded machine is skipped and counted"]
    rep, br, audit = proof_stage(chk, MODULE, THEOREMS)
    from stationeers_pytrapic import compile_pass as CP
    drv = Driver()
    r = rng_for(PROP, seed)
    failures, diffs = [], []
    stats = {}
    known_ids = {f["id"] for f in chk.known}
    # -- correspondence of the forbidden-word scan ------------------------------------------------------------------------------
    words = ["open", "eval", "exec", "opened", "evaluate", "exec_", "_open", "reopen", "x", "(", ")", " ", "\n", ".", "'", "=", "1", "é", "open1", "Eval"]
    pas = CP.CompilerPassHandleConstexpr.__new__(CP.CompilerPassHandleConstexpr)

    class FakeNode:
        def __init__(self, t):
            self.t = t
            self.lineno = 1
            self.col_offset = 0

        def as_string(self):
            return self.t
    for i in range(1500 if tier == "quick" else 60000):
        t = "".join(r.choice(words) for _ in range(r.randrange(0, 7)))
        try:
            pas.check_constexpr_function(FakeNode(t))
            real = False
        except Exception:
            real = True
        m = drv.call(cmd="forbidden", src=[ord(c) for c in t])
        chk.count(("scan", t), nontrivial=any(w in t for w in ("open", "eval", "exec")))
        if m != real:
            diffs.append({"stream": "hasForbidden vs check_constexpr_function", "text": t, "model": m, "real": real})
    # rejected at compile level
    for w in ["open", "eval", "exec"]:
        for body in [f"return {w}('1')", f"g = {w}\n    return 1", f"return list(map({w}, ['1']))[0]", f"return 1  if a else {w}"]:
            src = f"@constexpr\ndef k(a):\n    {body}\ndb.Setting = k(1)\n"
            res = whole.compile_real(src, whole.default_opts(append_version=False))
            chk.count(("reject", src))
            if "error" not in res or "open, eval or exec" not in res["error"]["description"]:
                failures.append({"what": f"a constexpr function containing '{w}' is not rejected: {str(res)[:160]}", "src": src, "opts": whole.default_opts(append_version=False)})
    # -- the value oracle ----------------------------------------------------------------------------------------------------------
    n = 45 if tier == "quick" else 3000
    done = 0
    tries = 0
    while done < n and tries < n * 4:
        tries += 1
        fdef, call, params, body = make(r)
        try:
            value = expected_value(fdef.replace("@constexpr\n", ""), call)
        except Exception:
            continue
        if isinstance(value, bool) or not isinstance(value, (int, float)) or (isinstance(value, float) and (value != value or abs(value) > 1e15)):
            continue
        pos = r.choice(POSITIONS)
        with_call, with_lit = programs(fdef, call, value, pos)
        opts = whole.default_opts(append_version=False, inline_functions=r.random() < 0.5, compact=r.random() < 0.3)
        a = whole.compile_real(with_call, opts)
        if "error" in a and common.load_timeout(a["error"]["description"]):
            stats["timeouts_skipped"] = stats.get("timeouts_skipped", 0) + 1
            continue
        b = whole.compile_real(with_lit, opts)
        done += 1
        stats["pos_" + pos] = stats.get("pos_" + pos, 0) + 1
        chk.count(("value", with_call), nontrivial=True)
        if len(chk.coverage["samples"]) < 3:
            chk.sample({"program": with_call, "value": value, "code": a.get("code", a.get("error"))})
        if "error" in a or "error" in b:
            if ("error" in a) != ("error" in b):
                failures.append({"what": f"{call} (= {value!r}) at position '{pos}': " + ("the program with the constexpr call is rejected: " + a["error"]["description"][:150] if "error" in a else "only the literal form is rejected"),
                                 "src": with_call, "src_literal": with_lit, "opts": opts})
            continue
        if a["code"] != b["code"]:
            failures.append({"what": f"{call} returns {value!r} in Python, but the program is not compiled like the program with that literal (position '{pos}')", "src": with_call, "src_literal": with_lit,
                             "opts": opts, "code": a["code"], "code_literal": b["code"]})
    # -- library modules: a constexpr function of a library with the SAME NAME as one of the main file; both are called ----------------
    n_lib = 16 if tier == "quick" else 1000
    done = tries = 0
    while done < n_lib and tries < n_lib * 4:
        tries += 1
        fdef1, call, params, body1 = make(r)
        fdef2, _, params2, body2 = make(r)
        if params2 != params or body2 == body1:
            continue
        try:
            v1 = expected_value(fdef1.replace("@constexpr\n", ""), call)
            v2 = expected_value(fdef2.replace("@constexpr\n", ""), call)
        except Exception:
            continue
        if any(isinstance(v, bool) or not isinstance(v, (int, float)) or (isinstance(v, float) and (v != v or abs(v) > 1e15)) for v in (v1, v2)) or v1 == v2:
            continue
        form = r.choice(["main_first", "lib_first", "in_func"])
        if form == "main_first":
            body = "db.Setting = {A}\ndb.On = {B}\n"
        elif form == "lib_first":
            body = "db.On = {B}\ndb.Setting = {A} + 1\n"
        else:
            body = "def f(p):\n    db.Setting = p + {A}\n    db.On = {B}\nf(db.Mode)\nf(2)\n"
        with_call = {"": "from library import m\n" + fdef1 + body.replace("{A}", call).replace("{B}", "m." + call), "m": fdef2}
        with_lit = body.replace("{A}", repr(v1)).replace("{B}", repr(v2))
        opts = whole.default_opts(append_version=False, inline_functions=r.random() < 0.5)
        a = whole.compile_any(with_call, opts)
        if "error" in a and common.load_timeout(a["error"]["description"]):
            stats["timeouts_skipped"] = stats.get("timeouts_skipped", 0) + 1
            continue
        b = whole.compile_real(with_lit, opts)
        done += 1
        stats["pos_library_" + form] = stats.get("pos_library_" + form, 0) + 1
        chk.count(("value-lib", json.dumps(with_call)), nontrivial=True)
        if "error" in a or "error" in b:
            if ("error" in a) != ("error" in b):
                failures.append({"what": f"{call} / m.{call} (= {v1!r} / {v2!r}): " + ("the program with the constexpr calls is rejected: " + a["error"]["description"][:150] if "error" in a else "only the literal form is rejected"),
                                 "src": with_call, "src_literal": with_lit, "opts": opts})
            continue
        if a["code"] != b["code"]:
            failures.append({"what": f"main-file {call} returns {v1!r} and library m.{call} returns {v2!r} in Python, but the program is not compiled like the program with those literals",
                             "src": with_call, "src_literal": with_lit, "opts": opts, "code": a["code"], "code_literal": b["code"]})
    # -- history: same call text, edited body -----------------------------------------------------------------------------------------
    h1 = whole.compile_real("@constexpr\ndef scale(n):\n    return n * 100 + 2\ndb.Setting = scale(3)\n", whole.default_opts(append_version=False))
    h2 = whole.compile_real("@constexpr\ndef scale(n):\n    return n * 5 + 4\ndb.Setting = scale(3)\n", whole.default_opts(append_version=False))
    if "code" in h1 and "code" in h2:
        chk.count(("history", "scale"))
        if "302" not in h1["code"] or "19" not in h2["code"].split():
            failures.append({"what": f"after compiling scale(3) with one body, the edited body gives {h2['code']!r} (Python: 19)", "src": "@constexpr\ndef scale(n):\n    return n * 5 + 4\ndb.Setting = scale(3)\n",
                             "src_literal": "db.Setting = 19\n", "opts": whole.default_opts(append_version=False), "history": True})
    # -- witness F-C12-a ------------------------------------------------------------------------------------------------------------------
    wsrc = {"": "from library import m\nm.f()\nm.f()\n", "m": "@constexpr\ndef k(a):\n    return a * 3\ndef f():\n    db.Setting = k(2)\n"}
    w = whole.compile_real(wsrc[""], whole.default_opts(append_version=False), modules={k: v for k, v in wsrc.items() if k})
    if "error" in w and "Timeout" not in w["error"]["description"]:
        if "F-C12-a" in known_ids:
            chk.known_finding("F-C12-a", "a library module calling its own constexpr function unqualified is rejected (" + w["error"]["description"].split("\n")[0][:100] + ")")
        else:
            failures.append({"what": "library-module constexpr call rejected: " + w["error"]["description"][:200], "src": wsrc[""], "src_literal": "", "opts": whole.default_opts(append_version=False)})
    drv.close()
    chk.coverage["streams"] = stats
    chk.coverage["rule"] = ("token soups over the scanner's alphabet (non-trivial when a forbidden word occurs); 12 function-body templates (arithmetic, bit packing, conditionals, loops, HASH, enums, division, "
                            "defaults) × argument values × positional/keyword calls × 5 call positions × inlining/compact options: program with the call vs program with the literal; each distinct call spawns the transpiler's child interpreter")
    chk.coverage["explanation"] = "scan theorem proved and tied by correspondence; values judged by compiling the literal-substituted program with the real transpiler"
    if diffs:
        chk.broken.append(f"correspondence differs on {len(diffs)} cases; first: {json.dumps(diffs[0])[:300]}")
    if failures:
        f = min(failures, key=lambda x: len(x["src"]))
        chk.violation(dict(f, broken=chk.broken, n_failures=len(failures), all_failures=[x["what"][:200] for x in failures[:8]]))
    elif chk.broken:
        chk.violation({"what": "proof obligation or correspondence no longer checks (no constexpr call found that is replaced by a wrong value)", "broken": chk.broken,
                       "first_difference": diffs[0] if diffs else None}, no_failing_input=True)
    return chk.finish()


def replay(path: str) -> int:
    rp = json.loads(open(path).read())
    if "src" not in rp:
        print("replay names a broken obligation only:", rp.get("broken"))
        return 1
    if rp.get("history"):
        whole.compile_real("@constexpr\ndef scale(n):\n    return n * 100 + 2\ndb.Setting = scale(3)\n", rp["opts"])
    a = whole.compile_real(rp["src"], rp["opts"])
    if not rp.get("src_literal"):
        bad = "error" not in a
    else:
        b = whole.compile_real(rp["src_literal"], rp["opts"])
        bad = a.get("code") != b.get("code")
    print(f"VIOLATION property=C12 replay={path}" if bad else "replay: holds now")
    return 1 if bad else 0
