"""C13 — library modules behave like the same code written in the main file.   (partial)

Theorems: PV/Props/C13.lean — scope_keys_disjoint (symbol-table keys of different library modules never coincide: equal names
never share storage), name_is_not_main_in_library (`__name__ == "__main__"` is false inside a library), module_head,
mangle_injective_partial.
Tie: the scope keys the real transpiler uses for the symbols of generated split programs (captured allocator input) must be
the model's keys; library top-level `__name__` blocks and uncalled functions must emit nothing.
Oracle on the real transpiler: a generated program split over 1–3 library modules (equal variable / function names in
different modules, aliases, `__main__` blocks, uncalled functions, constants also assigned in the `__main__` block) and the
single-file program obtained by prefixing every library-level name with the module name are both compiled under several
option vectors and run on the IC10 machine against the same environments: the effect traces must be equal.
"""
from __future__ import annotations

import json
import re

from . import common, whole
from .common import Check, Driver, proof_stage, rng_for

PROP = "C13"
MODULE = "PV.Props.C13"
THEOREMS = [f"PV.Props.C13.{t}" for t in ["module_head", "scope_keys_disjoint", "name_is_not_main_in_library", "mangle_injective_partial"]]

MODNAMES = ["heat", "pump", "ma", "mb", "clock", "lights"]
ALIASES = ["h", "p", "a2", "lib", "unit"]


def gen_split(r):
    """→ (modules dict in import order with "" first, merged single-file source, description)"""
    k = r.randrange(1, 4)
    mods = r.sample(MODNAMES, k)
    alias = {m: (r.choice(ALIASES) + str(i) if r.random() < 0.35 else None) for i, m in enumerate(mods)}
    lib_src, merged_top, merged_funcs = {}, [], []
    same_names = r.random() < 0.7          # the same variable / function names in every module
    use_dev = r.random() < 0.5
    info = {}
    for i, m in enumerate(mods):
        v = "v" if same_names else f"v{i}"
        bump = "bump" if same_names else f"bump{i}"
        getf = "probe" if same_names else f"probe{i}"
        limit_c = r.choice([40, 7, 100])
        init = r.choice(["0", f"d{i}.Mode", "db.On + 1"])
        has_get = r.random() < 0.6
        has_limit = r.random() < 0.6
        P = (alias[m] or m)
        # a module-level DEVICE variable used inside the library's functions; the main script may bind the same name to another device
        dev = ("dev" if same_names else f"dev{i}") if use_dev else None
        target = dev if dev else f"d{i}"
        L = [f"{v} = {init}"]
        if dev:
            L.append(f"{dev} = d{i}")
        if has_limit:
            L.append(f"limit = {limit_c}")
        early = r.random() < 0.5                # a return that is not the last statement of the library function
        L += ["", f"def {bump}(a):", f"    global {v}"]
        if early:
            L += [f"    if a > {r.choice([2, 50])}:", f"        d{i}.On = a", "        return"]
        L += [f"    {v} = {v} + a * {i + 2}"]
        if has_limit:
            L += [f"    if {v} > limit:", f"        {v} = {v} - limit"]
        L += [f"    {target}.Setting = {v}", ""]
        if has_get:
            L += [f"def {getf}(b):", f"    return {v} * 2 + b", ""]
        L += ["def unused(a):", f"    d5.On = a + {i}", "", "if __name__ == \"__main__\":", f"    d4.On = {90 + i}", f"    {bump}(5)"]
        if has_limit and r.random() < 0.7:
            L.append("    limit = 5")
        lib_src[m] = "\n".join(L) + "\n"
        # the same code with every library-level name prefixed (module name as the transpiler renames it: alias if given)
        M = [f"{P}_{v} = {init}"]
        if dev:
            M.append(f"{P}_{dev} = d{i}")
        if has_limit:
            M.append(f"{P}_limit = {limit_c}")
        merged_top += M
        F = [f"def {P}_{bump}(a):", f"    global {P}_{v}"]
        if early:
            F += L[L.index(f"    global {v}") + 1:L.index(f"    global {v}") + 4]
        F += [f"    {P}_{v} = {P}_{v} + a * {i + 2}"]
        if has_limit:
            F += [f"    if {P}_{v} > {P}_limit:", f"        {P}_{v} = {P}_{v} - {P}_limit"]
        F += [f"    {(P + '_' + dev) if dev else f'd{i}'}.Setting = {P}_{v}", ""]
        if has_get:
            F += [f"def {P}_{getf}(b):", f"    return {P}_{v} * 2 + b", ""]
        merged_funcs += F
        info[m] = dict(P=P, v=v, bump=bump, get=getf if has_get else None)
    main, mmain = [], []
    for m in mods:
        main.append(f"from library import {m}" + (f" as {alias[m]}" if alias[m] else ""))
    own_dev = use_dev and r.random() < 0.7     # the main script's own device variable of the same name, bound before the calls
    pre = (["dev = d3", "dev.On = 1"] if own_dev else [])
    main += pre + ["v = db.Mode", "x = 0", "while x < 3:", "    x = x + 1"]
    mmain += pre + ["v = db.Mode", "x = 0", "while x < 3:", "    x = x + 1"]
    for m in mods:
        I = info[m]
        arg = r.choice(["x", "v", "x + v", "2"])
        main.append(f"    {I['P']}.{I['bump']}({arg})")
        mmain.append(f"    {I['P']}_{I['bump']}({arg})")
        if I["get"]:
            main.append(f"    db.Setting = {I['P']}.{I['get']}(x) + v")
            mmain.append(f"    db.Setting = {I['P']}_{I['get']}(x) + v")
        if r.random() < 0.5:
            main.append(f"    {I['P']}.{I['bump']}(x * 2)")
            mmain.append(f"    {I['P']}_{I['bump']}(x * 2)")
    tail = (["    dev.Mode = x"] if own_dev else [])
    main += tail + ["    yield_()", "db.Power = v", "while True:", "    yield_()"]
    mmain += tail + ["    yield_()", "db.Power = v", "while True:", "    yield_()"]
    src = {"": "\n".join(main) + "\n"}
    for m in mods:
        src[m] = lib_src[m]
    merged = "\n".join(merged_top + [""] + merged_funcs + mmain) + "\n"
    return src, merged, {"modules": mods, "alias": alias, "same_names": same_names}


def trace_of(drv, code, seed, steps):
    d = drv.call(cmd="run-ic10", text=code, seed=seed, steps=steps, pool=[0.0, 1.0, 2.0, 3.0, 5.0, 8.0, 50.0])
    if "parse_error" in d:
        return None, d["parse_error"]
    return d["trace"], d


def run(tier: str, seed: int) -> int:
    chk = Check(PROP, tier, seed, "other")
    chk.assumptions = ["the single-file form is built by the harness (library-level names prefixed with the module name / alias, `__main__` blocks and uncalled functions dropped, library top-level code first in import order)",
                       "both forms are compiled by the same transpiler: defects common to both cancel; PV.IC10 machine is a trusted specification",
                       "generated libraries keep one register-held variable per module and are called from the main top level only (known findings on the pinned tree: library globals with disjoint line ranges share a register; "
                       "main-file functions cannot call library functions; push/pop convention with nested library calls)"]
    rep, br, audit = proof_stage(chk, MODULE, THEOREMS)
    drv = Driver()
    r = rng_for(PROP, seed)
    failures, diffs = [], []
    stats = {}
    n = 70 if tier == "quick" else 1500
    steps = 2500 if tier == "quick" else 10000
    for i in range(n):
        src, merged, desc = gen_split(r)
        vecs = [whole.default_opts(append_version=False, inline_functions=False), whole.default_opts(append_version=False),
                whole.default_opts(append_version=False, inline_functions=False, compact=True, remove_labels=r.random() < 0.5)]
        for opts in vecs[:(2 if tier == "quick" else 3)]:
            try:
                a, cap = whole.compile_captured(dict(src), opts)
            except Exception as e:
                failures.append({"what": f"compile_code raised {type(e).__name__}: {e}", "src": src, "merged": merged, "opts": opts})
                continue
            b = whole.compile_any(merged, opts)
            if "error" in a or "error" in b:
                stats["compile_errors"] = stats.get("compile_errors", 0) + 1
                if ("error" in a) != ("error" in b):
                    failures.append({"what": "only one of the two forms compiles: " + str((a.get("error") or b.get("error"))["description"])[:200], "src": src, "merged": merged, "opts": opts})
                continue
            chk.count((json.dumps(src), json.dumps(opts)), nontrivial=len(desc["modules"]) > 1 or desc["same_names"])
            stats[f"modules_{len(desc['modules'])}"] = stats.get(f"modules_{len(desc['modules'])}", 0) + 1
            if any(desc["alias"].values()):
                stats["with_alias"] = stats.get("with_alias", 0) + 1
            if len(chk.coverage["samples"]) < 2:
                chk.sample({"split": src, "merged": merged, "opts": [k for k, v in opts.items() if v]})
            # tie: scope keys
            for s in cap.symbols:
                sc = s["scope"]
                parts = sc.split(".") if sc else [""]
                modname = parts[0] if parts[0] in [desc["alias"][m] or m for m in desc["modules"]] else ""
                func = (parts[1] if len(parts) > 1 else None) if modname else (parts[0] if parts[0] else None)
                mk = drv.call(cmd="scopekey", module=modname, **({"func": func} if func else {}))
                if mk["key"] != sc:
                    diffs.append({"stream": "scopeKey vs get_scope_name", "real": sc, "model": mk["key"]})
            # uncalled functions and __main__ blocks contribute nothing
            code_a = "\n".join(l.split("#")[0] for l in a["code"].split("\n"))
            if re.search(r"\bunused\b", code_a) or re.search(r"\bs d4 (On|28) 9\d\b", code_a) or re.search(r"\bs d5 ", code_a):
                failures.append({"what": "an uncalled library function or a library's __main__ block contributes instructions", "src": src, "merged": merged, "opts": opts, "code_split": a["code"]})
                continue
            for es in (1, 2):
                ta, da = trace_of(drv, a["code"], es, steps)
                tb, db_ = trace_of(drv, b["code"], es, steps)
                if ta is None or tb is None:
                    stats["unparsed"] = stats.get("unparsed", 0) + 1
                    break
                m = min(len(ta), len(tb))
                if ta[:m] != tb[:m] or (m < 8):
                    j = next((q for q in range(m) if ta[q] != tb[q]), m)
                    failures.append({"what": f"the split program and the single-file program behave differently (traces of {len(ta)} / {len(tb)} effects, first difference at effect {j}: "
                                             f"{ta[j] if j < len(ta) else None} vs {tb[j] if j < len(tb) else None})", "src": src, "merged": merged, "opts": opts, "env_seed": es,
                                     "code_split": a["code"], "code_merged": b["code"], "steps": steps})
                    break
    drv.close()
    chk.coverage["streams"] = stats
    chk.coverage["rule"] = ("generated splits over 1–3 library modules (70 % with the same variable and function names in every module, 35 % imported under an alias, `__main__` blocks, uncalled functions, constants re-assigned in the "
                            "`__main__` block) vs the prefixed single-file program, under 2–3 option vectors and 2 environments; non-trivial = several modules or colliding names")
    chk.coverage["explanation"] = "naming theorems proved and tied to the real scope keys; behavioural equivalence of split and single-file programs explored on real outputs"
    if diffs:
        chk.broken.append(f"correspondence differs on {len(diffs)} cases; first: {json.dumps(diffs[0])[:300]}")
    if failures:
        f = min(failures, key=lambda x: len(json.dumps(x["src"])))
        chk.violation(dict(f, broken=chk.broken, n_failures=len(failures), all_failures=[x["what"][:220] for x in failures[:8]]))
    elif chk.broken:
        chk.violation({"what": "proof obligation or correspondence no longer checks (no split found that behaves differently from its single-file form)", "broken": chk.broken,
                       "first_difference": diffs[0] if diffs else None}, no_failing_input=True)
    return chk.finish()


def replay(path: str) -> int:
    rp = json.loads(open(path).read())
    if "src" not in rp:
        print("replay names a broken obligation only:", rp.get("broken"))
        return 1
    drv = Driver()
    a = whole.compile_any(dict(rp["src"]), rp["opts"])
    b = whole.compile_any(rp["merged"], rp["opts"])
    bad = ("error" in a) != ("error" in b)
    if "code" in a and "code" in b:
        ta, _ = trace_of(drv, a["code"], rp.get("env_seed", 1), rp.get("steps", 2500))
        tb, _ = trace_of(drv, b["code"], rp.get("env_seed", 1), rp.get("steps", 2500))
        if ta is not None and tb is not None:
            m = min(len(ta), len(tb))
            bad = ta[:m] != tb[:m] or m < 8
        code_a = "\n".join(l.split("#")[0] for l in a["code"].split("\n"))
        bad = bad or bool(re.search(r"\bunused\b", code_a))
    drv.close()
    print(f"VIOLATION property=C13 replay={path}" if bad else "replay: holds now")
    return 1 if bad else 0
