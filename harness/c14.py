"""C14 — the compile daemon answers every request with exactly one line.

Theorems: PV/Props/C14.lean over the model of mod_daemon.py's read loop and try/except/finally.
Tie: correspondence — the real daemon (python -m stationeers_pytrapic.mod_daemon) under scripted stdin
must write exactly the answers the model's `requests` function names, in order; compile answers equal an
in-process compile_code; nothing else on stdout; exit status 0.
"""
from __future__ import annotations

import base64
import json
import os
import subprocess
import tempfile
from concurrent.futures import ThreadPoolExecutor

from . import common
from .common import Check, Driver, proof_stage, rng_for

PROP = "C14"
MODULE = "PV.Props.C14"
THEOREMS = [f"PV.Props.C14.{t}" for t in [
    "respond_total", "one_line_per_request", "output_count", "faults_do_not_stop", "stops_on_exit", "fault_answers"]]

SOURCES = [
    "db.Setting = 1\n",
    "x = db.Setting\nwhile x > 0:\n    x = x - 1\n    db.Setting = x\n    yield_()\n",
    "def f(a):\n    return a * 2\ndb.Setting = f(db.On)\ndb.On = f(3)\n",
    "this is not python ((\n",                         # syntax error
    "import os\nfoo(1)\n",                               # undefined function -> compiler error
    "def r(n):\n    return r(n)\ndb.Setting = r(1)\n",   # recursion
    "print('hello from the source')\ndb.Setting = 1\n",  # print is not a dialect function
    "@constexpr\ndef k(a):\n    print('noise')\n    return a + 1\ndb.Setting = k(2)\n",   # printing constexpr
    "@constexpr\ndef k(a):\n    return a * 7\ndb.Setting = k(6)\n",
    "# pytrapic: compact\ndb.Setting = LogicType.On\n",
    "",
    "x = 'é€\U0001F600'\ndb.Setting = HASH('é')\n",
]
LIB = {"m": "def g(a):\n    return a + 1\n"}


def b64(obj) -> str:
    return base64.b64encode(json.dumps(obj).encode("utf-8")).decode("ascii")


def gen_request(r):
    """(line text, kind)"""
    k = r.random()
    if k < 0.40:
        src = r.choice(SOURCES)
        msg = {"action": "compile", "code": {"": src}}
        if r.random() < 0.5:
            msg["options"] = {n: r.random() < 0.5 for n in r.sample(
                ["original_code_as_comment", "generated_comments", "inline_functions", "remove_labels", "append_version",
                 "compact", "tail_call_optimization", "use_push_pop_functions"], r.randrange(0, 5))}
        if r.random() < 0.15:
            msg["code"]["m"] = LIB["m"]
            msg["code"][""] = "from library import m\ndb.Setting = m.g(db.On)\n"
        return b64(msg), "compile"
    if k < 0.50:
        return r.choice(["!!!!", "abc", "a", "====", "bm90anNvbg", "Zm9v\x00", "Zm9v$$$", "é€", "\x07", "-_-_"]), "bad-base64"
    if k < 0.60:
        raw = r.choice([b"not json", b"{", b"{'a': 1}", b"\xff\xfe\x00", b"[1, 2", b"", b"nul", b"\xc3"])
        return base64.b64encode(raw).decode(), "bad-json"
    if k < 0.80:
        obj = r.choice([[], None, "str", 1, 1.5, True, {}, {"action": "x"}, {"action": None}, {"action": "compile"},
                        {"action": "compile", "code": None}, {"action": "compile", "code": "notadict"},
                        {"action": "compile", "code": {}}, {"action": "compile", "code": {"m": "x=1"}},
                        {"action": "compile", "code": {"": 5}}, {"action": "compile", "code": [1]},
                        {"action": "compile", "code": {"": "x=1"}, "options": {"bogus": True}},
                        {"action": "compile", "code": {"": "x=1"}, "options": [1]},
                        {"action": "compile", "code": {"": "x=1"}, "options": None},
                        {"action": "compile", "code": {"": "x=1"}, "options": {"compact": "yes"}},
                        {"action": ["compile"], "code": {"": "x=1"}},
                        # text that JSON can carry but UTF-8 cannot: unpaired surrogates echoed back in the error / result
                        {"action": "\ud83d"}, {"action": "x\udc00y"},
                        {"action": "compile", "code": {"": "x=1"}, "options": {"opt\udc00": True}},
                        {"action": "compile", "code": {"": "db.Setting = HASH('\ud800')\n"}},
                        {"action": "compile", "code": {"": "x = '\udcff'\nfoo(\n"}},
                        {"action": "compile", "code": {"": "é€\U0001F600 = 1\n"}},
                        {"action": "é€\U0001F600"},
                        {"action": "COMPILE", "code": {"": "x=1"}}])
        return b64(obj), "wrong-shape"
    if k < 0.9:
        return r.choice(["", " ", "\t", "  \t ", "\x0c", "\r"]), "blank"
    return r.choice(["exit", "EXIT now", "EXITEXIT", "EX IT", "Exit"]), "not-exit"


def gen_history(r):
    n = r.choice([0, 1, 2, 3, 5, 8, 12, 20])
    items = []
    for _ in range(n):
        line, kind = gen_request(r)
        # decoration that strip() must remove / line-end variants
        if r.random() < 0.2:
            line = r.choice([" ", "\t", "  "]) + line
        if r.random() < 0.2:
            line = line + r.choice([" ", "\t", "\r"])
        items.append((line, kind))
    if r.random() < 0.5:
        pos = r.randrange(0, len(items) + 1)
        items.insert(pos, (r.choice(["EXIT", " EXIT", "EXIT\r", "\tEXIT  "]), "exit"))
        if r.random() < 0.7:
            for _ in range(r.randrange(1, 3)):
                items.append(gen_request(r))
    final_newline = r.random() < 0.8
    return items, final_newline


def run_daemon(payload: bytes, timeout=120):
    env = dict(os.environ)
    env["PYTHONPATH"] = str(common.REPO / "src")
    env.pop("PYTHONIOENCODING", None)
    with tempfile.TemporaryDirectory(prefix="pvc14_") as td:
        try:
            p = subprocess.run(["/venv/bin/python", "-m", "stationeers_pytrapic.mod_daemon"], input=payload, capture_output=True,
                               cwd=td, env=env, timeout=timeout)
        except subprocess.TimeoutExpired as e:
            return None, (e.stdout or b""), (e.stderr or b"")
        leftovers = os.listdir(td)
    return p.returncode, p.stdout, p.stderr


def expected_answer(C, line: str):
    """in-process replica of what the daemon must answer for a valid compile request; None if the line is a fault"""
    try:
        msg = json.loads(base64.b64decode(line).decode("utf-8"))
    except Exception:
        return None
    if not isinstance(msg, dict) or msg.get("action") != "compile" or not isinstance(msg.get("code"), dict):
        return None
    if "" not in msg["code"] or not all(isinstance(v, str) for v in msg["code"].values()):
        return None
    opts = msg.get("options", {})
    if not isinstance(opts, dict):
        return None
    try:
        o = C.CompileOptions(**opts)
    except Exception:
        return None
    try:
        res = C.compile_code(dict(msg["code"]), o)
    except Exception:
        return None
    return json.loads(json.dumps(res))


def history_bytes(items, final_newline) -> bytes:
    text = "\n".join(l for l, _ in items) + ("\n" if final_newline and items else "")
    return text.encode("utf-8", "surrogateescape")


def judge(C, drv, items, final_newline, daemon_result=None):
    """returns (failure or None, info)"""
    text = "\n".join(l for l, _ in items) + ("\n" if final_newline and items else "")
    payload = history_bytes(items, final_newline)
    raw_lines = text.split("\n")
    if raw_lines and raw_lines[-1] == "":
        raw_lines = raw_lines[:-1]
    reqs = drv.call(cmd="daemon-requests", lines=[[ord(c) for c in l] for l in raw_lines])
    reqs = ["".join(map(chr, q)) for q in reqs]
    rc, out, err = daemon_result if daemon_result is not None else run_daemon(payload)
    hist = [l for l, _ in items]
    if rc is None:
        return {"what": "daemon did not terminate within 120 s", "history": hist, "final_newline": final_newline}, None
    try:
        out_lines = out.decode("ascii").split("\n")
    except UnicodeDecodeError:
        return {"what": "non-ASCII bytes on the daemon's stdout", "history": hist, "stdout": repr(out[:300])}, None
    if out_lines and out_lines[-1] == "":
        out_lines = out_lines[:-1]
    if len(out_lines) != len(reqs):
        return {"what": f"daemon wrote {len(out_lines)} stdout lines for {len(reqs)} requests", "history": hist,
                "final_newline": final_newline, "stdout": out.decode("ascii", "replace")[:2000], "stderr_tail": err.decode("utf-8", "replace")[-600:],
                "exit_status": rc}, None
    for i, (ol, rq) in enumerate(zip(out_lines, reqs)):
        try:
            obj = json.loads(base64.b64decode(ol, validate=True).decode("utf-8"))
        except Exception as e:
            return {"what": f"stdout line {i} is not base64-encoded JSON ({type(e).__name__})", "history": hist, "line": ol[:200]}, None
        if not isinstance(obj, dict):
            return {"what": f"stdout line {i} is not a JSON object", "history": hist, "line": ol[:200]}, None
        exp = expected_answer(C, rq)
        if exp is not None and "constexpr" in json.dumps(exp) + base64.b64decode(rq).decode("utf-8", "replace"):
            # constexpr evaluation runs a child process under a 1 s timeout: the verdict (value / timeout) is
            # load-dependent, so only the shape of the answer is compared
            if not ("code" in obj or "error" in obj):
                return {"what": f"answer {i} is neither a result nor an error object", "history": hist, "got": obj}, None
        elif exp is not None:
            if obj != exp:
                return {"what": f"answer {i} is not the compile result of request {i} (answers out of step or disturbed)", "history": hist,
                        "got": obj, "expected": exp}, None
        else:
            if "error" not in obj:
                return {"what": f"faulty request {i} was not answered by an error object", "history": hist, "got": obj}, None
    if rc != 0:
        return {"what": f"daemon exit status {rc}", "history": hist, "stderr_tail": err.decode("utf-8", "replace")[-600:]}, None
    return None, {"requests": len(reqs), "lines": len(raw_lines)}


def run(tier: str, seed: int) -> int:
    chk = Check(PROP, tier, seed, "proof")
    chk.assumptions = [
        "stdin is delivered as text lines separated by \\n (Linux: no universal-newline translation); bytes that are not decodable in the stdin encoding are outside the quantifier",
        "the handler's collaborators (base64/json decoding, compile_code) are parameters of the model: any behaviour incl. raising Exception; BaseException (KeyboardInterrupt/SystemExit) is outside the model",
        "OS-level behaviour (pipes, buffering, process exit) is observed by the correspondence run, not proved",
    ]
    proof_stage(chk, MODULE, THEOREMS)
    from stationeers_pytrapic import compiler as C
    drv = Driver()
    r = rng_for(PROP, seed)
    n_hist = 40 if tier == "quick" else 1500
    corpus = [
        ([], True),
        ([("EXIT", "exit")], True),
        ([(b64({"action": "compile", "code": {"": SOURCES[0]}}), "compile")], False),
        ([("", "blank"), ("!!!!", "bad-base64"), (b64([]), "wrong-shape"), (b64({"action": "compile", "code": {"": SOURCES[7]}}), "compile"),
          (b64({"action": "compile", "code": {"": SOURCES[6]}}), "compile"), (b64({"action": "compile", "code": {"": SOURCES[0]}}), "compile")], True),
        ([(b64({"action": "compile", "code": {"": "x=1"}, "options": {"bogus": 1}}), "wrong-shape"), ("EXIT", "exit"),
          (b64({"action": "compile", "code": {"": SOURCES[0]}}), "compile")], True),
    ]
    hists = corpus + [gen_history(r) for _ in range(n_hist)]
    failures = []
    kinds = {}
    # the daemons run in parallel (start-up dominates); judging is sequential (in-process compile_code uses module globals)
    with ThreadPoolExecutor(max_workers=8) as pool:
        outs = list(pool.map(lambda h: run_daemon(history_bytes(*h)), hists))
    for (items, fn), res in zip(hists, outs):
        for _, k in items:
            kinds[k] = kinds.get(k, 0) + 1
        f, info = judge(C, drv, items, fn, res)
        chk.count(("h", tuple(l for l, _ in items), fn), nontrivial=len(items) > 0)
        if f:
            failures.append(f)
        elif info and len(chk.coverage["samples"]) < 3 and items:
            chk.sample({"history_kinds": [k for _, k in items], "answers": info["requests"], "lines": info["lines"]})
    drv.close()
    chk.coverage["distribution"] = {"request_kinds": kinds, "histories": len(hists)}
    chk.coverage["rule"] = ("request histories over the fault alphabet of the property (valid compile requests incl. failing/printing sources and constexpr, bad base64, "
                            "bad JSON, wrong shape, unknown action/option, blank lines, EXIT variants, CR endings, missing final newline); distinct = distinct history; "
                            "non-trivial = at least one line")
    chk.coverage["explanation"] = "loop/handler laws proved for every behaviour of the collaborators; real daemon process compared with the model's request list on each history"
    if failures:
        f = min(failures, key=lambda x: len(json.dumps(x.get("history", []))))
        chk.violation(dict(f, broken=chk.broken))
    elif chk.broken:
        chk.violation({"what": "proof obligation no longer checks; no failing history found", "broken": chk.broken}, no_failing_input=True)
    return chk.finish()


def replay(path: str) -> int:
    from stationeers_pytrapic import compiler as C
    rp = json.loads(open(path).read())
    if "history" not in rp:
        print("replay names a broken obligation only:", rp.get("broken"))
        return 1
    drv = Driver()
    f, _ = judge(C, drv, [(l, "?") for l in rp["history"]], rp.get("final_newline", True))
    drv.close()
    if f:
        print(f"VIOLATION property=C14 replay={path}\n   {f['what']}")
        return 1
    print("replay: holds now")
    return 0
