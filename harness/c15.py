"""C15 — in-source '# pytrapic:' directives set exactly the named options.

Theorems: PV/Props/C15.lean (frame, last-wins, unknown-ignored, spellings, dash/underscore,
code-line-inert, idempotent, directive = API).
Tie: (a) Gen.optionFields regenerated from CompileOptions; (b) correspondence of `Pragma.scan` with the
real scanner (options object handed to Compiler.__init__ by the real compile_code) on generated texts.
Oracle: structured texts whose expected options are known by construction from the property's wording,
and whole-compile equality  compile(src, base) == compile(src, base (+) directives).
"""
from __future__ import annotations

import dataclasses
import json

from . import common
from .common import Check, Driver, proof_stage, rng_for

PROP = "C15"
MODULE = "PV.Props.C15"
THEOREMS = [f"PV.Props.C15.{t}" for t in [
    "scan_frame", "scan_last_wins", "setOpt_unknown", "scan_known_only", "tag_spellings",
    "dash_underscore_alike", "scan_code_line_inert", "scan_idempotent", "scan_eq_api"]]

SPACES = [" ", "\t", "\x0c", "\x0b", "\xa0", "\u2003", "\u3000", "\x1f"]
BREAKS = ["\n", "\r\n", "\r", "\x0c", "\x0b", "\x1c", "\x1d", "\x1e", "\x85", "\u2028", "\u2029"]


class _Captured(Exception):
    pass


def real_scan(compiler_mod, src, base_opts):
    """options the real compile_code passes to the compiler for this source"""
    captured = {}

    class Rec:
        def __init__(self, options):
            captured["o"] = options

        def compile(self, s):
            return {"code": ""}

    orig = compiler_mod.Compiler
    compiler_mod.Compiler = Rec
    try:
        compiler_mod.compile_code(src, base_opts)
    finally:
        compiler_mod.Compiler = orig
    return captured["o"]


def opts_to_pairs(o):
    return [[f.name, bool(getattr(o, f.name))] for f in dataclasses.fields(o)]


def pystr_selfcheck(drv: Driver, chk: Check):
    """the character classes of PV.PyStr are CPython's"""
    bad = []
    specials = [c for c in range(0x110000) if not (0xD800 <= c < 0xE000) and (chr(c).isspace() or len(("a" + chr(c) + "b").splitlines()) > 1)]
    probe = specials + [0x41, 0x200B, 0x180E, 0xFEFF, 0x2060, 0x1D, 0x7F, 0x0]
    for c in probe:
        s = "a" + chr(c) + "b" + chr(c)
        m = drv.call(cmd="splitlines", src=[ord(x) for x in s])
        real = [[ord(x) for x in l] for l in s.splitlines()]
        if m != real:
            bad.append(("splitlines", c))
        s2 = chr(c) + "x" + chr(c)
        m = drv.call(cmd="strip", src=[ord(x) for x in s2])
        if m != [ord(x) for x in s2.strip()]:
            bad.append(("strip", c))
    for s in ["", "\r\n", "a\r\n\nb\r", "\n\r", "a\rb\n\r\nc"]:
        m = drv.call(cmd="splitlines", src=[ord(x) for x in s])
        if m != [[ord(x) for x in l] for l in s.splitlines()]:
            bad.append(("splitlines", s))
    chk.coverage["pystr_selfcheck"] = {"probed_code_points": len(probe), "mismatches": len(bad)}
    if bad:
        raise common.Infra(f"PV.PyStr character classes differ from this CPython: {bad[:5]}")


def gen_structured(r, fields):
    """(text, expected {name: value or None}) built from the property's wording"""
    names = [f[0] for f in fields]
    expected = {}
    lines = []
    for _ in range(r.randrange(1, 7)):
        k = r.random()
        if k < 0.5:
            # a directive line
            tags = []
            for _ in range(r.randrange(1, 4)):
                if r.random() < 0.8:
                    n = r.choice(names)
                    v = r.random() < 0.5
                    spelled = n if r.random() < 0.5 else n.replace("_", "-")
                    if r.random() < 0.2:
                        spelled = "".join(ch if ch != "_" or r.random() < 0.5 else "-" for ch in n)
                    if not v:
                        spelled = r.choice(["no-", "no_"]) + spelled
                    expected[n] = v
                    tags.append(spelled)
                else:
                    tags.append(r.choice(["bogus", "no-bogus", "Compact", "compactt", "inline", "no", "no_", "", "remove labels", "__class__", "__doc__"]))
            sep = lambda: r.choice([",", ", ", " ,", " , ", ",\t"])
            body = tags[0] + "".join(sep() + t for t in tags[1:])
            lead = "".join(r.choice(SPACES) for _ in range(r.randrange(0, 3)))
            pre = r.choice(["#", "# ", "#\t", "#!", "## ", "# note # "])
            trail = "".join(r.choice(SPACES) for _ in range(r.randrange(0, 2)))
            lines.append(lead + pre + "pytrapic:" + r.choice(["", " ", "  "]) + body + trail)
        elif k < 0.65:
            # directive text after code / inside a string on a code line: no effect
            n = r.choice(names)
            lines.append(r.choice([
                f"x = 1  # pytrapic: {n}",
                f"s = \"# pytrapic: no-{n}\"",
                f"y = 2 # note # pytrapic: {n}",
                f"pass;# pytrapic: no_{n}",
            ]))
        elif k < 0.8:
            lines.append(r.choice(["# a comment", "#pytrapic compact", "# pytrapic : compact", "# PYTRAPIC: compact", "x = 3", "", "   "]))
        else:
            lines.append(r.choice(["db.Setting = 1", "yield_()", "z = db.Setting + 1"]))
    br = r.choice(["\n"] * 6 + ["\r\n", "\r"])
    text = br.join(lines) + r.choice(["", br])
    return text, expected


def gen_wild(r, fields):
    names = [f[0] for f in fields]
    toks = ["#", "pytrapic:", "pytrapic", ":", ",", "no-", "no_", "no", "-", "_", "\"", "'", "=", "x", "1"] + names + \
           [n.replace("_", "-") for n in names] + ["bogus", "__class__", "__init__", "__dict__"] + SPACES + BREAKS
    n = r.randrange(0, 30)
    return "".join(r.choice(toks) for _ in range(n))


def blank_directive_lines(src: str) -> str:
    """replace every directive line by a bare comment, keeping line numbers (for the API-equivalence oracle)"""
    out = []
    for line in src.split("\n"):
        if line.strip().startswith("#") and "pytrapic:" in line:
            out.append("#")
        else:
            out.append(line)
    return "\n".join(out)


def run(tier: str, seed: int) -> int:
    chk = Check(PROP, tier, seed, "proof")
    chk.assumptions = ["PV.PyStr character classes = CPython's (checked against the running interpreter each run)",
                       "whole-compile equality is judged on result dictionaries of the real compile_code"]
    rep, br, audit = proof_stage(chk, MODULE, THEOREMS)
    from stationeers_pytrapic import compiler as C
    from stationeers_pytrapic.compile_pass import CompileOptions
    fields = [(f.name, f.default) for f in dataclasses.fields(CompileOptions)]
    drv = Driver()
    pystr_selfcheck(drv, chk)
    r = rng_for(PROP, seed)
    n_struct = 2500 if tier == "quick" else 100000
    n_wild = 2500 if tier == "quick" else 100000
    n_compile = 150 if tier == "quick" else 4000
    failures, diffs = [], []

    def base_opts():
        return CompileOptions(**{n: r.random() < 0.5 for n, _ in fields})

    def model_scan(src, base):
        return drv.call(cmd="pragma", src=[ord(c) for c in src], opts=opts_to_pairs(base))

    def check_text(src, base, expected=None):
        before = opts_to_pairs(base)
        try:
            got = real_scan(C, src, base)
        except Exception as e:
            failures.append({"what": f"compile_code raised {type(e).__name__}: {e} while scanning directives", "src": src, "base": before})
            return
        real = opts_to_pairs(got)
        if any(0xD800 <= ord(c) < 0xE000 for c in src):
            return
        model = model_scan(src, base)
        if model != real:
            diffs.append({"stream": "Pragma.scan vs compile_code", "src": src, "base": before, "real": real, "model": model})
        if expected is not None:
            want = [[n, expected.get(n, dict(before)[n])] for n, _ in before]
            if real != want:
                failures.append({"what": "directive text does not set exactly the named options", "src": src, "base": before,
                                 "expected": want, "real": real})

    corpus = [
        ("# pytrapic: compact", {"compact": True}),
        ("  # pytrapic: no-compact, remove-labels", {"compact": False, "remove_labels": True}),
        ("# pytrapic: compact\n# pytrapic: no_compact", {"compact": False}),
        ("x=1 # pytrapic: compact", {}),
        ("s = '# pytrapic: compact'", {}),
        ("# pytrapic: __class__, __doc__, bogus", {}),
        ("#pytrapic:no-inline-functions", {"inline_functions": False}),
    ]
    for src, exp in corpus:
        chk.count(("corpus", src))
        check_text(src, base_opts(), exp)
    for i in range(n_struct):
        src, exp = gen_structured(r, fields)
        chk.count(("s", src))
        chk.bump("structured_with_directive" if exp else "structured_without")
        if i < 3:
            chk.sample({"src": src, "expected": exp})
        check_text(src, base_opts(), exp)
    for i in range(n_wild):
        src = gen_wild(r, fields)
        chk.count(("w", src), nontrivial="pytrapic:" in src)
        chk.bump("wild_with_marker" if "pytrapic:" in src else "wild_without_marker")
        check_text(src, base_opts(), None)
    # whole-compile equality
    progs = ["db.Setting = LogicType.On\n", "def f(a):\n    return a + 1\nx = f(db.Setting)\ndb.Setting = x\ny = f(2)\ndb.On = y\n",
             "while True:\n    db.Setting = HASH(\"abc\")\n    yield_()\n"]
    for i in range(n_compile):
        head, exp = gen_structured(r, fields)
        src = head.replace("\r\n", "\n").replace("\r", "\n") + "\n" + r.choice(progs)
        # keep this oracle on sources Python can parse: printable ASCII, \n and \t only
        src = "".join(c if (32 <= ord(c) < 127 or c in "\n\t") else " " for c in src)
        base = base_opts()
        chk.count(("c", src, tuple(map(tuple, opts_to_pairs(base)))))
        try:
            res1 = C.compile_code(src, dataclasses.replace(base))
            eff = real_scan(C, src, dataclasses.replace(base))
            res2 = C.compile_code(blank_directive_lines(src), dataclasses.replace(eff))
        except Exception as e:
            failures.append({"what": f"compile_code raised {type(e).__name__}: {e}", "src": src, "base": opts_to_pairs(base)})
            continue
        if res1 != res2:
            failures.append({"what": "compile(src, base) != compile(src without directives, base (+) directives)", "src": src,
                             "base": opts_to_pairs(base), "res1": res1, "res2": res2})
    drv.close()
    chk.coverage["rule"] = ("structured texts (directive lines with random spelling/whitespace/prefix, distractor lines) with the expected options known by construction; "
                            "wild token soups over the scanner's alphabet; distinct = distinct (text[,base]); wild texts count as non-trivial only when they contain the marker")
    chk.coverage["explanation"] = "scanner laws proved for all texts; model tied to compile_code by correspondence on the options object the real call hands to the compiler"
    return decide(chk, failures, diffs, C)


def decide(chk, failures, diffs, C):
    if diffs:
        chk.broken.append(f"correspondence differs on {len(diffs)} cases; first: {json.dumps(diffs[0])[:400]}")
    if failures:
        f = min(failures, key=lambda x: len(x["src"]))
        chk.violation(dict(f, broken=chk.broken))
    elif chk.broken:
        chk.violation({"what": "proof obligation or correspondence no longer checks (no text found on which the directive semantics of the property fails)",
                       "broken": chk.broken, "first_difference": diffs[0] if diffs else None}, no_failing_input=True)
    return chk.finish()


def replay(path: str) -> int:
    import dataclasses as dc
    from stationeers_pytrapic import compiler as C
    from stationeers_pytrapic.compile_pass import CompileOptions
    rp = json.loads(open(path).read())
    if "src" not in rp:
        print("replay names a broken obligation only:", rp.get("broken"))
        return 1
    base = CompileOptions(**dict(rp["base"]))
    try:
        got = opts_to_pairs(real_scan(C, rp["src"], base))
    except Exception as e:
        print(f"VIOLATION property=C15 replay={path}\n   raised {e}")
        return 1
    if "expected" in rp and got != rp["expected"]:
        print(f"VIOLATION property=C15 replay={path}\n   got {got}\n   expected {rp['expected']}")
        return 1
    print("replay: holds now")
    return 0
