"""C16 — device, enum and instruction tables are internally consistent.

Theorems: PV/Props/C16.lean — `decide +kernel` over the tables regenerated from /repo by tools/extract.py
(all structure rows: hash = signed CRC-32 of the prefab name, plural reachable with the same hash, slots
resolve; all intrinsic wrappers; all enums).  The quantifier is a finite table and is enumerated completely.
Tie: regeneration on every run; the extractor is cross-checked by the independent pass below (zlib CRC,
inspect), whose row counts must match.
Search: the same predicates evaluated in Python on the live objects name the failing row when a theorem
no longer checks.
"""
from __future__ import annotations

import enum
import inspect
import json
import zlib

from . import common
from .common import Check, proof_stage

PROP = "C16"
MODULE = "PV.Props.C16"
THEOREMS = [f"PV.Props.C16.{t}" for t in [
    "structures_ok", "structures_complete", "structures_hash_ok", "named_slot_resolves",
    "intrinsic_rows_ok_partial", "intrinsic_names_and_order_ok", "enum_values_injective", "enum_member_unique"]]

KNOWN_A = ["rmap", "ext", "ins"]
KNOWN_B = ["bdns", "bdnsal", "bdse", "bdseal", "brdns", "brdse"]


def signed_crc(b: bytes) -> int:
    v = zlib.crc32(b)
    return v - (1 << 32) if v >= (1 << 31) else v


def python_side(chk: Check):
    """independent evaluation of the property on the live tables → (failures, known-hits, counts)"""
    from stationeers_pytrapic import structures_generated as sg, types as T, types_generated as tg, intrinsics as I
    from stationeers_pytrapic.types import IC10Instruction
    failures = []
    counts = {"structures": 0, "plurals": 0, "intrinsics": 0, "enums": 0, "enum_members": 0, "slots": 0}
    singular = {n: o for n, o in vars(sg).items() if isinstance(o, type) and issubclass(o, T._BaseStructure) and o is not T._BaseStructure
                and not n.startswith("_") and "_prefab_name" in vars(o)}
    plural = {n: o for n, o in vars(sg).items() if isinstance(o, T._BaseStructures) and not n.startswith("_")}
    counts["plurals"] = len(plural)
    for name, cls in sorted(singular.items()):
        counts["structures"] += 1
        chk.count(("struct", name))
        prefab = cls._prefab_name
        if not isinstance(prefab, str) or cls._hash != signed_crc(prefab.encode()):
            failures.append({"what": f"structure {name}: stored _hash {cls._hash} is not the signed CRC-32 of its prefab name {prefab!r} ({signed_crc(str(prefab).encode())})", "row": name})
        # the plural batch form: the module-level singleton whose class docstring/name derives from this class;
        # it is identified by name (English plural) and must carry the same prefab name and hash
        cands = [(pn, pi) for pn, pi in plural.items() if pn.startswith(name[:-1]) and type(pi).__name__ == "_" + pn
                 and pn in (name + "s", name + "es", name[:-1] + "ies")]
        if not cands:
            failures.append({"what": f"structure {name}: no plural batch form ({name}s / {name}es / {name[:-1]}ies)", "row": name})
        else:
            pn, p = cands[0]
            pc = type(p)
            if pc._prefab_name != prefab or pc._hash != cls._hash:
                failures.append({"what": f"structure {name}: plural {pn} has prefab {pc._prefab_name!r} / hash {pc._hash}, singular has {prefab!r} / {cls._hash}", "row": name})
        try:
            inst = cls("d0")
        except Exception as e:
            failures.append({"what": f"structure {name}: cannot be created as a single device: {e}", "row": name})
            continue
        slots = {}
        for attr in dir(cls):
            if attr.startswith("_"):
                continue
            pr = getattr(cls, attr, None)
            if isinstance(pr, property):
                try:
                    v = pr.fget(inst)
                except Exception:
                    continue
                if isinstance(v, T._BaseSlotType):
                    slots[attr] = int(v._slot_index)
        for attr, idx in slots.items():
            counts["slots"] += 1
            if attr.startswith("slot") and attr[4:].isdigit():
                if int(attr[4:]) != idx:
                    failures.append({"what": f"structure {name}: numbered slot {attr} has index {idx}", "row": name})
            elif slots.get(f"slot{idx}") != idx:
                failures.append({"what": f"structure {name}: named slot {attr} (index {idx}) has no numbered slot slot{idx}", "row": name})
    # enums
    for name, obj in vars(tg).items():
        if isinstance(obj, type) and issubclass(obj, enum.IntEnum) and obj is not enum.IntEnum and not name.startswith("_"):
            counts["enums"] += 1
            seen = {}
            for k, v in obj.__members__.items():
                counts["enum_members"] += 1
                chk.count(("enum", name, k))
                if int(v.value) in seen:
                    failures.append({"what": f"enum {name}: members {seen[int(v.value)]} and {k} share the number {int(v.value)}", "row": f"{name}.{k}"})
                seen[int(v.value)] = k
    # intrinsics: wrapper vs the instruction signature table of the Lean spec is checked in Lean; here: name, order, result annotation
    known_hits = {}
    import ast
    mod = ast.parse((common.REPO / "src" / "stationeers_pytrapic" / "intrinsics.py").read_text())
    for fn in [n for n in mod.body if isinstance(n, ast.FunctionDef)]:
        name = fn.name
        f = getattr(I, name)
        sig = inspect.signature(f)
        markers = [f"__m{i}__" for i in range(len(sig.parameters))]
        try:
            ins = f(*markers)
        except Exception as e:
            failures.append({"what": f"intrinsic {name}: raises {type(e).__name__} on marker arguments", "row": name})
            continue
        if not isinstance(ins, IC10Instruction):
            if name not in ("HASH", "STR"):
                failures.append({"what": f"intrinsic {name}: does not produce an instruction", "row": name})
            continue
        counts["intrinsics"] += 1
        chk.count(("intrinsic", name))
        want = name[:-1] if name.endswith("_") else name
        vals = [str(x.value) for x in ins.inputs]
        if ins.op != want:
            failures.append({"what": f"intrinsic {name} emits instruction '{ins.op}'", "row": name})
        if vals != markers:
            failures.append({"what": f"intrinsic {name} emits operands {vals} for arguments {markers}", "row": name})
        declared = not (sig.return_annotation is None or sig.return_annotation is inspect.Signature.empty or sig.return_annotation == "None")
        has_out = ins.output is not None
        if name in KNOWN_A and not has_out:
            known_hits["F-C16-a"] = "intrinsics rmap/ext/ins: the instruction has an output register but the wrapper yields no result (the register is an ordinary parameter)"
        if name in KNOWN_B and has_out:
            known_hits["F-C16-b"] = "intrinsics bdns/bdnsal/bdse/bdseal/brdns/brdse: no output register in IC10 but the wrapper yields a result; the device operand is missing"
    return failures, known_hits, counts


def run(tier: str, seed: int) -> int:
    chk = Check(PROP, tier, seed, "proof")
    chk.assumptions = ["the instruction signature table PV.IC10.Spec (which opcodes have an output register) is a hand-written specification",
                       "known findings F-C16-a/b (9 intrinsic wrappers) are excluded by name from intrinsic_rows_ok_partial and refuted in PV.Findings.C16"]
    rep, br, audit = proof_stage(chk, MODULE, THEOREMS)
    failures, known_hits, counts = python_side(chk)
    info = rep.get("info", {})
    chk.coverage["exhaustive"] = True
    chk.coverage["table_sizes"] = counts
    chk.coverage["extractor_sizes"] = {"structures": info.get("structures"), "intrinsics": info.get("intrinsics"), "enums": len(info.get("enums", {}))}
    chk.coverage["rule"] = "every row of every regenerated table (structures singular+plural, intrinsic wrappers, enum members); each row is a distinct case"
    chk.coverage["explanation"] = "finite tables regenerated from /repo and decided completely by kernel evaluation"
    chk.sample({"structure": "ActiveVent", "checks": "hash == signed crc32(prefab), plural ActiveVents same prefab/hash, slots resolve"})
    chk.sample({"intrinsic": "lb", "checks": "emits 'lb' with its 3 arguments in order and yields a result (lb has an output register)"})
    # cross-check of the translator
    if info.get("structures") != counts["structures"]:
        chk.broken.append(f"translator cross-check: extractor saw {info.get('structures')} structures, independent pass {counts['structures']}")
    if info.get("intrinsics") != counts["intrinsics"] + 2:
        chk.broken.append(f"translator cross-check: extractor saw {info.get('intrinsics')} intrinsic names, independent pass {counts['intrinsics']} (+HASH, STR)")
    if len(info.get("enums", {})) != counts["enums"]:
        chk.broken.append(f"translator cross-check: extractor saw {len(info.get('enums', {}))} enums, independent pass {counts['enums']}")
    # -- mechanism level: every wrapper, called from a program, is emitted with its operands in order and with an output
    #    register exactly when the instruction has one — as a value AND as a bare statement ------------------------------------
    from . import whole
    drv = common.Driver()
    sig = {}
    import ast as _ast
    modi = _ast.parse((common.REPO / "src" / "stationeers_pytrapic" / "intrinsics.py").read_text())
    KIND_ARG = {"float": "db.On", "_Register | float": "db.On", "_Device": "d1", "LogicType": "LogicType.Setting", "LogicSlotType": "LogicSlotType.Quantity",
                "LogicBatchMethod": "LogicBatchMethod.Sum", "LogicReagentMode": "LogicReagentMode.Contents"}
    n_emit = 0
    for fn in [n for n in modi.body if isinstance(n, _ast.FunctionDef)]:
        name = fn.name
        if name in KNOWN_A + KNOWN_B + ["HASH", "STR", "alias", "define"] or name.startswith("b") and name not in ("bdns",) and name[1:2] in "ragnle" and name not in ("abs",):
            continue
        if name in ("j", "jal", "jr", "hcf", "yield_", "sleep") or name.startswith("br") or name.startswith("b"):
            continue
        args = []
        ok = True
        for a in fn.args.args:
            ann = _ast.unparse(a.annotation) if a.annotation is not None else "float"
            pick = None
            for k, v in KIND_ARG.items():
                if k in ann:
                    pick = v
            if "Device" in ann or "device" in a.arg.lower() and "hash" not in a.arg.lower():
                pick = "d1"
            if "LogicSlotType" in ann:
                pick = "LogicSlotType.Quantity"
            elif "LogicBatchMethod" in ann:
                pick = "LogicBatchMethod.Sum"
            elif "LogicReagentMode" in ann:
                pick = "LogicReagentMode.Contents"
            elif "LogicType" in ann:
                pick = "LogicType.Setting"
            args.append(pick or "db.On")
        call = f"{name}({', '.join(args)})"
        ret = _ast.unparse(fn.returns) if fn.returns is not None else "None"
        has_result = ret not in ("None",)
        progs = [("bare statement", f"{call}\n")]
        if has_result:
            progs.append(("value", f"x = {call}\ndb.Setting = x\n"))
        for how, src in progs:
            res = whole.compile_any(src, whole.default_opts(append_version=False))
            if "error" in res:
                continue
            n_emit += 1
            chk.count(("emit", name, how))
            w = drv.call(cmd="wf", text=res["code"])
            op = name[:-1] if name.endswith("_") else name
            lines = [l for l in res["code"].split("\n") if l.split() and l.split()[0] == op]
            if not lines:
                failures.append({"what": f"intrinsic {name} used as {how}: no '{op}' instruction is emitted: {res['code']!r}", "row": name, "src": src})
                continue
            errs = [e for ln, e in w["errors"] if res["code"].split("\n")[ln].split()[:1] == [op]]
            if errs:
                failures.append({"what": f"intrinsic {name} used as {how} is emitted as {lines[0].strip()!r}: {errs[0]}", "row": name, "src": src})
    drv.close()
    counts["intrinsics_emitted_from_programs"] = n_emit
    known_ids = {f["id"] for f in chk.known}
    for fid, what in known_hits.items():
        if fid in known_ids:
            chk.known_finding(fid, what)
        else:
            failures.append({"what": what, "row": fid})
    if failures:
        chk.violation(dict(failures[0], all_failures=[f["what"] for f in failures[:20]], broken=chk.broken))
    elif chk.broken:
        chk.violation({"what": "a table theorem or the translator cross-check no longer checks (the independent Python pass found no inconsistent row)",
                       "broken": chk.broken}, no_failing_input=True)
    return chk.finish()


def replay(path: str) -> int:
    rp = json.loads(open(path).read())
    chk = Check(PROP, "quick", 0, "proof")
    failures, known_hits, counts = python_side(chk)
    rows = {f.get("row") for f in failures}
    if rp.get("row") in rows:
        print(f"VIOLATION property=C16 replay={path}\n   " + [f["what"] for f in failures if f.get("row") == rp.get("row")][0])
        return 1
    print("replay: holds now" if "row" in rp else f"replay names a broken obligation only: {rp.get('broken')}")
    return 0 if "row" in rp else 1
