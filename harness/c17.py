"""C17 — reported size statistics describe the emitted program.

Theorems: PV/Props/C17.lean — for every list of break-free lines (last one non-empty) num_lines is the
number of lines and num_bytes the length of the text with two-byte line ends; the empty program is 0/0;
PV/Props/C04.lean `used_registers_complete` — the reported register set is the image of the allocation map.
Tie: the Stats model applied to the real `code` must reproduce the reported fields (correspondence), for
repository programs and generated programs under random option vectors, and for the allocator capture:
num_registers = number of distinct physical registers in the real virtual→physical map.
Oracle: the property's own wording evaluated directly on the real result (lines = text split at "\n",
bytes = length with "\r\n" ends, every r<N> token of the code is counted).
"""
from __future__ import annotations

import json
import re

from . import common, progen, whole
from .common import Check, Driver, proof_stage, rng_for

PROP = "C17"
MODULE = "PV.Props.C17"
THEOREMS = [f"PV.Props.C17.{t}" for t in ["splitlines_join", "num_lines_ok", "num_bytes_crlf", "empty_program"]] + ["PV.Props.C04.scope_registers_ok"]

REG_RE = re.compile(r"(?<![\w.$\"])r(1[0-5]|[0-9])(?![\w.\"])")


def code_registers(code: str) -> set:
    regs = set()
    for line in code.split("\n"):
        body = line.split("#", 1)[0]
        body = re.sub(r'"[^"]*"', '""', body)
        toks = body.split()
        for t in toks[1:]:
            if re.fullmatch(r"r(1[0-5]|[0-9])", t):
                regs.add(t)
    return regs


def judge(res: dict, cap):
    """the property evaluated on a real successful result → list of failure descriptions"""
    out = []
    code = res["code"]
    lines = code.split("\n") if code != "" else []
    if res.get("num_lines") != len(lines):
        out.append(f"num_lines={res.get('num_lines')} but code has {len(lines)} lines")
    crlf = len("\r\n".join(lines))
    if res.get("num_bytes") != crlf:
        out.append(f"num_bytes={res.get('num_bytes')} but code with two-byte line ends has {crlf} characters")
    regs = code_registers(code)
    if len(regs) > res.get("num_registers", -1):
        out.append(f"num_registers={res.get('num_registers')} but the code uses {sorted(regs)}")
    if cap is not None and cap.used is not None:
        phys = {s["phys"] for s in cap.symbols if re.fullmatch(r"r\d+", s["phys"])}
        if res.get("num_registers") != len(phys):
            out.append(f"num_registers={res.get('num_registers')} but the allocator assigned {sorted(phys)}")
        if not regs <= phys:
            out.append(f"registers {sorted(regs - phys)} appear in the code but were not allocated")
    return out


def sources(r, tier):
    """(name, src, prog-or-None)"""
    for name, src in whole.repo_sources():
        yield name, src
    # programs split over library modules (register-held library variables, functions with and without own registers)
    from . import c13
    for i in range(25 if tier == "quick" else 250):
        src, merged, desc = c13.gen_split(r)
        yield f"split:{i}", src
    for k in range(1, 4):
        libs = {f"m{j}": f"w{j} = d{j}.On\nz{j} = d{j}.Mode\ndef show():\n    d{j}.Setting = w{j}\n    d{j}.Power = z{j}\n" for j in range(k)}
        main = "".join(f"from library import m{j}\n" for j in range(k)) + "".join(f"m{j}.show()\nm{j}.show()\n" for j in range(k))
        yield f"libvars:{k}", dict({"": main}, **libs)
    # programs in which no line is short enough to take the version note
    yield "longlines:1", 'WallHeaters["A device with a really long name to make the line long"].On = 1\n' * 3
    yield "longlines:2", "# pytrapic: original-code-as-comment\nx = db.Setting + db.On + db.Mode + db.Power + db.Lock + db.Open + db.Setting + db.Mode + db.On\ndb.Setting = x + x + x + x + x + x + x + x + x + x + x + x + x + x\n"
    n = 120 if tier == "quick" else 1000
    for i in range(n):
        g = progen.Gen(r, progen.Profile(max_stmts=5))
        prog = g.program()
        yield f"gen:{i}", progen.print_program(prog)


def run(tier: str, seed: int) -> int:
    chk = Check(PROP, tier, seed, "proof")
    chk.assumptions = ["sizes are counted in characters (ASCII programs: characters = bytes); non-ASCII comment text is outside the compared domain",
                       "lines of the emitted text contain no exotic str.splitlines separators (hypothesis NoBreaks of the theorems; violated only by control characters inside user string literals)"]
    rep, br, audit = proof_stage(chk, MODULE, THEOREMS, ["PV.Props.C04"])
    drv = Driver()
    r = rng_for(PROP, seed)
    failures, diffs = [], []
    nvec = 3 if tier == "quick" else 5
    seen_err = 0
    for name, src in sources(r, tier):
        for k in range(nvec):
            opts = whole.random_opts(r) if k else whole.default_opts(append_version=True)
            try:
                res, cap = whole.compile_captured(src, opts)
            except Exception as e:
                failures.append({"what": f"compile_code raised {type(e).__name__}: {e}", "name": name, "src": src, "opts": opts})
                continue
            if "error" in res:
                seen_err += 1
                chk.bump("compile_errors")
                continue
            code = res["code"]
            chk.count((code, res.get("num_registers")))
            chk.bump("outputs")
            chk.bump("lines_" + ("0" if not code else "1-20" if res["num_lines"] <= 20 else "21-128" if res["num_lines"] <= 128 else "129+"))
            if len(chk.coverage["samples"]) < 3:
                chk.sample({"name": name, "opts": opts, "num_lines": res["num_lines"], "num_bytes": res["num_bytes"], "num_registers": res["num_registers"],
                            "code_head": code[:200]})
            if all(ord(c) < 0xD800 or ord(c) > 0xDFFF for c in code):
                m = drv.call(cmd="stats", code=[ord(c) for c in code])
                if m != [res["num_lines"], res["num_bytes"]]:
                    diffs.append({"stream": "Stats model vs get_code", "name": name, "opts": opts, "model": m, "real": [res["num_lines"], res["num_bytes"]], "src": src})
            bad = judge(res, cap)
            if bad and not any(ord(c) > 127 for c in code):
                failures.append({"what": "; ".join(bad), "name": name, "src": src, "opts": opts, "result": {k: res[k] for k in res if k != "code"}, "code": code})
    # synthetic code strings: model vs the formula applied by Python (ties PV.PyStr.splitlines to CPython once more)
    n_syn = 1500 if tier == "quick" else 20000
    alphabet = ["a", "r1", " ", "\n", "\n", "\r", "\r\n", "\x0b", "\x0c", "\x1c", "\x1d", "\x1e", "\x85", " ", " ", "#", "é"]
    for i in range(n_syn):
        s = "".join(r.choice(alphabet) for _ in range(r.randrange(0, 12)))
        chk.count(("syn", s), nontrivial=any(c in s for c in "\n\r"))
        m = drv.call(cmd="stats", code=[ord(c) for c in s])
        nl = len(s.splitlines())
        real = [nl, len(s) + max(nl - 1, 0)]
        if m != real:
            diffs.append({"stream": "Stats model vs Python formula", "text": s, "model": m, "real": real})
    drv.close()
    chk.coverage["rule"] = ("every shipped test case / example / mod script and generated programs, each under several option vectors; distinct = distinct (code, num_registers); "
                            "plus synthetic strings over line-break characters for the splitlines model")
    chk.coverage["explanation"] = "statistics theorems proved for all line lists; Stats model and allocator count tied to the real results by correspondence"
    if diffs:
        chk.broken.append(f"correspondence differs on {len(diffs)} cases; first: {json.dumps(diffs[0])[:500]}")
    if failures:
        f = min(failures, key=lambda x: len(x.get("code", x.get("src", ""))) if isinstance(x.get("src", ""), str) else 10**6)
        chk.violation(dict(f, broken=chk.broken))
    elif chk.broken:
        chk.violation({"what": "proof obligation or correspondence no longer checks (no program found whose statistics are wrong)", "broken": chk.broken,
                       "first_difference": diffs[0] if diffs else None}, no_failing_input=True)
    return chk.finish()


def replay(path: str) -> int:
    rp = json.loads(open(path).read())
    if "src" not in rp or "opts" not in rp:
        print("replay names a broken obligation only:", rp.get("broken"))
        return 1
    res, cap = whole.compile_captured(rp["src"], rp["opts"])
    if "error" in res:
        print("replay: now a compile error:", res["error"]["description"][:200])
        return 0
    bad = judge(res, cap)
    if bad:
        print(f"VIOLATION property=C17 replay={path}\n   " + "; ".join(bad))
        return 1
    print("replay: holds now")
    return 0
