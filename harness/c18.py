"""C18 — share links round-trip.

Theorems (lean/PV/Props/C18.lean): b64_roundtrip, urlsafe, share_roundtrip — for all byte strings.
Tie: correspondence of the model (`encodeTail` / `decodeTail`) with types.encode_data /
types.decode_data on generated JSON objects and on arbitrary (malformed) strings.
Oracle / search: the property itself, on the real functions.
"""
from __future__ import annotations

import json
import zlib

from . import common
from .common import Check, Driver, proof_stage, rng_for

PROP = "C18"
MODULE = "PV.Props.C18"
THEOREMS = ["PV.Props.C18.b64_roundtrip", "PV.Props.C18.urlsafe", "PV.Props.C18.share_roundtrip"]

URLSAFE = set("ABCDEFGHIJKLMNOPQRSTUVWXYZabcdefghijklmnopqrstuvwxyz0123456789-_")


def gen_text(r, n):
    pools = [
        lambda: chr(r.randrange(32, 127)),
        lambda: r.choice("\n\t\r \"\\'#:,{}[]"),
        lambda: chr(r.randrange(0xA0, 0x800)),
        lambda: chr(r.choice([0x20AC, 0x2028, 0x2029, 0x3000, 0xFFFD, 0xFEFF])),
        lambda: chr(r.randrange(0x10000, 0x10FFFF)),
        lambda: chr(r.randrange(0xD800, 0xE000)),  # lone surrogate (json escapes it)
        lambda: chr(r.randrange(0, 32)),
    ]
    w = [60, 10, 8, 4, 6, 2, 3]
    return "".join(r.choices(pools, w)[0]() for _ in range(n))


def gen_value(r, depth=0):
    k = r.random()
    if k < 0.35 or depth > 2:
        return gen_text(r, r.choice([0, 1, 2, 3, 5, 8, 13, 40, 200]))
    if k < 0.5:
        return r.choice([0, 1, -1, 2 ** 31, -2 ** 63, 10 ** 30, r.randrange(-10 ** 6, 10 ** 6)])
    if k < 0.6:
        return r.choice([0.5, -0.0, 1e300, 1e-300, 3.141592653589793, r.uniform(-1e6, 1e6)])
    if k < 0.7:
        return r.choice([True, False, None])
    if k < 0.85:
        return [gen_value(r, depth + 1) for _ in range(r.randrange(0, 4))]
    return {gen_text(r, r.randrange(0, 6)): gen_value(r, depth + 1) for _ in range(r.randrange(0, 4))}


OPTION_NAMES = ["original_code_as_comment", "generated_comments", "inline_functions", "remove_labels",
                "append_version", "compact", "tail_call_optimization", "use_push_pop_functions"]


def gen_dict(r):
    if r.random() < 0.6:
        # the shape the web editor sends
        d = {"code": gen_text(r, r.choice([0, 1, 2, 3, 4, 5, 6, 7, 10, 50, 300, 1500])),
             "options": {n: r.random() < 0.5 for n in r.sample(OPTION_NAMES, r.randrange(0, 9))}}
        if r.random() < 0.3:
            d["extra"] = gen_value(r)
        return d
    return {gen_text(r, r.randrange(0, 8)): gen_value(r) for _ in range(r.randrange(0, 5))}


def gen_malformed(r):
    alphabet = "ABCDEFGHIJKLMNOPQRSTUVWXYZabcdefghijklmnopqrstuvwxyz0123456789-_+/="
    n = r.choice([0, 1, 2, 3, 4, 5, 6, 7, 8, 9, 11, 17, 40])
    s = "".join(r.choice(alphabet) if r.random() < 0.85 else r.choice(" \n!*~.é€ ") for _ in range(n))
    return s


def real_decode_capture(types_mod, s):
    """call decode_data, capturing what it hands to zlib.decompress.  Returns ('bytes', [..]) if
    base64 decoding succeeded, ('error', type) if base64 decoding raised."""
    captured = {}
    orig = zlib.decompress

    class Stop(Exception):
        pass

    def fake(data, *a, **k):
        captured["data"] = bytes(data)
        raise Stop()

    zlib.decompress = fake
    try:
        try:
            types_mod.decode_data(s)
        except Stop:
            return ("bytes", list(captured["data"]))
        except Exception as e:  # binascii.Error / ValueError for non-ascii
            return ("error", type(e).__name__)
        return ("error", "no-decompress-call")
    finally:
        zlib.decompress = orig


def oracle_roundtrip(types_mod, d):
    """the property itself, on the real code: returns None if it holds, else a description"""
    try:
        enc = types_mod.encode_data(d)
    except Exception as e:
        return f"encode_data raised {type(e).__name__}: {e}"
    bad = sorted(set(enc) - URLSAFE)
    if bad:
        return f"encoded form contains non-URL-safe characters {bad!r}"
    try:
        dec = types_mod.decode_data(enc)
    except Exception as e:
        return f"decode_data(encode_data(d)) raised {type(e).__name__}: {e}"
    if dec != d:
        return "decode_data(encode_data(d)) != d"
    # the round trip is a property of the functions, not of the first call: what a caller does with one result
    # (the web editor mutates the decoded dict) must not change what the same link decodes to afterwards
    import copy
    want = copy.deepcopy(d)
    try:
        if isinstance(dec, dict):
            dec["__mutated_by_caller__"] = 1
        elif isinstance(dec, list):
            dec.append("__mutated_by_caller__")
        dec2 = types_mod.decode_data(types_mod.encode_data(d))
    except Exception as e:
        return f"second decode_data(encode_data(d)) raised {type(e).__name__}: {e}"
    if dec2 != want:
        return "decode_data(encode_data(d)) != d on the second call, after the caller changed the first result"
    return None


def run(tier: str, seed: int) -> int:
    chk = Check(PROP, tier, seed, "proof")
    chk.assumptions = [
        "zlib.decompress(zlib.compress(b)) == b and json.loads(json.dumps(d)) == d (hypotheses of share_roundtrip; d ranges over JSON values)",
        "model a2b = CPython binascii.a2b_base64 non-strict mode; validated by correspondence on malformed strings each run",
    ]
    proof_stage(chk, MODULE, THEOREMS)
    from stationeers_pytrapic import types as T
    drv = Driver()
    r = rng_for(PROP, seed)
    n_obj = 1500 if tier == "quick" else 60000
    n_mal = 1500 if tier == "quick" else 60000
    failures = []   # oracle failures (property fails on real code)
    diffs = []      # correspondence differences
    mod3 = {0: 0, 1: 0, 2: 0}

    def one_object(d):
        if json.loads(json.dumps(d)) != d:
            chk.bump("skipped_not_json_value")
            return
        comp = zlib.compress(json.dumps(d).encode())
        mod3[len(comp) % 3] += 1
        chk.count(("obj", comp))
        f = oracle_roundtrip(T, d)
        if f:
            failures.append({"what": f, "input": d})
            return
        enc_real = T.encode_data(d)
        enc_model = drv.call(cmd="b64enc", bytes=list(comp))
        if enc_real != enc_model:
            diffs.append({"stream": "encode_data vs encodeTail", "input": d, "real": enc_real, "model": enc_model})
        kind, val = real_decode_capture(T, enc_real)
        m = drv.call(cmd="b64dec", chars=[ord(c) for c in enc_real])
        if kind != "bytes" or m != val:
            diffs.append({"stream": "decode_data vs decodeTail", "input": enc_real, "real": [kind, val], "model": m})
        chk.sample({"d": d if len(json.dumps(d)) < 200 else "<%d chars of JSON>" % len(json.dumps(d)), "encoded": enc_real[:80]})

    # corpus first
    corpus = [{}, {"code": "", "options": {}}, {"code": "a"}, {"code": "ab"}, {"code": "abc"}, {"k": "€\U0001F600"},
              {"code": "x=1\n# pytrapic: compact\n", "options": {"compact": True}},
              # long programs: JSON text beyond 64 KiB / 128 KiB (repetitive, non-ASCII comments, hardly compressible)
              {"code": "db.Setting = db.Setting + 1\n" * 3000, "options": {}}, {"code": "# Größe der Anlage: 5 m³\n" * 4000},
              {"code": "".join(chr(33 + (i * 7919) % 90) for i in range(140000)), "options": {"compact": False}}]
    for d in corpus:
        one_object(d)
    for _ in range(n_obj):
        one_object(gen_dict(r))
    # raw byte strings straight into the tail functions (all lengths 0..40 + random)
    for n in list(range(0, 41)) + [r.randrange(41, 400) for _ in range(60)]:
        bs = [r.randrange(256) for _ in range(n)] if n % 2 else [r.choice([0, 255, 251, 62, 63]) for _ in range(n)]
        chk.count(("raw", tuple(bs)))
        enc = drv.call(cmd="b64enc", bytes=bs)
        import base64
        real = base64.b64encode(bytes(bs)).decode().replace("+", "-").replace("/", "_").replace("=", "")
        if enc != real:
            diffs.append({"stream": "b64encode tail", "input": bs, "real": real, "model": enc})
    # malformed stream for the decoder
    for _ in range(n_mal):
        s = gen_malformed(r)
        chk.count(("mal", s))
        kind, val = real_decode_capture(T, s)
        try:
            m = drv.call(cmd="b64dec", chars=[ord(c) for c in s])
        except common.Infra:
            raise
        if any(ord(c) > 127 for c in s):
            # b64decode(str) requires ASCII: real raises ValueError before decoding; outside the model
            chk.bump("malformed_non_ascii")
            if kind != "error":
                diffs.append({"stream": "decode non-ascii", "input": s, "real": [kind, val], "model": m})
            continue
        chk.bump("malformed_ok" if kind == "bytes" else "malformed_error")
        if (kind == "bytes" and m != val) or (kind == "error" and m is not None):
            diffs.append({"stream": "decode_data vs decodeTail (malformed)", "input": s, "real": [kind, val], "model": m})
    drv.close()
    chk.coverage["distribution"] = dict(chk.coverage.get("distribution", {}), compressed_len_mod3=mod3)
    chk.coverage["rule"] = ("JSON objects from a seeded generator (editor-shaped {code, options} and arbitrary nested values; all Unicode planes, "
                            "lone surrogates, control characters); distinct = distinct compressed byte string / distinct malformed string; "
                            "non-trivial = passes json round-trip pre-check (objects) or is a decoder input (malformed)")
    chk.coverage["explanation"] = "theorems over all byte strings; correspondence + direct round-trip oracle on the real functions"
    if diffs:
        chk.broken.append(f"correspondence differs on {len(diffs)} cases; first: {json.dumps(diffs[0], default=str)[:300]}")
    if chk.broken and not failures:
        # failing-input search with a larger budget, judged by the property oracle on the real code
        r2 = rng_for(PROP, seed, "search")
        for d in [x["input"] for x in diffs if isinstance(x.get("input"), dict)]:
            f = oracle_roundtrip(T, d)
            if f:
                failures.append({"what": f, "input": d})
        for _ in range(20000 if tier == "quick" else 200000):
            d = gen_dict(r2)
            if json.loads(json.dumps(d)) != d:
                continue
            f = oracle_roundtrip(T, d)
            if f:
                failures.append({"what": f, "input": d})
                break
    if failures:
        f = min(failures, key=lambda x: len(json.dumps(x["input"], default=str)))
        f = shrink(T, f)
        chk.violation({"what": f["what"], "input": f["input"], "replay_cmd": "./check C18 --replay <this file>",
                       "broken": chk.broken})
    elif chk.broken:
        chk.violation({"what": "proof obligation or correspondence no longer checks", "broken": chk.broken,
                       "first_difference": diffs[0] if diffs else None}, no_failing_input=True)
    return chk.finish()


def shrink(T, f):
    d = f["input"]
    if not isinstance(d, dict):
        return f
    best = d
    changed = True
    while changed:
        changed = False
        for k in list(best.keys()):
            cand = {a: b for a, b in best.items() if a != k}
            if oracle_roundtrip(T, cand):
                best = cand
                changed = True
                break
        for k, v in list(best.items()):
            if isinstance(v, str) and len(v) > 1:
                for cand_v in (v[: len(v) // 2], v[len(v) // 2:], v[1:], v[:-1]):
                    cand = dict(best)
                    cand[k] = cand_v
                    if oracle_roundtrip(T, cand):
                        best = cand
                        changed = True
                        break
    return {"what": oracle_roundtrip(T, best) or f["what"], "input": best}


def replay(path: str) -> int:
    from stationeers_pytrapic import types as T
    rp = json.loads(open(path).read())
    if "input" not in rp:
        print("replay file names a broken obligation only:", rp.get("broken"))
        return 1
    f = oracle_roundtrip(T, rp["input"])
    if f:
        print(f"VIOLATION property=C18 replay={path}")
        print("  ", f)
        return 1
    print("replay: property holds on this input now")
    return 0
