"""Shared machinery of the /verif checks: Lean build + axiom audit, the pvdrv line-protocol
client, evidence writing, violation / known-finding reporting, PRNG.

Everything here runs offline, from /verif against /repo's *current working tree*.
"""
from __future__ import annotations

import fcntl
import hashlib
import json
import os
import random
import re
import subprocess
import sys
import time
from pathlib import Path

VERIF = Path(__file__).resolve().parent.parent
LEAN = VERIF / "lean"
REPO = Path(os.environ.get("PYTRAPIC_REPO", "/repo"))
EVID = VERIF / "evidence"
REPLAYS = VERIF / "replays"
PVDRV = LEAN / ".lake" / "build" / "bin" / "pvdrv"
GUARD = "PYTRAPIC_VERIF"

ALLOWED_AXIOMS = {"propext", "Classical.choice", "Quot.sound"}
FORBIDDEN_RE = re.compile(
    r"\bsorry\b|\badmit\b|^\s*axiom\s|native_decide|bv_decide|implemented_by|\bunsafe\s|maxHeartbeats\s+0\b"
)

os.environ.setdefault(GUARD, "1")
# byte-code cache for the package under test goes to /verif/.pycache (never into /repo): the sandbox sets
# PYTHONDONTWRITEBYTECODE, which makes every child interpreter (constexpr evaluation, daemon) recompile the
# 34k-line structure tables and miss the transpiler's own 1 s child timeout
os.environ.pop("PYTHONDONTWRITEBYTECODE", None)
os.environ["PYTHONPYCACHEPREFIX"] = str(VERIF / ".pycache")
sys.dont_write_bytecode = False
sys.pycache_prefix = str(VERIF / ".pycache")
# make sure the package under test is the working tree of /repo
sys.path.insert(0, str(REPO / "src"))


class Infra(Exception):
    """infrastructure trouble: exit code 2, never a VIOLATION"""


def seed_from_env() -> int:
    try:
        return int(os.environ.get("VERIF_SEED", "0"))
    except ValueError:
        return 0


def rng_for(prop: str, seed: int, stream: str = "") -> random.Random:
    h = hashlib.sha256(f"{prop}/{seed}/{stream}".encode()).digest()
    return random.Random(int.from_bytes(h[:8], "big"))


# ---------------------------------------------------------------------------------------------
# Lean build
# ---------------------------------------------------------------------------------------------

class BuildResult:
    def __init__(self, ok: bool, log: str, failed_modules: list[str], errors: list[str], wall: float):
        self.ok = ok
        self.log = log
        self.failed_modules = failed_modules
        self.errors = errors
        self.wall = wall


def _lock():
    VERIF.joinpath(".lock").touch(exist_ok=True)
    f = open(VERIF / ".lock", "r+")
    fcntl.flock(f, fcntl.LOCK_EX)
    return f


def run_extract() -> dict:
    """Regenerate lean/PV/Gen/*.lean from /repo's working tree. Returns the extractor's report
    (lost anchors etc.)."""
    env = dict(os.environ)
    env["PYTHONPATH"] = str(REPO / "src")
    p = subprocess.run(
        ["/venv/bin/python", str(VERIF / "tools" / "extract.py"), "--repo", str(REPO), "--out", str(LEAN / "PV" / "Gen")],
        capture_output=True, text=True, env=env, timeout=600,
    )
    rep_path = LEAN / "PV" / "Gen" / "report.json"
    report = {}
    if rep_path.exists():
        try:
            report = json.loads(rep_path.read_text())
        except Exception:
            report = {}
    report["returncode"] = p.returncode
    report["stderr"] = p.stderr[-4000:]
    return report


def lake_build(targets: list[str], timeout: int = 3000) -> BuildResult:
    t0 = time.time()
    try:
        p = subprocess.run(["lake", "build", *targets], cwd=LEAN, capture_output=True, text=True, timeout=timeout)
    except subprocess.TimeoutExpired:
        raise Infra("lake build timed out")
    except FileNotFoundError:
        raise Infra("lake not found")
    log = p.stdout + p.stderr
    failed = re.findall(r"^- (\S+)$", log, flags=re.M)
    errors = re.findall(r"^error: (.*)$", log, flags=re.M)
    return BuildResult(p.returncode == 0, log, failed, errors, time.time() - t0)


_BUILT: dict[tuple, BuildResult] = {}


def ensure_built(targets: list[str]) -> tuple[dict, BuildResult]:
    """extract + build under the global lock"""
    lk = _lock()
    try:
        rep = run_extract()
        br = lake_build(targets)
    finally:
        fcntl.flock(lk, fcntl.LOCK_UN)
        lk.close()
    return rep, br


def strip_comments(src: str) -> str:
    # remove /- ... -/ (nested not handled beyond one level, enough for our files) and -- comments
    out = []
    i = 0
    depth = 0
    n = len(src)
    while i < n:
        if src.startswith("/-", i):
            depth += 1
            i += 2
            continue
        if depth and src.startswith("-/", i):
            depth -= 1
            i += 2
            continue
        if depth:
            if src[i] == "\n":
                out.append("\n")
            i += 1
            continue
        if src.startswith("--", i):
            j = src.find("\n", i)
            if j < 0:
                break
            i = j
            continue
        out.append(src[i])
        i += 1
    return "".join(out)


def grep_forbidden() -> list[str]:
    hits = []
    for f in sorted((LEAN / "PV").rglob("*.lean")) + [LEAN / "Main.lean"]:
        txt = strip_comments(f.read_text())
        for k, line in enumerate(txt.splitlines(), 1):
            if FORBIDDEN_RE.search(line):
                hits.append(f"{f.relative_to(LEAN)}:{k}: {line.strip()[:120]}")
    return hits


def axioms_audit(module: str, theorems: list[str]) -> dict:
    """`#print axioms` for each property theorem; returns {theorem: [axioms]} and problems."""
    tmp = LEAN / ".lake" / f"axioms_{module.replace('.', '_')}_{os.getpid()}.lean"
    tmp.parent.mkdir(exist_ok=True)
    body = f"import {module}\n" + "".join(f"#print axioms {t}\n" for t in theorems)
    tmp.write_text(body)
    try:
        p = subprocess.run(["lake", "env", "lean", str(tmp)], cwd=LEAN, capture_output=True, text=True, timeout=1200)
    finally:
        try:
            tmp.unlink()
        except OSError:
            pass
    out = p.stdout + p.stderr
    res: dict[str, list[str]] = {}
    problems: list[str] = []
    # outputs look like: 'PV.X.thm' depends on axioms: [propext, Quot.sound]   |  'thm' does not depend on any axioms
    for m in re.finditer(r"'([^']+)' depends on axioms: \[([^\]]*)\]", out, flags=re.S):
        axs = [a.strip() for a in m.group(2).replace("\n", " ").split(",") if a.strip()]
        res[m.group(1)] = axs
    for m in re.finditer(r"'([^']+)' does not depend on any axioms", out):
        res[m.group(1)] = []
    for t in theorems:
        if t not in res:
            problems.append(f"theorem {t} not found / not checked: {out[-600:]}")
        else:
            bad = [a for a in res[t] if a not in ALLOWED_AXIOMS]
            if bad:
                problems.append(f"theorem {t} depends on non-standard axioms {bad}")
    return {"axioms": res, "problems": problems, "raw": out[-2000:] if problems else ""}


def leanchecker(modules: list[str]) -> tuple[bool, str]:
    try:
        p = subprocess.run(["lake", "env", "leanchecker", *modules], cwd=LEAN, capture_output=True, text=True, timeout=3000)
    except Exception as e:  # pragma: no cover
        return False, str(e)
    return p.returncode == 0, (p.stdout + p.stderr)[-2000:]


# ---------------------------------------------------------------------------------------------
# pvdrv client
# ---------------------------------------------------------------------------------------------

def load_timeout(text) -> bool:
    """the transpiler gives its constexpr child process one second; under the load of parallel checks the child can miss it — an
    artefact of the run, not of the code.  Recognised by the word, not by the exact message (the wording may change)."""
    import re as _re
    return bool(_re.search(r"(?i)time[d]?[ -]?out", str(text)))


def load_timeout_result(*results) -> bool:
    """the same, looking only at the error descriptions of compile results (never at emitted code or source text)"""
    return any(isinstance(r, dict) and isinstance(r.get("error"), dict) and load_timeout(r["error"].get("description", "")) for r in results)


class Driver:
    def __init__(self):
        if not PVDRV.exists():
            raise Infra(f"{PVDRV} missing (build failed?)")
        self.p = subprocess.Popen([str(PVDRV)], stdin=subprocess.PIPE, stdout=subprocess.PIPE, text=True, bufsize=1)
        self.calls = 0

    def call(self, **req):
        self.calls += 1
        self.p.stdin.write(json.dumps(req) + "\n")
        self.p.stdin.flush()
        line = self.p.stdout.readline()
        if not line:
            raise Infra(f"pvdrv died on {json.dumps(req)[:300]}")
        r = json.loads(line)
        if "err" in r:
            raise Infra(f"pvdrv error {r['err']} on {json.dumps(req)[:300]}")
        return r["ok"]

    def try_call(self, **req):
        """like call, but model-level errors are returned as ('err', msg)"""
        self.calls += 1
        self.p.stdin.write(json.dumps(req) + "\n")
        self.p.stdin.flush()
        line = self.p.stdout.readline()
        if not line:
            raise Infra(f"pvdrv died on {json.dumps(req)[:300]}")
        return json.loads(line)

    def close(self):
        try:
            self.p.stdin.close()
            self.p.wait(timeout=5)
        except Exception:
            self.p.kill()


# ---------------------------------------------------------------------------------------------
# known findings
# ---------------------------------------------------------------------------------------------

def load_known_findings() -> list[dict]:
    p = VERIF / "known_findings.json"
    if not p.exists():
        return []
    return json.loads(p.read_text())["findings"]


# ---------------------------------------------------------------------------------------------
# a check run
# ---------------------------------------------------------------------------------------------

class Check:
    """Collects what one property check did; writes evidence; prints the verdict lines."""

    def __init__(self, prop: str, tier: str, seed: int, level: str):
        self.prop = prop
        self.tier = tier
        self.seed = seed
        self.level = level
        self.t0 = time.time()
        self.violations: list[dict] = []
        self.known_hits: dict[str, str] = {}
        self.coverage: dict = {"samples": []}
        self.assumptions: list[str] = []
        self.obligations: list[str] = []
        self.discharged: list[str] = []
        self.broken: list[str] = []  # broken proof obligations / correspondences (names)
        self.notes: list[str] = []
        self._nontrivial: set = set()
        self.evaluations = 0
        # known findings are looked up by id; a finding recorded under one property may surface in the check of another
        self.known = [f for f in load_known_findings() if f.get("status") == "known"]

    # -- bookkeeping -----------------------------------------------------------------------
    def count(self, key=None, nontrivial: bool = True):
        self.evaluations += 1
        if nontrivial and key is not None:
            self._nontrivial.add(hashlib.sha1(repr(key).encode()).hexdigest()[:16])

    def sample(self, obj, limit: int = 6):
        if len(self.coverage["samples"]) < limit:
            self.coverage["samples"].append(obj)

    def bump(self, name: str, by: int = 1):
        d = self.coverage.setdefault("distribution", {})
        d[name] = d.get(name, 0) + by

    # -- verdicts ----------------------------------------------------------------------------
    def known_finding(self, fid: str, what: str):
        if fid not in self.known_hits:
            self.known_hits[fid] = what

    def violation(self, replay: dict, no_failing_input: bool = False):
        REPLAYS.mkdir(exist_ok=True)
        replay = dict(replay)
        replay["property"] = self.prop
        replay["seed"] = self.seed
        replay["tier"] = self.tier
        replay["no_failing_input_found"] = no_failing_input
        blob = json.dumps(replay, sort_keys=True, default=str)
        h = hashlib.sha1(blob.encode()).hexdigest()[:12]
        path = REPLAYS / f"{self.prop}-{h}.json"
        path.write_text(json.dumps(replay, indent=1, default=str))
        self.violations.append({"replay": str(path.relative_to(VERIF)), "nofail": no_failing_input,
                                "what": replay.get("what", "")})

    # -- finish ------------------------------------------------------------------------------
    def finish(self) -> int:
        wall = time.time() - self.t0
        cov = self.coverage
        cov["evaluations"] = self.evaluations
        cov["distinct_nontrivial"] = len(self._nontrivial)
        cov["obligations"] = len(self.obligations)
        cov["discharged"] = len(self.discharged)
        cov["obligation_names"] = self.obligations
        cov["undischarged"] = [o for o in self.obligations if o not in self.discharged]
        cov["broken_ties"] = self.broken
        cov["known_findings_printed"] = sorted(self.known_hits)
        if self.notes:
            cov["notes"] = self.notes
        ev = {
            "property_id": self.prop,
            "tier": self.tier,
            "seed": self.seed,
            "level": self.level,
            "coverage": cov,
            "assumptions": self.assumptions,
            "wall_s": round(wall, 2),
            "violations": len(self.violations),
        }
        EVID.mkdir(exist_ok=True)
        (EVID / f"{self.prop}.json").write_text(json.dumps(ev, indent=1, default=str))
        for fid, what in sorted(self.known_hits.items()):
            print(f"KNOWN-FINDING: property={self.prop} {fid} {what}")
        for v in self.violations:
            tail = " no-failing-input-found" if v["nofail"] else ""
            print(f"VIOLATION property={self.prop} replay={v['replay']}{tail}")
        print(f"[{self.prop}] tier={self.tier} seed={self.seed} evaluations={self.evaluations} "
              f"distinct_nontrivial={len(self._nontrivial)} obligations={len(self.discharged)}/{len(self.obligations)} "
              f"violations={len(self.violations)} wall={wall:.1f}s")
        return 1 if self.violations else 0


def standard_trusted_base() -> list[str]:
    return [
        "Lean 4.33.0 kernel (thorough tier: leanchecker re-check)",
        "axioms allowed: propext, Classical.choice, Quot.sound (audited with #print axioms each run)",
        "translator tools/extract.py (tables regenerated from /repo each run)",
        "correspondence harness /verif/harness (generators, canonicalisation) and CPython 3.12 as the environment of the code under test",
    ]


def proof_stage(chk: Check, module: str, theorems: list[str], extra_targets: list[str] | None = None):
    """Build the property's module + pvdrv, audit axioms. Fills obligations/discharged.
    Returns (extract_report, build_result, audit). A failed build is recorded in chk.broken
    (the caller runs the failing-input search)."""
    targets = [module, "pvdrv"] + (extra_targets or [])
    rep, br = ensure_built(targets)
    chk.obligations = list(theorems)
    chk.coverage["checker_cmd"] = f"cd /verif/lean && lake build {' '.join(targets)} && lake env lean <#print axioms of {len(theorems)} theorems>"
    chk.coverage["trusted_base"] = standard_trusted_base()
    chk.coverage["build_wall_s"] = round(br.wall, 1)
    if rep.get("returncode", 0) != 0:
        raise Infra("extractor crashed: " + rep.get("stderr", "")[-800:])
    for a in rep.get("lost_anchors", []):
        chk.broken.append(f"translator anchor lost: {a}")
    audit = {"axioms": {}, "problems": []}
    if not br.ok:
        if not br.failed_modules and not br.errors:
            raise Infra("lake build failed without diagnostics: " + br.log[-800:])
        chk.broken.append("lake build failed: modules " + ", ".join(br.failed_modules) + " | " + " ; ".join(br.errors[:6]))
        chk.coverage["build_log_tail"] = br.log[-3000:]
        # which theorems still check?  (those in modules that did build are audited below)
    forb = grep_forbidden()
    if forb:
        chk.broken.append("forbidden constructs in Lean sources: " + "; ".join(forb[:5]))
    if br.ok:
        audit = axioms_audit(module, theorems)
        for t in theorems:
            if t in audit["axioms"] and not [a for a in audit["axioms"][t] if a not in ALLOWED_AXIOMS]:
                chk.discharged.append(t)
        for pr in audit["problems"]:
            chk.broken.append(pr)
        chk.coverage["axioms"] = {t: audit["axioms"].get(t) for t in theorems}
        if chk.tier == "thorough":
            ok, out = leanchecker([module])
            chk.coverage["leanchecker"] = "ok" if ok else out
            if not ok:
                chk.broken.append("leanchecker rejected " + module)
    return rep, br, audit
