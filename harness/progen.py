"""Program generator for the whole-program properties (C01, C02, C04, C06, C07, C09, C13, C17 …).

Programs are generated as the core AST of `PV.Src` (lean/PV/Src/Lang.lean) and *printed* as dialect
Python for the transpiler, with random choices of surface syntax.  The same AST is shipped to `pvdrv`
as JSON, so the reference semantics and the transpiler see the same program.

The main stream avoids the trigger pattern of every known finding (see `Profile`), so that any failure
there is new by construction; `witness programs` for the known findings live in known_findings/.
"""
from __future__ import annotations

import struct
from dataclasses import dataclass, field

# ---------------------------------------------------------------------------------------------
# numbers
# ---------------------------------------------------------------------------------------------


def f2bits(x: float) -> str:
    return str(struct.unpack("<Q", struct.pack("<d", float(x)))[0])


def bits2f(s) -> float:
    return struct.unpack("<d", struct.pack("<Q", int(s)))[0]


def pynum(v: float) -> str:
    """Python literal for a constant"""
    if float(v).is_integer() and abs(v) < 1e15:
        return str(int(v))
    return repr(float(v))


# device pins: d0..d5 -> -1..-6, db -> -7 (PV.IC10.Parse)
PIN = {"d0": -1, "d1": -2, "d2": -3, "d3": -4, "d4": -5, "d5": -6, "db": -7}

BINOPS = {  # python operator -> ALU name of the reference semantics
    "+": "add", "-": "sub", "*": "mul", "/": "div", "%": "mod",
    "<": "slt", ">": "sgt", "<=": "sle", ">=": "sge", "==": "seq", "!=": "sne",
    "and": "and", "or": "or", "&": "and", "|": "or", "^": "xor", "<<": "sll", ">>": "srl", "**": "pow",
}
ALU2PY = {}
for _k, _v in BINOPS.items():
    ALU2PY.setdefault(_v, _k)
CMP = ["<", ">", "<=", ">=", "==", "!="]


@dataclass
class Profile:
    """what the generator may produce"""
    functions: bool = True
    max_funcs: int = 2
    loops: bool = True
    nested_loops_in_functions: bool = False   # known finding F-C04-a
    for_range: bool = True
    for_list: bool = True
    continue_in_for: bool = False             # known finding F-C01-c
    name_copies: bool = False                 # known finding F-C01-a (x = y)
    bool_ops: bool = True
    index_lists: bool = True
    intrinsics: bool = True
    stack_access: bool = True
    batch: bool = True
    slots: bool = True
    ifexp: bool = True
    terminating_main_with_functions: bool = False   # known finding F-C07-a
    early_return_in_tail_caller: bool = False       # known finding F-C02-a
    push_pop_user: bool = False
    calls_in_for_list: bool = False                 # known finding F-C06-a (ra clobbered inside the for-list body subroutine)
    max_globals: int = 4
    call_heavy: bool = False                        # more nested calls and early returns (C06 / C01 call paths)
    cond_compare_only: bool = False                 # `if` tests are comparisons (optionally under one `not`)
    no_params: bool = False                         # parameterless functions (inlining binds parameters by aliasing: F-C02-c)
    procedures_only: bool = False                   # functions return nothing (inlining of value-returning functions: F-C04-b/c)
    return_in_loops: bool = False                   # functions whose loop bodies end in a conditional return
    tco_safe: bool = False                          # tail calls only in functions with no other call and no early return (F-C02-a family)
    global_writes: bool = True                      # functions assign module-level variables (`global g`)
    loop_control: bool = True                       # break / continue at all
    leaf_functions: bool = False                    # functions call nothing (the proved core covers calls of leaf procedures)
    range_var_bounds: bool = True                   # `b = e % 4; for i in range(b)`: a range bound held in a variable whose last use is the loop header
    loopctl_heavy: bool = False                     # many break / continue / dead loops (C05 loop-label paths)
    dead_loops: bool = True                         # `while False:` blocks (disabled code)
    named_constants: bool = True                    # module-level single-assignment constants used by name (folded by the transpiler)
    max_index_list: int = 5                         # known finding F-C01-f (jump table for 6 and more elements picks the neighbour)
    max_stmts: int = 7
    max_depth: int = 2
    modules: int = 0


@dataclass
class Scope:
    """names visible while generating: definitely-assigned variables"""
    is_func: bool
    params: list = field(default_factory=list)
    locals_: list = field(default_factory=list)      # assigned locals
    loopvars: list = field(default_factory=list)     # loop variables currently in scope (readable, not assignable)
    in_loop: int = 0
    loop_kind: list = field(default_factory=list)
    globals_written: set = field(default_factory=set)


STRUCTS = None


def load_structs():
    """a few typed structures with their readable / writable logic types and slots, by introspection"""
    global STRUCTS
    if STRUCTS is not None:
        return STRUCTS
    from stationeers_pytrapic import structures_generated as sg, types as T
    from stationeers_pytrapic.types_generated import LogicType, LogicSlotType, LogicBatchMethod
    from stationeers_pytrapic.utils import calc_hash
    out = []
    for name in ["ActiveVent", "DaylightSensor", "GasSensor", "WallHeater", "AdvancedFurnace", "GrowLight", "Autolathe", "Battery",
                 "SolarPanel", "WallLight", "ConsoleLED5", "GlassDoor"]:
        cls = getattr(sg, name, None)
        if cls is None:
            continue
        inst = cls("d0")
        reads, writes, slots = [], [], []
        for attr in dir(cls):
            if attr.startswith("_"):
                continue
            p = None
            for k in cls.__mro__:
                if attr in vars(k):
                    p = vars(k)[attr]
                    break
            if not isinstance(p, property):
                continue
            try:
                v = p.fget(inst)
            except Exception:
                continue
            if attr in ("Maximum", "Minimum", "Average", "Sum"):
                continue   # also a batch-method name: `Xs.Maximum.…` is ambiguous in the dialect
            if isinstance(v, T._DeviceLogicType) and isinstance(v._logic_type, LogicType):
                reads.append((attr, int(v._logic_type)))
                if p.fset is not None:
                    writes.append((attr, int(v._logic_type)))
            elif isinstance(v, T._BaseSlotType):
                props = []
                for sattr in dir(type(v)):
                    sp = None
                    for k in type(v).__mro__:
                        if sattr in vars(k):
                            sp = vars(k)[sattr]
                            break
                    if isinstance(sp, property):
                        try:
                            sv = sp.fget(v)
                        except Exception:
                            continue
                        if isinstance(sv, T._DeviceSlotType):
                            props.append((sattr, int(sv._slot_type)))
                slots.append((attr, int(v._slot_index), props))
        plural = name + "s"
        if not hasattr(sg, plural):
            continue
        out.append({"name": name, "plural": plural, "hash": calc_hash(cls._prefab_name), "prefab": cls._prefab_name,
                    "reads": sorted(reads), "writes": sorted(writes), "slots": sorted(slots)})
    bm = {m.name: int(m) for m in LogicBatchMethod}
    STRUCTS = {"structs": out, "bm": bm,
               "generic_lt": [(n, int(getattr(LogicType, n))) for n in ["Setting", "On", "Temperature", "Pressure", "Open", "Mode", "Ratio", "Horizontal", "Vertical", "Lock", "Power"]]}
    return STRUCTS


NAMES = ["Alpha", "Bay 2", "x", "Door", "in"]


class Gen:
    def __init__(self, r, profile: Profile | None = None):
        self.r = r
        self.p = profile or Profile()
        self.S = load_structs()
        self.consts = [0, 1, 2, 3, 4, 5, 7, 10, 0.5, 1.5, 20, 100, -1, -2, 25, 50]
        self.gvars: list[str] = []          # definitely assigned globals (at the current program point of main)
        self.gvars_multi: set[str] = set()   # globals assigned more than once
        self.funcs: list[dict] = []
        self.decls: list[str] = []           # device declarations printed at the top
        self.dev_objs: list[tuple] = []      # (python name, struct, pin)
        self.counter = 0
        self.features: dict[str, int] = {}
        self.pool: set[float] = set([0.0, 1.0, -1.0, 0.5, 2.0, 100.0, 3.0])
        self.used_names = set()
        self.calls_of: dict[str, int] = {}
        self.all_globals: set[str] = set()
        self.named_consts: list = []
        self.cur_func_index = None

    # -- helpers ---------------------------------------------------------------------------
    def feat(self, name):
        self.features[name] = self.features.get(name, 0) + 1

    def fresh(self, prefix):
        self.counter += 1
        return f"{prefix}{self.counter}"

    def const(self):
        c = float(self.r.choice(self.consts))
        self.pool.update([c, c + 1, c - 1])
        if self.p.named_constants and self.r.random() < 0.15:
            return self.named(c)
        return ("num", c)

    def named(self, c: float):
        """a module-level constant `K<n> = c` used by name: to the reference semantics it is the number"""
        for nm, v in self.named_consts:
            if v == c:
                return ("num", c, {"name": nm})
        nm = f"K{len(self.named_consts) + 1}"
        self.named_consts.append((nm, c))
        self.decls.append(f"{nm} = {pynum(c)}")
        return ("num", c, {"name": nm})

    # -- expressions -----------------------------------------------------------------------
    def var_ref(self, sc: Scope):
        cands = []
        if sc.is_func:
            cands += [("lvar", n) for n in sc.params + sc.locals_ + sc.loopvars]
            cands += [("gvar", n) for n in self.gvars_at_def]
        else:
            cands += [("gvar", n) for n in self.gvars + sc.loopvars]
        return self.r.choice(cands) if cands else None

    def read_expr(self, sc, depth):
        r = self.r
        k = r.random()
        S = self.S
        if k < 0.40 or not (self.p.batch or self.p.slots):
            pin = r.choice(list(PIN))
            lt = r.choice(S["generic_lt"])
            self.feat("read_l")
            return ("read", "l", [("num", float(PIN[pin])), ("num", float(lt[1]))], {"form": "pin", "pin": pin, "lt": lt[0]})
        if k < 0.55 and self.dev_objs:
            nm, st, pin = r.choice(self.dev_objs)
            if st["reads"]:
                lt = r.choice(st["reads"])
                self.feat("read_l_struct")
                return ("read", "l", [("num", float(PIN[pin])), ("num", float(lt[1]))], {"form": "obj", "obj": nm, "lt": lt[0]})
        if k < 0.75 and self.p.batch:
            st = r.choice(S["structs"])
            if st["reads"]:
                lt = r.choice(st["reads"])
                mode = r.choice(list(S["bm"].items()))
                if r.random() < 0.4:
                    nm = r.choice(NAMES)
                    from stationeers_pytrapic.utils import calc_hash
                    self.feat("read_lbn")
                    return ("read", "lbn", [("num", float(st["hash"])), ("num", float(calc_hash(nm))), ("num", float(lt[1])), ("num", float(mode[1]))],
                            {"form": "lbn", "plural": st["plural"], "name": nm, "lt": lt[0], "mode": mode[0], "order": r.random() < 0.5})
                self.feat("read_lb")
                return ("read", "lb", [("num", float(st["hash"])), ("num", float(lt[1])), ("num", float(mode[1]))],
                        {"form": "lb", "plural": st["plural"], "lt": lt[0], "mode": mode[0], "order": r.random() < 0.5})
        if k < 0.85 and self.p.slots:
            cands = [s for s in S["structs"] if s["slots"] and any(p for _, _, p in s["slots"])]
            if cands:
                st = r.choice(cands)
                sl = r.choice([s for s in st["slots"] if s[2]])
                prop = r.choice(sl[2])
                pin = r.choice([p for p in PIN if p != "db"])
                self.feat("read_ls")
                return ("read", "ls", [("num", float(PIN[pin])), ("num", float(sl[1])), ("num", float(prop[1]))],
                        {"form": "ls", "struct": st["name"], "pin": pin, "slot": sl[0], "prop": prop[0]})
        if self.p.stack_access:
            if r.random() < 0.5:
                a = float(r.randrange(100, 140))
                self.feat("read_stack_own")
                return ("sget", ("num", a))
            pin = r.choice(["d0", "d1", "d2"])
            a = float(r.randrange(0, 20))
            self.feat("read_stack_dev")
            return ("read", "get", [("num", float(PIN[pin])), ("num", a)], {"form": "stackdev", "pin": pin})
        return self.const()

    def expr(self, sc: Scope, depth=0, want_bool=False, allow_call=True):
        r = self.r
        if want_bool:
            return self.bool_expr(sc, depth)
        k = r.random()
        if depth >= self.p.max_depth or k < 0.22:
            v = self.var_ref(sc)
            if v and r.random() < 0.7:
                return v
            return self.const() if r.random() < 0.5 else self.read_expr(sc, depth)
        if k < 0.38:
            return self.read_expr(sc, depth)
        if k < 0.70:
            op = r.choice(["+", "-", "*", "+", "-", "/", "%"])
            a = self.expr(sc, depth + 1, allow_call=allow_call)
            if op == "/":
                b = ("num", float(r.choice([2, 4, 5, 10, 0.5])))
            elif op == "%":
                b = ("num", float(r.choice([2, 3, 5, 10])))
            else:
                b = self.expr(sc, depth + 1, allow_call=allow_call)
            if a[0] == "num" and b[0] == "num":
                a = self.read_expr(sc, depth)     # keep expressions non-constant (constant folding has its own property, C03)
            self.feat("binop")
            return ("bin", BINOPS[op], a, b)
        if k < 0.76:
            a = self.expr(sc, depth + 1, allow_call=allow_call)
            if a[0] == "num":
                a = self.read_expr(sc, depth)
            self.feat("neg")
            return ("un", "neg", a)
        if k < 0.82 and self.p.ifexp:
            c = self.bool_expr(sc, depth + 1)
            a = self.expr(sc, depth + 1, allow_call=False)
            b = self.expr(sc, depth + 1, allow_call=False)
            self.feat("ifexp")
            return ("ifexp", c, a, b)
        if k < 0.88 and self.p.intrinsics:
            f = r.choice(["max", "min", "abs", "floor", "ceil", "trunc", "sqrt", "sin", "cos", "round"])
            self.feat("prim_" + f)
            if f in ("max", "min"):
                return ("prim", f, [self.expr(sc, depth + 1, allow_call=allow_call), self.expr(sc, depth + 1, allow_call=allow_call)])
            a = self.expr(sc, depth + 1, allow_call=allow_call)
            if f == "sqrt":
                a = ("prim", "abs", [a])
            if a[0] == "num":
                a = self.read_expr(sc, depth)
            return ("prim", f, [a])
        if k < 0.92 and self.p.index_lists and sc.loopvars_int:
            lv, n = r.choice(sc.loopvars_int)
            if n > self.p.max_index_list:
                return self.read_expr(sc, depth)
            vals = [("num", float(r.choice([3, 6, 7, 90, 91, 92, 123, 456, 777, 12, 0.5]))) for _ in range(n)]
            for v in vals:
                self.pool.add(v[1])
            self.feat(f"index_{n}")
            return ("index", vals, (("lvar", lv) if sc.is_func else ("gvar", lv)))
        if k < 0.97 and allow_call and self.p.functions:
            c = self.call_expr(sc, depth, need_value=True)
            if c:
                return c
        if self.p.bool_ops:
            return self.bool_expr(sc, depth + 1)
        return self.read_expr(sc, depth)

    def bool_expr(self, sc, depth=0):
        r = self.r
        k = r.random()
        if depth >= self.p.max_depth or k < 0.7:
            op = r.choice(CMP)
            a = self.expr(sc, depth + 1, allow_call=False)
            b = self.expr(sc, depth + 1, allow_call=False)
            if a[0] == "num" and b[0] == "num":
                a = self.read_expr(sc, depth)
            self.feat("compare")
            return ("bin", BINOPS[op], a, b)
        if k < 0.85 and self.p.bool_ops:
            op = r.choice(["and", "or"])
            self.feat("boolop_" + op)
            return ("bin", op, self.bool_expr(sc, depth + 1), self.bool_expr(sc, depth + 1))
        self.feat("not")
        return ("un", "not", self.bool_expr(sc, depth + 1))

    def call_expr(self, sc, depth, need_value):
        if self.p.leaf_functions and self.cur_func_index is not None:
            return None
        lo = 0 if self.cur_func_index is None else self.cur_func_index + 1
        cands = [f for f in self.funcs[lo:] if (f["returns"] if need_value else True)]
        if not cands:
            return None
        f = self.r.choice(cands)
        args = [self.expr(sc, depth + 1, allow_call=False) for _ in f["params"]]
        self.calls_of[f["name"]] = self.calls_of.get(f["name"], 0) + 1
        self.feat("call")
        return ("call", f["name"], args)

    # -- statements ------------------------------------------------------------------------
    def write_stmt(self, sc):
        r = self.r
        S = self.S
        k = r.random()
        v = self.expr(sc, 1)
        if k < 0.45:
            pin = r.choice(list(PIN))
            lt = r.choice(S["generic_lt"])
            self.feat("write_s")
            return ("write", "s", [("num", float(PIN[pin])), ("num", float(lt[1])), v], {"form": "pin", "pin": pin, "lt": lt[0]})
        if k < 0.58 and self.dev_objs:
            nm, st, pin = r.choice(self.dev_objs)
            if st["writes"]:
                lt = r.choice(st["writes"])
                self.feat("write_s_struct")
                return ("write", "s", [("num", float(PIN[pin])), ("num", float(lt[1])), v], {"form": "obj", "obj": nm, "lt": lt[0]})
        if k < 0.75 and self.p.batch:
            st = r.choice([s for s in S["structs"] if s["writes"]])
            lt = r.choice(st["writes"])
            if r.random() < 0.4:
                from stationeers_pytrapic.utils import calc_hash
                nm = r.choice(NAMES)
                self.feat("write_sbn")
                return ("write", "sbn", [("num", float(st["hash"])), ("num", float(calc_hash(nm))), ("num", float(lt[1])), v],
                        {"form": "sbn", "plural": st["plural"], "name": nm, "lt": lt[0]})
            self.feat("write_sb")
            return ("write", "sb", [("num", float(st["hash"])), ("num", float(lt[1])), v], {"form": "sb", "plural": st["plural"], "lt": lt[0]})
        if k < 0.88 and self.p.stack_access:
            if r.random() < 0.5:
                a = float(r.randrange(100, 140))
                self.feat("write_stack_own")
                return ("sput", ("num", a), v)
            pin = r.choice(["d0", "d1", "d2"])
            self.feat("write_stack_dev")
            return ("write", "put", [("num", float(PIN[pin])), ("num", float(r.randrange(0, 20))), v], {"form": "stackdev", "pin": pin})
        pin = r.choice(list(PIN))
        lt = r.choice(S["generic_lt"])
        self.feat("write_s")
        return ("write", "s", [("num", float(PIN[pin])), ("num", float(lt[1])), v], {"form": "pin", "pin": pin, "lt": lt[0]})

    def assign_stmt(self, sc: Scope):
        r = self.r
        e = self.expr(sc, 0)
        if e[0] in ("gvar", "lvar") and not self.p.name_copies:
            e = ("bin", "add", e, self.const())
        if e[0] == "num":
            # a variable holding a compile-time constant is folded into its uses; comparisons of such variables
            # fold to Python booleans (known finding F-C09-a) — constants are used through literals / K-names instead
            e = self.read_expr(sc, 0)
        if sc.is_func and self.p.global_writes and self.gvars_at_def and r.random() < 0.2:
            n = r.choice(self.gvars_at_def)
            self.gvars_multi.add(n)
            self.feat("assign_global_in_function")
            return ("gassign", n, e)
        if sc.is_func:
            # local (new or existing) — never a parameter-less global write without `global`
            if sc.locals_ and r.random() < 0.7:
                n = r.choice(sc.locals_)
            else:
                n = self.fresh("v")
                sc.locals_.append(n)
            self.feat("assign_local")
            return ("lassign", n, e)
        named = [g for g in self.gvars if g.startswith("g")]
        if self.gvars and (r.random() < 0.75 or len(self.all_globals) >= self.p.max_globals):
            n = r.choice([g for g in self.gvars])
            self.gvars_multi.add(n)
        else:
            n = self.fresh("g")
            self.gvars.append(n)
            self.all_globals.add(n)
        self.feat("assign_global")
        return ("gassign", n, e)

    def aug_stmt(self, sc: Scope):
        r = self.r
        if sc.is_func:
            if not sc.locals_:
                return self.assign_stmt(sc)
            n = r.choice(sc.locals_)
            tgt = ("lvar", n)
        else:
            if not self.gvars:
                return self.assign_stmt(sc)
            n = r.choice(self.gvars)
            self.gvars_multi.add(n)
            tgt = ("gvar", n)
        op = r.choice(["+", "-", "+", "-", "*"])
        if op == "*":
            e = ("num", float(r.choice([0.5, 1, -1, 2])))
        else:
            e = self.expr(sc, 1, allow_call=False)
        self.feat("augassign")
        return ("lassign" if sc.is_func else "gassign", n, ("bin", BINOPS[op], tgt, e), {"aug": op})

    def block(self, sc: Scope, depth, n=None, in_func_ret=None):
        n = n if n is not None else self.r.randrange(1, 4)
        out = []
        for _ in range(n):
            out.extend(self.stmt(sc, depth, in_func_ret))
        return out or [("pass",)]

    def stmt(self, sc: Scope, depth, in_func_ret=None):
        r = self.r
        k = r.random()
        can_nest = depth < 2
        if self.p.call_heavy and sc.is_func and r.random() < 0.45:
            if in_func_ret is not None and self.allow_early_return and r.random() < 0.5:
                self.feat("early_return")
                cond = self.bool_expr(sc, 1)
                if in_func_ret:
                    return [("ite", cond, [("ret", self.expr(sc, 1, allow_call=False))], [])]
                return [("ite", cond, [("ret", None)], [])]
            c = self.call_expr(sc, 1, need_value=False)
            if c:
                self.feat("call_stmt")
                return [("expr", c)]
        if self.p.loopctl_heavy and sc.in_loop and r.random() < 0.3:
            kind = sc.loop_kind[-1]
            if r.random() < 0.5 or not (kind == "while" or self.p.continue_in_for):
                self.feat("break")
                return [("ite", self.bool_expr(sc, 1), [("brk",)], [])]
            self.feat("continue")
            return [("ite", self.bool_expr(sc, 1), [("cont",)], [])]
        if self.p.dead_loops and can_nest and r.random() < (0.2 if self.p.loopctl_heavy else 0.03):
            self.feat("dead_while")
            return [("while", ("num", 0.0), [self.write_stmt(sc)], {"spelling": r.choice(["False", "0"])})]
        if k < 0.30:
            return [self.write_stmt(sc)]
        if k < 0.50:
            return [self.assign_stmt(sc)]
        if k < 0.58:
            return [self.aug_stmt(sc)]
        if k < 0.70 and can_nest:
            c = self.bool_expr(sc, 1) if r.random() < 0.85 else self.expr(sc, 1, allow_call=False)
            if self.p.cond_compare_only:
                a_, b_ = self.expr(sc, 2, allow_call=False), self.expr(sc, 2, allow_call=False)
                if a_[0] == "num" and b_[0] == "num":
                    a_ = self.read_expr(sc, 2)
                c = ("bin", BINOPS[r.choice(CMP)], a_, b_)
                if r.random() < 0.25:
                    c = ("un", "not", c)
            CMPS = ("slt", "sgt", "sle", "sge", "seq", "sne", "and", "or")
            def testable(e, top=True):
                # supported `if` tests: comparison, and/or, a name, an attribute read, and `not` of one of those (once)
                if e[0] == "bin":
                    return e[1] in CMPS
                if e[0] == "un" and e[1] == "not" and top:
                    return testable(e[2], False)
                return e[0] in ("gvar", "lvar") or (e[0] == "read" and e[1] == "l")
            if not testable(c):
                c = ("bin", "sgt", c, ("num", 0.0))
            save_l, save_g = list(sc.locals_), list(self.gvars)
            t = self.block(sc, depth + 1, in_func_ret=in_func_ret)
            tl, tg = sc.locals_, self.gvars
            sc.locals_, self.gvars = list(save_l), list(save_g)
            e = self.block(sc, depth + 1, in_func_ret=in_func_ret) if r.random() < 0.5 else []
            # definitely assigned after the if: intersection
            sc.locals_ = [x for x in save_l] + [x for x in tl if x in sc.locals_ and x not in save_l] if e else list(save_l)
            self.gvars = [x for x in save_g] + [x for x in tg if x in self.gvars and x not in save_g] if e else list(save_g)
            self.feat("if_else" if e else "if")
            return [("ite", c, t, e)]
        if k < 0.80 and can_nest and self.p.loops and (not sc.is_func or sc.in_loop == 0 or self.p.nested_loops_in_functions):
            return [self.loop_stmt(sc, depth, in_func_ret)]
        if k < 0.86 and self.p.functions:
            c = self.call_expr(sc, 1, need_value=False)
            if c:
                self.feat("call_stmt")
                return [("expr", c)]
        if k < 0.90 and sc.in_loop and self.p.loop_control:
            kind = sc.loop_kind[-1]
            if r.random() < 0.5:
                self.feat("break")
                return [("ite", self.bool_expr(sc, 1), [("brk",)], [])]
            if kind == "while" or self.p.continue_in_for:
                self.feat("continue")
                return [("ite", self.bool_expr(sc, 1), [("cont",)], [])]
        if k < 0.94 and in_func_ret is not None and depth > 0 and self.allow_early_return:
            self.feat("early_return")
            if in_func_ret:
                return [("ite", self.bool_expr(sc, 1), [("ret", self.expr(sc, 1, allow_call=False))], [])]
            return [("ite", self.bool_expr(sc, 1), [("ret", None)], [])]
        if k < 0.97:
            self.feat("sleep_yield")
            return [("yield",)] if r.random() < 0.6 else [("sleep", ("num", float(r.choice([1, 0.5, 2]))))]
        return [self.write_stmt(sc)]

    def loop_stmt(self, sc: Scope, depth, in_func_ret):
        r = self.r
        k = r.random()
        save_l, save_g = list(sc.locals_), list(self.gvars)
        sc.in_loop += 1
        try:
            if k < 0.45 and self.p.for_range:
                lv = self.fresh("i")
                nargs = r.choice([1, 1, 2, 3])
                n = r.choice([2, 3, 4, 5, 6, 7])
                if nargs == 1:
                    start, stop, step = ("num", 0.0), ("num", float(n)), ("num", 1.0)
                    idx_ok = n
                elif nargs == 2:
                    s0 = r.choice([0, 1, 2])
                    start, stop, step = ("num", float(s0)), ("num", float(s0 + n)), ("num", 1.0)
                    idx_ok = None
                else:
                    if r.random() < 0.5:
                        start, stop, step = ("num", 0.0), ("num", float(2 * n)), ("num", 2.0)
                    else:
                        start, stop, step = ("num", float(n)), ("num", 0.0), ("num", -1.0)
                    idx_ok = None
                if self.p.named_constants and r.random() < 0.35:
                    which = r.choice(["step", "stop", "start"]) if nargs == 3 else r.choice(["stop", "start"] if nargs == 2 else ["stop"])
                    if which == "step":
                        step = self.named(step[1])
                    elif which == "stop":
                        stop = self.named(stop[1])
                    else:
                        start = self.named(start[1])
                    self.feat("for_range_named_const")
                pre = None
                if self.p.range_var_bounds and nargs in (1, 2) and r.random() < 0.35:
                    # the bound lives in a variable of its own that nothing else mentions: its last textual use is the header
                    bn = self.fresh("b")
                    e = self.var_ref(sc) if r.random() < 0.5 else None
                    e = e or self.read_expr(sc, 1)
                    be = ("bin", "mod", e, ("num", 4.0))
                    if nargs == 2:
                        be = ("bin", "add", be, start)
                    pre = ("lassign", bn, be) if sc.is_func else ("gassign", bn, be)
                    stop = ("lvar", bn) if sc.is_func else ("gvar", bn)
                    idx_ok = None
                    self.feat("for_range_var_bound")
                sc.loopvars.append(lv)
                if idx_ok:
                    sc.loopvars_int.append((lv, idx_ok))
                sc.loop_kind.append("for")
                body = self.block(sc, depth + 1, in_func_ret=in_func_ret)
                if pre:
                    # the body starts by computing something that needs a new temporary and a new variable, and shows it
                    tn = self.fresh("t")
                    lvx = ("lvar", lv) if sc.is_func else ("gvar", lv)
                    te = ("bin", "add", ("bin", "mul", lvx, ("num", 2.0)), ("num", 1.0))
                    pin = r.choice(list(PIN))
                    lt = r.choice(self.S["generic_lt"])
                    body = [("lassign", tn, te) if sc.is_func else ("gassign", tn, te),
                            ("write", "s", [("num", float(PIN[pin])), ("num", float(lt[1])), ("lvar", tn) if sc.is_func else ("gvar", tn)],
                             {"form": "pin", "pin": pin, "lt": lt[0]})] + body
                if self.p.return_in_loops and sc.is_func and in_func_ret is not None and self.allow_early_return and r.random() < 0.5:
                    self.feat("return_at_end_of_loop_body")
                    rv = [("ret", self.expr(sc, 1, allow_call=False))] if in_func_ret else [("ret", None)]
                    body.append(("ite", self.bool_expr(sc, 1), rv, []))
                sc.loop_kind.pop()
                sc.loopvars.remove(lv)
                if idx_ok:
                    sc.loopvars_int.remove((lv, idx_ok))
                self.feat(f"for_range_{nargs}")
                loop = ("forRange", not sc.is_func, lv, start, stop, step, body, {"nargs": nargs})
                return ("seq", [pre, loop]) if pre else loop
            if k < 0.55 and self.p.for_list and not sc.is_func and sc.in_loop == 1:
                lv = self.fresh("e")
                vals = [("num", float(r.choice([1, 2, 3, 5, 8, 13, 0.5]))) for _ in range(r.randrange(1, 4))]
                sc.loopvars.append(lv)
                sc.loop_kind.append("forlist")
                save_p = self.p.functions
                if not self.p.calls_in_for_list:
                    self.p.functions = False
                try:
                    body = self.block(sc, depth + 1, in_func_ret=in_func_ret)
                finally:
                    self.p.functions = save_p
                sc.loop_kind.pop()
                sc.loopvars.remove(lv)
                self.feat("for_list")
                return ("forList", not sc.is_func, lv, vals, body)
            # while with a counter so that it terminates
            cn = f"n{sc.in_loop}" + ("" if not sc.is_func else "f")
            lim = float(r.choice([2, 3, 4, 5]))
            if sc.is_func:
                init = ("lassign", cn, ("num", 0.0))
                if cn not in sc.locals_:
                    sc.locals_.append(cn)
                cv = ("lvar", cn)
                inc = ("lassign", cn, ("bin", "add", cv, ("num", 1.0)), {"aug": "+"})
            else:
                init = ("gassign", cn, ("num", 0.0))
                if cn not in self.gvars:
                    self.gvars.append(cn)
                self.gvars_multi.add(cn)
                cv = ("gvar", cn)
                inc = ("gassign", cn, ("bin", "add", cv, ("num", 1.0)), {"aug": "+"})
            save_l2, save_g2 = list(sc.locals_), list(self.gvars)
            sc.loop_kind.append("while")
            self.protected.append(cn)
            body = self.block(sc, depth + 1, in_func_ret=in_func_ret)
            self.protected.pop()
            sc.loop_kind.pop()
            sc.locals_, self.gvars = save_l2, save_g2
            self.feat("while_counter")
            # increment first so that `continue` cannot skip it
            return ("seq", [init, ("while", ("bin", "slt", cv, ("num", lim)), [inc] + body)])
        finally:
            sc.in_loop -= 1
            # variables first assigned inside a loop body are not definitely assigned afterwards
            sc.locals_ = [x for x in sc.locals_ if x in save_l or x.startswith("n")] if False else sc.locals_
            keep_l = set(save_l) | {x for x in sc.locals_ if x.startswith("n")}
            keep_g = set(save_g) | {x for x in self.gvars if x.startswith("n")}
            sc.locals_ = [x for x in sc.locals_ if x in keep_l]
            self.gvars = [x for x in self.gvars if x in keep_g]

    # -- functions / program -------------------------------------------------------------------
    def gen_function(self, idx, name):
        r = self.r
        params = [] if self.p.no_params else [self.fresh("a") for _ in range(r.choice([0, 1, 1, 2, 2, 3] if self.p.max_funcs > 2 else [0, 1, 1, 2]))]
        returns = r.random() < 0.6 and not self.p.procedures_only
        sc = Scope(is_func=True, params=params)
        sc.loopvars_int = []
        self.cur_func_index = idx
        ends_with_call = r.random() < (0.5 if self.p.tco_safe else 0.25) and idx + 1 < len(self.func_names)
        self.allow_early_return = self.p.early_return_in_tail_caller or not ends_with_call
        save_functions = self.p.functions
        if self.p.tco_safe and ends_with_call:
            self.p.functions = False          # the only call of this function is its tail call
        try:
            body = self.block(sc, 0, n=r.randrange(1, 4), in_func_ret=returns)
        finally:
            self.p.functions = save_functions
        if self.p.tco_safe and not ends_with_call and not returns and body and body[-1][0] == "expr":
            body.append(self.write_stmt(sc))   # a function whose last statement happens to be a call would be tail-call optimised too
        if ends_with_call and self.p.tco_safe:
            # tail call only to a callee with the same "returns a value" status (F-C02-b: value left on the stack otherwise)
            lo = idx + 1
            cands = [f for f in self.funcs[lo:] if f["returns"] == returns]
            if cands:
                f = r.choice(cands)
                args = [self.expr(sc, 1, allow_call=False) for _ in f["params"]]
                self.calls_of[f["name"]] = self.calls_of.get(f["name"], 0) + 1
                self.feat("tail_call")
                body.append(("ret", ("call", f["name"], args)) if returns else ("expr", ("call", f["name"], args)))
            elif returns:
                body.append(("ret", self.expr(sc, 1, allow_call=False)))
        elif ends_with_call:
            c = self.call_expr(sc, 1, need_value=False)
            if c:
                if returns and self.funcs[idx + 1:] and any(f["returns"] for f in self.funcs[idx + 1:]):
                    c2 = self.call_expr(sc, 1, need_value=True)
                    body.append(("ret", c2))
                    self.feat("return_call")
                else:
                    body.append(("expr", c))
                    if returns:
                        body.append(("ret", self.expr(sc, 1, allow_call=False)))
            elif returns:
                body.append(("ret", self.expr(sc, 1, allow_call=False)))
        elif returns:
            body.append(("ret", self.expr(sc, 1, allow_call=False)))
        if self.p.return_in_loops and not ends_with_call and self.p.for_range and r.random() < 0.4:
            # the function ends in a loop whose body ends in a (conditional) return
            lv = self.fresh("i")
            sc.loopvars.append(lv)
            sc.in_loop += 1
            sc.loop_kind.append("for")
            lb = self.block(sc, 1, n=1, in_func_ret=returns)
            cond = self.bool_expr(sc, 1)
            rv = [("ret", self.expr(sc, 1, allow_call=False))] if returns else [("ret", None)]
            lb.append(("ite", cond, rv, []) if r.random() < 0.7 else ("ite", cond, [self.write_stmt(sc)], rv))
            sc.loop_kind.pop()
            sc.in_loop -= 1
            sc.loopvars.remove(lv)
            loop = ("forRange", False, lv, ("num", 0.0), ("num", float(r.choice([2, 3, 4]))), ("num", 1.0), lb, {"nargs": 1})
            if returns and body and body[-1][0] == "ret":
                body.insert(len(body) - 1, loop)
            else:
                body.append(loop)
            self.feat("function_ends_in_loop_with_return")
        self.cur_func_index = None
        return {"name": name, "params": params, "body": body, "returns": returns}

    def program(self):
        r = self.r
        p = self.p
        self.protected = []
        self.allow_early_return = False
        # device objects
        for i in range(r.randrange(0, 3)):
            st = r.choice(self.S["structs"])
            pin = r.choice([x for x in PIN if x != "db"])
            nm = self.fresh("dev")
            self.dev_objs.append((nm, st, pin))
            self.decls.append(f"{nm} = {st['name']}({pin})")
        # globals initialised before the functions are defined (so functions may read them)
        main_sc = Scope(is_func=False)
        main_sc.loopvars_int = []
        pre = []
        for _ in range(r.randrange(0, 3)):
            pre.append(self.assign_stmt(main_sc))
        self.gvars_at_def = list(self.gvars)
        nf = r.randrange(0, p.max_funcs + 1) if p.functions else 0
        self.func_names = [f"f{chr(ord('a') + i)}" for i in range(nf)]
        # generate callee-first so that callers know signatures: last function first
        self.funcs = [None] * nf
        for idx in reversed(range(nf)):
            # placeholder list semantics: funcs[idx+1:] are known
            self.funcs[idx] = {"name": self.func_names[idx], "params": [], "body": [], "returns": False}
            tmp = self.funcs
            self.funcs = [f if f is not None else {"name": "?", "params": [], "body": [], "returns": False} for f in tmp]
            f = self.gen_function(idx, self.func_names[idx])
            self.funcs = tmp
            self.funcs[idx] = f
        # globals read by functions must not be re-assigned … they may be (they live in registers), keep them readable
        main = list(pre)
        for _ in range(r.randrange(1, p.max_stmts)):
            main.extend(self.stmt(main_sc, 0))
        # make sure every function is called at least once somewhere (uncalled functions emit nothing)
        for f in self.funcs:
            if self.calls_of.get(f["name"], 0) == 0 and r.random() < 0.8:
                args = [self.expr(main_sc, 1, allow_call=False) for _ in f["params"]]
                self.calls_of[f["name"]] = 1
                if f["returns"]:
                    main.append(("write", "s", [("num", -7.0), ("num", 12.0), ("call", f["name"], args)], {"form": "pin", "pin": "db", "lt": "Setting"}))
                else:
                    main.append(("expr", ("call", f["name"], args)))
        has_outlined = nf > 0
        endless = (has_outlined and not p.terminating_main_with_functions) or r.random() < 0.3
        if endless:
            body = self.block(main_sc, 1, n=r.randrange(1, 4))
            body.append(("yield",))
            main.append(("while", ("num", 1.0), body))
            self.feat("endless_main")
        return {"funcs": [f for f in self.funcs], "main": main, "decls": list(self.decls)}


# ---------------------------------------------------------------------------------------------
# AST -> JSON for pvdrv (drops the printer hints, flattens ("seq", [...]))
# ---------------------------------------------------------------------------------------------

def jexpr(e):
    t = e[0]
    if t == "num":
        return ["num", f2bits(e[1])]
    if t in ("gvar", "lvar"):
        return [t, e[1]]
    if t == "bin":
        return ["bin", e[1], jexpr(e[2]), jexpr(e[3])]
    if t == "un":
        return ["un", e[1], jexpr(e[2])]
    if t == "ifexp":
        return ["ifexp", jexpr(e[1]), jexpr(e[2]), jexpr(e[3])]
    if t == "read":
        return ["read", e[1], [jexpr(a) for a in e[2]]]
    if t == "sget":
        return ["sget", jexpr(e[1])]
    if t == "prim":
        return ["prim", e[1], [jexpr(a) for a in e[2]]]
    if t == "index":
        return ["index", [jexpr(a) for a in e[1]], jexpr(e[2])]
    if t == "call":
        return ["call", e[1], [jexpr(a) for a in e[2]]]
    raise ValueError(t)


def jblock(ss):
    out = []
    for s in ss:
        out.extend(jstmt(s))
    return out


def jstmt(s):
    t = s[0]
    if t == "seq":
        return jblock(s[1])
    if t in ("gassign", "lassign"):
        return [[t, s[1], jexpr(s[2])]]
    if t == "write":
        return [["write", s[1], [jexpr(a) for a in s[2]]]]
    if t == "sput":
        return [["sput", jexpr(s[1]), jexpr(s[2])]]
    if t == "ite":
        return [["ite", jexpr(s[1]), jblock(s[2]), jblock(s[3])]]
    if t == "while":
        return [["while", jexpr(s[1]), jblock(s[2])]]
    if t == "forRange":
        return [["forRange", s[1], s[2], jexpr(s[3]), jexpr(s[4]), jexpr(s[5]), jblock(s[6])]]
    if t == "forList":
        return [["forList", s[1], s[2], [jexpr(a) for a in s[3]], jblock(s[4])]]
    if t in ("brk", "cont", "yield", "hcf", "pass"):
        return [[t]]
    if t == "ret":
        return [["ret", jexpr(s[1]) if s[1] is not None else None]]
    if t == "expr":
        return [["expr", jexpr(s[1])]]
    if t == "sleep":
        return [["sleep", jexpr(s[1])]]
    if t == "push":
        return [["push", jexpr(s[1])]]
    raise ValueError(t)


def jprogram(prog):
    return {"funcs": [{"name": f["name"], "params": f["params"], "body": jblock(f["body"])} for f in prog["funcs"]],
            "main": jblock(prog["main"])}


# ---------------------------------------------------------------------------------------------
# AST -> dialect Python
# ---------------------------------------------------------------------------------------------

PREC = {"or": 1, "and": 2, "not": 3, "slt": 4, "sgt": 4, "sle": 4, "sge": 4, "seq": 4, "sne": 4,
        "add": 6, "sub": 6, "mul": 7, "div": 7, "mod": 7, "neg": 8, "pow": 9}


def pexpr(e, prec=0, fprefix=""):
    t = e[0]
    if t == "num":
        if len(e) > 2 and isinstance(e[2], dict) and e[2].get("name"):
            return e[2]["name"]
        s = pynum(e[1])
        return f"({s})" if s.startswith("-") and prec > 5 else s
    if t in ("gvar", "lvar"):
        return e[1]
    if t == "bin":
        op = e[1]
        py = ALU2PY[op]
        pr = PREC.get(op, 5)
        if op in ("slt", "sgt", "sle", "sge", "seq", "sne"):
            s = f"{pexpr(e[2], 5, fprefix)} {py} {pexpr(e[3], 5, fprefix)}"
        else:
            s = f"{pexpr(e[2], pr, fprefix)} {py} {pexpr(e[3], pr + 1, fprefix)}"
        return f"({s})" if pr <= prec or prec >= 4 else s
    if t == "un":
        if e[1] == "neg":
            return f"(-{pexpr(e[2], 8, fprefix)})"
        if e[1] == "not":
            return f"(not {pexpr(e[2], 3, fprefix)})"
        return f"{e[1]}({pexpr(e[2], 0, fprefix)})"
    if t == "ifexp":
        return f"({pexpr(e[2], 1, fprefix)} if {pexpr(e[1], 1, fprefix)} else {pexpr(e[3], 1, fprefix)})"
    if t == "read":
        h = e[3]
        f = h["form"]
        if f == "pin":
            return f"{h['pin']}.{h['lt']}"
        if f == "obj":
            return f"{h['obj']}.{h['lt']}"
        if f == "lb":
            return f"{h['plural']}.{h['lt']}.{h['mode']}" if h["order"] else f"{h['plural']}.{h['mode']}.{h['lt']}"
        if f == "lbn":
            nm = f"[\"{h['name']}\"]"
            return f"{h['plural']}{nm}.{h['lt']}.{h['mode']}" if h["order"] else f"{h['plural']}{nm}.{h['mode']}.{h['lt']}"
        if f == "ls":
            return f"{h['struct']}({h['pin']}).{h['slot']}.{h['prop']}"
        if f == "stackdev":
            return f"Stack({h['pin']})[{pexpr(e[2][1], 0, fprefix)}]"
        raise ValueError(f)
    if t == "sget":
        return f"stack[{pexpr(e[1], 0, fprefix)}]"
    if t == "prim":
        return f"{e[1]}({', '.join(pexpr(a, 0, fprefix) for a in e[2])})"
    if t == "index":
        return f"[{', '.join(pexpr(a, 0, fprefix) for a in e[1])}][{pexpr(e[2], 0, fprefix)}]"
    if t == "call":
        return f"{fprefix}{e[1]}({', '.join(pexpr(a, 0, fprefix) for a in e[2])})"
    raise ValueError(t)


def prhs(e, ind, fprefix=""):
    """right-hand side of an assignment / device write; about one in three arithmetic expressions is laid out over several lines
    inside parentheses (one top-level operand per line) — the line a sub-expression stands on must not matter"""
    flat = pexpr(e, 0, fprefix)
    if e[0] == "bin" and e[1] in ("add", "sub", "mul") and (zlib_crc(flat) % 3 == 0):
        pr = PREC[e[1]]
        pad = "    " * ind + "    "
        return f"({pexpr(e[2], pr, fprefix)}\n{pad}{ALU2PY[e[1]]} {pexpr(e[3], pr + 1, fprefix)})"
    return flat


def zlib_crc(text):
    import zlib
    return zlib.crc32(text.encode("utf-8", "replace"))


def pblock(ss, ind, out, fprefix=""):
    if not ss:
        out.append("    " * ind + "pass")
    for s in ss:
        pstmt(s, ind, out, fprefix)


def pstmt(s, ind, out, fprefix=""):
    I = "    " * ind
    t = s[0]
    if t == "seq":
        for x in s[1]:
            pstmt(x, ind, out, fprefix)
    elif t in ("gassign", "lassign"):
        hint = s[3] if len(s) > 3 else None
        if hint and "aug" in hint:
            out.append(f"{I}{s[1]} {hint['aug']}= {pexpr(s[2][3], 0, fprefix)}")
        else:
            out.append(f"{I}{s[1]} = {prhs(s[2], ind, fprefix)}")
    elif t == "write":
        h = s[3]
        f = h["form"]
        v = prhs(s[2][-1], ind, fprefix)
        if f == "pin":
            out.append(f"{I}{h['pin']}.{h['lt']} = {v}")
        elif f == "obj":
            out.append(f"{I}{h['obj']}.{h['lt']} = {v}")
        elif f == "sb":
            out.append(f"{I}{h['plural']}.{h['lt']} = {v}")
        elif f == "sbn":
            out.append(f"{I}{h['plural']}[\"{h['name']}\"].{h['lt']} = {v}")
        elif f == "stackdev":
            out.append(f"{I}Stack({h['pin']})[{pexpr(s[2][1], 0, fprefix)}] = {v}")
        else:
            raise ValueError(f)
    elif t == "sput":
        out.append(f"{I}stack[{pexpr(s[1], 0, fprefix)}] = {pexpr(s[2], 0, fprefix)}")
    elif t == "ite":
        out.append(f"{I}if {pexpr(s[1], 0, fprefix)}:")
        pblock(s[2], ind + 1, out, fprefix)
        if s[3]:
            out.append(f"{I}else:")
            pblock(s[3], ind + 1, out, fprefix)
    elif t == "while":
        c = "True" if s[1] == ("num", 1.0) else (s[3]["spelling"] if len(s) > 3 and s[1] == ("num", 0.0) else pexpr(s[1], 0, fprefix))
        out.append(f"{I}while {c}:")
        pblock(s[2], ind + 1, out, fprefix)
    elif t == "forRange":
        h = s[7] if len(s) > 7 else {"nargs": 3}
        a = [pexpr(s[3], 0, fprefix), pexpr(s[4], 0, fprefix), pexpr(s[5], 0, fprefix)]
        args = {1: a[1:2], 2: a[0:2], 3: a}[h["nargs"]]
        out.append(f"{I}for {s[2]} in range({', '.join(args)}):")
        pblock(s[6], ind + 1, out, fprefix)
    elif t == "forList":
        out.append(f"{I}for {s[2]} in [{', '.join(pexpr(a, 0, fprefix) for a in s[3])}]:")
        pblock(s[4], ind + 1, out, fprefix)
    elif t == "brk":
        out.append(f"{I}break")
    elif t == "cont":
        out.append(f"{I}continue")
    elif t == "ret":
        out.append(f"{I}return" + (f" {pexpr(s[1], 0, fprefix)}" if s[1] is not None else ""))
    elif t == "expr":
        out.append(f"{I}{pexpr(s[1], 0, fprefix)}")
    elif t == "yield":
        out.append(f"{I}yield_()")
    elif t == "sleep":
        out.append(f"{I}sleep({pexpr(s[1], 0, fprefix)})")
    elif t == "hcf":
        out.append(f"{I}hcf()")
    elif t == "push":
        out.append(f"{I}push({pexpr(s[1], 0, fprefix)})")
    elif t == "pass":
        out.append(f"{I}pass")
    else:
        raise ValueError(t)


def globals_written(body, acc=None):
    acc = acc if acc is not None else set()
    for s in body:
        t = s[0]
        if t == "seq":
            globals_written(s[1], acc)
        elif t == "gassign":
            acc.add(s[1])
        elif t == "ite":
            globals_written(s[2], acc)
            globals_written(s[3], acc)
        elif t == "while":
            globals_written(s[2], acc)
        elif t == "forRange":
            if s[1]:
                acc.add(s[2])
            globals_written(s[6], acc)
        elif t == "forList":
            if s[1]:
                acc.add(s[2])
            globals_written(s[4], acc)
    return acc


def print_program(prog, header=True) -> str:
    out = []
    if header:
        out.append("from stationeers_pytrapic.symbols import *")
    out.extend(prog.get("decls", []))
    # globals that functions read must exist before the call; they are assigned in main before any call (generator invariant)
    # the dialect requires a function to be defined before the functions that call it: callees first
    for f in reversed(prog["funcs"]):
        out.append("")
        out.append(f"def {f['name']}({', '.join(f['params'])}):")
        gw = sorted(globals_written(f["body"]))
        if gw:
            out.append("    global " + ", ".join(gw))
        pblock(f["body"], 1, out)
    out.append("")
    pblock(prog["main"], 0, out)
    return "\n".join(out) + "\n"


def pool_of(gen: Gen):
    vals = sorted(gen.pool)
    return [f2bits(v) for v in vals]
