"""Validation of the reference semantics PV.Src against CPython.

PV.Src (lean/PV/Src/Lang.lean) is a hand-written specification: the meaning of the Python dialect every behavioural check
compares the emitted code with.  Here the SAME abstract program the generator produced is printed a second time, as plain
Python over two functions — `ENV(q, vals)` for a device read and `EFF(q, vals)` for an externally visible effect — and executed
by CPython itself: control flow, scoping (`global`), evaluation order, operators, short programs with functions, loops,
`break` / `continue` / `return` mean what the interpreter says.  The environment is an explicit pure function of (number of
effects so far, query, operand values); every value CPython asked for is recorded and handed to PV.Src as a table
(`run-src` with `table`), so both sides see the same devices.  The two effect traces must agree (prefix rule when the effect
budget stops CPython first).

Outside this comparison (counted, not judged): programs on which CPython raises (division by zero, `range` of a non-integer,
unbound names, stack addresses outside the stack), non-finite values, device-state queries."""
from __future__ import annotations

import math
import struct
import zlib

from . import progen

PYOP = {"add": "+", "sub": "-", "mul": "*", "div": "/", "mod": "%", "slt": "<", "sgt": ">", "sle": "<=", "sge": ">=", "seq": "==", "sne": "!=", "pow": "**"}


class Outside(Exception):
    pass


class Budget(Exception):
    pass


def f2bits(v: float) -> str:
    v = float(v)
    if v == 0.0:
        return "0"
    return str(struct.unpack("<Q", struct.pack("<d", v))[0])


def px(e) -> str:
    t = e[0]
    if t == "num":
        return repr(float(e[1]))
    if t in ("gvar", "lvar"):
        return e[1]
    if t == "bin":
        op = e[1]
        if op in PYOP:
            return f"({px(e[2])} {PYOP[op]} {px(e[3])})"
        if op == "and":
            return f"AND({px(e[2])}, lambda: {px(e[3])})"
        if op == "or":
            return f"OR({px(e[2])}, lambda: {px(e[3])})"
        raise Outside("operator " + op)
    if t == "un":
        if e[1] == "neg":
            return f"(-{px(e[2])})"
        if e[1] == "not":
            return f"(not {px(e[2])})"
        return f"PRIM({e[1]!r}, [{px(e[2])}])"
    if t == "ifexp":
        return f"({px(e[2])} if {px(e[1])} else {px(e[3])})"
    if t == "read":
        if e[1] in ("sdse", "sdns"):
            raise Outside("device-state query")
        return f"ENV({e[1]!r}, [{', '.join(px(a) for a in e[2])}])"
    if t == "sget":
        return f"MEMGET({px(e[1])})"
    if t == "prim":
        return f"PRIM({e[1]!r}, [{', '.join(px(a) for a in e[2])}])"
    if t == "index":
        return f"INDEX([{', '.join(px(a) for a in e[1])}], {px(e[2])})"
    if t == "call":
        return f"{e[1]}({', '.join(px(a) for a in e[2])})"
    raise Outside(t)


def ps(s, ind, out):
    I = "    " * ind
    t = s[0]
    if t == "seq":
        for x in s[1]:
            ps(x, ind, out)
    elif t in ("gassign", "lassign"):
        out.append(f"{I}{s[1]} = {px(s[2])}")
    elif t == "write":
        out.append(f"{I}EFF({s[1]!r}, [{', '.join(px(a) for a in s[2])}])")
    elif t == "sput":
        out.append(f"{I}MEMPUT({px(s[1])}, {px(s[2])})")
    elif t == "ite":
        out.append(f"{I}if {px(s[1])}:")
        pb(s[2], ind + 1, out)
        if s[3]:
            out.append(f"{I}else:")
            pb(s[3], ind + 1, out)
    elif t == "while":
        out.append(f"{I}while {px(s[1])}:")
        out.append(f"{I}    TICK()")
        pb(s[2], ind + 1, out)
    elif t == "forRange":
        out.append(f"{I}for {s[2]} in RANGE({px(s[3])}, {px(s[4])}, {px(s[5])}):")
        out.append(f"{I}    TICK()")
        pb(s[6], ind + 1, out)
    elif t == "forList":
        out.append(f"{I}for {s[2]} in [{', '.join(px(a) for a in s[3])}]:")
        pb(s[4], ind + 1, out)
    elif t == "brk":
        out.append(f"{I}break")
    elif t == "cont":
        out.append(f"{I}continue")
    elif t == "ret":
        out.append(f"{I}return" + (f" {px(s[1])}" if s[1] is not None else ""))
    elif t == "expr":
        out.append(f"{I}{px(s[1])}")
    elif t == "yield":
        out.append(f"{I}EFF('yield', [])")
    elif t == "sleep":
        out.append(f"{I}EFF('sleep', [{px(s[1])}])")
    elif t == "pass":
        out.append(f"{I}pass")
    else:
        raise Outside(t)


def pb(ss, ind, out):
    if not ss:
        out.append("    " * ind + "pass")
    for s in ss:
        ps(s, ind, out)


def plain_python(prog) -> str:
    out = []
    for f in reversed(prog["funcs"]):
        out.append(f"def {f['name']}({', '.join(f['params'])}):")
        gw = sorted(progen.globals_written(f["body"]))
        if gw:
            out.append("    global " + ", ".join(gw))
        pb(f["body"], 1, out)
        out.append("")
    pb(prog["main"], 0, out)
    return "\n".join(out) + "\n"


def run_python(prog, seed: int, pool: list[float], max_effects: int = 250):
    """→ (trace [[tag, bits…]], table [[n, q, [bits], bits]], outcome 'done' | 'budget') ; raises Outside"""
    code = plain_python(prog)
    trace, table, seen = [], [], {}

    def num(v):
        v = float(v)
        if v != v or v in (math.inf, -math.inf):
            raise Outside("non-finite value")
        return v

    def ENV(q, vals):
        vals = [num(v) for v in vals]
        key = (len(trace), q, tuple(f2bits(v) for v in vals))
        if key not in seen:
            h = zlib.crc32(repr((seed,) + key).encode())
            seen[key] = pool[h % len(pool)] if pool else 0.0
            table.append([key[0], q, list(key[2]), f2bits(seen[key])])
        return seen[key]

    def EFF(q, vals):
        trace.append([q] + [f2bits(num(v)) for v in vals])
        if len(trace) >= max_effects:
            raise Budget()

    ticks = [0]

    def TICK():
        # loops that perform no effect (a counter the body resets) would never meet the effect budget
        ticks[0] += 1
        if ticks[0] > 3000:
            raise Budget()

    MEM = [0.0] * 512

    def addr(a):
        a = num(a)
        n = math.floor(a)           # the chip truncates a stack address; PV.Src: `toAddr`
        if a < 0 or n >= 512:
            raise Outside("stack address")
        return n

    def MEMGET(a):
        return MEM[addr(a)]

    def MEMPUT(a, v):
        MEM[addr(a)] = num(v)

    def PRIM(op, args):
        args = [num(a) for a in args]
        try:
            if op in ("abs", "floor", "ceil", "trunc", "round", "sqrt", "sin", "cos", "tan", "exp", "log", "asin", "acos", "atan"):
                f = {"abs": abs, "round": round}.get(op) or getattr(math, op)
                return float(f(args[0]))
            if op in ("max", "min"):
                return float({"max": max, "min": min}[op](*args))
            if op == "atan2":
                return math.atan2(*args)
        except (ValueError, OverflowError):
            raise Outside("math domain")
        raise Outside("intrinsic " + op)

    def AND(a, b):
        # the dialect's `and` / `or` on truth values: the generator only combines comparisons and negations (0 / 1)
        return bool(a) and bool(b())

    def OR(a, b):
        return bool(a) or bool(b())

    def RANGE(a, b, c):
        a, b, c = num(a), num(b), num(c)
        if not (a.is_integer() and b.is_integer() and c.is_integer()) or c == 0:
            raise Outside("range of a non-integer")
        return [float(i) for i in range(int(a), int(b), int(c))]

    def INDEX(vals, i):
        i = num(i)
        if i < 0 or math.floor(i) >= len(vals):
            raise Outside("index out of range")
        return vals[math.floor(i)]

    ns = {"ENV": ENV, "EFF": EFF, "MEMGET": MEMGET, "MEMPUT": MEMPUT, "PRIM": PRIM, "AND": AND, "OR": OR, "RANGE": RANGE, "INDEX": INDEX, "TICK": TICK}
    outcome = "done"
    try:
        exec(compile(code, "<plain>", "exec"), ns, ns)
    except Budget:
        outcome = "budget"
    except Outside:
        raise
    except (ZeroDivisionError, OverflowError, NameError, UnboundLocalError, TypeError, RecursionError) as e:
        raise Outside(type(e).__name__)
    return trace, table, outcome, code


def compare(drv, prog, jprog, seed: int, pool: list[float], fuel: int = 400):
    """→ ('same' | 'outside:<why>' | 'differ', detail)"""
    try:
        tp, table, outcome, code = run_python(prog, seed, pool)
    except Outside as e:
        return "outside:" + str(e), None
    d = drv.call(cmd="run-src", prog=jprog, seed=seed, fuel=fuel, pool=pool, table=table if table else [[10 ** 9, "-", [], "0"]])
    ts = [[e[0]] + ["0" if b == "9223372036854775808" else b for b in e[1:]] for e in d["trace"]]     # -0.0 and 0.0 are the same number
    so = d["outcome"]
    if so.startswith("unbound") or so.startswith("fault"):
        return "differ", {"why": f"CPython runs the program ({outcome}, {len(tp)} effects) but PV.Src stops with {so}", "python": code}
    m = min(len(tp), len(ts))
    first = next((i for i in range(m) if tp[i] != ts[i]), None)
    if first is not None:
        return "differ", {"why": f"effect {first}: CPython {tp[first]} vs PV.Src {ts[first]}", "python": code}
    if outcome == "done" and so == "done" and len(tp) != len(ts):
        return "differ", {"why": f"both finish, CPython after {len(tp)} effects, PV.Src after {len(ts)}", "python": code}
    if outcome == "done" and len(ts) > len(tp):
        return "differ", {"why": f"CPython finishes after {len(tp)} effects, PV.Src goes on ({len(ts)}, {so})", "python": code}
    if so == "done" and len(tp) > len(ts):
        return "differ", {"why": f"PV.Src finishes after {len(ts)} effects, CPython goes on ({len(tp)}, {outcome})", "python": code}
    return "same", None
