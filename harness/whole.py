"""Shared helpers for the whole-program checks: compiling with the real transpiler, running the
equivalence oracle in pvdrv, option vectors, known-finding trigger predicates, shrinking."""
from __future__ import annotations

import copy
import dataclasses
import json

from . import progen

OPTION_NAMES = ["original_code_as_comment", "generated_comments", "inline_functions", "remove_labels",
                "append_version", "compact", "tail_call_optimization", "use_push_pop_functions"]
SEMANTIC = ["inline_functions", "remove_labels", "compact", "tail_call_optimization", "use_push_pop_functions"]
COMMENT = ["original_code_as_comment", "generated_comments", "append_version"]


def compile_real(src, opts: dict, modules: dict | None = None):
    from stationeers_pytrapic import compiler as C
    o = C.CompileOptions(**opts)
    if modules:
        d = dict(modules)
        d[""] = src
        return C.compile_code(d, o)
    return C.compile_code(src, o)


def default_opts(**kw):
    d = {"original_code_as_comment": False, "generated_comments": False, "inline_functions": True, "remove_labels": False,
         "append_version": False, "compact": False, "tail_call_optimization": False, "use_push_pop_functions": False}
    d.update(kw)
    return d


def random_opts(r):
    return {n: r.random() < 0.5 for n in OPTION_NAMES}


def covering_vectors(r, k=12):
    """option vectors covering all pairs of the five semantic options (random greedy), comments random"""
    import itertools
    need = set()
    for a, b in itertools.combinations(range(len(SEMANTIC)), 2):
        for va in (False, True):
            for vb in (False, True):
                need.add((a, va, b, vb))
    vecs = []
    while need and len(vecs) < 64:
        best, gain = None, -1
        for _ in range(30):
            v = [r.random() < 0.5 for _ in SEMANTIC]
            g = sum(1 for (a, va, b, vb) in need if v[a] == va and v[b] == vb)
            if g > gain:
                best, gain = v, g
        vecs.append(best)
        need = {(a, va, b, vb) for (a, va, b, vb) in need if not (best[a] == va and best[b] == vb)}
    out = []
    for v in vecs:
        d = {n: x for n, x in zip(SEMANTIC, v)}
        for c in COMMENT:
            d[c] = r.random() < 0.3
        out.append(d)
    return out[:max(k, len(out))]


def equiv(drv, prog, code: str, pool, seed: int, fuel=4000, steps=30000):
    return drv.call(cmd="equiv", prog=progen.jprogram(prog), text=code, seed=seed, fuel=fuel, steps=steps, pool=pool)


BAD_VERDICTS = {"trace-mismatch", "ic10-fault", "ic10-extra-effects", "ic10-missing-effects", "ic10-slow-or-stuck",
                "ic10-not-halted", "ic10-halted-early", "parse-error"}


def nonfinite_in_trace(drv, prog, pool, seed, fuel=4000):
    """does the reference run produce a non-finite value in an effect (outside the compared domain)?"""
    r = drv.call(cmd="run-src", prog=progen.jprogram(prog), seed=seed, fuel=fuel, pool=pool)
    for e in r["trace"]:
        for v in e[1:]:
            x = progen.bits2f(v)
            if x != x or x in (float("inf"), float("-inf")):
                return True
    return False


# ---------------------------------------------------------------------------------------------
# shrinking (delta debugging on statements)
# ---------------------------------------------------------------------------------------------

def _blocks(prog):
    """yield (container list, index) for every statement position"""
    def walk(ss):
        for i, s in enumerate(ss):
            yield ss, i
            t = s[0]
            if t == "seq":
                yield from walk(s[1])
            elif t == "ite":
                yield from walk(s[2])
                yield from walk(s[3])
            elif t == "while":
                yield from walk(s[2])
            elif t == "forRange":
                yield from walk(s[6])
            elif t == "forList":
                yield from walk(s[4])
    yield from walk(prog["main"])
    for f in prog["funcs"]:
        yield from walk(f["body"])


def mutable(prog):
    """deep copy with lists (tuples are immutable statements; containers are lists)"""
    return copy.deepcopy(prog)


def shrink(prog, still_fails, max_rounds=200):
    """greedy statement deletion while `still_fails(prog)` stays true"""
    best = mutable(prog)
    rounds = 0
    changed = True
    while changed and rounds < max_rounds:
        changed = False
        positions = list(_blocks(best))
        for k in range(len(positions)):
            rounds += 1
            if rounds > max_rounds:
                break
            cand = mutable(best)
            pos = list(_blocks(cand))
            if k >= len(pos):
                break
            ss, i = pos[k]
            del ss[i]
            try:
                if still_fails(cand):
                    best = cand
                    changed = True
                    break
            except Exception:
                continue
    return best


# ---------------------------------------------------------------------------------------------
# real-world sources shipped with the repository (test cases, examples, mod scripts + libraries)
# ---------------------------------------------------------------------------------------------

def repo_sources():
    """[(name, src or {"": src, lib: src…})] read from /repo's working tree"""
    import re
    from .common import REPO
    out = []
    for f in sorted((REPO / "test" / "cases").glob("*.py")):
        out.append(("case:" + f.stem, f.read_text(encoding="utf-8")))
    for f in sorted((REPO / "src" / "stationeers_pytrapic" / "examples").glob("*.py")):
        if "__init__" in f.name:
            continue
        out.append(("example:" + f.stem, f.read_text(encoding="utf-8")))
    libdir = REPO / "test" / "mod_libraries"
    for f in sorted((REPO / "test" / "mod_scripts").glob("*.py")):
        src = f.read_text(encoding="utf-8")
        mods = {"": src}
        for m in re.finditer(r"^from library import (.+)$", src, flags=re.M):
            for part in m.group(1).split(","):
                name = part.strip().split(" as ")[0].strip()
                lf = libdir / (name + ".py")
                if lf.exists():
                    mods[name] = lf.read_text(encoding="utf-8")
        out.append(("script:" + f.stem, mods))
    return out


def compile_any(src, opts: dict):
    """compile a str or a module dict with the real transpiler"""
    from stationeers_pytrapic import compiler as C
    return C.compile_code(dict(src) if isinstance(src, dict) else src, C.CompileOptions(**opts))


# ---------------------------------------------------------------------------------------------
# capture of the register allocator's input and output (harness-side wrapper, no change to /repo)
# ---------------------------------------------------------------------------------------------

class Capture:
    """what `assign_registers` saw and produced in one compilation"""

    def __init__(self):
        self.lines = []        # [{"op":…, "out": virt|None, "ins":[("r", virt)|("k", text)], "owner": fname}]
        self.symbols = []      # [{"scope":…, "name":…, "virt":…, "start":…, "stop":…, "tmp": bool, "phys": …}]
        self.scopes = []       # function scope names in data.functions
        self.modules = []
        self.called_from = {}
        self.used = None       # return value of assign_registers
        self.called_from = {}
        self.sorted_scopes = []
        self.mapping = {}
        self.error = None


def compile_captured(src, opts: dict):
    """compile with the real transpiler, recording the allocator's view. Returns (result, Capture)"""
    from stationeers_pytrapic import compiler as C, generate_code as G, register_assignment as RA
    from stationeers_pytrapic.types import IC10Register
    cap = Capture()
    orig = G.assign_registers

    def wrapper(data, code):
        owner = {}
        for fname, func in data.functions.items():
            for line in func.code:
                owner[id(line)] = fname
        def opnd(inp):
            v = inp.value
            if isinstance(v, IC10Register):
                return ["r", str(v.code_expr)]
            try:
                return ["k", inp.to_string()]
            except Exception as e:  # pragma: no cover
                return ["k", "<%s>" % type(e).__name__]
        for line in code:
            out = None
            if line.output is not None and line.output != "":
                out = str(getattr(line.output, "code_expr", line.output))
            cap.lines.append({"op": line.op, "out": out, "ins": [opnd(i) for i in line.inputs], "owner": owner.get(id(line), "?"),
                              "lineno": getattr(line.node, "lineno", None) if line.node is not None else None})
        syms = []
        for scope, table in data.symbols.items():
            for key, sym in table.items():
                if sym.is_register:
                    try:
                        lt = sym.lifetime
                        start, stop = lt.start, lt.stop
                    except Exception:
                        start, stop = None, None
                    syms.append((sym, {"scope": scope, "name": str(key), "virt": str(sym.code_expr), "start": start, "stop": min(stop, 10**9) if stop is not None else None,
                                       "tmp": bool(sym._is_intermediate)}))
        cap.scopes = sorted(data.functions.keys())
        cap.modules = sorted(data.modules.keys())
        used_names = set()
        for line in code:
            if line.output is not None and line.output != "":
                used_names.add(id(line.output))
            for inp in line.inputs:
                if isinstance(inp.value, IC10Register):
                    used_names.add(id(inp.value))
        for sym, d in syms:
            # `symbol in used_symbols` (dataclass equality) in the real code; identity or equal fields here
            d["used"] = id(sym) in used_names or any(sym == l.output for l in code if l.output is not None and l.output != "") \
                or any(isinstance(i.value, IC10Register) and i.value == sym for l in code for i in l.inputs)
        import sys as _sys
        grabbed = {}

        def prof(frame, event, arg):
            if event == "return" and frame.f_code is getattr(orig, "__code__", None):
                loc = frame.f_locals
                grabbed["called_from"] = {k: sorted(v) for k, v in loc.get("called_from", {}).items()}
                grabbed["sorted_scopes"] = list(loc.get("sorted_scopes", []))
                grabbed["mapping"] = dict(loc.get("mapping", {}))
        old_prof = _sys.getprofile()
        _sys.setprofile(prof)
        try:
            cap.used = orig(data, code)
        except Exception as e:
            cap.error = f"{type(e).__name__}: {e}"
            raise
        finally:
            _sys.setprofile(old_prof)
            cap.called_from = grabbed.get("called_from", {})
            cap.sorted_scopes = grabbed.get("sorted_scopes", [])
            cap.mapping = grabbed.get("mapping", {})
            for sym, d in syms:
                d["phys"] = str(sym.code_expr)
                d["color"] = sym._color
                cap.symbols.append(d)
        return cap.used

    G.assign_registers = wrapper
    try:
        res = C.compile_code(dict(src) if isinstance(src, dict) else src, C.CompileOptions(**opts))
    finally:
        G.assign_registers = orig
    return res, cap


# ---------------------------------------------------------------------------------------------
# program streams shared by the whole-program checks
# ---------------------------------------------------------------------------------------------

def profile(kind: str):
    """generator profiles.  `core`: no functions; `funcs`: out-of-line functions; every profile avoids the trigger
    pattern of every known finding (progen.Profile defaults), so a failure in these streams is new by construction."""
    P = progen.Profile
    if kind == "core":
        return P(max_stmts=6, functions=False)
    if kind == "funcs":
        return P(max_stmts=5, functions=True)
    if kind == "incore":
        return P(max_stmts=6, functions=False, for_list=False, index_lists=False, dead_loops=False,
                 bool_ops=True)
    if kind == "incoren":
        return P(max_stmts=5, functions=True, max_funcs=4, for_list=False, index_lists=False, dead_loops=False, bool_ops=True)
    if kind == "incorei":      # for the default option inline_functions=True: no writes to globals inside functions (F-C02-c)
        return P(max_stmts=5, functions=True, max_funcs=4, for_list=False, index_lists=False, dead_loops=False, bool_ops=True, global_writes=False)
    if kind == "incoref":
        return P(max_stmts=5, functions=True, max_funcs=3, leaf_functions=True, for_list=False, index_lists=False, dead_loops=False, bool_ops=True)
    if kind == "tco0":
        return P(max_stmts=4, functions=True, max_funcs=3, procedures_only=True, no_params=True, tco_safe=True, for_list=False, max_depth=1)
    if kind == "procs0":
        return P(max_stmts=4, functions=True, max_funcs=3, procedures_only=True, no_params=True, for_list=False, max_depth=1)
    if kind == "procs":
        return P(max_stmts=4, functions=True, max_funcs=3, procedures_only=True, for_list=False, max_depth=1)
    if kind == "tco":
        return P(max_stmts=4, functions=True, max_funcs=3, tco_safe=True, for_list=False, index_lists=False, max_depth=1)
    if kind == "deep":
        return P(max_stmts=3, functions=True, max_funcs=4, call_heavy=True, loops=False, for_list=False, index_lists=False, max_depth=1, max_globals=3)
    if kind == "loopctl":
        return P(max_stmts=5, functions=False, loopctl_heavy=True, index_lists=False, max_depth=1)
    if kind == "calls":
        return P(max_stmts=4, functions=True, call_heavy=True, loops=True, for_list=False, index_lists=False, max_depth=1, return_in_loops=True)
    if kind == "terminating":
        return P(max_stmts=5, functions=True, terminating_main_with_functions=True)
    raise ValueError(kind)


QUICK_BUDGET = dict(fuel=300, steps=4000)
THOROUGH_BUDGET = dict(fuel=1500, steps=20000)


def gen_program(r, kind):
    g = progen.Gen(r, profile(kind))
    prog = g.program()
    return g, prog, progen.print_program(prog), progen.pool_of(g)


def judge_equiv(drv, prog, src, pool, opts, env_seeds, budget):
    """compile `src` with the real transpiler and compare with the reference semantics on each environment.
    Returns (status, detail): status in {"ok", "error", "bad", "outside"}"""
    res = compile_real(src, opts)
    if "error" in res:
        return "error", res["error"]["description"]
    worst = None
    for es in env_seeds:
        v = equiv(drv, prog, res["code"], pool, seed=es, **budget)
        if v["verdict"] == "src-undefined":
            return "outside", v
        if v["verdict"] in BAD_VERDICTS:
            # effects with non-finite values are outside the compared domain (NaN has no order)
            if v["verdict"] == "trace-mismatch" and nonfinite_in_trace(drv, prog, pool, es, budget["fuel"]):
                continue
            # a register or stack cell of the chip holds inf / NaN at the end of the run (a value doubled a thousand times …):
            # the run left the compared domain before or at the mismatch
            if v.get("ic_nonfinite"):
                continue
            return "bad", dict(v, env_seed=es, code=res["code"])
        worst = v
    return "ok", worst


def shrink_failure(drv, prog, pool, opts, env_seed, budget, verdict):
    def still(p):
        try:
            src = progen.print_program(p)
        except Exception:
            return False
        st, d = judge_equiv(drv, p, src, pool, opts, [env_seed], budget)
        return st == "bad" and d["verdict"] == verdict
    try:
        return shrink(prog, still, max_rounds=120)
    except Exception:
        return prog
