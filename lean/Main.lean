import Lean.Data.Json
import PV.Driver
open Lean

partial def loop (h : IO.FS.Stream) (out : IO.FS.Stream) : IO Unit := do
  let line ← h.getLine
  if line.isEmpty then return ()
  let resp : Json :=
    match Json.parse line with
    | .error e => Json.mkObj [("err", Json.str s!"bad-json: {e}")]
    | .ok j => PV.Driver.handle j
  out.putStrLn resp.compress
  out.flush
  loop h out

def main : IO Unit := do
  loop (← IO.getStdin) (← IO.getStdout)
