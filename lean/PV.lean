-- Root of the `PV` library (verification models, proofs and property theorems for stationeers-pytrapic).
import PV.Base.Crc32
import PV.Base.B64
import PV.Base.PyExpr
import PV.Gen.Tables
import PV.Gen.Options
import PV.Gen.Enums
import PV.Gen.Intrinsics
import PV.Gen.Structures
import PV.Proofs.B64
import PV.Props.C18
