-- Root of the `PV` library (verification models, proofs and property theorems for stationeers-pytrapic):
-- `lake build PV` checks every property theorem.
import PV.Props.C01
import PV.Props.C01Core
import PV.Props.C01Strip
import PV.Props.C02
import PV.Props.C03
import PV.Props.C04
import PV.Props.C05
import PV.Props.C06
import PV.Props.C07
import PV.Props.C08
import PV.Props.C09
import PV.Props.C10
import PV.Props.C11
import PV.Props.C12
import PV.Props.C13
import PV.Props.C14
import PV.Props.C15
import PV.Props.C16
import PV.Props.C17
import PV.Props.C18
import PV.Proofs.Cfg
import PV.Proofs.AllocSound
import PV.Proofs.Leaf
import PV.Proofs.StripTy
import PV.Findings.C16
