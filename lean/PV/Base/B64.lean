/-
Base64 as used by `types.encode_data` / `types.decode_data` (share links) and by the mod daemon.

* `b64encode`  : RFC 4648 standard alphabet with `=` padding (what `base64.b64encode` produces).
* `a2b`        : CPython's *lenient* `binascii.a2b_base64` (non-strict mode): characters outside the
                 alphabet are skipped, a pad sequence that completes a quad ends decoding, a dangling
                 quad is an error.
* `encodeTail` : the post-processing of `encode_data`:  `+`→`-`, `/`→`_`, `=` removed.
* `decodeTail` : the pre-processing of `decode_data`:  re-pad to a multiple of 4, `-`→`+`, `_`→`/`,
                 then `a2b`.

Bytes are `Nat` (< 256 is a hypothesis of the theorems, established by the driver for real inputs).
No imports: this file is linked into `pvdrv`.
-/
namespace PV.B64

def stdAlphabet : List Char :=
  "ABCDEFGHIJKLMNOPQRSTUVWXYZabcdefghijklmnopqrstuvwxyz0123456789+/".toList

/-- sextet → character of the standard alphabet -/
def encChar (n : Nat) : Char := stdAlphabet.getD n 'A'

/-- character → sextet (standard alphabet), `none` for everything else (incl. `=`) -/
def decChar (c : Char) : Option Nat :=
  let i := stdAlphabet.idxOf c
  if i < 64 then some i else none

/-- `base64.b64encode` -/
def b64encode : List Nat → List Char
  | [] => []
  | [a] => [encChar (a / 4), encChar ((a % 4) * 16), '=', '=']
  | [a, b] => [encChar (a / 4), encChar ((a % 4) * 16 + b / 16), encChar ((b % 16) * 4), '=']
  | a :: b :: c :: rest =>
      encChar (a / 4) :: encChar ((a % 4) * 16 + b / 16) ::
      encChar ((b % 16) * 4 + c / 64) :: encChar (c % 64) :: b64encode rest

/-- decoder state of `binascii.a2b_base64` -/
structure DSt where
  quad : Nat := 0
  left : Nat := 0
  pads : Nat := 0
  out : List Nat := []
  done : Bool := false
  deriving Repr, DecidableEq

/-- one input character of the non-strict decoder loop -/
def dstep (s : DSt) (c : Char) : DSt :=
  if s.done then s else
  if c = '=' then
    if s.quad ≥ 2 then
      if s.quad + (s.pads + 1) ≥ 4 then { s with pads := s.pads + 1, done := true }
      else { s with pads := s.pads + 1 }
    else s
  else
  match decChar c with
  | none => s
  | some v =>
    match s.quad with
    | 0 => { s with quad := 1, left := v, pads := 0 }
    | 1 => { s with quad := 2, left := v % 16, pads := 0, out := s.out ++ [s.left * 4 + v / 16] }
    | 2 => { s with quad := 3, left := v % 4, pads := 0, out := s.out ++ [s.left * 16 + v / 4] }
    | _ => { s with quad := 0, left := 0, pads := 0, out := s.out ++ [s.left * 64 + v] }

/-- `binascii.a2b_base64(data)` in non-strict mode: `none` = `binascii.Error` -/
def a2b (cs : List Char) : Option (List Nat) :=
  let s := cs.foldl dstep {}
  if s.done || s.quad = 0 then some s.out else none

def toUrl (c : Char) : Char := if c = '+' then '-' else if c = '/' then '_' else c
def toStd (c : Char) : Char := if c = '-' then '+' else if c = '_' then '/' else c

/-- `.replace("+","-").replace("/","_").replace("=","")` -/
def encodeTail (bs : List Nat) : List Char :=
  ((b64encode bs).map toUrl).filter (· ≠ '=')

/-- `if len % 4: s += "=" * (4 - len % 4)` -/
def repad (cs : List Char) : List Char :=
  if cs.length % 4 = 0 then cs else cs ++ List.replicate (4 - cs.length % 4) '='

/-- `decode_data` up to (not including) zlib / JSON -/
def decodeTail (cs : List Char) : Option (List Nat) :=
  a2b ((repad cs).map toStd)

/-- URL-safe character class of the property: letters, digits, `-`, `_` -/
def urlSafe (c : Char) : Bool :=
  c.isAlphanum || c = '-' || c = '_'

end PV.B64
