/-
CRC-32 (IEEE 802.3, reflected, as computed by zlib.crc32) over byte lists, and the signed
32-bit reinterpretation used by `utils.calc_hash`:  (v ^ 0x80000000) - 0x80000000.
Bytes are `UInt8`; the running register is a `UInt32`.
-/
namespace PV

/-- one bit step of the reflected CRC-32 register -/
@[inline] def crcBit (c : UInt32) : UInt32 :=
  if c &&& 1 == 1 then (c >>> 1) ^^^ 0xEDB88320 else c >>> 1

/-- feed one byte -/
def crcByte (c : UInt32) (b : UInt8) : UInt32 :=
  let c0 := c ^^^ b.toUInt32
  crcBit (crcBit (crcBit (crcBit (crcBit (crcBit (crcBit (crcBit c0)))))))

def crc32 (bs : List UInt8) : UInt32 :=
  (bs.foldl crcByte 0xFFFFFFFF) ^^^ 0xFFFFFFFF

/-- two's-complement reading of a 32-bit word: what `(v ^ 0x80000000) - 0x80000000` computes -/
def signed32 (v : UInt32) : Int :=
  if v.toNat < 2147483648 then (v.toNat : Int) else (v.toNat : Int) - 4294967296

/-- `utils.calc_hash` on the UTF-8 bytes of the name -/
def calcHashBytes (bs : List UInt8) : Int := signed32 (crc32 bs)

def calcHash (s : String) : Int := calcHashBytes s.toUTF8.toList

end PV
