/-
Positional numerals over `List Char`, the way Python prints and IC10 reads them:
`natToStr b n` (no leading zeros, "0" for zero, upper-case hex digits) and its inverse `strToNat b`;
`intToDec` (`str(int)`), `formatInt` (`utils.format_int`: decimal up to 10000 or for a known prefab hash,
`$HEX` otherwise) and the IC10 reader `parseNum` (`$hex`, signed decimal).
No imports: linked into `pvdrv`.  Round-trip theorems are in `PV/Proofs/Digits.lean`.
-/
namespace PV.Digits

def digitChar (d : Nat) : Char :=
  if d < 10 then Char.ofNat (48 + d) else Char.ofNat (55 + d)     -- '0'.. '9', 'A'..'F'

def charDigit (c : Char) : Option Nat :=
  let n := c.toNat
  if 48 ≤ n ∧ n ≤ 57 then some (n - 48)
  else if 65 ≤ n ∧ n ≤ 70 then some (n - 55)
  else if 97 ≤ n ∧ n ≤ 102 then some (n - 87)
  else none

/-- big-endian digits of `n` in base `b`; `fuel > n` suffices -/
def digitsAux (b : Nat) : Nat → Nat → List Nat
  | 0, _ => []
  | fuel + 1, n => if n < b then [n] else digitsAux b fuel (n / b) ++ [n % b]

def digits (b n : Nat) : List Nat := digitsAux b (n + 1) n

def ofDigits (b : Nat) (ds : List Nat) : Nat := ds.foldl (fun acc d => acc * b + d) 0

def natToStr (b n : Nat) : List Char := (digits b n).map digitChar

/-- one step of the reader: append digit `c` to the number read so far -/
def readStep (b : Nat) (acc : Option Nat) (c : Char) : Option Nat :=
  match acc, charDigit c with
  | some a, some d => if d < b then some (a * b + d) else none
  | _, _ => none

/-- read a non-empty digit string in base `b` (every digit must be below `b`) -/
def strToNat (b : Nat) (cs : List Char) : Option Nat :=
  if cs.isEmpty then none else cs.foldl (readStep b) (some 0)

/-- `str(n)` for a Python int -/
def intToDec (n : Int) : List Char :=
  if n < 0 then '-' :: natToStr 10 n.natAbs else natToStr 10 n.natAbs

/-- `utils.format_int` given the set of prefab hashes -/
def formatInt (hashes : List Int) (n : Int) : List Char :=
  if n ≤ 10000 ∨ n ∈ hashes then intToDec n else '$' :: natToStr 16 n.natAbs

/-- integer literals as the IC10 loader reads them: `$` + hex digits, or optionally signed decimal digits -/
def parseNum (cs : List Char) : Option Int :=
  match cs with
  | '$' :: rest => (strToNat 16 rest).map Int.ofNat
  | '-' :: rest => (strToNat 10 rest).map (fun n => - Int.ofNat n)
  | _ => (strToNat 10 cs).map Int.ofNat

end PV.Digits
