/-
Abstract syntax of the lambda bodies found in the operator tables of `utils.py`
(`get_binop_instruction`, `get_unop_instruction`).  The translator `tools/extract.py` turns each
lambda into a term of this type; its evaluation (Python semantics) is in `PV.Model.Fold`.
-/
namespace PV

inductive PyExpr where
  | param (i : Nat)
  /-- a numeric literal, given by its IEEE-754 binary64 bit pattern -/
  | constBits (bits : Nat)
  /-- `_e(x)` : coercion of a folded operand to float -/
  | e (x : PyExpr)
  | int (x : PyExpr)
  | float (x : PyExpr)
  | bool (x : PyExpr)
  | bin (op : String) (a b : PyExpr)
  | boolop (op : String) (a b : PyExpr)
  | cmp (op : String) (a b : PyExpr)
  | un (op : String) (a : PyExpr)
  deriving Repr, DecidableEq, Inhabited

end PV
