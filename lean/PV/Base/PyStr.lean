/-
The Python `str` methods the transpiler's text processing relies on, over `List Char`:
`splitlines`, `strip`, `split(sep, 1)`, `split(sep)`, `split()`, `replace`, `startswith`, `in`.
Character classes are CPython's (`str.isspace`, the `splitlines` boundary set); the harness checks
them against the running interpreter on every run (they are part of the trusted base otherwise).
-/
namespace PV.PyStr

/-- line boundaries of `str.splitlines` other than the two-character `\r\n` -/
def isBreak (c : Char) : Bool :=
  c = '\n' || c = '\r' || c = '\x0b' || c = '\x0c' || c = '\x1c' || c = '\x1d' || c = '\x1e' ||
  c = '\u0085' || c = '\u2028' || c = '\u2029'

/-- `str.isspace` for one character (Unicode White_Space / bidi WS,B,S as CPython has it) -/
def isSpace (c : Char) : Bool :=
  let n := c.toNat
  (9 ≤ n && n ≤ 13) || (28 ≤ n && n ≤ 32) || n = 0x85 || n = 0xA0 || n = 0x1680 ||
  (0x2000 ≤ n && n ≤ 0x200A) || n = 0x2028 || n = 0x2029 || n = 0x202F || n = 0x205F || n = 0x3000

/-- after a `\r`, a directly following `\n` belongs to the same boundary -/
def dropLF : List Char → List Char
  | '\n' :: rest => rest
  | cs => cs

theorem dropLF_length_le (cs : List Char) : (dropLF cs).length ≤ cs.length := by
  unfold dropLF; split <;> simp

/-- `splitlines` with the current line accumulated in reverse -/
def splitlinesAux : List Char → List Char → List (List Char)
  | [], cur => if cur.isEmpty then [] else [cur.reverse]
  | c :: rest, cur =>
    if c = '\r' then cur.reverse :: splitlinesAux (dropLF rest) []
    else if isBreak c then cur.reverse :: splitlinesAux rest []
    else splitlinesAux rest (c :: cur)
termination_by cs => cs.length
decreasing_by
  · have := dropLF_length_le rest; simp_wf; omega
  · simp_wf
  · simp_wf

def splitlines (cs : List Char) : List (List Char) := splitlinesAux cs []

def lstrip (cs : List Char) : List Char := cs.dropWhile isSpace
def rstrip (cs : List Char) : List Char := (cs.reverse.dropWhile isSpace).reverse
def strip (cs : List Char) : List Char := rstrip (lstrip cs)

/-- does `p` occur at the head of `cs` -/
def startsWith (cs p : List Char) : Bool := p.isPrefixOf cs

/-- `sub in cs` -/
def contains : List Char → List Char → Bool
  | [], sub => sub.isEmpty
  | c :: rest, sub => startsWith (c :: rest) sub || contains rest sub

/-- `cs.split(sep, 1)` for a non-empty separator: `[cs]` if absent, else `[before, after]` -/
def splitOnce (sep : List Char) : List Char → List Char → List (List Char)
  | [], acc => [acc.reverse]
  | c :: rest, acc =>
    if startsWith (c :: rest) sep then [acc.reverse, (c :: rest).drop sep.length]
    else splitOnce sep rest (c :: acc)

/-- `cs.split(c)` for a one-character separator -/
def splitChar (sep : Char) : List Char → List Char → List (List Char)
  | [], acc => [acc.reverse]
  | c :: rest, acc => if c = sep then acc.reverse :: splitChar sep rest [] else splitChar sep rest (c :: acc)

/-- `cs.split()` : whitespace-separated words -/
def splitWs : List Char → List Char → List (List Char)
  | [], acc => if acc.isEmpty then [] else [acc.reverse]
  | c :: rest, acc =>
    if isSpace c then (if acc.isEmpty then splitWs rest [] else acc.reverse :: splitWs rest [])
    else splitWs rest (c :: acc)

def words (cs : List Char) : List (List Char) := splitWs cs []

/-- `cs.replace(a, b)` for single characters -/
def replaceChar (a b : Char) (cs : List Char) : List Char := cs.map (fun c => if c = a then b else c)

/-- `sep.join(parts)` -/
def join (sep : List Char) : List (List Char) → List Char
  | [] => []
  | [x] => x
  | x :: y :: rest => x ++ sep ++ join sep (y :: rest)

end PV.PyStr
