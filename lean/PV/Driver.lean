import Lean.Data.Json
import PV.Base.Crc32
import PV.Base.B64
/-! One-JSON-object-in / one-JSON-object-out driver over the executable models. -/
namespace PV.Driver
open Lean

def natsOf (j : Json) : Except String (List Nat) := do
  let arr ← j.getArr?
  arr.toList.mapM (fun x => x.getNat?)

def strOfNats (ns : List Nat) : String := String.mk (ns.map Char.ofNat)

def jNats (ns : List Nat) : Json := Json.arr (ns.map (fun n => Json.num (JsonNumber.fromNat n))).toArray

def optNats : Option (List Nat) → Json
  | none => Json.null
  | some ns => jNats ns

def handleE (j : Json) : Except String Json := do
  let cmd ← j.getObjValAs? String "cmd"
  match cmd with
  | "ping" => pure (Json.mkObj [("ok", Json.str "pong")])
  | "crc32" =>
    let bs ← natsOf (← j.getObjVal? "bytes")
    pure (Json.mkObj [("ok", Json.num (JsonNumber.fromInt (PV.calcHashBytes (bs.map (·.toUInt8)))))])
  | "b64enc" =>
    let bs ← natsOf (← j.getObjVal? "bytes")
    pure (Json.mkObj [("ok", Json.str (String.mk (PV.B64.encodeTail bs)))])
  | "b64dec" =>
    let cs ← natsOf (← j.getObjVal? "chars")
    pure (Json.mkObj [("ok", optNats (PV.B64.decodeTail (cs.map Char.ofNat)))])
  | "b64std" =>
    let bs ← natsOf (← j.getObjVal? "bytes")
    pure (Json.mkObj [("ok", Json.str (String.mk (PV.B64.b64encode bs)))])
  | "a2b" =>
    let cs ← natsOf (← j.getObjVal? "chars")
    pure (Json.mkObj [("ok", optNats (PV.B64.a2b (cs.map Char.ofNat)))])
  | _ => throw s!"unknown-cmd {cmd}"

def handle (j : Json) : Json :=
  match handleE j with
  | .ok r => r
  | .error e => Json.mkObj [("err", Json.str e)]

end PV.Driver
