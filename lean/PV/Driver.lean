import Lean.Data.Json
import PV.Base.Crc32
import PV.Base.B64
import PV.Model.Pragma
import PV.Model.Daemon
import PV.Model.Stats
import PV.Model.Tokens
import PV.Model.Version
import PV.Model.RegAlloc
import PV.Model.RaInsert
import PV.Model.Fold
import PV.Model.Constexpr
import PV.Model.Modules
import PV.Gen.Tables
import PV.DriverRun
/-! One-JSON-object-in / one-JSON-object-out driver over the executable models. -/
namespace PV.Driver
open Lean

def natsOf (j : Json) : Except String (List Nat) := do
  let arr ← j.getArr?
  arr.toList.mapM (fun x => x.getNat?)

def strOfNats (ns : List Nat) : String := String.mk (ns.map Char.ofNat)

def jNats (ns : List Nat) : Json := Json.arr (ns.map (fun n => Json.num (JsonNumber.fromNat n))).toArray

def optNats : Option (List Nat) → Json
  | none => Json.null
  | some ns => jNats ns

def handleE (j : Json) : Except String Json := do
  let cmd ← j.getObjValAs? String "cmd"
  match cmd with
  | "ping" => pure (Json.mkObj [("ok", Json.str "pong")])
  | "crc32" =>
    let bs ← natsOf (← j.getObjVal? "bytes")
    pure (Json.mkObj [("ok", Json.num (JsonNumber.fromInt (PV.calcHashBytes (bs.map (·.toUInt8)))))])
  | "b64enc" =>
    let bs ← natsOf (← j.getObjVal? "bytes")
    pure (Json.mkObj [("ok", Json.str (String.mk (PV.B64.encodeTail bs)))])
  | "b64dec" =>
    let cs ← natsOf (← j.getObjVal? "chars")
    pure (Json.mkObj [("ok", optNats (PV.B64.decodeTail (cs.map Char.ofNat)))])
  | "b64std" =>
    let bs ← natsOf (← j.getObjVal? "bytes")
    pure (Json.mkObj [("ok", Json.str (String.mk (PV.B64.b64encode bs)))])
  | "a2b" =>
    let cs ← natsOf (← j.getObjVal? "chars")
    pure (Json.mkObj [("ok", optNats (PV.B64.a2b (cs.map Char.ofNat)))])
  | "pragma" =>
    -- {"src": [code points], "opts": [[name, bool], ...]} -> [[name, bool], ...]
    let src ← natsOf (← j.getObjVal? "src")
    let optsJ ← (← j.getObjVal? "opts").getArr?
    let opts ← optsJ.toList.mapM (fun p => do
      let a ← p.getArr?
      let n ← (a[0]!).getStr?
      let b ← (a[1]!).getBool?
      pure (n.toList, b))
    let r := PV.Pragma.scan (src.map Char.ofNat) opts
    pure (Json.mkObj [("ok", Json.arr (r.map (fun (n, b) => Json.arr #[Json.str (String.mk n), Json.bool b])).toArray)])
  | "daemon-requests" =>
    -- {"lines": [[code points], ...]} -> the stripped request payloads that must be answered, in order
    let ls ← (← j.getObjVal? "lines").getArr?
    let lines ← ls.toList.mapM (fun l => do pure ((← natsOf l).map Char.ofNat))
    let r := PV.Daemon.requests lines
    pure (Json.mkObj [("ok", Json.arr (r.map (fun l => jNats (l.map Char.toNat))).toArray)])
  | "run-ic10" => do pure (Json.mkObj [("ok", ← PV.DriverRun.runIc10 j)])
  | "run-src" => do pure (Json.mkObj [("ok", ← PV.DriverRun.runSrc j)])
  | "equiv" => do pure (Json.mkObj [("ok", ← PV.DriverRun.equiv j)])
  | "directives" =>
    let src ← natsOf (← j.getObjVal? "src")
    let r := PV.Pragma.directives (src.map Char.ofNat)
    pure (Json.mkObj [("ok", Json.arr (r.map (fun (n, b) => Json.arr #[Json.str (String.mk n), Json.bool b])).toArray)])
  | "splitlines" =>
    let src ← natsOf (← j.getObjVal? "src")
    let r := PV.PyStr.splitlines (src.map Char.ofNat)
    pure (Json.mkObj [("ok", Json.arr (r.map (fun l => jNats (l.map Char.toNat))).toArray)])
  | "strip" =>
    let src ← natsOf (← j.getObjVal? "src")
    pure (Json.mkObj [("ok", jNats ((PV.PyStr.strip (src.map Char.ofNat)).map Char.toNat))])
  | "stats" =>
    let src ← natsOf (← j.getObjVal? "code")
    let cs := src.map Char.ofNat
    pure (Json.mkObj [("ok", jNats [PV.Stats.numLines cs, PV.Stats.numBytes cs])])
  | "labels-compare" => do pure (Json.mkObj [("ok", ← PV.DriverRun.labelsCompare j)])
  | "colors" =>
    -- {"ivs": [[start, stop], ...]} -> colours in the given order (assign_colors)
    let ivs ← (← j.getObjVal? "ivs").getArr?
    let l ← ivs.toList.mapM (fun p => do
      let a ← p.getArr?
      pure ((← (a[0]!).getNat?), (← (a[1]!).getNat?)))
    pure (Json.mkObj [("ok", jNats (PV.RegAlloc.assignColors l))])
  | "regalloc" =>
    -- {"scopes": [{"name":…, "callers":[…], "syms":[[virt, start, stop], …]}, …]} -> {"mapping": [[virt, reg]…], "used": […]} | "out-of-registers"
    let scs ← (← j.getObjVal? "scopes").getArr?
    let scopes ← scs.toList.mapM (fun sc => do
      let name ← sc.getObjValAs? String "name"
      let callers ← (← (← sc.getObjVal? "callers").getArr?).toList.mapM (·.getStr?)
      let syms ← (← (← sc.getObjVal? "syms").getArr?).toList.mapM (fun y => do
        let a ← y.getArr?
        pure ((← (a[0]!).getStr?), ((← (a[1]!).getNat?), (← (a[2]!).getNat?))))
      pure ({ name := name, callers := callers, syms := syms } : PV.RegAlloc.Scope))
    match PV.RegAlloc.assignRegisters scopes with
    | .outOfRegisters => pure (Json.mkObj [("ok", Json.str "out-of-registers")])
    | .ok st => pure (Json.mkObj [("ok", Json.mkObj [
        ("mapping", Json.arr (st.mapping.map (fun (v, r) => Json.arr #[Json.str v, Json.num (JsonNumber.fromNat r)])).toArray),
        ("used", jNats (PV.RegAlloc.usedRegisters st))])])
  | "addra" =>
    -- {"name":…, "push_pop": bool, "code": [[op, [inputs…], out|null], …]} -> same shape
    let name ← j.getObjValAs? String "name"
    let pp ← j.getObjValAs? Bool "push_pop"
    let code ← (← (← j.getObjVal? "code").getArr?).toList.mapM (fun x => do
      let a ← x.getArr?
      let op ← (a[0]!).getStr?
      let ins ← (← (a[1]!).getArr?).toList.mapM (·.getStr?)
      let out := match (a[2]!).getStr? with | .ok o => some o | .error _ => none
      pure ({ op := op, ins := ins, out := out } : PV.RaInsert.Ins))
    let r := PV.RaInsert.addRa name pp code
    pure (Json.mkObj [("ok", Json.arr (r.map (fun i => Json.arr #[Json.str i.op, Json.arr (i.ins.map Json.str).toArray,
      match i.out with | some o => Json.str o | none => Json.null])).toArray)])
  | "pyfold" =>
    -- {"table": "bin"|"un", "op": "+", "args": [ints]} -> {"value": int|null, "opcode": …, "run": int|null}: the regenerated lambda
    -- evaluated by the Python-semantics model, and the paired opcode evaluated by the integer opcode semantics
    let tbl ← j.getObjValAs? String "table"
    let op ← j.getObjValAs? String "op"
    let args ← (← (← j.getObjVal? "args").getArr?).toList.mapM (·.getInt?)
    let rows := if tbl == "bin" then PV.Gen.binopTable else PV.Gen.unopTable
    match rows.find? (·.1 == op) with
    | none => pure (Json.mkObj [("ok", Json.null)])
    | some (_, opcode, fn) =>
      let v := (PV.Fold.pyEval args fn).map PV.Fold.PyVal.num
      let isBool := match PV.Fold.pyEval args fn with | some (.bool _) => true | _ => false
      let run := if tbl == "bin" then PV.Fold.icAlu opcode args else (match args with | [a] => PV.Fold.icUnop opcode a | _ => none)
      let jo (x : Option Int) := match x with | some n => Json.num (JsonNumber.fromInt n) | none => Json.null
      pure (Json.mkObj [("ok", Json.mkObj [("value", jo v), ("is_bool", Json.bool isBool), ("opcode", Json.str opcode), ("run", jo run)])])
  | "forbidden" =>
    let src ← natsOf (← j.getObjVal? "src")
    pure (Json.mkObj [("ok", Json.bool (PV.Constexpr.hasForbidden (src.map Char.ofNat)))])
  | "scopekey" =>
    -- {"module": "m", "func": "f"|null} -> {"key":…, "name_const":…, "label": …}
    let m ← j.getObjValAs? String "module"
    let f := match j.getObjValAs? String "func" with | .ok x => some x.toList | .error _ => none
    let key := PV.Modules.scopeKey m.toList f
    pure (Json.mkObj [("ok", Json.mkObj [("key", Json.str (String.ofList key)), ("name_const", Json.str (String.ofList (PV.Modules.nameConst key))),
      ("label", Json.str (String.ofList (PV.Modules.mangle key)))])])
  | "core-compare" => do pure (Json.mkObj [("ok", ← PV.DriverRun.coreCompare j)])
  | "strip-compare" => do pure (Json.mkObj [("ok", ← PV.DriverRun.stripCompare j)])
  | "strip-run" => do pure (Json.mkObj [("ok", ← PV.DriverRun.stripRun j)])
  | "check-leaf" => do pure (Json.mkObj [("ok", ← PV.DriverRun.checkLeafCmd j)])
  | "check-fall" => do pure (Json.mkObj [("ok", ← PV.DriverRun.checkFallCmd j)])
  | "run-regions" => do pure (Json.mkObj [("ok", ← PV.DriverRun.runRegions j)])
  | "check-alloc" => do pure (Json.mkObj [("ok", ← PV.DriverRun.checkAlloc j)])
  | "run-pair" => do pure (Json.mkObj [("ok", ← PV.DriverRun.runPair j)])
  | "wf" => do pure (Json.mkObj [("ok", ← PV.DriverRun.wf j)])
  | "addversion" =>
    let note ← natsOf (← j.getObjVal? "note")
    let ls ← (← j.getObjVal? "lines").getArr?
    let lines ← ls.toList.mapM (fun l => do pure ((← natsOf l).map Char.ofNat))
    let r := PV.Version.addVersion (note.map Char.ofNat) lines
    pure (Json.mkObj [("ok", Json.arr (r.map (fun l => jNats (l.map Char.toNat))).toArray)])
  | "same-program" => do pure (Json.mkObj [("ok", ← PV.DriverRun.sameProgram j)])
  | "fmtint" =>
    -- {"n": int, "hashes": [ints]} -> text of utils.format_int
    let n ← j.getObjValAs? Int "n"
    let hs ← (← (← j.getObjVal? "hashes").getArr?).toList.mapM (fun x => x.getInt?)
    pure (Json.mkObj [("ok", Json.str (String.ofList (PV.Digits.formatInt hs n)))])
  | "parsenum" =>
    let src ← natsOf (← j.getObjVal? "src")
    pure (Json.mkObj [("ok", match PV.Digits.parseNum (src.map Char.ofNat) with | some n => Json.num (JsonNumber.fromInt n) | none => Json.null)])
  | "token" =>
    -- {"what": "hash"|"str"|"enum", "mode": "verbose"|"compact"|"numeric", "s": [code points], ("ty","m","v"), "hashes": [...]} -> spelled text
    let what ← j.getObjValAs? String "what"
    let modeS ← j.getObjValAs? String "mode"
    let mode := if modeS == "verbose" then PV.Tokens.Mode.verbose else if modeS == "compact" then PV.Tokens.Mode.compact else PV.Tokens.Mode.numeric
    let hs ← (← (← j.getObjVal? "hashes").getArr?).toList.mapM (fun x => x.getInt?)
    let out ← match what with
      | "hash" => do
        let src ← natsOf (← j.getObjVal? "s")
        pure (PV.Tokens.computeHash mode (src.map Char.ofNat))
      | "str" => do
        let src ← natsOf (← j.getObjVal? "s")
        pure (PV.Tokens.computeString mode (src.map Char.ofNat))
      | "enum" => do
        let ty ← j.getObjValAs? String "ty"
        let m ← j.getObjValAs? String "m"
        let v ← j.getObjValAs? Int "v"
        pure (PV.Tokens.formatEnum mode ty.toList m.toList v)
      | w => throw s!"bad token kind {w}"
    pure (Json.mkObj [("ok", Json.str (String.ofList (PV.Tokens.spell hs out)))])
  | "denote" =>
    -- {"src": [code points], "pos": enum class name or null} -> int or null
    let src ← natsOf (← j.getObjVal? "src")
    let pos := match j.getObjValAs? String "pos" with | .ok p => some p | .error _ => none
    pure (Json.mkObj [("ok", match PV.Tokens.denote PV.Gen.enums pos (src.map Char.ofNat) with
      | some n => Json.num (JsonNumber.fromInt n) | none => Json.null)])
  | "words" =>
    let src ← natsOf (← j.getObjVal? "src")
    let r := PV.PyStr.words (src.map Char.ofNat)
    pure (Json.mkObj [("ok", Json.arr (r.map (fun l => jNats (l.map Char.toNat))).toArray)])
  | _ => throw s!"unknown-cmd {cmd}"

def handle (j : Json) : Json :=
  match handleE j with
  | .ok r => r
  | .error e => Json.mkObj [("err", Json.str e)]

end PV.Driver
