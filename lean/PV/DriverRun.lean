import Lean.Data.Json
import PV.IC10.Parse
import PV.Src.Lang
import PV.Model.Labels
import PV.Model.AllocCheck
import PV.Model.Regions
import PV.Model.Flatten
import PV.Model.Front
import PV.Model.Strip
import PV.Model.Leaf
import PV.Model.StripTy
/-! Driver commands that execute programs: `run-ic10`, `run-src`, `equiv`. -/
namespace PV.DriverRun
open Lean PV.IC10 PV.IC10.Parse

def mix (h : UInt64) (x : UInt64) : UInt64 :=
  let h := (h ^^^ x) * 0x100000001b3
  h ^^^ (h >>> 29)

def floatKey (v : Float) : UInt64 := if v == 0.0 then 0 else v.toBits

/-- pseudo-random environment: an arbitrary (seeded) function of the effects so far and the query -/
def envF (seed : Nat) (pool : Array Float) : Env Float := fun trace q vals =>
  let base (q : String) : Float :=
    let h0 := mix (mix 0xcbf29ce484222325 seed.toUInt64) trace.length.toUInt64
    let h1 := match trace with
      | [] => h0
      | e :: _ => e.vals.foldl (fun h v => mix h (floatKey v)) (mix h0 (hash e.tag))
    let h2 := vals.foldl (fun h v => mix h (floatKey v)) (mix h1 (hash q))
    if pool.size == 0 then 0.0 else pool[(h2 % pool.size.toUInt64).toNat]!
  if q == "sdse" then (if base "sdse" != 0.0 && !(base "sdse").isNaN then 1.0 else 0.0)
  else if q == "sdns" then (if base "sdse" != 0.0 && !(base "sdse").isNaN then 0.0 else 1.0)
  else base q

def jFloat (v : Float) : Json :=
  -- exact: bit pattern as a decimal string (JSON numbers would round-trip through decimal)
  Json.str (toString v.toBits.toNat)

def jEff (e : Eff Float) : Json := Json.arr (#[Json.str e.tag] ++ (e.vals.map jFloat).toArray)

def floatOfJson (j : Json) : Except String Float := do
  -- accepted: string of the bit pattern, or a JSON number
  match j with
  | .str s => match s.toNat? with
    | some n => pure (Float.ofBits n.toUInt64)
    | none => throw s!"bad float bits {s}"
  | .num n => pure n.toFloat
  | _ => throw "bad float"

/-- compact the function-valued register file / memory (extensionally the identity) so that
    look-ups stay O(1) in long runs -/
def compactRegs (s : St PReg Float) : St PReg Float :=
  let arr : Array Float := Array.ofFn (n := 18) (fun i => s.regs i.val)
  { s with regs := fun r => if h : r < arr.size then arr[r] else s.regs r }

def compactMem (s : St PReg Float) : St PReg Float :=
  let arr : Array Float := Array.ofFn (n := 512) (fun i => s.mem i.val)
  { s with mem := fun a => if h : a < arr.size then arr[a] else s.mem a }

structure Monitor where
  /-- shadow call stack: return addresses pushed by `jal` -/
  shadow : List Nat := []
  /-- entry line of the callee of each pending call -/
  callee : List Nat := []
  /-- expected `sp(return) - sp(call)` per callee entry line (calling convention: arguments popped, result pushed) -/
  expect : List (Nat × Int) := []
  /-- sp recorded at each call -/
  spAtCall : List Float := []
  violations : List String := []
  maxDepth : Nat := 0

/-- run with the shadow-call-stack monitor of C06 and the region monitor of C07 -/
partial def runMon (env : Env Float) (P : List (Instr PReg Float)) (budget : Nat) (s : St PReg Float)
    (m : Monitor) (steps : Nat) : St PReg Float × Monitor × Nat :=
  if budget == 0 || s.halted then (s, m, steps) else
  let i? := P[s.pc]?
  let s' := step FloatSem.sem env P s
  let memTouched := match i? with
    | some i => (match i.kind with | .push | .poke => true | _ => false)
    | none => false
  let s'' := compactRegs s'
  let s'' := if memTouched then compactMem s'' else s''
  let m' := match i? with
    | some i =>
      match i.kind with
      | .jal => { m with shadow := (s.pc + 1) :: m.shadow, spAtCall := s.regs 16 :: m.spAtCall, callee := s'.pc :: m.callee,
                         maxDepth := max m.maxDepth (m.shadow.length + 1) }
      | .jmp =>
        -- `j ra` is a return
        (match i.args with
         | [.reg 17] =>
           match m.shadow, m.spAtCall with
           | top :: rest, sp0 :: sprest =>
             let v1 := if s'.pc != top && !s'.halted then
                 [s!"return at line {s.pc} goes to {s'.pc}, but the call being served returns to {top}"] else []
             let d := s.regs 16 - sp0
             let want : Option Int := (m.callee.head?.bind (fun c => (m.expect.find? (fun (q : Nat × Int) => q.1 == c)).map (fun (q : Nat × Int) => q.2)))
             let okd := match want with
               | some w => d == Float.ofInt w
               | none => d == 0.0 || d == 1.0
             let v2 := if !okd then [s!"return at line {s.pc}: sp differs from its value at the call by {d}" ++
                 (match want with | some w => s!" (the calling convention requires {w})" | none => "")] else []
             { m with shadow := rest, spAtCall := sprest, callee := m.callee.drop 1, violations := m.violations ++ v1 ++ v2 }
           | _, _ => { m with violations := m.violations ++ [s!"return at line {s.pc} without a call being served"] }
         | _ => m)
      | _ => m
    | none => m
  runMon env P (budget - 1) s'' m' (steps + 1)

def natListOfJson (j : Json) : Except String (List Nat) := do
  (← j.getArr?).toList.mapM (fun x => x.getNat?)

def initSt : St PReg Float :=
  { regs := fun _ => 0.0, mem := fun _ => 0.0, pc := 0, trace := [], halted := false }

def poolOf (j : Json) : Except String (Array Float) := do
  let arr ← j.getArr?
  arr.mapM floatOfJson

def runIc10 (j : Json) : Except String Json := do
  let text ← j.getObjValAs? String "text"
  let seed ← j.getObjValAs? Nat "seed"
  let steps ← j.getObjValAs? Nat "steps"
  let pool ← poolOf (← j.getObjVal? "pool")
  match parseProgram text with
  | .error e => pure (Json.mkObj [("parse_error", Json.str e)])
  | .ok pp =>
    let expect : List (Nat × Int) := match j.getObjVal? "expect" with
      | .ok ej => ((ej.getArr?).toOption.getD #[]).toList.filterMap (fun p => match p.getArr? with
          | .ok a => (match (a[0]!).getNat?, (a[1]!).getInt? with | .ok x, .ok y => some (x, y) | _, _ => none)
          | .error _ => none)
      | .error _ => []
    -- optional preloaded stack cells: [[address, float], …]
    let memInit : List (Nat × Float) := match j.getObjVal? "mem" with
      | .ok mj => ((mj.getArr?).toOption.getD #[]).toList.filterMap (fun p => match p.getArr? with
          | .ok a => (match (a[0]!).getNat?, floatOfJson (a[1]!) with | .ok x, .ok y => some (x, y) | _, _ => none)
          | .error _ => none)
      | .error _ => []
    let st0 : St PReg Float := { initSt with mem := fun a => match memInit.find? (fun (q : Nat × Float) => q.1 == a) with | some (_, v) => v | none => 0.0 }
    let (s, m, n) := runMon (envF seed pool) pp.prog steps st0 { expect := expect } 0
    pure (Json.mkObj [
      ("trace", Json.arr (s.trace.reverse.map jEff).toArray),
      ("halted", Json.bool s.halted), ("pc", Json.num (JsonNumber.fromNat s.pc)), ("steps", Json.num (JsonNumber.fromNat n)),
      ("sp", jFloat (s.regs 16)),
      ("regs", Json.arr (((match j.getObjVal? "dump" with | .ok d => (natListOfJson d).toOption.getD [] | .error _ => []).map (fun r => Json.str (toString (s.regs r)))).toArray)),
      ("call_violations", Json.arr (m.violations.map Json.str).toArray),
      ("max_depth", Json.num (JsonNumber.fromNat m.maxDepth)),
      ("lines", Json.num (JsonNumber.fromNat pp.prog.length))])

/-! ### Src programs from JSON -/
open PV.Src

partial def exprOfJson (j : Json) : Except String (Expr Float) := do
  let a ← j.getArr?
  let tag ← (a[0]!).getStr?
  match tag with
  | "num" => pure (.num (← floatOfJson a[1]!))
  | "gvar" => pure (.gvar (← (a[1]!).getStr?))
  | "lvar" => pure (.lvar (← (a[1]!).getStr?))
  | "bin" => pure (.bin (← (a[1]!).getStr?) (← exprOfJson a[2]!) (← exprOfJson a[3]!))
  | "un" => pure (.un (← (a[1]!).getStr?) (← exprOfJson a[2]!))
  | "ifexp" => pure (.ifexp (← exprOfJson a[1]!) (← exprOfJson a[2]!) (← exprOfJson a[3]!))
  | "read" => pure (.read (← (a[1]!).getStr?) (← (← (a[2]!).getArr?).toList.mapM exprOfJson))
  | "sget" => pure (.sget (← exprOfJson a[1]!))
  | "prim" => pure (.prim (← (a[1]!).getStr?) (← (← (a[2]!).getArr?).toList.mapM exprOfJson))
  | "index" => pure (.index (← (← (a[1]!).getArr?).toList.mapM exprOfJson) (← exprOfJson a[2]!))
  | "call" => pure (.call (← (a[1]!).getStr?) (← (← (a[2]!).getArr?).toList.mapM exprOfJson))
  | t => throw s!"bad expr tag {t}"

partial def stmtOfJson (j : Json) : Except String (Stmt Float) := do
  let a ← j.getArr?
  let tag ← (a[0]!).getStr?
  let block (x : Json) : Except String (List (Stmt Float)) := do (← x.getArr?).toList.mapM stmtOfJson
  match tag with
  | "gassign" => pure (.gassign (← (a[1]!).getStr?) (← exprOfJson a[2]!))
  | "lassign" => pure (.lassign (← (a[1]!).getStr?) (← exprOfJson a[2]!))
  | "write" => pure (.write (← (a[1]!).getStr?) (← (← (a[2]!).getArr?).toList.mapM exprOfJson))
  | "sput" => pure (.sput (← exprOfJson a[1]!) (← exprOfJson a[2]!))
  | "ite" => pure (.ite (← exprOfJson a[1]!) (← block a[2]!) (← block a[3]!))
  | "while" => pure (.while (← exprOfJson a[1]!) (← block a[2]!))
  | "forRange" => pure (.forRange (← (a[1]!).getBool?) (← (a[2]!).getStr?) (← exprOfJson a[3]!) (← exprOfJson a[4]!)
      (← exprOfJson a[5]!) (← block a[6]!))
  | "forList" => pure (.forList (← (a[1]!).getBool?) (← (a[2]!).getStr?) (← (← (a[3]!).getArr?).toList.mapM exprOfJson) (← block a[4]!))
  | "brk" => pure .brk
  | "cont" => pure .cont
  | "ret" => if a.size > 1 && !(a[1]!).isNull then pure (.ret (some (← exprOfJson a[1]!))) else pure (.ret none)
  | "expr" => pure (.expr (← exprOfJson a[1]!))
  | "yield" => pure .yield
  | "sleep" => pure (.sleep (← exprOfJson a[1]!))
  | "hcf" => pure .hcf
  | "push" => pure (.push (← exprOfJson a[1]!))
  | "pass" => pure .pass
  | t => throw s!"bad stmt tag {t}"

def progOfJson (j : Json) : Except String (Program Float) := do
  let fs ← (← j.getObjVal? "funcs").getArr?
  let funcs ← fs.toList.mapM (fun f => do
    let name ← f.getObjValAs? String "name"
    let params ← (← (← f.getObjVal? "params").getArr?).toList.mapM (·.getStr?)
    let body ← (← (← f.getObjVal? "body").getArr?).toList.mapM stmtOfJson
    pure ({ name := name, params := params, body := body } : Func Float))
  let main ← (← (← j.getObjVal? "main").getArr?).toList.mapM stmtOfJson
  pure { funcs := funcs, main := main }

def errStr : Err → String
  | .fuel => "fuel"
  | .unbound n => "unbound:" ++ n
  | .fault w => "fault:" ++ w
  | .halt => "halt"

def runSrc (j : Json) : Except String Json := do
  let prog ← progOfJson (← j.getObjVal? "prog")
  let seed ← j.getObjValAs? Nat "seed"
  let fuel ← j.getObjValAs? Nat "fuel"
  let pool ← poolOf (← j.getObjVal? "pool")
  -- optional explicit environment: a table [[number of effects so far, query, [operand values], value], …]; anything else reads 0
  let table : List (Nat × String × List Float × Float) := match j.getObjVal? "table" with
    | .ok tj => ((tj.getArr?).toOption.getD #[]).toList.filterMap (fun row => match row.getArr? with
        | .ok a =>
          (match (a[0]!).getNat?, (a[1]!).getStr?, (a[2]!).getArr?, floatOfJson (a[3]!) with
           | .ok n, .ok q, .ok vs, .ok v => (vs.toList.mapM floatOfJson).toOption.map (fun vals => (n, q, vals, v))
           | _, _, _, _ => none)
        | .error _ => none)
    | .error _ => []
  -- rows grouped by the number of effects so far (look-ups stay short in long runs)
  let size := table.foldl (fun m (n, _, _, _) => max m (n + 1)) 0
  let byLen : Array (List (String × List Float × Float)) :=
    table.foldl (fun (acc : Array (List (String × List Float × Float))) (n, q, vals, v) =>
      if n < acc.size then acc.modify n (fun l => (q, vals, v) :: l) else acc) (Array.replicate (min size 100000) [])
  let envT : Env Float := fun trace q vals =>
    match (byLen.getD trace.length []).find? (fun (q', vals', _) => q' == q && vals'.length == vals.length &&
        (vals'.zip vals).all (fun (x, y) => floatKey x == floatKey y)) with
    | some (_, _, v) => v
    | none => 0.0
  let env := if table.isEmpty then envF seed pool else envT
  let (st, r) := runProgram FloatSem.sem env prog fuel 0.0
  pure (Json.mkObj [
    ("trace", Json.arr (st.trace.reverse.map jEff).toArray),
    ("outcome", Json.str (match r with | .ok _ => "done" | .error e => errStr e))])

def effEq (a b : Eff Float) : Bool :=
  a.tag == b.tag && a.vals.length == b.vals.length &&
    (a.vals.zip b.vals).all (fun (x, y) => x == y || (x.isNaN && y.isNaN))

/-- length of the common prefix -/
def commonPrefix : List (Eff Float) → List (Eff Float) → Nat
  | a :: as, b :: bs => if effEq a b then commonPrefix as bs + 1 else 0
  | _, _ => 0

/-- both sides on the same environment; verdict by the prefix rule of DESIGN §2.2 -/
def equiv (j : Json) : Except String Json := do
  let prog ← progOfJson (← j.getObjVal? "prog")
  let text ← j.getObjValAs? String "text"
  let seed ← j.getObjValAs? Nat "seed"
  let fuel ← j.getObjValAs? Nat "fuel"
  let steps ← j.getObjValAs? Nat "steps"
  let pool ← poolOf (← j.getObjVal? "pool")
  let env := envF seed pool
  let (st, r) := runProgram FloatSem.sem env prog fuel 0.0
  let srcOutcome0 := match r with | .ok _ => "done" | .error e => errStr e
  if srcOutcome0.startsWith "unbound" || srcOutcome0.startsWith "fault" then
    pure (Json.mkObj [("verdict", Json.str "src-undefined"), ("src_outcome", Json.str srcOutcome0)])
  else
  match parseProgram text with
  | .error e => pure (Json.mkObj [("verdict", Json.str "parse-error"), ("detail", Json.str e)])
  | .ok pp =>
    let expect : List (Nat × Int) := match j.getObjVal? "expect" with
      | .ok ej => ((ej.getArr?).toOption.getD #[]).toList.filterMap (fun p => match p.getArr? with
          | .ok a => (match (a[0]!).getNat?, (a[1]!).getInt? with | .ok x, .ok y => some (x, y) | _, _ => none)
          | .error _ => none)
      | .error _ => []
    let (s, m, n) := runMon env pp.prog steps initSt { expect := expect } 0
    let ts := st.trace.reverse
    let ti := s.trace.reverse
    let cp := commonPrefix ts ti
    let srcOutcome := match r with | .ok _ => "done" | .error e => errStr e
    let icFault := ti.any (fun e => e.tag.startsWith "fault:")
    let verdict : String :=
      if srcOutcome.startsWith "unbound" || srcOutcome.startsWith "fault" then "src-undefined"
      else if cp < min ts.length ti.length then "trace-mismatch"
      else if icFault then "ic10-fault"
      else if srcOutcome == "done" || srcOutcome == "halt" then
        (if ti.length > ts.length then "ic10-extra-effects"
         else if ti.length < ts.length then (if s.halted then "ic10-missing-effects" else "ic10-slow-or-stuck")
         else if !s.halted then "ic10-not-halted" else "ok")
      else -- source ran out of fuel: non-terminating or long; traces must be prefix-compatible (checked above)
        (if s.halted && ti.length < ts.length then "ic10-halted-early" else "ok-prefix")
    pure (Json.mkObj [
      ("verdict", Json.str verdict), ("src_outcome", Json.str srcOutcome),
      ("src_len", Json.num (JsonNumber.fromNat ts.length)), ("ic_len", Json.num (JsonNumber.fromNat ti.length)),
      ("common", Json.num (JsonNumber.fromNat cp)),
      ("ic_halted", Json.bool s.halted), ("ic_steps", Json.num (JsonNumber.fromNat n)), ("ic_pc", Json.num (JsonNumber.fromNat s.pc)),
      -- a non-finite value in a register or stack cell at the end of the run: the program left the compared domain (NaN has no order)
      ("ic_nonfinite", Json.bool (verdict != "ok" && verdict != "ok-prefix" &&
        ((List.range 18).any (fun r => !(s.regs r).isFinite) || (List.range 512).any (fun a => !(s.mem a).isFinite)))),
      ("call_violations", Json.arr (m.violations.map Json.str).toArray),
      ("max_depth", Json.num (JsonNumber.fromNat m.maxDepth)),
      ("src_at", match ts[cp]? with | some e => jEff e | none => Json.null),
      ("ic_at", match ti[cp]? with | some e => jEff e | none => Json.null)])

def opndEq : Opnd PReg Float → Opnd PReg Float → Bool
  | .reg a, .reg b => a == b
  | .num a, .num b => a == b || (a.isNaN && b.isNaN)
  | _, _ => false

def instrEq (a b : Instr PReg Float) : Bool :=
  a.kind == b.kind && a.dst == b.dst && a.args.length == b.args.length && (a.args.zip b.args).all (fun (x, y) => opndEq x y)

/-- token-wise comparison of two lines the loader model cannot parse: same opcode, same number of operands,
    each operand pair textually equal or denoting the same number (operand kinds from the signature table) -/
def tokensSame (ta tb : List String) : Bool :=
  match ta, tb with
  | [], [] => true
  | opa :: ra, opb :: rb =>
    opa == opb && ra.length == rb.length &&
    (let kinds : List (Option Spec.OpKind) := match Spec.lookup opa with
        | some sg => (if sg.out then [none] else []) ++ sg.ins.map some
        | none => []
     (ra.zip rb).zipIdx.all (fun ((x, y), i) =>
       x == y ||
       (let pos := match kinds[i]? with | some (some k) => kindEnum k | _ => none
        match PV.Tokens.denote PV.Gen.enums pos x.toList, PV.Tokens.denote PV.Gen.enums pos y.toList with
        | some a, some b => a == b
        | _, _ => false)))
  | _, _ => false

/-- do two texts denote the same instruction sequence (C08 oracle)?  Lines are compared as parsed instructions;
    a line pair the loader model rejects is compared token by token (whether it is loadable is C09's question). -/
def sameProgram (j : Json) : Except String Json := do
  let a ← j.getObjValAs? String "a"
  let b ← j.getObjValAs? String "b"
  let la := (splitLines a).map tokenize
  let lb := (splitLines b).map tokenize
  if la.length != lb.length then
    pure (Json.mkObj [("verdict", Json.str "length"), ("a", Json.num (JsonNumber.fromNat la.length)), ("b", Json.num (JsonNumber.fromNat lb.length))])
  else
    let ca := buildCtx la
    let cb := buildCtx lb
    let lineSame (ta tb : List String) : Bool :=
      match labelOf ta, labelOf tb with
      | some x, some y => x == y
      | none, none =>
        (match instrOfLine ca ta, instrOfLine cb tb with
         | .ok ia, .ok ib => instrEq ia ib
         | _, _ => tokensSame ta tb)
      | _, _ => false
    match ((la.zip lb).zipIdx.find? (fun ((x, y), _) => !lineSame x y)) with
    | some (_, i) => pure (Json.mkObj [("verdict", Json.str "differ"), ("line", Json.num (JsonNumber.fromNat i))])
    | none =>
      let unparsed := (la.filter (fun t => (labelOf t).isNone && (match instrOfLine ca t with | .ok _ => false | .error _ => true))).length
      pure (Json.mkObj [("verdict", Json.str "same"), ("lines", Json.num (JsonNumber.fromNat la.length)),
                        ("unparsed", Json.num (JsonNumber.fromNat unparsed))])

/-- grammar check of a whole text by the loader model (C09): every line that is not a label definition must be
    one instruction with an existing opcode and operands of the right number and kind -/
def wf (j : Json) : Except String Json := do
  let text ← j.getObjValAs? String "text"
  let lines := (splitLines text).map tokenize
  let ctx := buildCtx lines
  let errs := lines.zipIdx.filterMap (fun (toks, i) =>
    match labelOf toks with
    | some _ => none
    | none => match instrOfLine ctx toks with
      | .ok _ => none      -- grammatical (an opcode the machine model cannot execute is still loadable IC10)
      | .error e => some (i, e))
  -- duplicate label definitions
  let names := ctx.labels.map (·.1)
  let dups := names.filter (fun n => (names.filter (· == n)).length > 1)
  pure (Json.mkObj [
    ("errors", Json.arr (errs.map (fun (i, e) => Json.arr #[Json.num (JsonNumber.fromNat i), Json.str e])).toArray),
    ("duplicate_labels", Json.arr (dups.eraseDups.map Json.str).toArray),
    ("lines", Json.num (JsonNumber.fromNat lines.length))])

/-- text → lines of the label model (comments stripped, tokens; blank lines are instructions without tokens) -/
def linesOfText (text : String) : List PV.Labels.Line :=
  if text.isEmpty then [] else          -- the empty text is the empty program (no line), not one blank line
  (splitLines text).map (fun l =>
    let toks := tokenize l
    match labelOf toks with
    | some n => PV.Labels.Line.label n
    | none => PV.Labels.Line.instr toks)

/-- C05: is `numeric` (real output with labels removed) line for line `specRemove` of `labelled` (real output with labels kept)? -/
def labelsCompare (j : Json) : Except String Json := do
  let labelled ← j.getObjValAs? String "labelled"
  let numeric ← j.getObjValAs? String "numeric"
  let p := linesOfText labelled
  let spec := PV.Labels.specRemove p
  -- the empty text is the empty program (no line), not one blank line
  let real := if numeric.isEmpty then [] else (splitLines numeric).map tokenize
  let defs := p.filterMap (fun l => match l with | .label n => some n | _ => none)
  let dups := (defs.filter (fun n => PV.Labels.defCount n p > 1)).eraseDups
  let jl (ls : List (List String)) := Json.arr (ls.map (fun t => Json.str (" ".intercalate t))).toArray
  if spec.length != real.length then
    pure (Json.mkObj [("verdict", Json.str "length"), ("spec", Json.num (JsonNumber.fromNat spec.length)), ("real", Json.num (JsonNumber.fromNat real.length)),
                      ("duplicate_labels", Json.arr (dups.map Json.str).toArray)])
  else
    match (spec.zip real).zipIdx.find? (fun ((a, b), _) => a != b) with
    | some ((a, b), i) => pure (Json.mkObj [("verdict", Json.str "differ"), ("line", Json.num (JsonNumber.fromNat i)),
        ("spec", Json.str (" ".intercalate a)), ("real", Json.str (" ".intercalate b)), ("duplicate_labels", Json.arr (dups.map Json.str).toArray)])
    | none => pure (Json.mkObj [("verdict", Json.str "same"), ("lines", Json.num (JsonNumber.fromNat spec.length)),
        ("labels", Json.num (JsonNumber.fromNat defs.length)), ("duplicate_labels", Json.arr (dups.map Json.str).toArray),
        ("spec_text", jl spec)])

/-! ### C04: allocation validator and side-by-side execution -/

def checkAlloc (j : Json) : Except String Json := do
  let text ← j.getObjValAs? String "text"
  let mapJ ← (← j.getObjVal? "map").getArr?
  let table ← mapJ.toList.mapM (fun p => do
    let a ← p.getArr?
    pure ((← (a[0]!).getNat?), (← (a[1]!).getNat?)))
  let liveIn ← (← (← j.getObjVal? "live_in").getArr?).toList.mapM natListOfJson
  let liveOut ← (← (← j.getObjVal? "live_out").getArr?).toList.mapM natListOfJson
  let indirectJ ← (← j.getObjVal? "indirect").getArr?
  let indirect ← indirectJ.toList.mapM (fun p => do
    let a ← p.getArr?
    pure ((← (a[0]!).getNat?), (← natListOfJson a[1]!)))
  match parseProgram text with
  | .error e => pure (Json.mkObj [("verdict", Json.str "parse-error"), ("detail", Json.str e)])
  | .ok pp =>
    let ρ : Nat → Nat := fun r => match table.find? (·.1 == r) with | some (_, p) => p | none => r
    let liA := liveIn.toArray
    let loA := liveOut.toArray
    let C : PV.AllocCheck.Cert Nat := { liveIn := fun pc => liA.getD pc [16, 17], liveOut := fun pc => loA.getD pc [16, 17] }
    let bad := pp.prog.zipIdx.find? (fun (i, pc) => !PV.AllocCheck.okAt ρ C pc i)
    match bad with
    | some (i, pc) =>
      -- which clause
      let clash := (PV.AllocCheck.defs i).filterMap (fun d => ((C.liveOut pc).find? (fun v => v != d && ρ v == ρ d)).map (fun v => (d, v)))
      pure (Json.mkObj [("verdict", Json.str "reject"), ("line", Json.num (JsonNumber.fromNat pc)),
        ("reason", Json.str (if clash.isEmpty then "certificate-inconsistent" else "clash")),
        ("clash", Json.arr (clash.map (fun (d, v) => Json.arr #[Json.num (JsonNumber.fromNat d), Json.num (JsonNumber.fromNat v), Json.num (JsonNumber.fromNat (ρ d))])).toArray)])
    | none =>
      -- every static edge (PV.Cfg.succs) and every declared successor of an indirect jump must be covered: the function
      -- `edgesOk` of the theorem `checkAlloc_sound_static`
      let declared : Nat → List Nat := fun pc => ((indirect.find? (fun (q : Nat × List Nat) => q.1 == pc)).map (fun (q : Nat × List Nat) => q.2)).getD []
      let eok := PV.AllocCheck.edgesOk FloatSem.sem C pp.prog declared
      let edgeBad := pp.prog.zipIdx.findSome? (fun (i, pc) =>
        let succs := match PV.Cfg.succs FloatSem.sem pc i with
          | some l => l
          | none => declared pc
        (succs.find? (fun n => !PV.AllocCheck.succOk C pc n)).map (fun n => (pc, n)))
      let undeclared := pp.prog.zipIdx.filter (fun (i, pc) => (PV.Cfg.succs FloatSem.sem pc i).isNone && (indirect.find? (fun (q : Nat × List Nat) => q.1 == pc)).isNone)
      if !eok then
        match edgeBad with
        | some (pc, n) => pure (Json.mkObj [("verdict", Json.str "reject"), ("line", Json.num (JsonNumber.fromNat pc)), ("reason", Json.str "edge"),
            ("to", Json.num (JsonNumber.fromNat n))])
        | none => pure (Json.mkObj [("verdict", Json.str "reject"), ("reason", Json.str "edge")])
      else if !undeclared.isEmpty then
        pure (Json.mkObj [("verdict", Json.str "reject"), ("reason", Json.str "indirect-jump-without-declared-successors"),
          ("line", Json.num (JsonNumber.fromNat ((undeclared.head?.map (·.2)).getD 0)))])
      else
        pure (Json.mkObj [("verdict", Json.str "accept"), ("lines", Json.num (JsonNumber.fromNat pp.prog.length)),
          ("indirect", Json.num (JsonNumber.fromNat indirect.length))])

/-- run two programs with the same line structure side by side on the same environment and compare line, stack pointer,
    trace and halting status after every step -/
partial def runPairLoop (env : Env Float) (P Q : List (Instr PReg Float)) (indirect : List (Nat × List Nat)) (budget : Nat)
    (s t : St PReg Float) (n : Nat) : Nat × Option String × Bool :=
  if budget == 0 || (s.halted && t.halted) then (n, none, false) else
  let s' := compactRegs (step FloatSem.sem env P s)
  let t' := compactRegs (step FloatSem.sem env Q t)
  let s' := compactMem s'
  let t' := compactMem t'
  -- the soundness theorem's side condition: an indirect jump of the ORIGINAL program must land on a declared successor;
  -- an execution that leaves them (index out of range in a jump table, …) is outside the compared domain
  let outside := match indirect.find? (fun (q : Nat × List Nat) => q.1 == s.pc) with
    | some (_, succs) => !s'.halted && !succs.contains s'.pc
    | none => false
  if outside then (n, none, true)
  else if s'.pc != t'.pc then (n, some s!"after step {n} (line {s.pc}): next line {s'.pc} vs {t'.pc}", false)
  else if s'.halted != t'.halted then (n, some s!"after step {n} (line {s.pc}): halted {s'.halted} vs {t'.halted}", false)
  else if s'.trace.length != t'.trace.length || !((s'.trace.head?.bind (fun a => t'.trace.head?.map (fun b => effEq a b))).getD true) then
    (n, some s!"after step {n} (line {s.pc}): the effect performed differs", false)
  else runPairLoop env P Q indirect (budget - 1) s' t' (n + 1)

def runPair (j : Json) : Except String Json := do
  let a ← j.getObjValAs? String "a"
  let b ← j.getObjValAs? String "b"
  let seed ← j.getObjValAs? Nat "seed"
  let steps ← j.getObjValAs? Nat "steps"
  let pool ← poolOf (← j.getObjVal? "pool")
  match parseProgram a, parseProgram b with
  | .error e, _ => pure (Json.mkObj [("verdict", Json.str "parse-error-a"), ("detail", Json.str e)])
  | _, .error e => pure (Json.mkObj [("verdict", Json.str "parse-error-b"), ("detail", Json.str e)])
  | .ok pa, .ok pb =>
    let indirect ← match j.getObjVal? "indirect" with
      | .ok ij => (← ij.getArr?).toList.mapM (fun p => do
          let a ← p.getArr?
          pure ((← (a[0]!).getNat?), (← natListOfJson a[1]!)))
      | .error _ => pure []
    let (n, r, outside) := runPairLoop (envF seed pool) pa.prog pb.prog indirect steps initSt initSt 0
    match r with
    | some why => pure (Json.mkObj [("verdict", Json.str "diverge"), ("detail", Json.str why), ("steps", Json.num (JsonNumber.fromNat n))])
    | none => pure (Json.mkObj [("verdict", Json.str (if outside then "outside-declared-successors" else "same")), ("steps", Json.num (JsonNumber.fromNat n))])

/-! ### C07: regions -/

def pairListOfJson (j : Json) : Except String (List (Nat × Nat)) := do
  (← j.getArr?).toList.mapM (fun p => do
    let a ← p.getArr?
    pure ((← (a[0]!).getNat?), (← (a[1]!).getNat?)))

/-- static region check (the function the theorem `checkFall_sound` is about) plus the list of offending edges -/
def checkFallCmd (j : Json) : Except String Json := do
  let text ← j.getObjValAs? String "text"
  let owners ← natListOfJson (← j.getObjVal? "owners")
  let entries ← natListOfJson (← j.getObjVal? "entries")
  let allow ← pairListOfJson (← j.getObjVal? "allow")
  match parseProgram text with
  | .error e => pure (Json.mkObj [("verdict", Json.str "parse-error"), ("detail", Json.str e)])
  | .ok pp =>
    let oa := owners.toArray
    let owner : Nat → Nat := fun n => oa.getD n 0
    let ok := PV.Regions.checkFall FloatSem.sem pp.prog owner entries allow
    let bad := pp.prog.zipIdx.flatMap (fun (i, pc) =>
      match PV.Cfg.succs FloatSem.sem pc i with
      | some l => (l.filter (fun n => !PV.Regions.edgeOk pp.prog.length owner entries allow pc i.kind n)).map (fun n => (pc, n))
      | none => [])
    pure (Json.mkObj [("verdict", Json.str (if ok then "accept" else "reject")),
      ("bad_edges", Json.arr (bad.map (fun (a, b) => Json.arr #[Json.num (JsonNumber.fromNat a), Json.num (JsonNumber.fromNat b)])).toArray)])

/-- run and report every step that enters another region otherwise than by a call to an entry or a jump through a register -/
partial def runRegionsLoop (env : Env Float) (P : List (Instr PReg Float)) (owner : Nat → Nat) (entries : List Nat) (budget : Nat)
    (s : St PReg Float) (acc : List (Nat × Nat × Nat)) : St PReg Float × List (Nat × Nat × Nat) :=
  if budget == 0 || s.halted then (s, acc) else
  let s' := compactMem (compactRegs (step FloatSem.sem env P s))
  let acc' := match P[s.pc]? with
    | some i =>
      if s'.halted || s'.pc ≥ P.length || owner s'.pc == owner s.pc then acc
      else if (PV.Cfg.succs FloatSem.sem s.pc i).isNone then acc
      else if PV.Regions.isCall i.kind && entries.contains s'.pc then acc
      else (s.pc, s'.pc, s.trace.length) :: acc
    | none => acc
  runRegionsLoop env P owner entries (budget - 1) s' acc'

def runRegions (j : Json) : Except String Json := do
  let text ← j.getObjValAs? String "text"
  let owners ← natListOfJson (← j.getObjVal? "owners")
  let entries ← natListOfJson (← j.getObjVal? "entries")
  let seed ← j.getObjValAs? Nat "seed"
  let steps ← j.getObjValAs? Nat "steps"
  let pool ← poolOf (← j.getObjVal? "pool")
  match parseProgram text with
  | .error e => pure (Json.mkObj [("verdict", Json.str "parse-error"), ("detail", Json.str e)])
  | .ok pp =>
    let oa := owners.toArray
    let owner : Nat → Nat := fun n => oa.getD n 0
    let (s, acc) := runRegionsLoop (envF seed pool) pp.prog owner entries steps initSt []
    -- effects performed after the first illegal entry
    let firstBad := acc.reverse.head?
    pure (Json.mkObj [
      ("halted", Json.bool s.halted), ("pc", Json.num (JsonNumber.fromNat s.pc)), ("trace_len", Json.num (JsonNumber.fromNat s.trace.length)),
      ("illegal_entries", Json.arr (acc.reverse.map (fun (a, b, t) => Json.arr #[Json.num (JsonNumber.fromNat a), Json.num (JsonNumber.fromNat b), Json.num (JsonNumber.fromNat t)])).toArray),
      ("effects_after_first", Json.num (JsonNumber.fromNat (match firstBad with | some (_, _, t) => s.trace.length - t | none => 0))),
      ("lines", Json.num (JsonNumber.fromNat pp.prog.length))])

/-! ### C01 core: the model generator vs the real pre-allocation code -/

/-- the flattened program under the core reference semantics against the source under `PV.Src` on one environment:
    the unproved step (`flatten`) is compared executably; prefix rule when either side runs out of fuel -/
def flatAgrees (prog : Program Float) (core : PV.Core.Stmt Float) (procs : List (PV.Core.Stmt Float)) (seed fuel : Nat) (pool : Array Float) : String :=
  let env := envF seed pool
  let (st, r) := runProgram FloatSem.sem env prog fuel 0.0
  let ts := st.trace.reverse
  let (tc, cdone) := match PV.Core.exec FloatSem.sem env (PV.Core.procOf procs) fuel core ⟨fun _ => 0.0, fun _ => 0.0, []⟩ with
    | .ok _ s => (s.trace.reverse, true)
    | .timeout s => (s.trace.reverse, false)
    | .stuck => ([], false)
  let cp := commonPrefix ts tc
  let sdone := match r with | .ok _ => true | .error _ => false
  if cp < min ts.length tc.length then s!"flatten-trace-mismatch at {cp}"
  else if sdone && cdone && ts.length != tc.length then "flatten-length-mismatch"
  else if sdone && !cdone && tc.length > ts.length then "flatten-extra-effects"
  else if cdone && !sdone && ts.length > tc.length then "flatten-missing-effects"
  else "ok"

def floatCfg : PV.Flatten.Cfg Float :=
  { zero := 0.0, negV := fun v => -v, isOne := fun v => v == 1.0, isNeg := fun v => v < 0.0, ofNat := fun n => Float.ofNat n }

/-- is the real code (text with virtual registers and labels) instruction for instruction `compProg (flatten src)`? -/
def coreCompare (j : Json) : Except String Json := do
  let prog ← progOfJson (← j.getObjVal? "prog")
  let text ← j.getObjValAs? String "text"
  let inline := (j.getObjValAs? Bool "inline").toOption.getD false
  match PV.Flatten.flatten floatCfg inline prog with
  | none => pure (Json.mkObj [("verdict", Json.str "outside-core")])
  | some (core, procs, ranks) =>
    -- the executable form of the theorems' hypotheses: `Good` (branch pairs from the real tables, `ra` / `sp` untouched, own-stack
    -- memory only at literal addresses from `lo` = 64 on, calls of existing procedures) for the main code; for procedure `k` the
    -- same with calls restricted to procedures of smaller rank; all ranks below `lo`
    let lo := 64
    let idxs := List.range procs.length
    let rk : Nat → Nat := fun k => ranks.getD k 0
    let good := PV.Core.goodB FloatSem.sem lo PV.Flatten.branchPairs idxs core &&
      procs.zipIdx.all (fun (b, k) => PV.Core.goodB FloatSem.sem lo PV.Flatten.branchPairs (idxs.filter (fun j => rk j < rk k)) b) &&
      ranks.all (fun r => r + 1 ≤ lo)
    if !good then pure (Json.mkObj [("verdict", Json.str "negok-false")]) else
    let flat : String := match j.getObjValAs? Nat "seed", j.getObjValAs? Nat "fuel", (j.getObjVal? "pool").bind poolOf with
      | .ok seed, .ok fuel, .ok pool => flatAgrees prog core procs seed fuel pool
      | _, _, _ => "not-run"
    if flat != "ok" && flat != "not-run" then pure (Json.mkObj [("verdict", Json.str "flatten-disagrees"), ("detail", Json.str flat)]) else
    let model := PV.Core.compProg (fun n => Float.ofNat n) core procs
    match parseProgram text with
    | .error e => pure (Json.mkObj [("verdict", Json.str "parse-error"), ("detail", Json.str e)])
    | .ok pp =>
      let a := PV.Flatten.canon model
      let b := PV.Flatten.canon pp.prog
      let extra := [("procs", Json.num (JsonNumber.fromNat procs.length))]
      if a.length != b.length then
        pure (Json.mkObj ([("verdict", Json.str "length"), ("model", Json.num (JsonNumber.fromNat a.length)), ("real", Json.num (JsonNumber.fromNat b.length)),
          ("model_code", Json.arr (a.map Json.str).toArray), ("real_code", Json.arr (b.map Json.str).toArray)] ++ extra))
      else
        match (a.zip b).zipIdx.find? (fun ((x, y), _) => x != y) with
        | some ((x, y), i) => pure (Json.mkObj ([("verdict", Json.str "differ"), ("line", Json.num (JsonNumber.fromNat i)), ("model", Json.str x), ("real", Json.str y),
            ("model_code", Json.arr (a.map Json.str).toArray), ("real_code", Json.arr (b.map Json.str).toArray)] ++ extra))
        | none =>
          -- the proved front-end fragment: inside it, `PV.Front.flatten` must yield what `PV.Flatten.flatten` yields (then
          -- `PV.Props.C01Front.source_to_chip_done` speaks about this program's real code)
          let front : String := match PV.Front.flatten floatCfg prog with
            | none => "outside"
            | some s => if procs.isEmpty && PV.Flatten.canon (PV.Core.compProg (fun n => Float.ofNat n) s []) == a then "same" else "differ"
          -- the hypotheses `PV.Front.SemOk` about the value domain, evaluated on this program's value pool
          let vals : List Float := (match (j.getObjVal? "pool").bind poolOf with | .ok pool => pool.toList | _ => []) ++ [0.0, 1.0, -1.0, 2.5]
          let sem := FloatSem.sem
          let semok := vals.all (fun v => sem.alu "sub" [sem.ofNat 0, v] == floatCfg.negV v && sem.alu "move" [v] == v &&
              (!floatCfg.isOne v || sem.truthy v) && sem.truthy v == sem.cond "nez" [v] && sem.truthy (sem.alu "seqz" [v]) == sem.cond "eqz" [v] &&
              vals.all (fun w => sem.alu "select" [v, w, 7.0] == (if sem.truthy v then w else 7.0) && sem.alu "select" [v, 7.0, w] == (if sem.truthy v then 7.0 else w)) &&
              vals.all (fun w => PV.Flatten.cmpNames.all (fun op => match PV.Flatten.branchPair op with
                | some (c, _) => sem.truthy (sem.alu op [v, w]) == sem.cond c [v, w]
                | none => false)))
          pure (Json.mkObj ([("verdict", Json.str "same"), ("lines", Json.num (JsonNumber.fromNat a.length)), ("flatten", Json.str flat),
            ("front", Json.str front), ("semok", Json.bool semok)] ++ extra))

/-! ### C05: label removal at machine level -/

/-- is the REAL output without labels the machine-level `strip` of the REAL output with labels, and is the program inside the
    fragment `strip_sim_fwd` / `strip_sim_bwd` cover (every kept line `simple`)? -/
def stripCompare (j : Json) : Except String Json := do
  let labelled ← j.getObjValAs? String "labelled"
  let stripped ← j.getObjValAs? String "stripped"
  match parseProgram labelled, parseProgram stripped with
  | .error e, _ => pure (Json.mkObj [("verdict", Json.str "parse-error"), ("detail", Json.str ("labelled: " ++ e))])
  | _, .error e => pure (Json.mkObj [("verdict", Json.str "parse-error"), ("detail", Json.str ("stripped: " ++ e))])
  | .ok p, .ok q =>
    let lab : Nat → Bool := fun i => p.isLabel.getD i false
    let s := PV.Strip.strip FloatSem.sem (fun n => Float.ofNat n) lab p.prog
    let notSimple := (p.prog.zipIdx.filter (fun (i, k) => !lab k && !PV.Strip.simple FloatSem.sem i)).map (·.2)
    let covered := notSimple.isEmpty
    let extra := [("covered", Json.bool covered), ("not_simple", Json.arr ((notSimple.take 8).map (fun n => Json.num (JsonNumber.fromNat n))).toArray),
      ("labels", Json.num (JsonNumber.fromNat (p.isLabel.filter id).length)), ("lines", Json.num (JsonNumber.fromNat p.prog.length))]
    let qprog := if stripped.isEmpty then [] else q.prog
    let s := if labelled.isEmpty then [] else s
    if s.length != qprog.length then
      pure (Json.mkObj ([("verdict", Json.str "length"), ("model", Json.num (JsonNumber.fromNat s.length)), ("real", Json.num (JsonNumber.fromNat qprog.length))] ++ extra))
    else
      match (s.zip qprog).zipIdx.find? (fun ((a, b), _) => !instrEq a b) with
      | some (_, i) => pure (Json.mkObj ([("verdict", Json.str "differ"), ("line", Json.num (JsonNumber.fromNat i))] ++ extra))
      | none => pure (Json.mkObj ([("verdict", Json.str "same")] ++ extra))

/-- first step at which the typing of `PV.Strip.tyRun` fails: (step number, line), for the report only -/
partial def tyDiag (env : Env Float) (P : List (Instr PReg Float)) (lab : Nat → Bool) (budget : Nat) (s : St PReg Float) (T : PV.Strip.Ty PReg)
    (k : Nat) : Option (Nat × Nat) :=
  if budget == 0 || s.halted then none else
  match P[s.pc]? with
  | none => none
  | some i =>
    if lab s.pc then tyDiag env P lab (budget - 1) (step FloatSem.sem env P s) T (k + 1) else
    match PV.Strip.tyStep FloatSem.sem T s i with
    | none => some (k, s.pc)
    | some T' => tyDiag env P lab (budget - 1) (step FloatSem.sem env P s) T' (k + 1)

/-- the hypothesis of `PV.Strip.strip_traces_typed` on one run of a REAL output pair: is the label-free output `strip` of the
    labelled one, and is the run of the labelled output well typed for `steps` steps (no line number used as a value)?  Also
    compares the two effect traces directly (what the theorem concludes). -/
def stripRun (j : Json) : Except String Json := do
  let labelled ← j.getObjValAs? String "labelled"
  let stripped ← j.getObjValAs? String "stripped"
  let seed ← j.getObjValAs? Nat "seed"
  let steps ← j.getObjValAs? Nat "steps"
  let pool ← poolOf (← j.getObjVal? "pool")
  match parseProgram labelled, parseProgram stripped with
  | .error e, _ => pure (Json.mkObj [("verdict", Json.str "parse-error"), ("detail", Json.str ("labelled: " ++ e))])
  | _, .error e => pure (Json.mkObj [("verdict", Json.str "parse-error"), ("detail", Json.str ("stripped: " ++ e))])
  | .ok p, .ok q =>
    let lab : Nat → Bool := fun i => p.isLabel.getD i false
    let sp := if labelled.isEmpty then [] else PV.Strip.strip FloatSem.sem (fun n => Float.ofNat n) lab p.prog
    let qprog := if stripped.isEmpty then [] else q.prog
    let same := sp.length == qprog.length && (sp.zip qprog).all (fun (a, b) => instrEq a b)
    let env := envF seed pool
    let typed := (PV.Strip.tyRun FloatSem.sem env p.prog lab steps initSt PV.Strip.Ty.none).isSome
    let diag := if typed then none else tyDiag env p.prog lab steps initSt PV.Strip.Ty.none 0
    let sP := run FloatSem.sem env p.prog steps initSt
    let sQ := run FloatSem.sem env qprog steps initSt
    let tP := sP.trace.reverse
    let tQ := sQ.trace.reverse
    let cp := commonPrefix tP tQ
    let tracesOk := cp == min tP.length tQ.length && tP.length ≤ tQ.length
    pure (Json.mkObj [("verdict", Json.str "done"), ("same", Json.bool same), ("typed", Json.bool typed), ("traces_ok", Json.bool tracesOk),
      ("ill_typed_at", match diag with | some (k, pc) => Json.arr #[Json.num (JsonNumber.fromNat k), Json.num (JsonNumber.fromNat pc)] | none => Json.null),
      ("effects", Json.num (JsonNumber.fromNat tP.length))])

/-! ### C06: leaf functions -/

/-- per function body `[lo, hi)` of the REAL allocated code: does `checkLeaf` accept it (hypothesis of `leaf_returns` /
    `call_leaf_returns`), and does it contain a call at all? -/
def checkLeafCmd (j : Json) : Except String Json := do
  let text ← j.getObjValAs? String "text"
  let regions ← pairListOfJson (← j.getObjVal? "regions")
  match parseProgram text with
  | .error e => pure (Json.mkObj [("verdict", Json.str "parse-error"), ("detail", Json.str e)])
  | .ok pp =>
    let res := regions.map (fun (lo, hi) =>
      let body := (pp.prog.drop lo).take (hi - lo)
      let hasCall := body.any (fun i => i.kind == .jal)
      let writesRa := body.any (fun i => i.dst == some (Special.ra : PReg))
      let ok := PV.Leaf.checkLeaf FloatSem.sem pp.prog lo hi
      Json.mkObj [("lo", Json.num (JsonNumber.fromNat lo)), ("hi", Json.num (JsonNumber.fromNat hi)), ("leaf_ok", Json.bool ok),
        ("has_call", Json.bool hasCall), ("writes_ra", Json.bool writesRa)])
    pure (Json.mkObj [("verdict", Json.str "done"), ("regions", Json.arr res.toArray)])

end PV.DriverRun
