import PV.Props.C01Front
/-!
Negative witnesses for C01 (known findings F-C01-k, F-C01-j) — NOT proof obligations of any check.

The lowering of `for x in range(…)` keeps the loop variable in the iterator's register (`PV.Flatten.flatS`, case `forRange`,
which reproduces `handle_for` instruction for instruction).  For the two programs below the chip running the code of that shape (`comp`) and the
reference semantics `PV.Src` perform different effects (integers, `PV.Props.C01Front.intSem`); the same programs are compiled by
the real transpiler and run against the reference on every run of C01 (witnesses in `harness/c01.py`).  This is why `for` loops
are outside the proved fragment `PV.Front`.
-/
namespace PV.Findings.C01
open PV.IC10 PV.Core
open PV.Props.C01Front (intSem)

def traceOfSrc (p : PV.Src.Program Int) (fuel : Nat) : List (String × List Int) :=
  (PV.Src.execBlock intSem (fun _ _ _ => 0) p fuel [] { globals := [], mem := fun _ => 0, sp := 0, trace := [] } p.main).1.trace.reverse.map
    (fun e => (e.tag, e.vals))

/-- the effects of the chip running the model generator's code for a core program, after `k` instructions -/
def traceOfChip (s : Stmt Int) (k : Nat) : List (String × List Int) :=
  (run intSem (fun _ _ _ => 0) (comp (fun n => (n : Int)) (fun _ => 0) s 0 0 0 0) k (mk ⟨fun _ => 0, fun _ => 0, []⟩ 0)).trace.reverse.map
    (fun e => (e.tag, e.vals))

/-- F-C01-k: `for i in range(3): s(i)` then `t(i)` — Python leaves `i = 2` -/
def srcK : PV.Src.Program Int :=
  { funcs := [], main := [.forRange true "i" (.num 0) (.num 3) (.num 1) [.write "s" [.gvar "i"]], .write "t" [.gvar "i"]] }

/-- the emitted shape: `move i 0 ; while i < 3: s(i) ; add i i 1` then `t(i)` -/
def coreK : Stmt Int :=
  .seq (.alu 100 "move" [.num 0])
    (.seq (.while "lt" "ge" [.reg 100, .num 3] (.seq (.store "s" [.reg 100]) (.alu 100 "add" [.reg 100, .num 1])))
      (.store "t" [.reg 100]))

theorem loop_variable_after_the_loop :
    (traceOfSrc srcK 30 == [("s", [0]), ("s", [1]), ("s", [2]), ("t", [2])] &&
     traceOfChip coreK 60 == [("s", [0]), ("s", [1]), ("s", [2]), ("t", [3])]) = true := by decide +kernel

/-- F-C01-j: `n = 3 ; for i in range(n): n = n - 1 ; s(i)` — Python evaluates `range(n)` once -/
def srcJ : PV.Src.Program Int :=
  { funcs := [], main := [.gassign "n" (.bin "add" (.num 3) (.read "l" [])),
      .forRange true "i" (.num 0) (.gvar "n") (.num 1) [.gassign "n" (.bin "sub" (.gvar "n") (.num 1)), .write "s" [.gvar "i"]]] }

def coreJ : Stmt Int :=
  .seq (.load 101 "l" []) (.seq (.alu 100 "add" [.num 3, .reg 101])
    (.seq (.alu 102 "move" [.num 0])
      (.while "lt" "ge" [.reg 102, .reg 100] (.seq (.alu 100 "sub" [.reg 100, .num 1]) (.seq (.store "s" [.reg 102]) (.alu 102 "add" [.reg 102, .num 1]))))))

theorem range_bound_read_again :
    (traceOfSrc srcJ 30 == [("s", [0]), ("s", [1]), ("s", [2])] &&
     traceOfChip coreJ 60 == [("s", [0]), ("s", [1])]) = true := by decide +kernel

end PV.Findings.C01
