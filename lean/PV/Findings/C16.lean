import PV.Model.Tables
/-!
Negative witnesses for C16 (known findings F-C16-a, F-C16-b) — NOT proof obligations of any check.
On the pinned tree these intrinsic wrappers contradict their instruction's signature.
-/
namespace PV.Findings.C16
open PV.Gen PV.Tables

/-- F-C16-a: `rmap`, `ext`, `ins` have an output register in IC10 but the wrapper yields no result -/
theorem output_register_but_no_result :
    (intrinsics.filter (fun r => ["rmap", "ext", "ins"].contains r.pyName)).all
      (fun r => !r.hasOutput && !intrinsicOk r) = true := by decide +kernel

/-- F-C16-b: the `bdns`/`bdse` family has no output register in IC10 but the wrapper yields a result -/
theorem result_but_no_output_register :
    (intrinsics.filter (fun r => ["bdns", "bdnsal", "bdse", "bdseal", "brdns", "brdse"].contains r.pyName)).all
      (fun r => r.hasOutput && !intrinsicOk r) = true := by decide +kernel

end PV.Findings.C16
