import PV.IC10.Machine
/-
`Sem Float`: the chip's arithmetic on IEEE-754 binary64 (Lean's `Float` is C `double`), used by `pvdrv`
to execute programs.  Trusted specification of the opcodes' value behaviour (DESIGN §6):
`mod` is C#'s `%` made non-negative by adding the modulus once; bitwise operations act on the 64-bit
two's-complement truncation of the operands; `select a b c = if a ≠ 0 then b else c`.
-/
namespace PV.IC10.FloatSem

def b2f (b : Bool) : Float := if b then 1.0 else 0.0

/-- finite non-zero double ↦ (m, e) with value = m · 2^e, m an odd-or-even integer with |m| < 2^53 -/
def decompose (x : Float) : Int × Int :=
  let bits := x.toBits
  let sign : Int := if bits >>> 63 == 1 then -1 else 1
  let ex := ((bits >>> 52) &&& 0x7FF).toNat
  let frac := (bits &&& 0xFFFFFFFFFFFFF).toNat
  if ex == 0 then (sign * frac, -1074) else (sign * (frac + 4503599627370496), (ex : Int) - 1075)

/-- exact C `fmod` (result has the sign of `a`, is exactly representable) -/
def fmod (a b : Float) : Float :=
  if a.isNaN || b.isNaN || a.isInf || b == 0.0 then (0.0 / 0.0)
  else if b.isInf then a
  else if a == 0.0 then a
  else
    let (ma, ea) := decompose a
    let (mb, eb) := decompose b
    let e := if ea < eb then ea else eb
    let A : Int := ma * (2 : Int) ^ (ea - e).toNat
    let B : Int := (mb * (2 : Int) ^ (eb - e).toNat).natAbs
    let r : Int := Int.tmod A B      -- truncated: sign of A
    if r == 0 then (if a < 0.0 then -0.0 else 0.0)
    else (Float.ofInt r).scaleB e

/-- IC10 `mod` -/
def icMod (a b : Float) : Float :=
  let r := fmod a b
  if r < 0.0 then r + b else r

def toI64 (x : Float) : Int64 := x.toInt64
def ofI64 (x : Int64) : Float := Float.ofInt x.toInt

def shiftCount (x : Float) : Int64 := (x.toInt64) &&& 63

/-- round half to even (C# `Math.Round`) -/
def roundEven (x : Float) : Float :=
  let f := x.floor
  let d := x - f
  if d < 0.5 then f else if d > 0.5 then f + 1.0
  else if fmod f 2.0 == 0.0 then f else f + 1.0

def alu (op : String) (vs : List Float) : Float :=
  match op, vs with
  | "move", [a] => a
  | "add", [a, b] => a + b
  | "sub", [a, b] => a - b
  | "mul", [a, b] => a * b
  | "div", [a, b] => a / b
  | "mod", [a, b] => icMod a b
  | "pow", [a, b] => Float.pow a b
  | "max", [a, b] => if a.isNaN || b.isNaN then (0.0/0.0) else if a < b then b else a
  | "min", [a, b] => if a.isNaN || b.isNaN then (0.0/0.0) else if a < b then a else b
  | "abs", [a] => a.abs
  | "ceil", [a] => a.ceil
  | "floor", [a] => a.floor
  | "round", [a] => roundEven a
  | "trunc", [a] => if a < 0.0 then a.ceil else a.floor
  | "sqrt", [a] => a.sqrt
  | "exp", [a] => a.exp
  | "log", [a] => a.log
  | "sin", [a] => a.sin
  | "cos", [a] => a.cos
  | "tan", [a] => a.tan
  | "asin", [a] => a.asin
  | "acos", [a] => a.acos
  | "atan", [a] => a.atan
  | "atan2", [a, b] => Float.atan2 a b
  | "and", [a, b] => ofI64 (toI64 a &&& toI64 b)
  | "or", [a, b] => ofI64 (toI64 a ||| toI64 b)
  | "xor", [a, b] => ofI64 (toI64 a ^^^ toI64 b)
  | "nor", [a, b] => ofI64 (~~~ (toI64 a ||| toI64 b))
  | "not", [a] => ofI64 (~~~ (toI64 a))
  | "sll", [a, b] => ofI64 (toI64 a <<< shiftCount b)
  | "sla", [a, b] => ofI64 (toI64 a <<< shiftCount b)
  | "sra", [a, b] => ofI64 (toI64 a >>> shiftCount b)
  | "srl", [a, b] => ofI64 ((toI64 a).toUInt64 >>> (shiftCount b).toUInt64).toInt64
  | "seq", [a, b] => b2f (a == b)
  | "sne", [a, b] => b2f (a != b)
  | "slt", [a, b] => b2f (a < b)
  | "sgt", [a, b] => b2f (a > b)
  | "sle", [a, b] => b2f (a <= b)
  | "sge", [a, b] => b2f (a >= b)
  | "seqz", [a] => b2f (a == 0.0)
  | "snez", [a] => b2f (a != 0.0)
  | "sltz", [a] => b2f (a < 0.0)
  | "sgtz", [a] => b2f (a > 0.0)
  | "slez", [a] => b2f (a <= 0.0)
  | "sgez", [a] => b2f (a >= 0.0)
  | "snan", [a] => b2f a.isNaN
  | "snanz", [a] => b2f (!a.isNaN)
  | "select", [a, b, c] => if a != 0.0 then b else c
  | "lerp", [a, b, c] => a + (b - a) * (if c < 0.0 then 0.0 else if c > 1.0 then 1.0 else c)
  | _, _ => (0.0 / 0.0)

def cond (c : String) (vs : List Float) : Bool :=
  match c, vs with
  | "always", _ => true
  | "eq", [a, b] => a == b
  | "ne", [a, b] => a != b
  | "lt", [a, b] => a < b
  | "gt", [a, b] => a > b
  | "le", [a, b] => a <= b
  | "ge", [a, b] => a >= b
  | "eqz", [a] => a == 0.0
  | "nez", [a] => a != 0.0
  | "ltz", [a] => a < 0.0
  | "gtz", [a] => a > 0.0
  | "lez", [a] => a <= 0.0
  | "gez", [a] => a >= 0.0
  | "nan", [a] => a.isNaN
  | _, _ => false

def toAddr (v : Float) : Option Nat :=
  if v.isNaN || v.isInf || v < 0.0 then none
  else some (v.floor.toUInt64.toNat)

def sem : Sem Float :=
  { alu := alu, cond := cond, toAddr := toAddr, ofNat := fun n => Float.ofNat n, truthy := fun v => v != 0.0 }

/-- names known to `alu` / `cond` (used by the text parser to classify opcodes) -/
def aluOps : List String :=
  ["move", "add", "sub", "mul", "div", "mod", "pow", "max", "min", "abs", "ceil", "floor", "round", "trunc",
   "sqrt", "exp", "log", "sin", "cos", "tan", "asin", "acos", "atan", "atan2", "and", "or", "xor", "nor", "not",
   "sll", "sla", "sra", "srl", "seq", "sne", "slt", "sgt", "sle", "sge", "seqz", "snez", "sltz", "sgtz", "slez",
   "sgez", "snan", "snanz", "select", "lerp"]

def condNames : List String :=
  ["eq", "ne", "lt", "gt", "le", "ge", "eqz", "nez", "ltz", "gtz", "lez", "gez", "nan"]

end PV.IC10.FloatSem
