/-
The IC10 target machine — trusted specification (DESIGN §2.1).

* generic in the register-name type `R` (physical registers, or virtual registers before allocation)
  and in the value type `V`; all value-level behaviour (arithmetic, comparisons, conversions) is in a
  `Sem V` record, so the meta-theory never looks inside an opcode;
* `step` is factored as  *read operands → register-agnostic `exec` → write back*, so the register-renaming meta-theory (C04) never looks inside an opcode;
* externally visible effects are appended to `trace` (newest first); device reads are answered by an
  environment that is an arbitrary function of the effects performed so far and the query.
No imports: linked into `pvdrv`.
-/
namespace PV.IC10

inductive Opnd (R V : Type) where
  | reg (r : R)
  | num (v : V)
  deriving Repr

/-- instruction kinds; the strings name the concrete opcode inside a kind -/
inductive Kind where
  | alu (op : String)        -- dst := sem.alu op vals
  | load (q : String)        -- dst := env trace q vals          (device / slot / batch / foreign stack reads, rand, sdse …)
  | store (q : String)       -- effect  (q, vals)                (s ss sb sbn sbs, put/putd to other devices)
  | br (c : String)          -- if sem.cond c (vals without last) then pc := target(last)
  | brr (c : String)         -- … then pc := pc + offset(last)      (relative forms, `jr` is `brr "always"`)
  | brq (q : String) (neg : Bool)   -- branch on a device-state query (bdse / bdns)
  | jmp                      -- pc := target
  | jal                      -- ra := pc + 1 ; pc := target
  | push | pop | peek
  | poke                     -- mem[a] := v        (also `put db a v`)
  | getdb                    -- dst := mem[a]      (`get r db a`)
  | yield | sleep | hcf
  | nop                      -- label line, alias, define
  | bad (why : String)       -- not executable: the chip faults when it reaches this line
  deriving Repr, DecidableEq

structure Instr (R V : Type) where
  kind : Kind
  dst : Option R
  args : List (Opnd R V)
  deriving Repr

/-- externally visible effect: a tag and the values involved -/
structure Eff (V : Type) where
  tag : String
  vals : List V
  deriving Repr

abbrev Env (V : Type) := List (Eff V) → String → List V → V

/-- value-level semantics of the chip (parameter of the machine) -/
structure Sem (V : Type) where
  alu : String → List V → V
  cond : String → List V → Bool
  /-- truncation of a value to a line number / stack address; `none` for negative or non-finite -/
  toAddr : V → Option Nat
  ofNat : Nat → V
  truthy : V → Bool

class Special (R : Type) where
  sp : R
  ra : R

structure St (R V : Type) where
  regs : R → V
  mem : Nat → V
  pc : Nat
  trace : List (Eff V)
  halted : Bool

def stackSize : Nat := 512

section
variable {R V : Type} [DecidableEq R] [Special R]

def upd (f : R → V) (r : R) (v : V) : R → V := fun x => if x = r then v else f x
def updMem (m : Nat → V) (a : Nat) (v : V) : Nat → V := fun x => if x = a then v else m x

def Opnd.eval (f : R → V) : Opnd R V → V
  | .reg r => f r
  | .num v => v

def writeDst (f : R → V) : Option R → V → R → V
  | none, _ => f
  | some d, v => upd f d v

/-- how an instruction leaves the program counter -/
inductive Next where
  | seq                       -- pc + 1
  | jump (n : Nat)
  | halt                      -- hcf
  | fault (why : String)      -- the chip stops with an error
  deriving Repr, DecidableEq

/-- everything an instruction does, computed WITHOUT looking at register names: the value for its destination, new `sp` /
    `ra`, one stack write, new effects (newest first), and where to go -/
structure Out (V : Type) where
  dst : Option V := none
  sp : Option V := none
  ra : Option V := none
  mem : Option (Nat × V) := none
  effs : List (Eff V) := []
  next : Next := .seq

/-- a value used as a jump target -/
def target (sem : Sem V) (v : V) : Next :=
  match sem.toAddr v with
  | some n => .jump n
  | none => .fault "jump"

/-- **the register-agnostic action of every instruction kind**: a function of the operand values, the value of `sp`, the
    current line, the stack memory and the effects so far -/
def exec (sem : Sem V) (env : Env V) (k : Kind) (vals : List V) (spv : V) (pc : Nat) (mem : Nat → V)
    (trace : List (Eff V)) : Out V :=
  match k with
  | .alu op => { dst := some (sem.alu op vals) }
  | .load q => { dst := some (env trace q vals) }
  | .store q => { effs := [⟨q, vals⟩] }
  | .br c => if sem.cond c vals.dropLast then { next := target sem (vals.getLastD (sem.ofNat 0)) } else {}
  | .brr c =>
      if sem.cond c vals.dropLast then { next := target sem (sem.alu "add" [sem.ofNat pc, vals.getLastD (sem.ofNat 0)]) } else {}
  | .brq q neg =>
      if (sem.truthy (env trace q vals.dropLast)) != neg then { next := target sem (vals.getLastD (sem.ofNat 0)) } else {}
  | .jmp => { next := target sem (vals.headD (sem.ofNat 0)) }
  | .jal => { ra := some (sem.ofNat (pc + 1)), next := target sem (vals.headD (sem.ofNat 0)) }
  | .push =>
      match sem.toAddr spv with
      | some a =>
        if a < stackSize then { mem := some (a, vals.headD (sem.ofNat 0)), sp := some (sem.ofNat (a + 1)) }
        else { next := .fault "stack-overflow" }
      | none => { next := .fault "stack-pointer" }
  | .pop =>
      match sem.toAddr spv with
      | some (a + 1) =>
        if a < stackSize then { dst := some (mem a), sp := some (sem.ofNat a) } else { next := .fault "stack-overflow" }
      | _ => { next := .fault "stack-underflow" }
  | .peek =>
      match sem.toAddr spv with
      | some (a + 1) => if a < stackSize then { dst := some (mem a) } else { next := .fault "stack-overflow" }
      | _ => { next := .fault "stack-underflow" }
  | .poke =>
      match vals with
      | [a, v] =>
        match sem.toAddr a with
        | some n => if n < stackSize then { mem := some (n, v) } else { next := .fault "stack-address" }
        | none => { next := .fault "stack-address" }
      | _ => { next := .fault "operands" }
  | .getdb =>
      match vals with
      | [a] =>
        match sem.toAddr a with
        | some n => if n < stackSize then { dst := some (mem n) } else { next := .fault "stack-address" }
        | none => { next := .fault "stack-address" }
      | _ => { next := .fault "operands" }
  | .yield => { effs := [⟨"yield", []⟩] }
  | .sleep => { effs := [⟨"sleep", vals⟩] }
  | .hcf => { effs := [⟨"hcf", []⟩], next := .halt }
  | .nop => {}
  | .bad why => { next := .fault why }

def updOpt (f : R → V) (r : R) : Option V → R → V
  | none => f
  | some v => upd f r v

/-- write the outcome back: `sp`, `ra`, then the instruction's own destination -/
def writeBack (f : R → V) (dst : Option R) (o : Out V) : R → V :=
  let f1 := updOpt f Special.sp o.sp
  let f2 := updOpt f1 Special.ra o.ra
  match dst, o.dst with
  | some d, some v => upd f2 d v
  | _, _ => f2

def applyOut (s : St R V) (dst : Option R) (o : Out V) : St R V :=
  let regs := writeBack s.regs dst o
  let mem := match o.mem with
    | some (a, v) => updMem s.mem a v
    | none => s.mem
  let trace := o.effs ++ s.trace
  match o.next with
  | .seq => { regs := regs, mem := mem, pc := s.pc + 1, trace := trace, halted := false }
  | .jump n => { regs := regs, mem := mem, pc := n, trace := trace, halted := false }
  | .halt => { regs := regs, mem := mem, pc := s.pc, trace := trace, halted := true }
  | .fault why => { regs := regs, mem := mem, pc := s.pc, trace := ⟨"fault:" ++ why, []⟩ :: trace, halted := true }

/-- one step: *read the operands → register-agnostic `exec` → write back* -/
def step (sem : Sem V) (env : Env V) (P : List (Instr R V)) (s : St R V) : St R V :=
  if s.halted then s else
  match P[s.pc]? with
  | none => { s with halted := true }
  | some i =>
    let vals := i.args.map (Opnd.eval s.regs)
    applyOut s i.dst (exec sem env i.kind vals (s.regs Special.sp) s.pc s.mem s.trace)

def run (sem : Sem V) (env : Env V) (P : List (Instr R V)) : Nat → St R V → St R V
  | 0, s => s
  | n + 1, s => run sem env P n (step sem env P s)

end
end PV.IC10
