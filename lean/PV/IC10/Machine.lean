/-
The IC10 target machine — trusted specification (DESIGN §2.1).

* generic in the register-name type `R` (physical registers, or virtual registers before allocation)
  and in the value type `V`; all value-level behaviour (arithmetic, comparisons, conversions) is in a
  `Sem V` record, so the meta-theory never looks inside an opcode;
* `step` is factored as  *read operands → kind-specific, register-agnostic action → write back*;
* externally visible effects are appended to `trace` (newest first); device reads are answered by an
  environment that is an arbitrary function of the effects performed so far and the query.
No imports: linked into `pvdrv`.
-/
namespace PV.IC10

inductive Opnd (R V : Type) where
  | reg (r : R)
  | num (v : V)
  deriving Repr

/-- instruction kinds; the strings name the concrete opcode inside a kind -/
inductive Kind where
  | alu (op : String)        -- dst := sem.alu op vals
  | load (q : String)        -- dst := env trace q vals          (device / slot / batch / foreign stack reads, rand, sdse …)
  | store (q : String)       -- effect  (q, vals)                (s ss sb sbn sbs, put/putd to other devices)
  | br (c : String)          -- if sem.cond c (vals without last) then pc := target(last)
  | brr (c : String)         -- … then pc := pc + offset(last)      (relative forms, `jr` is `brr "always"`)
  | brq (q : String) (neg : Bool)   -- branch on a device-state query (bdse / bdns)
  | jmp                      -- pc := target
  | jal                      -- ra := pc + 1 ; pc := target
  | push | pop | peek
  | poke                     -- mem[a] := v        (also `put db a v`)
  | getdb                    -- dst := mem[a]      (`get r db a`)
  | yield | sleep | hcf
  | nop                      -- label line, alias, define
  | bad (why : String)       -- not executable: the chip faults when it reaches this line
  deriving Repr, DecidableEq

structure Instr (R V : Type) where
  kind : Kind
  dst : Option R
  args : List (Opnd R V)
  deriving Repr

/-- externally visible effect: a tag and the values involved -/
structure Eff (V : Type) where
  tag : String
  vals : List V
  deriving Repr

abbrev Env (V : Type) := List (Eff V) → String → List V → V

/-- value-level semantics of the chip (parameter of the machine) -/
structure Sem (V : Type) where
  alu : String → List V → V
  cond : String → List V → Bool
  /-- truncation of a value to a line number / stack address; `none` for negative or non-finite -/
  toAddr : V → Option Nat
  ofNat : Nat → V
  truthy : V → Bool

class Special (R : Type) where
  sp : R
  ra : R

structure St (R V : Type) where
  regs : R → V
  mem : Nat → V
  pc : Nat
  trace : List (Eff V)
  halted : Bool

def stackSize : Nat := 512

section
variable {R V : Type} [DecidableEq R] [Special R]

def upd (f : R → V) (r : R) (v : V) : R → V := fun x => if x = r then v else f x
def updMem (m : Nat → V) (a : Nat) (v : V) : Nat → V := fun x => if x = a then v else m x

def Opnd.eval (f : R → V) : Opnd R V → V
  | .reg r => f r
  | .num v => v

def writeDst (f : R → V) : Option R → V → R → V
  | none, _ => f
  | some d, v => upd f d v

def fault (s : St R V) (why : String) : St R V :=
  { s with trace := ⟨"fault:" ++ why, []⟩ :: s.trace, halted := true }

/-- jump to the line number denoted by `v` (faults if it is not a line number) -/
def jumpTo (sem : Sem V) (s : St R V) (v : V) : St R V :=
  match sem.toAddr v with
  | some n => { s with pc := n }
  | none => fault s "jump"

/-- relative jump by the (possibly negative, given as two values) offset `v`: `pc + v` computed in `V` -/
def jumpRel (sem : Sem V) (s : St R V) (v : V) : St R V :=
  jumpTo sem s (sem.alu "add" [sem.ofNat s.pc, v])

def step (sem : Sem V) (env : Env V) (P : List (Instr R V)) (s : St R V) : St R V :=
  if s.halted then s else
  match P[s.pc]? with
  | none => { s with halted := true }
  | some i =>
    let vals := i.args.map (Opnd.eval s.regs)
    match i.kind with
    | .alu op => { s with regs := writeDst s.regs i.dst (sem.alu op vals), pc := s.pc + 1 }
    | .load q => { s with regs := writeDst s.regs i.dst (env s.trace q vals), pc := s.pc + 1 }
    | .store q => { s with trace := ⟨q, vals⟩ :: s.trace, pc := s.pc + 1 }
    | .br c =>
        if sem.cond c vals.dropLast then jumpTo sem s (vals.getLastD (sem.ofNat 0))
        else { s with pc := s.pc + 1 }
    | .brr c =>
        if sem.cond c vals.dropLast then jumpRel sem s (vals.getLastD (sem.ofNat 0))
        else { s with pc := s.pc + 1 }
    | .brq q neg =>
        if (sem.truthy (env s.trace q vals.dropLast)) != neg then jumpTo sem s (vals.getLastD (sem.ofNat 0))
        else { s with pc := s.pc + 1 }
    | .jmp => jumpTo sem s (vals.headD (sem.ofNat 0))
    | .jal => jumpTo sem { s with regs := upd s.regs Special.ra (sem.ofNat (s.pc + 1)) } (vals.headD (sem.ofNat 0))
    | .push =>
        match sem.toAddr (s.regs Special.sp) with
        | some a =>
          if a < stackSize then
            { s with mem := updMem s.mem a (vals.headD (sem.ofNat 0)),
                     regs := upd s.regs Special.sp (sem.ofNat (a + 1)), pc := s.pc + 1 }
          else fault s "stack-overflow"
        | none => fault s "stack-pointer"
    | .pop =>
        match sem.toAddr (s.regs Special.sp) with
        | some (a + 1) =>
          if a < stackSize then
            { s with regs := writeDst (upd s.regs Special.sp (sem.ofNat a)) i.dst (s.mem a), pc := s.pc + 1 }
          else fault s "stack-overflow"
        | _ => fault s "stack-underflow"
    | .peek =>
        match sem.toAddr (s.regs Special.sp) with
        | some (a + 1) =>
          if a < stackSize then { s with regs := writeDst s.regs i.dst (s.mem a), pc := s.pc + 1 }
          else fault s "stack-overflow"
        | _ => fault s "stack-underflow"
    | .poke =>
        match vals with
        | [a, v] =>
          match sem.toAddr a with
          | some n => if n < stackSize then { s with mem := updMem s.mem n v, pc := s.pc + 1 } else fault s "stack-address"
          | none => fault s "stack-address"
        | _ => fault s "operands"
    | .getdb =>
        match vals with
        | [a] =>
          match sem.toAddr a with
          | some n => if n < stackSize then { s with regs := writeDst s.regs i.dst (s.mem n), pc := s.pc + 1 } else fault s "stack-address"
          | none => fault s "stack-address"
        | _ => fault s "operands"
    | .yield => { s with trace := ⟨"yield", []⟩ :: s.trace, pc := s.pc + 1 }
    | .sleep => { s with trace := ⟨"sleep", vals⟩ :: s.trace, pc := s.pc + 1 }
    | .hcf => { s with trace := ⟨"hcf", []⟩ :: s.trace, halted := true }
    | .nop => { s with pc := s.pc + 1 }
    | .bad why => fault s why

def run (sem : Sem V) (env : Env V) (P : List (Instr R V)) : Nat → St R V → St R V
  | 0, s => s
  | n + 1, s => run sem env P n (step sem env P s)

end
end PV.IC10
