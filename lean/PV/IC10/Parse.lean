import PV.IC10.FloatSem
import PV.IC10.Spec
import PV.Base.Crc32
import PV.Gen.Enums
import PV.Model.Tokens
/-
IC10 text → program of the physical machine (`R = Nat`: r0–r15 = 0–15, sp = 16, ra = 17; values `Float`).
Trusted specification of the loader: comments, indentation, labels, `alias` / `define`, decimal / `$hex` /
`%bin` literals, `HASH("…")`, `STR("…")`, enum constants (regenerated tables), devices
(`d0…d5` ↦ −1…−6, `db` ↦ −7; a register or number in device position is a reference id).
Also the grammar checker used for C09.
-/
namespace PV.IC10.Parse
open PV.IC10 PV.IC10.Spec

abbrev PReg := Nat
instance : Special PReg := ⟨16, 17⟩

/-! ### lexing -/

def sdrop (s : String) (n : Nat) : String := String.mk (s.toList.drop n)
def sdropRight (s : String) (n : Nat) : String := String.mk (s.toList.take (s.length - n))

/-- drop a trailing comment: the first `#` outside double quotes starts it -/
def stripComment : List Char → Bool → List Char
  | [], _ => []
  | c :: rest, inq =>
    if c = '"' then c :: stripComment rest (!inq)
    else if c = '#' && !inq then []
    else c :: stripComment rest inq

def isBlank (c : Char) : Bool := c = ' ' || c = '\t' || c = '\r'

/-- whitespace-separated tokens; whitespace inside double quotes does not separate -/
def tokenizeAux : List Char → List Char → Bool → List String
  | [], cur, _ => if cur.isEmpty then [] else [String.mk cur.reverse]
  | c :: rest, cur, inq =>
    if c = '"' then tokenizeAux rest (c :: cur) (!inq)
    else if isBlank c && !inq then
      (if cur.isEmpty then tokenizeAux rest [] false else String.mk cur.reverse :: tokenizeAux rest [] false)
    else tokenizeAux rest (c :: cur) inq

def tokenize (line : String) : List String := tokenizeAux (stripComment line.toList false) [] false

/-! ### numeric literals -/

def digitVal (c : Char) : Option Nat :=
  if '0' ≤ c ∧ c ≤ '9' then some (c.toNat - '0'.toNat)
  else if 'a' ≤ c ∧ c ≤ 'f' then some (c.toNat - 'a'.toNat + 10)
  else if 'A' ≤ c ∧ c ≤ 'F' then some (c.toNat - 'A'.toNat + 10)
  else none

def natOfDigits (base : Nat) (cs : List Char) : Option Nat :=
  if cs.isEmpty then none else
  cs.foldlM (fun acc c => match digitVal c with
    | some d => if d < base then some (acc * base + d) else none
    | none => none) 0

/-- integer literals of IC10: optional sign + decimal digits, `$` + hex digits, `%` + binary digits -/
def parseIntLit (s : String) : Option Int :=
  match s.toList with
  | '$' :: rest => (natOfDigits 16 rest).map Int.ofNat
  | '%' :: rest => (natOfDigits 2 rest).map Int.ofNat
  | '-' :: rest => (natOfDigits 10 rest).map (fun n => - Int.ofNat n)
  | '+' :: rest => (natOfDigits 10 rest).map Int.ofNat
  | cs => (natOfDigits 10 cs).map Int.ofNat

/-- decimal literal with optional fraction and exponent → (negative, mantissa, decimal exponent) -/
def parseDecimal (s : String) : Option (Bool × Nat × Int) :=
  let cs := s.toList
  let (neg, cs) := match cs with
    | '-' :: r => (true, r)
    | '+' :: r => (false, r)
    | _ => (false, cs)
  let ip := cs.takeWhile Char.isDigit
  let r1 := cs.dropWhile Char.isDigit
  let (fp, r2) := match r1 with
    | '.' :: r => (r.takeWhile Char.isDigit, r.dropWhile Char.isDigit)
    | _ => ([], r1)
  if ip.isEmpty && fp.isEmpty then none else
  let expo : Option Int := match r2 with
    | [] => some 0
    | e :: r =>
      if e = 'e' || e = 'E' then
        match r with
        | '-' :: d => (natOfDigits 10 d).map (fun n => - Int.ofNat n)
        | '+' :: d => (natOfDigits 10 d).map Int.ofNat
        | d => (natOfDigits 10 d).map Int.ofNat
      else none
  match expo, natOfDigits 10 (ip ++ fp ++ (if (ip ++ fp).isEmpty then ['0'] else [])) with
  | some e, some m => some (neg, m, e - fp.length)
  | _, _ => none

def floatOfDecimal (neg : Bool) (m : Nat) (e : Int) : Float :=
  let x := if e < 0 then Float.ofScientific m true e.natAbs else Float.ofScientific m false e.toNat
  if neg then -x else x

def parseNumber (s : String) : Option Float :=
  match s.toList with
  | '$' :: _ => (parseIntLit s).map Float.ofInt
  | '%' :: _ => (parseIntLit s).map Float.ofInt
  | _ => (parseDecimal s).map (fun (n, m, e) => floatOfDecimal n m e)

/-! ### symbolic tokens -/

/-- `HASH("…")` / `STR("…")` → the quoted text -/
def quotedArg (pre : String) (s : String) : Option String :=
  if s.startsWith (pre ++ "(\"") && s.endsWith "\")" && s.length ≥ pre.length + 4 then
    some (sdropRight (sdrop s (pre.length + 2)) 2)
  else none

/-- `STR("…")`: big-endian packing of the bytes (one byte per character code, as the game packs ASCII) -/
def strPack (s : String) : Int := s.toList.foldl (fun acc c => acc * 256 + c.toNat) 0

def enumLookup (ty member : String) : Option Int :=
  (PV.Gen.enums.find? (·.1 == ty)).bind (fun (_, ms) => (ms.find? (·.1 == member)).map (·.2))

def bareEnumOrder : List String := ["LogicType", "LogicSlotType", "LogicBatchMethod", "LogicReagentMode"]

def kindEnum : OpKind → Option String
  | .lt => some "LogicType"
  | .lst => some "LogicSlotType"
  | .bm => some "LogicBatchMethod"
  | .rm => some "LogicReagentMode"
  | _ => none

/-- value of an enum-constant token, given the operand kind of its position -/
def enumToken (k : OpKind) (s : String) : Option Int :=
  match s.splitOn "." with
  | [ty, m] => enumLookup ty m
  | [m] =>
    match kindEnum k with
    | some ty => (enumLookup ty m).orElse (fun _ => bareEnumOrder.findSome? (enumLookup · m))
    | none => bareEnumOrder.findSome? (enumLookup · m)
  | _ => none

/-- registers: `r0`–`r15` ↦ 0–15, `sp` ↦ 16, `ra` ↦ 17; and, for code BEFORE register allocation (C04), the virtual
    registers `v0`, `v1`, … ↦ 100, 101, … (never produced by the transpiler's final output) -/
def regOfToken (s : String) : Option PReg :=
  if s == "sp" then some 16 else if s == "ra" then some 17 else
  match s.toList with
  | 'r' :: ds => match natOfDigits 10 ds with
    | some n => if n < 16 && String.mk ds == toString n then some n else none
    | none => none
  | 'v' :: ds => match natOfDigits 10 ds with
    | some n => if String.mk ds == toString n then some (100 + n) else none
    | none => none
  | _ => none

def devOfToken (s : String) : Option Int :=
  if s == "db" then some (-7) else
  match s.toList with
  | ['d', c] => if '0' ≤ c ∧ c ≤ '5' then some (-(Int.ofNat (c.toNat - '0'.toNat) + 1)) else none
  | _ => none

structure Ctx where
  labels : List (String × Nat)
  aliases : List (String × String)
  defines : List (String × Float)

def isIdent (s : String) : Bool :=
  match s.toList with
  | [] => false
  | c :: rest => (c.isAlpha || c = '_') && rest.all (fun x => x.isAlphanum || x = '_' || x = '.')

/-- resolve one operand token -/
def resolve (ctx : Ctx) (k : OpKind) (tok : String) : Except String (Opnd PReg Float) :=
  let tok := match ctx.aliases.find? (·.1 == tok) with
    | some (_, t) => t
    | none => tok
  match regOfToken tok with
  | some r => .ok (.reg r)
  | none =>
  match devOfToken tok with
  | some d => if k == .dev || k == .regOrDev then .ok (.num (Float.ofInt d)) else .error s!"device {tok} in non-device position"
  | none =>
  match ctx.defines.find? (·.1 == tok) with
  | some (_, v) => .ok (.num v)
  | none =>
  match ctx.labels.find? (·.1 == tok) with
  | some (_, n) => .ok (.num (Float.ofNat n))
  | none =>
  -- integers, `HASH("…")`, `STR("…")`, enum names: the token semantics of `PV.Tokens.denote` (the one C08 is proved about)
  match PV.Tokens.denote PV.Gen.enums (kindEnum k) tok.toList with
  | some i => .ok (.num (Float.ofInt i))
  | none =>
  match parseNumber tok with
  | some v => .ok (.num v)
  | none =>
  match enumToken k tok with
  | some v => .ok (.num (Float.ofInt v))
  | none => .error s!"unresolvable operand '{tok}'"

/-! ### lines → instructions -/

def labelOf (toks : List String) : Option String :=
  match toks with
  | [t] => if t.endsWith ":" && t.length > 1 then some (sdropRight t 1) else none
  | _ => none

def kindOf (op : String) : Kind :=
  if FloatSem.aluOps.contains op then .alu op
  else match op with
  | "l" | "ls" | "lb" | "lbn" | "lbs" | "lbns" | "lr" | "rmap" | "ld" | "rand" | "sdse" | "sdns" | "getd" => .load op
  | "s" | "ss" | "sb" | "sbn" | "sbs" | "sd" | "putd" | "clr" | "clrd" => .store op
  | "j" => .jmp
  | "jal" => .jal
  | "jr" => .brr "always"
  | "push" => .push
  | "pop" => .pop
  | "peek" => .peek
  | "poke" => .poke
  | "yield" => .yield
  | "sleep" => .sleep
  | "hcf" => .hcf
  | "alias" | "define" => .nop
  | "bdse" => .brq "sdse" false
  | "bdns" => .brq "sdse" true
  | _ =>
    if op.startsWith "br" && FloatSem.condNames.contains (sdrop op 2) then .brr (sdrop op 2)
    else if op.startsWith "b" && FloatSem.condNames.contains (sdrop op 1) then .br (sdrop op 1)
    else .bad ("unsupported opcode " ++ op)

def zipKinds : List OpKind → List String → List (OpKind × String)
  | k :: ks, t :: ts => (k, t) :: zipKinds ks ts
  | _, _ => []

/-- one non-label line -/
def instrOfLine (ctx : Ctx) (toks : List String) : Except String (Instr PReg Float) :=
  match toks with
  | [] => .ok ⟨.nop, none, []⟩
  | op :: rest =>
    match Spec.lookup op with
    | none => .error s!"unknown opcode '{op}'"
    | some sg =>
      if op == "alias" || op == "define" then .ok ⟨.nop, none, []⟩ else
      let (dstTok, ins) := if sg.out then (rest.head?, rest.drop 1) else (none, rest)
      if sg.out && dstTok.isNone then .error s!"missing output register in '{op}'" else
      if ins.length ≠ sg.ins.length then .error s!"'{op}' takes {sg.ins.length} operands, got {ins.length}" else
      do
        let dst ← match dstTok with
          | none => pure none
          | some t =>
            let t := match ctx.aliases.find? (·.1 == t) with | some (_, x) => x | none => t
            match regOfToken t with
            | some r => pure (some r)
            | none => throw s!"output of '{op}' is not a register: '{t}'"
        let args ← (zipKinds sg.ins ins).mapM (fun (k, t) => resolve ctx k t)
        -- own-stack forms of get / put
        let isDb (o : Opnd PReg Float) : Bool := match o with | .num v => v == -7.0 | _ => false
        match op, args with
        | "get", [d, a] => if isDb d then pure ⟨.getdb, dst, [a]⟩ else pure ⟨.load "get", dst, [d, a]⟩
        | "put", [d, a, v] => if isDb d then pure ⟨.poke, none, [a, v]⟩ else pure ⟨.store "put", none, [d, a, v]⟩
        | _, _ => pure ⟨kindOf op, dst, args⟩

def splitLines (text : String) : List String := text.splitOn "\n"

def buildCtx (lines : List (List String)) : Ctx :=
  let idx := lines.zipIdx
  { labels := idx.filterMap (fun (toks, i) => (labelOf toks).map (·, i)),
    aliases := lines.filterMap (fun toks => match toks with | ["alias", n, t] => some (n, t) | _ => none),
    defines := lines.filterMap (fun toks => match toks with
      | ["define", n, v] =>
        match PV.Tokens.denote PV.Gen.enums none v.toList with
        | some i => some (n, Float.ofInt i)
        | none => (parseNumber v).map (n, ·)
      | _ => none) }

structure Parsed where
  prog : List (Instr PReg Float)
  labels : List (String × Nat)
  /-- per line: is it a label line -/
  isLabel : List Bool

def parseProgram (text : String) : Except String Parsed := do
  let lines := (splitLines text).map tokenize
  let ctx := buildCtx lines
  let prog ← lines.zipIdx.mapM (fun (toks, i) =>
    match labelOf toks with
    | some _ => pure (⟨.nop, none, []⟩ : Instr PReg Float)
    | none => match instrOfLine ctx toks with
      | .ok ins => pure ins
      | .error e => throw s!"line {i}: {e}")
  pure { prog := prog, labels := ctx.labels, isLabel := lines.map (fun t => (labelOf t).isSome) }

end PV.IC10.Parse
