/-
The IC10 instruction grammar — trusted specification (hand-written from the game's instruction
reference; cross-checked by name against the repository's own `webapp/src/ic10.json` in
`PV.Props.C09`).  For each opcode: whether it has an output register and the kinds of its operands.
-/
namespace PV.IC10.Spec

inductive OpKind where
  | val      -- register or number (any numeric token)
  | dev      -- device: d0-d5, db, alias, or a register / number holding a reference id
  | lt       -- logic type name or number
  | lst      -- logic slot type
  | bm       -- batch method
  | rm       -- reagent mode
  | target   -- jump target: label, line number or register
  | name     -- a fresh identifier (alias / define)
  | regOrDev -- alias target
  deriving Repr, DecidableEq

structure Sig where
  out : Bool
  ins : List OpKind
  deriving Repr

open OpKind

def cmp2 : List String := ["eq", "ne", "lt", "gt", "le", "ge"]
def cmp1 : List String := ["eqz", "nez", "ltz", "gtz", "lez", "gez"]

def alu1 : List String :=
  ["abs", "ceil", "floor", "round", "trunc", "sqrt", "exp", "log", "sin", "cos", "tan", "asin", "acos", "atan",
   "not", "move", "snan", "snanz"] ++ cmp1.map ("s" ++ ·)
def alu2 : List String :=
  ["add", "sub", "mul", "div", "mod", "pow", "max", "min", "atan2", "and", "or", "xor", "nor", "sll", "sla", "sra", "srl",
   "sapz", "snaz"] ++ cmp2.map ("s" ++ ·)
def alu3 : List String := ["select", "lerp", "sap", "sna", "ext"]

/-- branch families: (suffix, number of compared operands) -/
def branchSuffixes : List (String × Nat) :=
  cmp2.map (·, 2) ++ cmp1.map (·, 1) ++ [("ap", 3), ("na", 3), ("apz", 2), ("naz", 2), ("nan", 1)]

def table : List (String × Sig) :=
  [("yield", ⟨false, []⟩), ("hcf", ⟨false, []⟩), ("sleep", ⟨false, [val]⟩),
   ("rand", ⟨true, []⟩),
   ("j", ⟨false, [target]⟩), ("jr", ⟨false, [val]⟩), ("jal", ⟨false, [target]⟩),
   ("push", ⟨false, [val]⟩), ("pop", ⟨true, []⟩), ("peek", ⟨true, []⟩), ("poke", ⟨false, [val, val]⟩),
   ("get", ⟨true, [dev, val]⟩), ("put", ⟨false, [dev, val, val]⟩),
   ("getd", ⟨true, [val, val]⟩), ("putd", ⟨false, [val, val, val]⟩),
   ("clr", ⟨false, [dev]⟩), ("clrd", ⟨false, [val]⟩),
   ("l", ⟨true, [dev, lt]⟩), ("s", ⟨false, [dev, lt, val]⟩),
   ("ld", ⟨true, [val, lt]⟩), ("sd", ⟨false, [val, lt, val]⟩),
   ("ls", ⟨true, [dev, val, lst]⟩), ("ss", ⟨false, [dev, val, lst, val]⟩),
   ("lr", ⟨true, [dev, rm, val]⟩), ("rmap", ⟨true, [dev, val]⟩),
   ("lb", ⟨true, [val, lt, bm]⟩), ("lbn", ⟨true, [val, val, lt, bm]⟩),
   ("lbs", ⟨true, [val, val, lst, bm]⟩), ("lbns", ⟨true, [val, val, val, lst, bm]⟩),
   ("sb", ⟨false, [val, lt, val]⟩), ("sbn", ⟨false, [val, val, lt, val]⟩), ("sbs", ⟨false, [val, val, lst, val]⟩),
   ("sdse", ⟨true, [dev]⟩), ("sdns", ⟨true, [dev]⟩),
   ("ins", ⟨true, [val, val, val]⟩),
   ("alias", ⟨false, [name, regOrDev]⟩), ("define", ⟨false, [name, val]⟩),
   ("bdse", ⟨false, [dev, target]⟩), ("bdns", ⟨false, [dev, target]⟩),
   ("brdse", ⟨false, [dev, val]⟩), ("brdns", ⟨false, [dev, val]⟩),
   ("bdseal", ⟨false, [dev, target]⟩), ("bdnsal", ⟨false, [dev, target]⟩),
   ("bdnvl", ⟨false, [dev, lt, target]⟩), ("bdnvs", ⟨false, [dev, lt, target]⟩)]
  ++ alu1.map (·, ⟨true, [val]⟩)
  ++ alu2.map (·, ⟨true, [val, val]⟩)
  ++ alu3.map (·, ⟨true, [val, val, val]⟩)
  ++ branchSuffixes.map (fun (s, n) => ("b" ++ s, ⟨false, List.replicate n val ++ [target]⟩))
  ++ branchSuffixes.map (fun (s, n) => ("br" ++ s, ⟨false, List.replicate n val ++ [val]⟩))
  ++ branchSuffixes.map (fun (s, n) => ("b" ++ s ++ "al", ⟨false, List.replicate n val ++ [target]⟩))

def lookup (op : String) : Option Sig := (table.find? (·.1 == op)).map (·.2)

end PV.IC10.Spec
