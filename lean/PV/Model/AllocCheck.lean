import PV.IC10.Machine
import PV.Model.Cfg
/-
Validator for a register allocation (C04): given the code before allocation (registers of type `R`), the renaming `ρ` to
the allocated registers and a liveness certificate, `okProg` checks locally, instruction by instruction, that
  * the certificate is a consistent liveness over-approximation (uses ⊆ live-in; live-out ⊆ defs ∪ live-in),
  * no register defined by the instruction is renamed onto a register that is live across it,
  * `sp` / `ra` are kept fixed and always live.
Successor consistency (`succOk`: live-in of the next line ⊆ live-out of this line) is checked for every static edge by
`edgesOk`; soundness (`PV/Proofs/AllocSound.lean`) says the renamed program then behaves exactly like the original one.
No imports beyond the machine: linked into `pvdrv`.
-/
namespace PV.AllocCheck
open PV.IC10

section
variable {R V : Type} [DecidableEq R] [Special R]

def opndRegs : Opnd R V → List R
  | .reg r => [r]
  | .num _ => []

/-- kinds whose outcome carries a value for the destination register -/
def kindHasDst : Kind → Bool
  | .alu _ | .load _ | .pop | .peek | .getdb => true
  | _ => false

def kindUsesSp : Kind → Bool
  | .push | .pop | .peek => true
  | _ => false

def dstList : Option R → List R
  | some d => [d]
  | none => []

def uses (i : Instr R V) : List R :=
  i.args.flatMap opndRegs ++ (if kindUsesSp i.kind then [Special.sp] else [])

/-- registers the instruction may write -/
def defs (i : Instr R V) : List R :=
  (if kindHasDst i.kind then dstList i.dst else []) ++
  (match i.kind with
   | .push | .pop => [Special.sp]
   | .jal => [Special.ra]
   | _ => [])

/-- liveness certificate -/
structure Cert (R : Type) where
  liveIn : Nat → List R
  liveOut : Nat → List R

variable {R' : Type} [DecidableEq R'] [Special R']

def mapOpnd (ρ : R → R') : Opnd R V → Opnd R' V
  | .reg r => .reg (ρ r)
  | .num v => .num v

def mapInstr (ρ : R → R') (i : Instr R V) : Instr R' V :=
  { kind := i.kind, dst := i.dst.map ρ, args := i.args.map (mapOpnd ρ) }

/-- the local check at one line -/
def okAt (ρ : R → R') (C : Cert R) (pc : Nat) (i : Instr R V) : Bool :=
  (uses i).all (fun u => (C.liveIn pc).contains u) &&
  (C.liveOut pc).all (fun v => (defs i).contains v || (C.liveIn pc).contains v) &&
  (defs i).all (fun d => (C.liveOut pc).all (fun v => v == d || ρ v != ρ d)) &&
  (defs i).all (fun d₁ => (defs i).all (fun d₂ => d₁ == d₂ || ρ d₁ != ρ d₂)) &&
  (ρ Special.sp == Special.sp) && (ρ Special.ra == Special.ra) &&
  (C.liveIn pc).contains Special.sp && (C.liveIn pc).contains Special.ra &&
  (C.liveOut pc).contains Special.sp && (C.liveOut pc).contains Special.ra

def okProg (ρ : R → R') (C : Cert R) (P : List (Instr R V)) : Bool :=
  P.zipIdx.all (fun (i, pc) => okAt ρ C pc i)

/-- the live-in of `next` is covered by the live-out of `pc` -/
def succOk (C : Cert R) (pc next : Nat) : Bool :=
  (C.liveIn next).all (fun v => (C.liveOut pc).contains v)

end
end PV.AllocCheck

namespace PV.AllocCheck
open PV.IC10

section
variable {R V : Type} [DecidableEq R] [Special R]

/-- every control-flow edge that can be read off the program (`PV.Cfg.succs`), and every declared successor of an
    indirect jump (`j ra`: the return points; `jr r`: the jump-table window), is covered by the certificate -/
def edgesOk (sem : Sem V) (C : Cert R) (P : List (Instr R V)) (declared : Nat → List Nat) : Bool :=
  P.zipIdx.all (fun (i, pc) =>
    match PV.Cfg.succs sem pc i with
    | some l => l.all (fun n => succOk C pc n)
    | none => (declared pc).all (fun n => succOk C pc n))

end
end PV.AllocCheck
