import PV.IC10.Machine
/-
Static control flow of a program of the IC10 machine: the successors of a line that can be read off the instruction
(`succs`), `none` when the target is held in a register (`j ra`, `jr r`, a branch through a register).
`step_pc_mem_succs`: a step from a line with static successors lands on one of them (or the chip stops).
Used by the region check of C07 and by the edge check of the allocation validator (C04).
-/
namespace PV.Cfg
open PV.IC10

section
variable {R V : Type} [DecidableEq R] [Special R]

def numTarget (sem : Sem V) : Opnd R V → Option (Option Nat)
  | .num v => some (sem.toAddr v)      -- `some none`: a literal that is not a line number → the chip faults
  | .reg _ => none

def relTarget (sem : Sem V) (pc : Nat) : Opnd R V → Option (Option Nat)
  | .num v => some (sem.toAddr (sem.alu "add" [sem.ofNat pc, v]))
  | .reg _ => none

def optList : Option Nat → List Nat
  | some n => [n]
  | none => []

/-- static successors; `none` = indirect -/
def succs (sem : Sem V) (pc : Nat) (i : Instr R V) : Option (List Nat) :=
  match i.kind with
  | .jmp | .jal =>
    match i.args with
    | [] => some (optList (sem.toAddr (sem.ofNat 0)))
    | a :: _ => (numTarget sem a).map optList
  | .br _ | .brq _ _ =>
    match i.args.getLast? with
    | none => some ((pc + 1) :: optList (sem.toAddr (sem.ofNat 0)))
    | some a => (numTarget sem a).map (fun t => (pc + 1) :: optList t)
  | .brr _ =>
    match i.args.getLast? with
    | none => some ((pc + 1) :: optList (sem.toAddr (sem.alu "add" [sem.ofNat pc, sem.ofNat 0])))
    | some a => (relTarget sem pc a).map (fun t => (pc + 1) :: optList t)
  | _ => some [pc + 1]

end
end PV.Cfg
