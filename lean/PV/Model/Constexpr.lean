/-
Model of the constexpr machinery (C12): the forbidden-word scan of `check_constexpr_function`
(`re.search(r"\b(open|eval|exec)\b", source)`) and the evaluation script of `utils.eval_constexpr` as a function of the
constexpr sources and the call text.  No imports.
-/
namespace PV.Constexpr

/-- `\w` of Python's `re` for the characters that matter here (ASCII letters, digits, underscore; other alphanumerics too) -/
def isWord (c : Char) : Bool := c.isAlphanum || c = '_' || c.toNat ≥ 128 && (c.isAlpha || c.toNat ≥ 0xAA)

def forbidden : List (List Char) := ["open".toList, "eval".toList, "exec".toList]

/-- does one of the forbidden words start here, followed by a non-word character or the end? -/
def wordHere (cs : List Char) : Bool :=
  forbidden.any (fun w => w.isPrefixOf cs && (match cs.drop w.length with
    | [] => true
    | c :: _ => !isWord c))

/-- scan with the information whether the previous character was a word character -/
def scan : List Char → Bool → Bool
  | [], _ => false
  | c :: rest, prevWord => (!prevWord && wordHere (c :: rest)) || scan rest (isWord c)

/-- `re.search(r"\b(open|eval|exec)\b", source) is not None` -/
def hasForbidden (src : List Char) : Bool := scan src false

/-- the evaluation script: fixed prelude, the constexpr sources, the call text — and nothing else -/
def script (prelude : List Char) (functionsCode : List Char) (callText : List Char) : List Char :=
  prelude ++ functionsCode ++ "\n\n__result = __json.dumps(".toList ++ callText ++ ")\n\n".toList ++
    "\nprint(__json.dumps(".toList ++ callText ++ "))\n".toList

end PV.Constexpr
