import PV.IC10.Machine
/-
The core sub-language of C01 at three-address level, and the model code generator for it.

A core program is what the transpiler's front end leaves of a function-free source program after expression flattening:
register-to-register ALU operations, device reads and writes, `yield` / `sleep`, and structured control flow —
`if`/`else` on a comparison, `while` on a comparison, `while True`.  `comp` lays the code out exactly as
`CompilerPassGatherCode` does, including the label lines (which occupy a line and execute as no-ops):

    if c(a,b): S else: T      b‹neg c› a b ELSE ; S ; j END ; ELSE: ; T ; END:      (`if x:` is `beqz x ELSE`)
    if c(a,b): S              b‹neg c› a b ELSE ; S ; ELSE: ; END:
    while c(a,b): S           LOOP: ; b‹neg c› a b END ; S ; j LOOP ; END:
    while True: S             LOOP: ; S ; j LOOP ; END:
    break / continue          j END / j LOOP   (of the innermost enclosing loop)

Jump targets are absolute line numbers (the labelled program with label lines counted).  No Mathlib: linked into `pvdrv`.
-/
namespace PV.Core
open PV.IC10

abbrev Reg := Nat
instance : Special Reg := ⟨16, 17⟩

inductive Stmt (V : Type) where
  | alu (x : Reg) (op : String) (args : List (Opnd Reg V))
  | load (x : Reg) (q : String) (args : List (Opnd Reg V))
  | store (q : String) (args : List (Opnd Reg V))
  | yield
  | sleep (a : Opnd Reg V)
  | skip
  | seq (s t : Stmt V)
  /-- `neg` is the condition suffix of the emitted branch (taken when the source condition `c` is false); `args` are the
      compared operands: two for `if a < b`, one for `if x` (`c = "nez"`, emitted `beqz x`) -/
  | ite (c neg : String) (args : List (Opnd Reg V)) (s t : Stmt V)
  | ifThen (c neg : String) (args : List (Opnd Reg V)) (s : Stmt V)
  | while (c neg : String) (args : List (Opnd Reg V)) (body : Stmt V)
  | loop (body : Stmt V)
  /-- `break` / `continue` of the innermost enclosing `while` / `loop` -/
  | brk
  | cont

/-- source-level state: registers (one per variable / temporary) and the effects so far, newest first -/
structure SSt (V : Type) where
  regs : Reg → V
  trace : List (Eff V)

/-- how a statement ends: normally, by `break`, by `continue` -/
inductive Exit where
  | norm | brk | cont
  deriving DecidableEq, Repr

inductive Res (V : Type) where
  | ok (e : Exit) (s : SSt V)
  | timeout (s : SSt V)      -- out of fuel: the state reached so far (its trace is a prefix of the behaviour)

@[match_pattern] abbrev Res.done {V : Type} (s : SSt V) : Res V := .ok .norm s

section sem
variable {V : Type} (sem : Sem V) (env : Env V)

def evalArgs (f : Reg → V) (args : List (Opnd Reg V)) : List V := args.map (Opnd.eval f)

/-- reference semantics; fuel is consumed at loop iterations only -/
def exec : Nat → Stmt V → SSt V → Res V
  | _, .alu x op args, s => .done { s with regs := upd s.regs x (sem.alu op (evalArgs s.regs args)) }
  | _, .load x q args, s => .done { s with regs := upd s.regs x (env s.trace q (evalArgs s.regs args)) }
  | _, .store q args, s => .done { s with trace := ⟨q, evalArgs s.regs args⟩ :: s.trace }
  | _, .yield, s => .done { s with trace := ⟨"yield", []⟩ :: s.trace }
  | _, .sleep a, s => .done { s with trace := ⟨"sleep", [a.eval s.regs]⟩ :: s.trace }
  | _, .skip, s => .done s
  | _, .brk, s => .ok .brk s
  | _, .cont, s => .ok .cont s
  | n, .seq p q, s =>
      match exec n p s with
      | .ok .norm s' => exec n q s'
      | r => r                                  -- `break` / `continue` / out of fuel: the rest is skipped
  | n, .ite c _ args p q, s =>
      if sem.cond c (evalArgs s.regs args) then exec n p s else exec n q s
  | n, .ifThen c _ args p, s =>
      if sem.cond c (evalArgs s.regs args) then exec n p s else .done s
  | 0, .while _ _ _ _, s => .timeout s
  | n + 1, .while c neg args body, s =>
      if sem.cond c (evalArgs s.regs args) then
        match exec (n + 1) body s with
        | .ok .brk s' => .done s'
        | .ok _ s' => exec n (.while c neg args body) s'
        | .timeout s' => .timeout s'
      else .done s
  | 0, .loop _, s => .timeout s
  | n + 1, .loop body, s =>
      match exec (n + 1) body s with
      | .ok .brk s' => .done s'
      | .ok _ s' => exec n (.loop body) s'
      | .timeout s' => .timeout s'

end sem

/-- number of emitted lines -/
def size {V : Type} : Stmt V → Nat
  | .alu _ _ _ => 1
  | .load _ _ _ => 1
  | .store _ _ => 1
  | .yield => 1
  | .sleep _ => 1
  | .skip => 0
  | .seq p q => size p + size q
  | .ite _ _ _ p q => size p + size q + 4
  | .ifThen _ _ _ p => size p + 3
  | .while _ _ _ body => size body + 4
  | .loop body => size body + 3
  | .brk => 1
  | .cont => 1

def nopI {V : Type} : Instr Reg V := ⟨.nop, none, []⟩

/-- the model code generator; `base` = line number of the first emitted line; `lit n` = the operand that denotes line `n`;
    `cl` / `bl` = the lines `continue` / `break` jump to (start and end label of the innermost enclosing loop) -/
def comp {V : Type} (lit : Nat → V) : Stmt V → Nat → Nat → Nat → List (Instr Reg V)
  | .alu x op args, _, _, _ => [⟨.alu op, some x, args⟩]
  | .load x q args, _, _, _ => [⟨.load q, some x, args⟩]
  | .store q args, _, _, _ => [⟨.store q, none, args⟩]
  | .yield, _, _, _ => [⟨.yield, none, []⟩]
  | .sleep a, _, _, _ => [⟨.sleep, none, [a]⟩]
  | .skip, _, _, _ => []
  | .brk, _, _, bl => [⟨.jmp, none, [.num (lit bl)]⟩]
  | .cont, _, cl, _ => [⟨.jmp, none, [.num (lit cl)]⟩]
  | .seq p q, base, cl, bl => comp lit p base cl bl ++ comp lit q (base + size p) cl bl
  | .ite _ neg args p q, base, cl, bl =>
      [⟨.br neg, none, args ++ [.num (lit (base + size p + 2))]⟩] ++ comp lit p (base + 1) cl bl ++
      [⟨.jmp, none, [.num (lit (base + size p + size q + 3))]⟩, nopI] ++ comp lit q (base + size p + 3) cl bl ++ [nopI]
  | .ifThen _ neg args p, base, cl, bl =>
      [⟨.br neg, none, args ++ [.num (lit (base + size p + 1))]⟩] ++ comp lit p (base + 1) cl bl ++ [nopI, nopI]
  | .while _ neg args body, base, _, _ =>
      [nopI, ⟨.br neg, none, args ++ [.num (lit (base + size body + 3))]⟩] ++ comp lit body (base + 2) base (base + size body + 3) ++
      [⟨.jmp, none, [.num (lit base)]⟩, nopI]
  | .loop body, base, _, _ =>
      [nopI] ++ comp lit body (base + 1) base (base + size body + 2) ++ [⟨.jmp, none, [.num (lit base)]⟩, nopI]

/-- every branch of the program uses a suffix that negates its condition (on as many values as the branch compares) -/
def NegOk {V : Type} (sem : Sem V) : Stmt V → Prop
  | .seq p q => NegOk sem p ∧ NegOk sem q
  | .ite c neg args p q => (∀ vals : List V, vals.length = args.length → sem.cond neg vals = !sem.cond c vals) ∧ NegOk sem p ∧ NegOk sem q
  | .ifThen c neg args p => (∀ vals : List V, vals.length = args.length → sem.cond neg vals = !sem.cond c vals) ∧ NegOk sem p
  | .while c neg args body => (∀ vals : List V, vals.length = args.length → sem.cond neg vals = !sem.cond c vals) ∧ NegOk sem body
  | .loop body => NegOk sem body
  | _ => True

/-- executable form of `NegOk` against a table of (condition, branch suffix, number of compared operands) -/
def pairsOk {V : Type} (pairs : List (String × String × Nat)) : Stmt V → Bool
  | .seq p q => pairsOk pairs p && pairsOk pairs q
  | .ite c neg args p q => pairs.contains (c, neg, args.length) && pairsOk pairs p && pairsOk pairs q
  | .ifThen c neg args p => pairs.contains (c, neg, args.length) && pairsOk pairs p
  | .while c neg args body => pairs.contains (c, neg, args.length) && pairsOk pairs body
  | .loop body => pairsOk pairs body
  | _ => true

end PV.Core
