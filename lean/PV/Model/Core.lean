import PV.IC10.Machine
/-
The core sub-language of C01 at three-address level, and the model code generator for it.

A core program is what the transpiler's front end leaves of a function-free source program after expression flattening:
register-to-register ALU operations, device reads and writes, `yield` / `sleep`, and structured control flow —
`if`/`else` on a comparison, `while` on a comparison, `while True`.  `comp` lays the code out exactly as
`CompilerPassGatherCode` does, including the label lines (which occupy a line and execute as no-ops):

    if c(a,b): S else: T      b‹neg c› a b ELSE ; S ; j END ; ELSE: ; T ; END:      (`if x:` is `beqz x ELSE`)
    if c(a,b): S              b‹neg c› a b ELSE ; S ; ELSE: ; END:
    while c(a,b): S           LOOP: ; b‹neg c› a b END ; S ; j LOOP ; END:
    while True: S             LOOP: ; S ; j LOOP ; END:
    break / continue          j END / j LOOP   (of the innermost enclosing loop)

Jump targets are absolute line numbers (the labelled program with label lines counted).  No Mathlib: linked into `pvdrv`.
-/
namespace PV.Core
open PV.IC10

abbrev Reg := Nat
instance : Special Reg := ⟨16, 17⟩

inductive Stmt (V : Type) where
  | alu (x : Reg) (op : String) (args : List (Opnd Reg V))
  | load (x : Reg) (q : String) (args : List (Opnd Reg V))
  | store (q : String) (args : List (Opnd Reg V))
  | yield
  | sleep (a : Opnd Reg V)
  | skip
  | seq (s t : Stmt V)
  /-- `neg` is the condition suffix of the emitted branch (taken when the source condition `c` is false); `args` are the
      compared operands: two for `if a < b`, one for `if x` (`c = "nez"`, emitted `beqz x`) -/
  | ite (c neg : String) (args : List (Opnd Reg V)) (s t : Stmt V)
  | ifThen (c neg : String) (args : List (Opnd Reg V)) (s : Stmt V)
  | while (c neg : String) (args : List (Opnd Reg V)) (body : Stmt V)
  | loop (body : Stmt V)
  /-- `break` / `continue` of the innermost enclosing `while` / `loop` -/
  | brk
  | cont
  /-- the chip's own stack used as memory: `x = stack[a]` (`get x db a`) and `stack[a] = v` (`put db a v`) -/
  | getm (x : Reg) (a : Opnd Reg V)
  | putm (a v : Opnd Reg V)
  /-- call of procedure `k` (`jal` to its entry label); arguments and results travel through stack cells (`putm` / `getm`) -/
  | call (k : Nat)
  /-- `return` that is not the last statement of a procedure body: jump to the procedure's end label -/
  | ret
  /-- the body of a function inlined at its only call site: `f: ; body ; fend:` — a `return` inside jumps to `fend` -/
  | inl (body : Stmt V)

/-- source-level state: registers (one per variable / temporary), the stack memory, and the effects so far, newest first -/
structure SSt (V : Type) where
  regs : Reg → V
  mem : Nat → V
  trace : List (Eff V)

/-- how a statement ends: normally, by `break`, by `continue`, by `return` -/
inductive Exit where
  | norm | brk | cont | ret
  deriving DecidableEq, Repr

inductive Res (V : Type) where
  | ok (e : Exit) (s : SSt V)
  | timeout (s : SSt V)      -- out of fuel: the state reached so far (its trace is a prefix of the behaviour)
  | stuck                    -- a stack address outside the stack: the reference semantics has no answer (outside the domain)

@[match_pattern] abbrev Res.done {V : Type} (s : SSt V) : Res V := .ok .norm s

section sem
variable {V : Type} (sem : Sem V) (env : Env V) (F : Nat → Stmt V)

def evalArgs (f : Reg → V) (args : List (Opnd Reg V)) : List V := args.map (Opnd.eval f)

/-- reference semantics; fuel is consumed at loop iterations only -/
def exec : Nat → Stmt V → SSt V → Res V
  | _, .alu x op args, s => .done { s with regs := upd s.regs x (sem.alu op (evalArgs s.regs args)) }
  | _, .load x q args, s => .done { s with regs := upd s.regs x (env s.trace q (evalArgs s.regs args)) }
  | _, .store q args, s => .done { s with trace := ⟨q, evalArgs s.regs args⟩ :: s.trace }
  | _, .yield, s => .done { s with trace := ⟨"yield", []⟩ :: s.trace }
  | _, .sleep a, s => .done { s with trace := ⟨"sleep", [a.eval s.regs]⟩ :: s.trace }
  | _, .skip, s => .done s
  | _, .getm x a, s =>
      match sem.toAddr (a.eval s.regs) with
      | some n => if n < stackSize then .done { s with regs := upd s.regs x (s.mem n) } else .stuck
      | none => .stuck
  | _, .putm a v, s =>
      match sem.toAddr (a.eval s.regs) with
      | some n => if n < stackSize then .done { s with mem := updMem s.mem n (v.eval s.regs) } else .stuck
      | none => .stuck
  | _, .brk, s => .ok .brk s
  | _, .cont, s => .ok .cont s
  | _, .ret, s => .ok .ret s
  | n, .inl body, s =>
      match exec n body s with
      | .ok .norm s' => .done s'
      | .ok .ret s' => .done s'
      | .ok _ _ => .stuck
      | r => r
  | 0, .call _, s => .timeout s
  | n + 1, .call k, s =>
      -- the body runs on the same registers; it ends normally or by `return`; a `break` / `continue` that would leave it is
      -- outside the domain
      match exec n (F k) s with
      | .ok .norm s' => .done s'
      | .ok .ret s' => .done s'
      | .ok _ _ => .stuck
      | r => r
  | n, .seq p q, s =>
      match exec n p s with
      | .ok .norm s' => exec n q s'
      | r => r                                  -- `break` / `continue` / out of fuel: the rest is skipped
  | n, .ite c _ args p q, s =>
      if sem.cond c (evalArgs s.regs args) then exec n p s else exec n q s
  | n, .ifThen c _ args p, s =>
      if sem.cond c (evalArgs s.regs args) then exec n p s else .done s
  | 0, .while _ _ _ _, s => .timeout s
  | n + 1, .while c neg args body, s =>
      if sem.cond c (evalArgs s.regs args) then
        match exec (n + 1) body s with
        | .ok .brk s' => .done s'
        | .ok .ret s' => .ok .ret s'
        | .ok _ s' => exec n (.while c neg args body) s'
        | r => r
      else .done s
  | 0, .loop _, s => .timeout s
  | n + 1, .loop body, s =>
      match exec (n + 1) body s with
      | .ok .brk s' => .done s'
      | .ok .ret s' => .ok .ret s'
      | .ok _ s' => exec n (.loop body) s'
      | r => r

end sem

/-- number of emitted lines -/
def size {V : Type} : Stmt V → Nat
  | .alu _ _ _ => 1
  | .load _ _ _ => 1
  | .store _ _ => 1
  | .yield => 1
  | .sleep _ => 1
  | .skip => 0
  | .seq p q => size p + size q
  | .ite _ _ _ p q => size p + size q + 4
  | .ifThen _ _ _ p => size p + 3
  | .while _ _ _ body => size body + 4
  | .loop body => size body + 3
  | .brk => 1
  | .cont => 1
  | .getm _ _ => 1
  | .putm _ _ => 1
  | .call _ => 1
  | .ret => 1
  | .inl body => size body + 2

def nopI {V : Type} : Instr Reg V := ⟨.nop, none, []⟩

/-- the model code generator; `base` = line number of the first emitted line; `lit n` = the operand that denotes line `n`;
    `cl` / `bl` = the lines `continue` / `break` jump to (start and end label of the innermost enclosing loop); `rl` = the line
    `return` jumps to (end label of the procedure); `entry k` = the line of procedure `k`'s entry label -/
def comp {V : Type} (lit : Nat → V) (entry : Nat → Nat) : Stmt V → Nat → Nat → Nat → Nat → List (Instr Reg V)
  | .alu x op args, _, _, _, _ => [⟨.alu op, some x, args⟩]
  | .load x q args, _, _, _, _ => [⟨.load q, some x, args⟩]
  | .store q args, _, _, _, _ => [⟨.store q, none, args⟩]
  | .yield, _, _, _, _ => [⟨.yield, none, []⟩]
  | .sleep a, _, _, _, _ => [⟨.sleep, none, [a]⟩]
  | .skip, _, _, _, _ => []
  | .getm x a, _, _, _, _ => [⟨.getdb, some x, [a]⟩]
  | .putm a v, _, _, _, _ => [⟨.poke, none, [a, v]⟩]
  | .call k, _, _, _, _ => [⟨.jal, none, [.num (lit (entry k))]⟩]
  | .ret, _, _, _, rl => [⟨.jmp, none, [.num (lit rl)]⟩]
  | .brk, _, _, bl, _ => [⟨.jmp, none, [.num (lit bl)]⟩]
  | .cont, _, cl, _, _ => [⟨.jmp, none, [.num (lit cl)]⟩]
  | .seq p q, base, cl, bl, rl => comp lit entry p base cl bl rl ++ comp lit entry q (base + size p) cl bl rl
  | .ite _ neg args p q, base, cl, bl, rl =>
      [⟨.br neg, none, args ++ [.num (lit (base + size p + 2))]⟩] ++ comp lit entry p (base + 1) cl bl rl ++
      [⟨.jmp, none, [.num (lit (base + size p + size q + 3))]⟩, nopI] ++ comp lit entry q (base + size p + 3) cl bl rl ++ [nopI]
  | .ifThen _ neg args p, base, cl, bl, rl =>
      [⟨.br neg, none, args ++ [.num (lit (base + size p + 1))]⟩] ++ comp lit entry p (base + 1) cl bl rl ++ [nopI, nopI]
  | .while _ neg args body, base, _, _, rl =>
      [nopI, ⟨.br neg, none, args ++ [.num (lit (base + size body + 3))]⟩] ++ comp lit entry body (base + 2) base (base + size body + 3) rl ++
      [⟨.jmp, none, [.num (lit base)]⟩, nopI]
  | .loop body, base, _, _, rl =>
      [nopI] ++ comp lit entry body (base + 1) base (base + size body + 2) rl ++ [⟨.jmp, none, [.num (lit base)]⟩, nopI]
  | .inl body, base, cl, bl, _ =>
      [nopI] ++ comp lit entry body (base + 1) cl bl (base + 1 + size body) ++ [nopI]

/-- the block of procedure `k` placed at its entry line: `f: ; body ; fend: ; j ra` -/
def hasCall {V : Type} : Stmt V → Bool
  | .call _ => true
  | .seq p q => hasCall p || hasCall q
  | .ite _ _ _ p q => hasCall p || hasCall q
  | .ifThen _ _ _ p => hasCall p
  | .while _ _ _ body => hasCall body
  | .loop body => hasCall body
  | .inl body => hasCall body
  | _ => false

def pushRa {V : Type} : Instr Reg V := ⟨.push, none, [.reg Special.ra]⟩
def popRa {V : Type} : Instr Reg V := ⟨.pop, some Special.ra, []⟩
def retI {V : Type} : Instr Reg V := ⟨.jmp, none, [.reg Special.ra]⟩

/-- the block of procedure `k`: `f: ; body ; fend: ; j ra`, and for a procedure that calls others `push ra` right after the
    entry label and `pop ra` right after the end label (fixed-slot convention of `add_ra_instructions`) -/
def compProc {V : Type} (lit : Nat → V) (entry : Nat → Nat) (body : Stmt V) (k : Nat) : List (Instr Reg V) :=
  if hasCall body then
    [nopI, pushRa] ++ comp lit entry body (entry k + 2) 0 0 (entry k + 2 + size body) ++ [nopI, popRa, retI]
  else
    [nopI] ++ comp lit entry body (entry k + 1) 0 0 (entry k + 1 + size body) ++ [nopI, retI]

/-! ### program layout: main code, then one block per procedure -/

def blockSize {V : Type} (b : Stmt V) : Nat := size b + 3 + (if hasCall b then 2 else 0)

/-- line of procedure `k`'s entry label -/
def entryOf {V : Type} (mainSize : Nat) (procs : List (Stmt V)) (k : Nat) : Nat := mainSize + ((procs.take k).map blockSize).sum

def procOf {V : Type} (procs : List (Stmt V)) (k : Nat) : Stmt V := procs.getD k .skip

def blocks {V : Type} (lit : Nat → V) (entry : Nat → Nat) (procs : List (Stmt V)) : List (List (Instr Reg V)) :=
  procs.zipIdx.map (fun (b, k) => compProc lit entry b k)

/-- **the model of the whole emitted program**: the main script, then `f: ; body ; fend: ; j ra` for every procedure -/
def compProg {V : Type} (lit : Nat → V) (main : Stmt V) (procs : List (Stmt V)) : List (Instr Reg V) :=
  comp lit (entryOf (size main) procs) main 0 0 0 0 ++ (blocks lit (entryOf (size main) procs) procs).flatten

/-- a statement without calls (what a leaf procedure consists of) -/
def NoCall {V : Type} : Stmt V → Prop
  | .call _ => False
  | .seq p q => NoCall p ∧ NoCall q
  | .ite _ _ _ p q => NoCall p ∧ NoCall q
  | .ifThen _ _ _ p => NoCall p
  | .while _ _ _ body => NoCall body
  | .loop body => NoCall body
  | .inl body => NoCall body
  | _ => True

def opndOk {V : Type} : Opnd Reg V → Prop
  | .reg r => r ≠ (Special.ra : Reg) ∧ r ≠ (Special.sp : Reg)
  | .num _ => True

/-- a stack cell a program may use as memory: a literal address at or above `lo` (the cells below belong to the call stack) -/
def addrOk {V : Type} (sem : Sem V) (lo : Nat) : Opnd Reg V → Prop
  | .num v => ∃ n, sem.toAddr v = some n ∧ lo ≤ n ∧ n < stackSize
  | .reg _ => False

def regOk (x : Reg) : Prop := x ≠ (Special.ra : Reg) ∧ x ≠ (Special.sp : Reg)

/-- well-formedness of a core program: every branch uses a suffix that negates its condition (on as many values as it
    compares), `ra` and `sp` are neither read nor written by the program's own instructions, the own stack is used as memory only
    at literal addresses at or above `lo` (below is the call stack), and every called procedure satisfies `ok` -/
def Good {V : Type} (sem : Sem V) (lo : Nat) (ok : Nat → Prop) : Stmt V → Prop
  | .alu x _ args => regOk x ∧ ∀ o ∈ args, opndOk o
  | .load x _ args => regOk x ∧ ∀ o ∈ args, opndOk o
  | .store _ args => ∀ o ∈ args, opndOk o
  | .sleep a => opndOk a
  | .getm x a => regOk x ∧ addrOk sem lo a
  | .putm a v => addrOk sem lo a ∧ opndOk v
  | .call k => ok k
  | .seq p q => Good sem lo ok p ∧ Good sem lo ok q
  | .ite c neg args p q =>
      (∀ vals : List V, vals.length = args.length → sem.cond neg vals = !sem.cond c vals) ∧ (∀ o ∈ args, opndOk o) ∧ Good sem lo ok p ∧ Good sem lo ok q
  | .ifThen c neg args p =>
      (∀ vals : List V, vals.length = args.length → sem.cond neg vals = !sem.cond c vals) ∧ (∀ o ∈ args, opndOk o) ∧ Good sem lo ok p
  | .while c neg args body =>
      (∀ vals : List V, vals.length = args.length → sem.cond neg vals = !sem.cond c vals) ∧ (∀ o ∈ args, opndOk o) ∧ Good sem lo ok body
  | .loop body => Good sem lo ok body
  | .inl body => Good sem lo ok body
  | _ => True

def opndOkB {V : Type} : Opnd Reg V → Bool
  | .reg r => r != (Special.ra : Reg) && r != (Special.sp : Reg)
  | .num _ => true

def addrOkB {V : Type} (sem : Sem V) (lo : Nat) : Opnd Reg V → Bool
  | .num v => match sem.toAddr v with
    | some n => decide (lo ≤ n) && decide (n < stackSize)
    | none => false
  | .reg _ => false

def regOkB (x : Reg) : Bool := x != (Special.ra : Reg) && x != (Special.sp : Reg)

/-- executable form of `Good` against a table of (condition, branch suffix, number of compared operands) and the list of
    procedures that may be called -/
def goodB {V : Type} (sem : Sem V) (lo : Nat) (pairs : List (String × String × Nat)) (procs : List Nat) : Stmt V → Bool
  | .alu x _ args => regOkB x && args.all opndOkB
  | .load x _ args => regOkB x && args.all opndOkB
  | .store _ args => args.all opndOkB
  | .sleep a => opndOkB a
  | .getm x a => regOkB x && addrOkB sem lo a
  | .putm a v => addrOkB sem lo a && opndOkB v
  | .call k => procs.contains k
  | .seq p q => goodB sem lo pairs procs p && goodB sem lo pairs procs q
  | .ite c neg args p q => pairs.contains (c, neg, args.length) && args.all opndOkB && goodB sem lo pairs procs p && goodB sem lo pairs procs q
  | .ifThen c neg args p => pairs.contains (c, neg, args.length) && args.all opndOkB && goodB sem lo pairs procs p
  | .while c neg args body => pairs.contains (c, neg, args.length) && args.all opndOkB && goodB sem lo pairs procs body
  | .loop body => goodB sem lo pairs procs body
  | .inl body => goodB sem lo pairs procs body
  | _ => true

def noCallB {V : Type} : Stmt V → Bool
  | .call _ => false
  | .seq p q => noCallB p && noCallB q
  | .ite _ _ _ p q => noCallB p && noCallB q
  | .ifThen _ _ _ p => noCallB p
  | .while _ _ _ body => noCallB body
  | .loop body => noCallB body
  | .inl body => noCallB body
  | _ => true

end PV.Core
