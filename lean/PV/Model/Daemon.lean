import PV.Base.PyStr
import PV.Base.B64
/-
Model of `mod_daemon.py`: the read loop (`main`) and the request handler (`process_input`) as
total functions.  The compiler, base64/JSON decoding of the request and JSON encoding of the answer
are parameters; what is modelled concretely is the control flow that decides *whether and how
often* a line is written to the real standard output.

`J` is the type of JSON answers.
-/
namespace PV.Daemon
open PV.PyStr

/-- what the `try:` body of `process_input` does with a non-empty request line -/
inductive Body (J : Type) where
  /-- the body ran to a `return` / fell off its end with `response` bound to this value (`none` = Python `None`) -/
  | finished (response : Option J)
  /-- `json.JSONDecodeError` was raised -/
  | jsonError
  /-- any other `Exception` was raised -/
  | otherError (msg : List Char)

structure Handler (J : Type) where
  /-- base64 + utf-8 + JSON decoding of the request line: a message, or which exception -/
  decode : List Char → Except (Option (List Char)) (List Char × Option (List Char) × List Char)
  -- ^ ok (action, code?, options) ; error none = JSONDecodeError ; error (some m) = other exception
  /-- `compile_code(modules, CompileOptions(**options))`: a result or an exception message -/
  compile : List Char → List Char → Except (List Char) J
  invalidAction : List Char → J
  noCode : J
  invalidJson : J
  internalError : List Char → J

def compileAction : List Char := "compile".toList
def exitWord : List Char := "EXIT".toList

/-- the `try:` body, statement by statement -/
def body {J : Type} (h : Handler J) (line : List Char) : Body J :=
  match h.decode line with
  | .error none => .jsonError
  | .error (some m) => .otherError m
  | .ok (action, code, options) =>
    if action ≠ compileAction then .finished (some (h.invalidAction action))
    else match code with
      | none => .finished (some h.noCode)
      | some modules =>
        match h.compile modules options with
        | .ok r => .finished (some r)
        | .error m => .otherError m

/-- `process_input(line)` for a non-empty line: the value printed by the `finally:` clause, if any -/
def processInput {J : Type} (h : Handler J) (line : List Char) : Option J :=
  match body h line with
  | .finished r => r
  | .jsonError => some h.invalidJson
  | .otherError m => some (h.internalError m)

inductive Req where
  | blank
  | exit
  | payload (l : List Char)
  deriving Repr, DecidableEq

/-- `line = line.strip(); if line == "EXIT": break; process_input(line)` (which returns at once on an empty line) -/
def classify (raw : List Char) : Req :=
  let l := strip raw
  if l.isEmpty then .blank else if l = exitWord then .exit else .payload l

/-- the read loop over the lines `readline()` delivers, until EXIT or end of input;
    result: the answers written to the real stdout, in order -/
def run {J : Type} (h : Handler J) : List (List Char) → List J
  | [] => []
  | raw :: rest =>
    match classify raw with
    | .blank => run h rest
    | .exit => []
    | .payload l =>
      match processInput h l with
      | some r => r :: run h rest
      | none => run h rest

/-- the requests that must be answered: stripped non-blank lines before the first EXIT -/
def requests : List (List Char) → List (List Char)
  | [] => []
  | raw :: rest =>
    match classify raw with
    | .blank => requests rest
    | .exit => []
    | .payload l => l :: requests rest

/-- the line written for an answer: `base64.b64encode(json.dumps(response).encode("utf-8"))` -/
def outLine {J : Type} (jsonBytes : J → List Nat) (r : J) : List Char := PV.B64.b64encode (jsonBytes r)

end PV.Daemon
