import PV.Model.Core
import PV.Src.Lang
import PV.Gen.Tables
/-
Expression flattening: from the source dialect (`PV.Src`) to the three-address core language (`PV.Core`), the way the
transpiler's front end does it for function-free programs: every compound sub-expression is computed into a fresh
temporary, left operand first; the outermost operation of `x = e` writes into `x`'s register directly; `if` / `while`
tests that are comparisons become the branch itself.  Programs outside the core (`InCore` = `flatten` succeeds) give `none`.
Executable only (part of the tie between the model generator and the real one); the theorem `PV.Core.sim` is about what
comes after this step.  No Mathlib: linked into `pvdrv`.
-/
namespace PV.Flatten
open PV.IC10

/-- value-level parameters of the flattening -/
structure Cfg (V : Type) where
  zero : V
  negV : V → V
  isOne : V → Bool
  isNeg : V → Bool
  ofNat : Nat → V

/-- a procedure the program calls: name, index in emission order, parameters, does it return a value -/
structure FInfo where
  name : String
  idx : Nat
  params : List String
  returns : Bool

structure FS (V : Type) where
  vars : List (String × Nat) := []
  /-- local variables of the function being flattened -/
  locals : List (String × Nat) := []
  funcs : List FInfo := []
  /-- parameters of an inlined function: aliases of the argument operands -/
  palias : List (String × Opnd PV.Core.Reg V) := []
  /-- inside an inlined function body: the register that receives the returned value (`none`: out-of-line body, the value goes
      to stack cell 511) -/
  retTo : Option (Option Nat) := none
  /-- functions that are inlined at their only call site, with their bodies -/
  inlineFuncs : List (PV.Src.Func V) := []
  next : Nat := 100
  /-- variables with exactly one assignment in the program: a constant assigned to one of them is propagated, not stored -/
  once : List String := []

def FS.fresh {V : Type} (fs : FS V) : FS V × Nat := ({ fs with next := fs.next + 1 }, fs.next)

def FS.regOf {V : Type} (fs : FS V) (x : String) : FS V × Nat :=
  match fs.vars.find? (·.1 == x) with
  | some (_, r) => (fs, r)
  | none => ({ fs with vars := fs.vars ++ [(x, fs.next)], next := fs.next + 1 }, fs.next)

def FS.lookup {V : Type} (fs : FS V) (x : String) : Option Nat := (fs.vars.find? (·.1 == x)).map (·.2)

def FS.localOf {V : Type} (fs : FS V) (x : String) : FS V × Nat :=
  match fs.locals.find? (·.1 == x) with
  | some (_, r) => (fs, r)
  | none => ({ fs with locals := fs.locals ++ [(x, fs.next)], next := fs.next + 1 }, fs.next)

def FS.lookupLocal {V : Type} (fs : FS V) (x : String) : Option Nat := (fs.locals.find? (·.1 == x)).map (·.2)

def cmpNames : List String := ["slt", "sgt", "sle", "sge", "seq", "sne"]

def pyOpOfSuffix (suffix : String) : Option String := (PV.Gen.cmpSuffix.find? (·.2 == suffix)).map (·.1)

/-- for the ALU comparison `s‹suffix›`: (suffix, suffix of the negated comparison) from the regenerated tables -/
def branchPair (alu : String) : Option (String × String) :=
  let suffix := String.ofList (alu.toList.drop 1)
  match pyOpOfSuffix suffix with
  | some op => (PV.Gen.negCmpSuffix.find? (·.1 == op)).map (fun p => (suffix, p.2))
  | none => none

/-- every (condition suffix, emitted branch suffix, operand count) the regenerated tables yield: `if a <op> b`, `if not a <op> b`,
    and the truth tests `if x` / `if not x` -/
def branchPairs : List (String × String × Nat) :=
  let plain := PV.Gen.cmpSuffix.filterMap (fun r => (PV.Gen.negCmpSuffix.find? (·.1 == r.1)).map (fun p => (r.2, p.2, 2)))
  -- `if x:` is `beqz x ELSE`, `if not x:` is `bnez x ELSE`
  plain ++ plain.map (fun p => (p.2.1, p.1, 2)) ++ [("nez", "eqz", 1), ("eqz", "nez", 1)]

abbrev CStmt := PV.Core.Stmt
abbrev Reg := PV.Core.Reg

def seqAll {V : Type} : List (CStmt V) → CStmt V
  | [] => PV.Core.Stmt.skip
  | [s] => s
  | s :: rest => PV.Core.Stmt.seq s (seqAll rest)

variable {V : Type}

def isNum : Opnd Reg V → Bool
  | .num _ => true
  | _ => false

/-- all arguments are evaluated first; then `put db (510 - i) argᵢ` for every argument -/
def putArgs (cf : Cfg V) (i : Nat) : List (Opnd Reg V) → List (CStmt V)
  | [] => []
  | o :: os => PV.Core.Stmt.putm (.num (cf.ofNat (510 - i))) o :: putArgs cf (i + 1) os

mutual
partial def returnsS : PV.Src.Stmt V → Bool
  | .ret (some _) => true
  | .ite _ t e => returnsB t || returnsB e
  | .while _ b => returnsB b
  | .forRange _ _ _ _ _ b => returnsB b
  | .forList _ _ _ b => returnsB b
  | _ => false
partial def returnsB : List (PV.Src.Stmt V) → Bool
  | [] => false
  | s :: r => returnsS s || returnsB r
end

/-- a literal in the source text (these are what the front end folds; a parameter of an inlined function that stands for a literal
    argument is not one) -/
partial def litExpr : PV.Src.Expr V → Bool
  | .num _ => true
  | .un "neg" a => litExpr a
  | _ => false

def isOperand : PV.Src.Expr V → Bool
  | .num _ | .gvar _ => true
  | _ => false


mutual
/-- `(state, code, operand)`; `target`: register that receives the outermost operation -/
partial def flatE (cf : Cfg V) (fs : FS V) (target : Option Nat) : PV.Src.Expr V → Option (FS V × List (CStmt V) × Opnd Reg V)
  | .num v => some (fs, [], .num v)
  | .gvar x => (fs.lookup x).map (fun r => (fs, [], .reg r))
  | .lvar x =>
    match fs.palias.find? (·.1 == x) with
    | some (_, o) => some (fs, [], o)
    | none => (fs.lookupLocal x).map (fun r => (fs, [], .reg r))
  | .call f args =>
    match fs.inlineFuncs.find? (·.name == f) with
    | some fn => do
      -- the function is inlined at this (its only) call site: arguments are evaluated, the parameters stand for the argument
      -- operands, the body sits between the labels `f:` / `fend:`, a returned value is moved into a result register
      let (fs1, code, os) ← flatArgs cf fs args
      let (fs2, res) := fs1.fresh
      let saved := (fs2.palias, fs2.locals, fs2.retTo)
      let fsIn := { fs2 with palias := fn.params.zip os, locals := [], retTo := some (some res) }
      let (fs3, body) ← flatB cf fsIn fn.body
      let body' := match body.getLast? with
        | some PV.Core.Stmt.ret => body.dropLast
        | _ => body
      let fsOut := { fs3 with palias := saved.1, locals := saved.2.1, retTo := saved.2.2 }
      pure (fsOut, code ++ [PV.Core.Stmt.inl (seqAll body')], .reg res)
    | none => do
    -- arguments into the fixed stack cells 510, 509, …; `jal`; the result comes back in cell 511
    let fi ← fs.funcs.find? (·.name == f)
    let (fs1, code, os) ← flatArgs cf fs args
    let (fs2, t) := match target with | some t => (fs1, t) | none => fs1.fresh
    pure (fs2, code ++ putArgs cf 0 os ++ [PV.Core.Stmt.call fi.idx, PV.Core.Stmt.getm t (.num (cf.ofNat 511))], .reg t)
  | .bin op a b => do
    let (fs1, ca, oa) ← flatE cf fs none a
    let (fs2, cb, ob) ← flatE cf fs1 none b
    if litExpr a && litExpr b then none else     -- a constant expression is folded by the front end: outside the core
    let (fs3, t) := match target with | some t => (fs2, t) | none => fs2.fresh
    pure (fs3, ca ++ cb ++ [PV.Core.Stmt.alu t op [oa, ob]], .reg t)
  | .un op a => do
    let (fs1, ca, oa) ← flatE cf fs none a
    match oa, litExpr a with
    | .num v, true => if op == "neg" then pure (fs1, ca, .num (cf.negV v)) else none     -- a negated constant is folded by the front end; other constant operations: outside the core
    | _, _ =>
    let (fs2, t) := match target with | some t => (fs1, t) | none => fs1.fresh
    if op == "neg" then pure (fs2, ca ++ [PV.Core.Stmt.alu t "sub" [(.num cf.zero), oa]], .reg t)
    else if op == "not" then pure (fs2, ca ++ [PV.Core.Stmt.alu t "seqz" [oa]], .reg t)
    else pure (fs2, ca ++ [PV.Core.Stmt.alu t op [oa]], .reg t)
  | .read q args => do
    let (fs1, code, os) ← flatArgs cf fs args
    let (fs2, t) := match target with | some t => (fs1, t) | none => fs1.fresh
    pure (fs2, code ++ [PV.Core.Stmt.load t q os], .reg t)
  | .ifexp c a b => do
    -- `u if c else v`: test, then both arms, then `select` (the arms of a core program have no effects, so evaluating both is
    -- what evaluating the chosen one is)
    let (fs1, cc, oc) ← flatE cf fs none c
    let (fs2, ca, oa) ← flatE cf fs1 none a
    let (fs3, cb, ob) ← flatE cf fs2 none b
    if litExpr c then none else
    let (fs4, t) := match target with | some t => (fs3, t) | none => fs3.fresh
    -- the front end emits the code of the `else` arm twice (F-C01-h); for the effect-free arms of a core program that is harmless
    pure (fs4, cc ++ ca ++ cb ++ cb ++ [PV.Core.Stmt.alu t "select" [oc, oa, ob]], .reg t)
  | .sget a => do
    let (fs1, ca, oa) ← flatE cf fs none a
    let (fs2, t) := match target with | some t => (fs1, t) | none => fs1.fresh
    pure (fs2, ca ++ [PV.Core.Stmt.getm t oa], .reg t)
  | .prim op args => do
    let (fs1, code, os) ← flatArgs cf fs args
    if args.all litExpr then none   -- constant call: folded by the front end
    let (fs2, t) := match target with | some t => (fs1, t) | none => fs1.fresh
    pure (fs2, code ++ [PV.Core.Stmt.alu t op os], .reg t)
  | _ => none

partial def flatArgs (cf : Cfg V) (fs : FS V) : List (PV.Src.Expr V) → Option (FS V × List (CStmt V) × List (Opnd Reg V))
  | [] => some (fs, [], [])
  | e :: es => do
    let (fs1, c1, o1) ← flatE cf fs none e
    let (fs2, c2, os) ← flatArgs cf fs1 es
    pure (fs2, c1 ++ c2, o1 :: os)

/-- a test that is a comparison (possibly under one `not`), or — for `if` only (`truth`) — a variable, a device read or an
    `and` / `or`, tested for being non-zero: (operand code, condition, branch suffix, operands) -/
partial def flatTest (cf : Cfg V) (truth : Bool) (fs : FS V) : PV.Src.Expr V → Option (FS V × List (CStmt V) × String × String × List (Opnd Reg V))
  | .bin op a b =>
    if cmpNames.contains op then do
      let (fs1, ca, oa) ← flatE cf fs none a
      let (fs2, cb, ob) ← flatE cf fs1 none b
      let (c, neg) ← branchPair op
      if litExpr a && litExpr b then none else
      pure (fs2, ca ++ cb, c, neg, [oa, ob])
    else if truth && (op == "and" || op == "or") then do
      let (fs1, code, o) ← flatE cf fs none (.bin op a b)
      pure (fs1, code, "nez", "eqz", [o])           -- `if p and q:` is `beqz t ELSE`
    else none
  | .un "not" (.bin op a b) =>
    if cmpNames.contains op then do
      let (fs1, ca, oa) ← flatE cf fs none a
      let (fs2, cb, ob) ← flatE cf fs1 none b
      let (c, neg) ← branchPair op
      if litExpr a && litExpr b then none else
      -- the source condition is the negated comparison; the emitted branch uses the plain suffix.  Under `not` the front
      -- end also materialises the comparison into a temporary that nothing reads (the comparison's parent is not the `if`)
      let (fs3, t) := fs2.fresh
      pure (fs3, ca ++ cb ++ [PV.Core.Stmt.alu t op [oa, ob]], neg, c, [oa, ob])
    else if truth && (op == "and" || op == "or") then do
      let (fs1, code, o) ← flatE cf fs none (.bin op a b)
      pure (fs1, code, "eqz", "nez", [o])           -- `if not (p and q):` is `bnez t ELSE`
    else none
  | .un "not" (.gvar x) => if truth then (fs.lookup x).map (fun r => (fs, [], "eqz", "nez", [Opnd.reg r])) else none
  | .un "not" (.read q args) => if truth then do
      let (fs1, code, o) ← flatE cf fs none (.read q args)
      pure (fs1, code, "eqz", "nez", [o]) else none
  | .gvar x => if truth then (fs.lookup x).map (fun r => (fs, [], "nez", "eqz", [Opnd.reg r])) else none   -- `if x:` is `beqz x ELSE`
  | .read q args => if truth then do
      let (fs1, code, o) ← flatE cf fs none (.read q args)
      pure (fs1, code, "nez", "eqz", [o]) else none
  | _ => none

partial def flatS (cf : Cfg V) (fs : FS V) : PV.Src.Stmt V → Option (FS V × List (CStmt V))
  | .gassign x e =>
    match e with
    | .gvar _ => none                            -- `x = y` is aliased by the front end: outside the core
    | .call f args =>
      if (fs.inlineFuncs.any (·.name == f)) then do
        -- the value of an inlined call arrives in its result register: a variable assigned only here simply IS that register,
        -- any other variable gets a `move`
        let (fs1, code, o) ← flatE cf fs none (.call f args)
        match o with
        | .reg res =>
          if fs.once.contains x then pure ({ fs1 with vars := fs1.vars.filter (·.1 != x) ++ [(x, res)] }, code)
          else
            let (fs2, rx) := fs1.regOf x
            pure (fs2, code ++ [PV.Core.Stmt.alu rx "move" [.reg res]])
        | _ => none
      else do
        let (fs0, rx) := fs.regOf x
        let (fs1, code, _) ← flatE cf fs0 (some rx) (.call f args)
        pure (fs1, code)
    | _ => do
      let (fs0, rx) := fs.regOf x
      let (fs1, code, o) ← flatE cf fs0 (some rx) e
      match o with
      | .num v =>
        -- a constant: `move x c` for a variable that is assigned several times; assigned once: propagated (outside the core)
        if fs.once.contains x then none else pure (fs1, code ++ [PV.Core.Stmt.alu rx "move" [.num v]])
      | _ => pure (fs1, code)
  | .lassign x e =>
    if fs.palias.any (·.1 == x) then none else       -- assigning to the parameter of an inlined function (it aliases the argument): outside
    match e with
    | .call f args =>
      if (fs.inlineFuncs.any (·.name == f)) then do
        let (fs1, code, o) ← flatE cf fs none (.call f args)
        match o with
        | .reg res =>
          if fs.once.contains x then pure ({ fs1 with locals := fs1.locals.filter (·.1 != x) ++ [(x, res)] }, code)
          else
            let (fs2, rx) := fs1.localOf x
            pure (fs2, code ++ [PV.Core.Stmt.alu rx "move" [.reg res]])
        | _ => none
      else do
        let (fs0, rx) := fs.localOf x
        let (fs1, code, _) ← flatE cf fs0 (some rx) (.call f args)
        pure (fs1, code)
    | .lvar _ => none
    | .gvar _ => none
    | _ => do
      let (fs0, rx) := fs.localOf x
      let (fs1, code, o) ← flatE cf fs0 (some rx) e
      match o with
      | .num v => pure (fs1, code ++ [PV.Core.Stmt.alu rx "move" [.num v]])
      | _ => pure (fs1, code)
  | .expr (.call f args) =>
    match fs.inlineFuncs.find? (·.name == f) with
    | some fn => do
      let (fs1, code, os) ← flatArgs cf fs args
      let saved := (fs1.palias, fs1.locals, fs1.retTo)
      let (fs2, res) := if returnsB fn.body then (fs1.fresh.1, some fs1.fresh.2) else (fs1, none)
      let fsIn := { fs2 with palias := fn.params.zip os, locals := [], retTo := some res }
      let (fs3, body) ← flatB cf fsIn fn.body
      let body' := match body.getLast? with
        | some PV.Core.Stmt.ret => body.dropLast
        | _ => body
      let fsOut := { fs3 with palias := saved.1, locals := saved.2.1, retTo := saved.2.2 }
      pure (fsOut, code ++ [PV.Core.Stmt.inl (seqAll body')])
    | none => do
    let fi ← fs.funcs.find? (·.name == f)
    let (fs1, code, os) ← flatArgs cf fs args
    -- the result of a function that returns one is fetched even when the statement drops it
    if fi.returns then
      let (fs2, t) := fs1.fresh
      pure (fs2, code ++ putArgs cf 0 os ++ [PV.Core.Stmt.call fi.idx, PV.Core.Stmt.getm t (.num (cf.ofNat 511))])
    else pure (fs1, code ++ putArgs cf 0 os ++ [PV.Core.Stmt.call fi.idx])
  | .ret none => some (fs, [PV.Core.Stmt.ret])
  | .ret (some e) => do
    let (fs1, code, o) ← flatE cf fs none e
    match fs.retTo with
    | some (some res) => pure (fs1, code ++ [PV.Core.Stmt.alu res "move" [o], PV.Core.Stmt.ret])    -- inlined: the value goes to the result register
    | some none => pure (fs1, code ++ [PV.Core.Stmt.ret])
    | none => pure (fs1, code ++ [PV.Core.Stmt.putm (.num (cf.ofNat 511)) o, PV.Core.Stmt.ret])
  | .write q args => do
    let (fs1, code, os) ← flatArgs cf fs args
    pure (fs1, code ++ [PV.Core.Stmt.store q os])
  | .ite c t e => do
    let (fs1, pre, cnd, neg, os) ← flatTest cf true fs c
    let (fs2, ct) ← flatB cf fs1 t
    if e.isEmpty then pure (fs2, pre ++ [PV.Core.Stmt.ifThen cnd neg os (seqAll ct)])
    else do
      let (fs3, ce) ← flatB cf fs2 e
      pure (fs3, pre ++ [PV.Core.Stmt.ite cnd neg os (seqAll ct) (seqAll ce)])
  | .while c body =>
    match c with
    | .num v =>
      if cf.isOne v then do
        let (fs1, cb) ← flatB cf fs body
        pure (fs1, [PV.Core.Stmt.loop (seqAll cb)])
      else none
    | _ => do
      let (fs1, pre, cnd, neg, os) ← flatTest cf false fs c
      if !pre.isEmpty then none else do         -- operands of a loop test must be plain operands (re-evaluated each iteration)
        let (fs2, cb) ← flatB cf fs1 body
        pure (fs2, [PV.Core.Stmt.while cnd neg os (seqAll cb)])
  | .forRange _ x start stop step body => do
    -- `range` arguments are evaluated once, before the loop; the loop variable lives in the iterator's register; the exit
    -- test is `bge` (`ble` for a negative constant step) at the loop label and the increment is the last thing in the body
    let (fs1, c1, o1) ← flatE cf fs none start
    let (fs2, c2, o2) ← flatE cf fs1 none stop
    let (fs3, c3, o3) ← flatE cf fs2 none step
    let (fs4, rx) := fs3.regOf x
    let down := match o3 with | .num v => cf.isNeg v | _ => false
    let (c, neg) := if down then ("gt", "le") else ("lt", "ge")
    let (fs5, cb) ← flatB cf fs4 body
    pure (fs5, c1 ++ c2 ++ c3 ++ [PV.Core.Stmt.alu rx "move" [o1],
      PV.Core.Stmt.while c neg [.reg rx, o2] (seqAll (cb ++ [PV.Core.Stmt.alu rx "add" [.reg rx, o3]]))])
  | .brk => some (fs, [PV.Core.Stmt.brk])       -- the generator only places these inside `while` loops
  | .cont => some (fs, [PV.Core.Stmt.cont])
  | .yield => some (fs, [PV.Core.Stmt.yield])
  | .sput a v => do
    let (fs1, ca, oa) ← flatE cf fs none a
    let (fs2, cv, ov) ← flatE cf fs1 none v
    pure (fs2, ca ++ cv ++ [PV.Core.Stmt.putm oa ov])
  | .sleep e => do
    let (fs1, code, o) ← flatE cf fs none e
    pure (fs1, code ++ [PV.Core.Stmt.sleep o])
  | .pass => some (fs, [])
  | _ => none

partial def flatB (cf : Cfg V) (fs : FS V) : List (PV.Src.Stmt V) → Option (FS V × List (CStmt V))
  | [] => some (fs, [])
  | s :: rest => do
    let (fs1, c1) ← flatS cf fs s
    let (fs2, c2) ← flatB cf fs1 rest
    pure (fs2, c1 ++ c2)
end

mutual
partial def assignedS : PV.Src.Stmt V → List String
  | .gassign x _ => [x]
  | .lassign x _ => [x]
  | .ite _ t e => assignedB t ++ assignedB e
  | .while _ b => assignedB b
  | .forRange _ x _ _ _ b => x :: assignedB b
  | .forList _ x _ b => x :: assignedB b
  | _ => []
partial def assignedB : List (PV.Src.Stmt V) → List String
  | [] => []
  | s :: r => assignedS s ++ assignedB r
end

mutual
partial def callsE : PV.Src.Expr V → List String
  | .call f args => f :: callsEs args
  | .bin _ a b => callsE a ++ callsE b
  | .un _ a => callsE a
  | .ifexp c a b => callsE c ++ callsE a ++ callsE b
  | .read _ args => callsEs args
  | .prim _ args => callsEs args
  | .sget a => callsE a
  | .index vals i => callsEs vals ++ callsE i
  | _ => []
partial def callsEs : List (PV.Src.Expr V) → List String
  | [] => []
  | e :: es => callsE e ++ callsEs es
end

mutual
partial def callsS : PV.Src.Stmt V → List String
  | .gassign _ e | .lassign _ e | .expr e | .sleep e | .push e => callsE e
  | .write _ args => callsEs args
  | .sput a v => callsE a ++ callsE v
  | .ite c t e => callsE c ++ callsB t ++ callsB e
  | .while c b => callsE c ++ callsB b
  | .forRange _ _ a b c body => callsE a ++ callsE b ++ callsE c ++ callsB body
  | .forList _ _ vals body => callsEs vals ++ callsB body
  | .ret (some e) => callsE e
  | _ => []
partial def callsB : List (PV.Src.Stmt V) → List String
  | [] => []
  | s :: r => callsS s ++ callsB r
end

/-- one procedure: parameters are fetched from their stack cells, then the body; a `return` that is the last statement of the
    body needs no jump to the end label -/
def flatFunc (cf : Cfg V) (fs : FS V) (f : PV.Src.Func V) : Option (FS V × CStmt V) := do
  let fs0 := { fs with locals := [] }
  let (fs1, pro) := f.params.zipIdx.foldl (fun (acc : FS V × List (CStmt V)) (p : String × Nat) =>
    let (fsx, r) := acc.1.localOf p.1
    (fsx, acc.2 ++ [PV.Core.Stmt.getm r (.num (cf.ofNat (510 - p.2)))])) (fs0, [])
  let (fs2, code) ← flatB cf fs1 f.body
  -- drop the trailing `ret` of a final return
  let code' := match code.getLast? with
    | some PV.Core.Stmt.ret => code.dropLast
    | _ => code
  pure (fs2, seqAll (pro ++ code'))

/-- rank of a function in the call graph: 0 for a leaf, 1 + the largest rank of a callee otherwise; `none` when the fuel runs out
    (recursion) or a callee does not exist -/
def rankOf (funcs : List (PV.Src.Func V)) : Nat → String → Option Nat
  | 0, _ => none
  | fuel + 1, name => do
    let f ← funcs.find? (·.name == name)
    let callees := (callsB f.body).eraseDups
    let rs ← callees.mapM (rankOf funcs fuel)
    pure (match rs.foldl max 0, callees.isEmpty with
      | _, true => 0
      | m, false => m + 1)

/-- the whole program: (main, procedures in emission order, their ranks).  Procedures: the called functions, sorted by name;
    calls among them must not be recursive. -/
def flatten (cf : Cfg V) (inline : Bool) (p : PV.Src.Program V) : Option (CStmt V × List (CStmt V) × List Nat) := do
  -- the functions reachable from the main code (only those are emitted)
  let grow := fun (acc : List String) =>
    (acc ++ ((p.funcs.filter (fun f => acc.contains f.name)).map (fun f => callsB f.body)).flatten).eraseDups
  let called := (List.range (p.funcs.length + 1)).foldl (fun acc _ => grow acc) (callsB p.main).eraseDups
  -- call sites per function (in the main code and in reachable functions): a function with exactly one is inlined there
  let sites := callsB p.main ++ ((p.funcs.filter (fun f => called.contains f.name)).map (fun f => callsB f.body)).flatten
  let inl := if inline then p.funcs.filter (fun f => called.contains f.name && sites.count f.name == 1) else []
  let fsorted := (p.funcs.filter (fun f => called.contains f.name && !(inl.any (·.name == f.name)))).toArray.qsort (fun a b => a.name < b.name) |>.toList
  if !(called.all (fun n => p.funcs.any (·.name == n))) then none else
  let ranks ← fsorted.mapM (fun f => rankOf p.funcs (p.funcs.length + 1) f.name)
  let infos := fsorted.zipIdx.map (fun (f, i) => ({ name := f.name, idx := i, params := f.params, returns := returnsB f.body } : FInfo))
  let asg := assignedB p.main ++ (p.funcs.map (fun f => assignedB f.body)).flatten
  let once := asg.filter (fun x => asg.count x == 1)
  let (fs1, mainCode) ← flatB cf { once := once, funcs := infos, inlineFuncs := inl } p.main
  let (_, procs) ← fsorted.foldlM (fun (acc : FS V × List (CStmt V)) f => do
    let (fsx, b) ← flatFunc cf acc.1 f
    pure (fsx, acc.2 ++ [b])) (fs1, [])
  pure (seqAll mainCode, procs, ranks)

/-! ### canonical form for comparison: registers renamed by first occurrence -/

structure Ren where
  seen : List Nat := []

def Ren.name (r : Ren) (x : Nat) : Ren × Nat :=
  match r.seen.findIdx? (· == x) with
  | some i => (r, i)
  | none => ({ seen := r.seen ++ [x] }, r.seen.length)

def canonOpnd (r : Ren) : Opnd PV.Core.Reg Float → Ren × String
  | .reg x => let (r', i) := r.name x; (r', s!"R{i}")
  | .num v => (r, s!"#{(if v == 0.0 then (0 : UInt64) else v.toBits).toNat}")

def canonInstr (r : Ren) (i : Instr Reg Float) : Ren × String :=
  let kindS := match i.kind with
    | .alu op => "alu:" ++ op | .load q => "load:" ++ q | .store q => "store:" ++ q | .br c => "br:" ++ c | .brr c => "brr:" ++ c
    | .brq q n => s!"brq:{q}:{n}" | .jmp => "jmp" | .jal => "jal" | .push => "push" | .pop => "pop" | .peek => "peek" | .poke => "poke"
    | .getdb => "getdb" | .yield => "yield" | .sleep => "sleep" | .hcf => "hcf" | .nop => "nop" | .bad w => "bad:" ++ w
  -- operands first (they are read before the destination is written), then the destination
  let (r1, args) := i.args.foldl (fun (acc : Ren × List String) o => let (r', s) := canonOpnd acc.1 o; (r', acc.2 ++ [s])) (r, [])
  let (r2, d) := match i.dst with
    | some x => let (r', k) := r1.name x; (r', s!"R{k}")
    | none => (r1, "-")
  (r2, kindS ++ " " ++ d ++ " " ++ " ".intercalate args)

def canon (P : List (Instr Reg Float)) : List String :=
  (P.foldl (fun (acc : Ren × List String) i => let (r', s) := canonInstr acc.1 i; (r', acc.2 ++ [s])) ({}, [])).2

end PV.Flatten
