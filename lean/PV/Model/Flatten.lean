import PV.Model.Core
import PV.Src.Lang
import PV.Gen.Tables
/-
Expression flattening: from the source dialect (`PV.Src`) to the three-address core language (`PV.Core`), the way the
transpiler's front end does it for function-free programs: every compound sub-expression is computed into a fresh
temporary, left operand first; the outermost operation of `x = e` writes into `x`'s register directly; `if` / `while`
tests that are comparisons become the branch itself.  Programs outside the core (`InCore` = `flatten` succeeds) give `none`.
Executable only (part of the tie between the model generator and the real one); the theorem `PV.Core.sim` is about what
comes after this step.  No Mathlib: linked into `pvdrv`.
-/
namespace PV.Flatten
open PV.IC10

structure FS where
  vars : List (String × Nat) := []
  next : Nat := 100
  /-- variables with exactly one assignment in the program: a constant assigned to one of them is propagated, not stored -/
  once : List String := []

def FS.fresh (fs : FS) : FS × Nat := ({ fs with next := fs.next + 1 }, fs.next)

def FS.regOf (fs : FS) (x : String) : FS × Nat :=
  match fs.vars.find? (·.1 == x) with
  | some (_, r) => (fs, r)
  | none => ({ fs with vars := fs.vars ++ [(x, fs.next)], next := fs.next + 1 }, fs.next)

def FS.lookup (fs : FS) (x : String) : Option Nat := (fs.vars.find? (·.1 == x)).map (·.2)

def cmpNames : List String := ["slt", "sgt", "sle", "sge", "seq", "sne"]

def pyOpOfSuffix (suffix : String) : Option String := (PV.Gen.cmpSuffix.find? (·.2 == suffix)).map (·.1)

/-- for the ALU comparison `s‹suffix›`: (suffix, suffix of the negated comparison) from the regenerated tables -/
def branchPair (alu : String) : Option (String × String) :=
  let suffix := String.ofList (alu.toList.drop 1)
  match pyOpOfSuffix suffix with
  | some op => (PV.Gen.negCmpSuffix.find? (·.1 == op)).map (fun p => (suffix, p.2))
  | none => none

/-- every (condition suffix, emitted branch suffix, operand count) the regenerated tables yield: `if a <op> b`, `if not a <op> b`,
    and the truth tests `if x` / `if not x` -/
def branchPairs : List (String × String × Nat) :=
  let plain := PV.Gen.cmpSuffix.filterMap (fun r => (PV.Gen.negCmpSuffix.find? (·.1 == r.1)).map (fun p => (r.2, p.2, 2)))
  -- `if x:` is `beqz x ELSE`, `if not x:` is `bnez x ELSE`
  plain ++ plain.map (fun p => (p.2.1, p.1, 2)) ++ [("nez", "eqz", 1), ("eqz", "nez", 1)]

abbrev CStmt := PV.Core.Stmt
abbrev Reg := PV.Core.Reg

def seqAll {V : Type} : List (CStmt V) → CStmt V
  | [] => PV.Core.Stmt.skip
  | [s] => s
  | s :: rest => PV.Core.Stmt.seq s (seqAll rest)

variable {V : Type}

def isNum : Opnd Reg V → Bool
  | .num _ => true
  | _ => false

mutual
/-- `(state, code, operand)`; `target`: register that receives the outermost operation -/
partial def flatE (zero : V) (negV : V → V) (fs : FS) (target : Option Nat) : PV.Src.Expr V → Option (FS × List (CStmt V) × Opnd Reg V)
  | .num v => some (fs, [], .num v)
  | .gvar x => (fs.lookup x).map (fun r => (fs, [], .reg r))
  | .bin op a b => do
    let (fs1, ca, oa) ← flatE zero negV fs none a
    let (fs2, cb, ob) ← flatE zero negV fs1 none b
    if isNum oa && isNum ob then none else     -- a constant expression is folded by the front end: outside the core
    let (fs3, t) := match target with | some t => (fs2, t) | none => fs2.fresh
    pure (fs3, ca ++ cb ++ [PV.Core.Stmt.alu t op [oa, ob]], .reg t)
  | .un op a => do
    let (fs1, ca, oa) ← flatE zero negV fs none a
    match oa with
    | .num v => if op == "neg" then pure (fs1, ca, .num (negV v)) else none     -- a negated constant is folded by the front end; other constant operations: outside the core
    | _ =>
    let (fs2, t) := match target with | some t => (fs1, t) | none => fs1.fresh
    if op == "neg" then pure (fs2, ca ++ [PV.Core.Stmt.alu t "sub" [.num zero, oa]], .reg t)
    else if op == "not" then pure (fs2, ca ++ [PV.Core.Stmt.alu t "seqz" [oa]], .reg t)
    else pure (fs2, ca ++ [PV.Core.Stmt.alu t op [oa]], .reg t)
  | .read q args => do
    let (fs1, code, os) ← flatArgs zero negV fs args
    let (fs2, t) := match target with | some t => (fs1, t) | none => fs1.fresh
    pure (fs2, code ++ [PV.Core.Stmt.load t q os], .reg t)
  | .ifexp c a b => do
    -- `u if c else v`: test, then both arms, then `select` (the arms of a core program have no effects, so evaluating both is
    -- what evaluating the chosen one is)
    let (fs1, cc, oc) ← flatE zero negV fs none c
    let (fs2, ca, oa) ← flatE zero negV fs1 none a
    let (fs3, cb, ob) ← flatE zero negV fs2 none b
    if isNum oc then none else
    let (fs4, t) := match target with | some t => (fs3, t) | none => fs3.fresh
    -- the front end emits the code of the `else` arm twice (F-C01-h); for the effect-free arms of a core program that is harmless
    pure (fs4, cc ++ ca ++ cb ++ cb ++ [PV.Core.Stmt.alu t "select" [oc, oa, ob]], .reg t)
  | .prim op args => do
    let (fs1, code, os) ← flatArgs zero negV fs args
    if os.all isNum then none   -- constant call: folded by the front end
    let (fs2, t) := match target with | some t => (fs1, t) | none => fs1.fresh
    pure (fs2, code ++ [PV.Core.Stmt.alu t op os], .reg t)
  | _ => none

partial def flatArgs (zero : V) (negV : V → V) (fs : FS) : List (PV.Src.Expr V) → Option (FS × List (CStmt V) × List (Opnd Reg V))
  | [] => some (fs, [], [])
  | e :: es => do
    let (fs1, c1, o1) ← flatE zero negV fs none e
    let (fs2, c2, os) ← flatArgs zero negV fs1 es
    pure (fs2, c1 ++ c2, o1 :: os)
end

/-- a test that is a comparison (possibly under one `not`), or — for `if` only (`truth`) — a variable, a device read or an
    `and` / `or`, tested for being non-zero: (operand code, condition, branch suffix, operands) -/
def flatTest (zero : V) (negV : V → V) (truth : Bool) (fs : FS) : PV.Src.Expr V → Option (FS × List (CStmt V) × String × String × List (Opnd Reg V))
  | .bin op a b =>
    if cmpNames.contains op then do
      let (fs1, ca, oa) ← flatE zero negV fs none a
      let (fs2, cb, ob) ← flatE zero negV fs1 none b
      let (c, neg) ← branchPair op
      if isNum oa && isNum ob then none else
      pure (fs2, ca ++ cb, c, neg, [oa, ob])
    else if truth && (op == "and" || op == "or") then do
      let (fs1, code, o) ← flatE zero negV fs none (.bin op a b)
      pure (fs1, code, "nez", "eqz", [o])           -- `if p and q:` is `beqz t ELSE`
    else none
  | .un "not" (.bin op a b) =>
    if cmpNames.contains op then do
      let (fs1, ca, oa) ← flatE zero negV fs none a
      let (fs2, cb, ob) ← flatE zero negV fs1 none b
      let (c, neg) ← branchPair op
      if isNum oa && isNum ob then none else
      -- the source condition is the negated comparison; the emitted branch uses the plain suffix.  Under `not` the front
      -- end also materialises the comparison into a temporary that nothing reads (the comparison's parent is not the `if`)
      let (fs3, t) := fs2.fresh
      pure (fs3, ca ++ cb ++ [PV.Core.Stmt.alu t op [oa, ob]], neg, c, [oa, ob])
    else if truth && (op == "and" || op == "or") then do
      let (fs1, code, o) ← flatE zero negV fs none (.bin op a b)
      pure (fs1, code, "eqz", "nez", [o])           -- `if not (p and q):` is `bnez t ELSE`
    else none
  | .un "not" (.gvar x) => if truth then (fs.lookup x).map (fun r => (fs, [], "eqz", "nez", [Opnd.reg r])) else none
  | .un "not" (.read q args) => if truth then do
      let (fs1, code, o) ← flatE zero negV fs none (.read q args)
      pure (fs1, code, "eqz", "nez", [o]) else none
  | .gvar x => if truth then (fs.lookup x).map (fun r => (fs, [], "nez", "eqz", [Opnd.reg r])) else none   -- `if x:` is `beqz x ELSE`
  | .read q args => if truth then do
      let (fs1, code, o) ← flatE zero negV fs none (.read q args)
      pure (fs1, code, "nez", "eqz", [o]) else none
  | _ => none

def isOperand : PV.Src.Expr V → Bool
  | .num _ | .gvar _ => true
  | _ => false

mutual
partial def flatS (zero one : V) (negV : V → V) (isOne isNeg : V → Bool) (fs : FS) : PV.Src.Stmt V → Option (FS × List (CStmt V))
  | .gassign x e =>
    match e with
    | .gvar _ => none                            -- `x = y` is aliased by the front end: outside the core
    | _ => do
      let (fs0, rx) := fs.regOf x
      let (fs1, code, o) ← flatE zero negV fs0 (some rx) e
      match o with
      | .num v =>
        -- a constant: `move x c` for a variable that is assigned several times; assigned once: propagated (outside the core)
        if fs.once.contains x then none else pure (fs1, code ++ [PV.Core.Stmt.alu rx "move" [.num v]])
      | _ => pure (fs1, code)
  | .write q args => do
    let (fs1, code, os) ← flatArgs zero negV fs args
    pure (fs1, code ++ [PV.Core.Stmt.store q os])
  | .ite c t e => do
    let (fs1, pre, cnd, neg, os) ← flatTest zero negV true fs c
    let (fs2, ct) ← flatB zero one negV isOne isNeg fs1 t
    if e.isEmpty then pure (fs2, pre ++ [PV.Core.Stmt.ifThen cnd neg os (seqAll ct)])
    else do
      let (fs3, ce) ← flatB zero one negV isOne isNeg fs2 e
      pure (fs3, pre ++ [PV.Core.Stmt.ite cnd neg os (seqAll ct) (seqAll ce)])
  | .while c body =>
    match c with
    | .num v =>
      if isOne v then do
        let (fs1, cb) ← flatB zero one negV isOne isNeg fs body
        pure (fs1, [PV.Core.Stmt.loop (seqAll cb)])
      else none
    | _ => do
      let (fs1, pre, cnd, neg, os) ← flatTest zero negV false fs c
      if !pre.isEmpty then none else do         -- operands of a loop test must be plain operands (re-evaluated each iteration)
        let (fs2, cb) ← flatB zero one negV isOne isNeg fs1 body
        pure (fs2, [PV.Core.Stmt.while cnd neg os (seqAll cb)])
  | .forRange _ x start stop step body => do
    -- `range` arguments are evaluated once, before the loop; the loop variable lives in the iterator's register; the exit
    -- test is `bge` (`ble` for a negative constant step) at the loop label and the increment is the last thing in the body
    let (fs1, c1, o1) ← flatE zero negV fs none start
    let (fs2, c2, o2) ← flatE zero negV fs1 none stop
    let (fs3, c3, o3) ← flatE zero negV fs2 none step
    let (fs4, rx) := fs3.regOf x
    let down := match o3 with | .num v => isNeg v | _ => false
    let (c, neg) := if down then ("gt", "le") else ("lt", "ge")
    let (fs5, cb) ← flatB zero one negV isOne isNeg fs4 body
    pure (fs5, c1 ++ c2 ++ c3 ++ [PV.Core.Stmt.alu rx "move" [o1],
      PV.Core.Stmt.while c neg [.reg rx, o2] (seqAll (cb ++ [PV.Core.Stmt.alu rx "add" [.reg rx, o3]]))])
  | .brk => some (fs, [PV.Core.Stmt.brk])       -- the generator only places these inside `while` loops
  | .cont => some (fs, [PV.Core.Stmt.cont])
  | .yield => some (fs, [PV.Core.Stmt.yield])
  | .sleep e => do
    let (fs1, code, o) ← flatE zero negV fs none e
    pure (fs1, code ++ [PV.Core.Stmt.sleep o])
  | .pass => some (fs, [])
  | _ => none

partial def flatB (zero one : V) (negV : V → V) (isOne isNeg : V → Bool) (fs : FS) : List (PV.Src.Stmt V) → Option (FS × List (CStmt V))
  | [] => some (fs, [])
  | s :: rest => do
    let (fs1, c1) ← flatS zero one negV isOne isNeg fs s
    let (fs2, c2) ← flatB zero one negV isOne isNeg fs1 rest
    pure (fs2, c1 ++ c2)
end

mutual
partial def assignedS : PV.Src.Stmt V → List String
  | .gassign x _ => [x]
  | .lassign x _ => [x]
  | .ite _ t e => assignedB t ++ assignedB e
  | .while _ b => assignedB b
  | .forRange _ x _ _ _ b => x :: assignedB b
  | .forList _ x _ b => x :: assignedB b
  | _ => []
partial def assignedB : List (PV.Src.Stmt V) → List String
  | [] => []
  | s :: r => assignedS s ++ assignedB r
end

/-- the whole (function-free) program -/
def flatten (zero one : V) (negV : V → V) (isOne isNeg : V → Bool) (p : PV.Src.Program V) : Option (CStmt V) :=
  if !p.funcs.isEmpty then none else
  let asg := assignedB p.main
  let once := asg.filter (fun x => asg.count x == 1)
  (flatB zero one negV isOne isNeg { once := once } p.main).map (fun r => seqAll r.2)

/-! ### canonical form for comparison: registers renamed by first occurrence -/

structure Ren where
  seen : List Nat := []

def Ren.name (r : Ren) (x : Nat) : Ren × Nat :=
  match r.seen.findIdx? (· == x) with
  | some i => (r, i)
  | none => ({ seen := r.seen ++ [x] }, r.seen.length)

def canonOpnd (r : Ren) : Opnd PV.Core.Reg Float → Ren × String
  | .reg x => let (r', i) := r.name x; (r', s!"R{i}")
  | .num v => (r, s!"#{(if v == 0.0 then (0 : UInt64) else v.toBits).toNat}")

def canonInstr (r : Ren) (i : Instr Reg Float) : Ren × String :=
  let kindS := match i.kind with
    | .alu op => "alu:" ++ op | .load q => "load:" ++ q | .store q => "store:" ++ q | .br c => "br:" ++ c | .brr c => "brr:" ++ c
    | .brq q n => s!"brq:{q}:{n}" | .jmp => "jmp" | .jal => "jal" | .push => "push" | .pop => "pop" | .peek => "peek" | .poke => "poke"
    | .getdb => "getdb" | .yield => "yield" | .sleep => "sleep" | .hcf => "hcf" | .nop => "nop" | .bad w => "bad:" ++ w
  -- operands first (they are read before the destination is written), then the destination
  let (r1, args) := i.args.foldl (fun (acc : Ren × List String) o => let (r', s) := canonOpnd acc.1 o; (r', acc.2 ++ [s])) (r, [])
  let (r2, d) := match i.dst with
    | some x => let (r', k) := r1.name x; (r', s!"R{k}")
    | none => (r1, "-")
  (r2, kindS ++ " " ++ d ++ " " ++ " ".intercalate args)

def canon (P : List (Instr Reg Float)) : List String :=
  (P.foldl (fun (acc : Ren × List String) i => let (r', s) := canonInstr acc.1 i; (r', acc.2 ++ [s])) ({}, [])).2

end PV.Flatten
