import PV.Base.PyExpr
/-
Evaluation of the folder's lambdas (`utils.get_binop_instruction` / `get_unop_instruction`, regenerated as `PyExpr` terms)
with Python's semantics, and the meaning of the IC10 opcodes they are paired with — both over the integers (the range where
IC10 semantics are unambiguous: whole numbers below 2^53).  Division, powers and math functions need binary64 and are
compared on the running interpreter only (harness).  No Mathlib: linked into `pvdrv`.
-/
namespace PV.Fold

inductive PyVal where
  | int (n : Int)
  | bool (b : Bool)
  deriving Repr, DecidableEq

def PyVal.num : PyVal → Int
  | .int n => n
  | .bool b => if b then 1 else 0

def PyVal.truthy : PyVal → Bool
  | .int n => n != 0
  | .bool b => b

/-- bitwise operations on whole numbers through 64-bit two's complement (Python's unbounded integers and the chip's 64-bit
    conversion coincide for the values below 2^53 the property speaks about) -/
def band (a b : Int) : Int := ((BitVec.ofInt 64 a) &&& (BitVec.ofInt 64 b)).toInt
def bor (a b : Int) : Int := ((BitVec.ofInt 64 a) ||| (BitVec.ofInt 64 b)).toInt
def bxor (a b : Int) : Int := ((BitVec.ofInt 64 a) ^^^ (BitVec.ofInt 64 b)).toInt

def eqB (x y : Int) : Bool := decide (x = y)
def neB (x y : Int) : Bool := !decide (x = y)
def ltB (x y : Int) : Bool := decide (x < y)
def leB (x y : Int) : Bool := decide (x ≤ y)
def gtB (x y : Int) : Bool := decide (y < x)
def geB (x y : Int) : Bool := decide (y ≤ x)

/-- Python evaluation of a lambda body on integer arguments; `none` = raises / not an integer operation -/
def pyEval (args : List Int) : PyExpr → Option PyVal
  | .param i => (args[i]?).map .int
  | .constBits _ => none
  | .e x => (pyEval args x).map (fun v => .int v.num)          -- `_e`: float(value); bools become numbers
  | .int x => (pyEval args x).map (fun v => .int v.num)        -- int(): identity on whole numbers
  | .float x => (pyEval args x).map (fun v => .int v.num)
  | .bool x => (pyEval args x).map (fun v => .bool v.truthy)
  | .bin op a b =>
    match pyEval args a, pyEval args b with
    | some va, some vb =>
      let x := va.num
      let y := vb.num
      match op with
      | "add" => some (.int (x + y))
      | "sub" => some (.int (x - y))
      | "mul" => some (.int (x * y))
      | "mod" => if y = 0 then none else some (.int (Int.fmod x y))      -- Python %: sign of the divisor
      | "bxor" => some (.int (bxor x y))
      | "band" => some (.int (band x y))
      | "bor" => some (.int (bor x y))
      | "shl" => if y < 0 then none else some (.int (x <<< y.toNat))
      | "shr" => if y < 0 then none else some (.int (x >>> y.toNat))
      | _ => none                                                       -- div, pow: binary64 (differential only)
    | _, _ => none
  | .boolop op a b =>
    match pyEval args a, pyEval args b with
    | some va, some vb =>
      match op with
      | "and" => some (if va.truthy then vb else va)
      | "or" => some (if va.truthy then va else vb)
      | _ => none
    | _, _ => none
  | .cmp op a b =>
    match pyEval args a, pyEval args b with
    | some va, some vb =>
      let x := va.num
      let y := vb.num
      match op with
      | "eq" => some (.bool (eqB x y))
      | "ne" => some (.bool (neB x y))
      | "lt" => some (.bool (ltB x y))
      | "le" => some (.bool (leB x y))
      | "gt" => some (.bool (gtB x y))
      | "ge" => some (.bool (geB x y))
      | _ => none
    | _, _ => none
  | .un op a =>
    match pyEval args a with
    | some va =>
      match op with
      | "neg" => some (.int (- va.num))
      | "not" => some (.bool (!va.truthy))
      | _ => none                                                       -- invert: `~float` raises TypeError
    | none => none

def b2i (b : Bool) : Int := if b then 1 else 0

/-- meaning of the IC10 opcodes on whole numbers (trusted specification, the integer image of `PV.IC10.FloatSem.alu`) -/
def icAlu (op : String) (vs : List Int) : Option Int :=
  match op, vs with
  | "add", [a, b] => some (a + b)
  | "sub", [a, b] => some (a - b)
  | "mul", [a, b] => some (a * b)
  | "mod", [a, b] => if b = 0 then none else some (if Int.tmod a b < 0 then Int.tmod a b + b else Int.tmod a b)
  | "and", [a, b] => some (band a b)
  | "or", [a, b] => some (bor a b)
  | "xor", [a, b] => some (bxor a b)
  | "sll", [a, b] => if b < 0 then none else some (a <<< b.toNat)
  | "srl", [a, b] => if b < 0 ∨ a < 0 then none else some (a >>> b.toNat)
  | "seq", [a, b] => some (b2i (eqB a b))
  | "sne", [a, b] => some (b2i (neB a b))
  | "slt", [a, b] => some (b2i (ltB a b))
  | "sle", [a, b] => some (b2i (leB a b))
  | "sgt", [a, b] => some (b2i (gtB a b))
  | "sge", [a, b] => some (b2i (geB a b))
  | "seqz", [a] => some (b2i (eqB a 0))
  | _, _ => none

/-- how the unary operators are emitted: `-x` as `sub 0 x`, the others as `op x` -/
def icUnop (opcode : String) (a : Int) : Option Int :=
  if opcode = "sub" then icAlu "sub" [0, a] else icAlu opcode [a]

/-- the operator table the theorems are proved about: what `utils.py` must say (hand-written; the regenerated table is
    compared with it by `decide`) -/
def specBinops : List (String × String × PyExpr) := [
  ("+", "add", (.bin "add" (.e (.param 0)) (.e (.param 1)))),
  ("-", "sub", (.bin "sub" (.e (.param 0)) (.e (.param 1)))),
  ("*", "mul", (.bin "mul" (.e (.param 0)) (.e (.param 1)))),
  ("/", "div", (.bin "div" (.e (.param 0)) (.e (.param 1)))),
  ("%", "mod", (.bin "mod" (.e (.param 0)) (.e (.param 1)))),
  ("**", "pow", (.bin "pow" (.e (.param 0)) (.e (.param 1)))),
  ("and", "and", (.boolop "and" (.e (.param 0)) (.e (.param 1)))),
  ("or", "or", (.boolop "or" (.e (.param 0)) (.e (.param 1)))),
  ("^", "xor", (.bin "bxor" (.int (.e (.param 0))) (.int (.e (.param 1))))),
  ("&", "and", (.bin "band" (.int (.e (.param 0))) (.int (.e (.param 1))))),
  (">>", "srl", (.bin "shr" (.int (.e (.param 0))) (.int (.e (.param 1))))),
  ("<<", "sll", (.bin "shl" (.int (.e (.param 0))) (.int (.e (.param 1))))),
  ("==", "seq", (.cmp "eq" (.param 0) (.param 1))),
  ("!=", "sne", (.cmp "ne" (.param 0) (.param 1))),
  ("<", "slt", (.cmp "lt" (.e (.param 0)) (.e (.param 1)))),
  (">", "sgt", (.cmp "gt" (.e (.param 0)) (.e (.param 1)))),
  ("<=", "sle", (.cmp "le" (.e (.param 0)) (.e (.param 1)))),
  (">=", "sge", (.cmp "ge" (.e (.param 0)) (.e (.param 1))))]

def specUnops : List (String × String × PyExpr) := [
  ("-", "sub", (.un "neg" (.e (.param 0)))),
  ("~", "neg", (.un "invert" (.e (.param 0)))),
  ("not", "seqz", (.un "not" (.e (.param 0))))]

/-- rows whose folded value is an exact integer operation with the same meaning as the paired opcode for ALL operands
    (under the guard of `Guard`) -/
def agreeing : List String := ["+", "-", "*", "%", "^", "&", ">>", "<<", "==", "!=", "<", ">", "<=", ">="]

/-- the range where IC10 semantics are unambiguous -/
def Guard (op : String) (a b : Int) : Prop :=
  (op = "%" → 0 < b) ∧ (op = "<<" → 0 ≤ b) ∧ (op = ">>" → 0 ≤ b ∧ 0 ≤ a)

end PV.Fold
