import PV.Model.Flatten
/-
The PROVED part of the front end: expression flattening for function-free programs, written by structural recursion so that
theorems can be stated about it (`PV.Flatten` is a larger, unproved model written with `partial def`).

`Front.flatten` covers: numbers, global variables, binary / unary operators, device reads, intrinsics, own-stack reads,
conditional expressions (arms without own-stack reads);
assignments of such expressions, device writes, own-stack writes, `if` / `else` on a comparison or on a variable,
`while` on a comparison of plain operands, `while True`, `break`, `continue`, `yield`, `sleep`, `pass`.  On every program
inside this fragment it is meant to yield exactly what `PV.Flatten.flatten` yields (checked per program by the driver: `front` in
`core-compare`); `PV/Proofs/Front.lean` proves that the result has the effect trace of the source under `PV.Src`.
Executable, no Mathlib: linked into `pvdrv`.
-/
namespace PV.Front
open PV.IC10
open PV.Flatten (Cfg CStmt Reg seqAll cmpNames branchPair)

structure FS where
  vars : List (String × Nat) := []
  next : Nat := 100

def FS.lookup (fs : FS) (x : String) : Option Nat := (fs.vars.find? (·.1 == x)).map (·.2)
def FS.fresh (fs : FS) : FS × Nat := ({ fs with next := fs.next + 1 }, fs.next)
def FS.regOf (fs : FS) (x : String) : FS × Nat :=
  match fs.lookup x with
  | some r => (fs, r)
  | none => ({ vars := fs.vars ++ [(x, fs.next)], next := fs.next + 1 }, fs.next)
/-- the register that receives the outermost operation: the assignment's target, or a fresh temporary -/
def FS.pick (fs : FS) : Option Nat → FS × Nat
  | some t => (fs, t)
  | none => fs.fresh

variable {V : Type}

/-- a literal of the source text (folded by the front end) -/
def isLit : PV.Src.Expr V → Bool
  | .num _ => true
  | .un op a => op == "neg" && isLit a
  | _ => false

def allLit : List (PV.Src.Expr V) → Bool
  | [] => true
  | e :: es => isLit e && allLit es

mutual
/-- no own-stack read inside (such an expression can always be evaluated: the arms of a conditional expression are both run) -/
def noSget : PV.Src.Expr V → Bool
  | .sget _ => false
  | .bin _ a b => noSget a && noSget b
  | .un _ a => noSget a
  | .read _ args => noSgetL args
  | .prim _ args => noSgetL args
  | .ifexp c a b => noSget c && noSget a && noSget b
  | .num _ => true
  | .gvar _ => true
  | .lvar _ => true
  | .index _ _ => false
  | .call _ _ => false
def noSgetL : List (PV.Src.Expr V) → Bool
  | [] => true
  | e :: es => noSget e && noSgetL es
end

mutual
/-- `(state, code, operand)`; `target`: register that receives the outermost operation -/
def flatE (cf : Cfg V) (fs : FS) (target : Option Nat) : PV.Src.Expr V → Option (FS × List (CStmt V) × Opnd Reg V)
  | .num v => some (fs, [], .num v)
  | .gvar x =>
    match fs.lookup x with
    | some r => some (fs, [], .reg r)
    | none => none
  | .bin op a b =>
    match flatE cf fs none a with
    | none => none
    | some (fs1, ca, oa) =>
      match flatE cf fs1 none b with
      | none => none
      | some (fs2, cb, ob) =>
        if isLit a && isLit b then none else
        some ((fs2.pick target).1, ca ++ cb ++ [PV.Core.Stmt.alu (fs2.pick target).2 op [oa, ob]], .reg (fs2.pick target).2)
  | .un op a =>
    match flatE cf fs none a with
    | none => none
    | some (fs1, ca, oa) =>
      if isLit a then
        match oa with
        | .num v => if op == "neg" then some (fs1, ca, .num (cf.negV v)) else none
        | .reg _ => none
      else
        let t := (fs1.pick target).2
        some ((fs1.pick target).1,
          ca ++ [if op == "neg" then PV.Core.Stmt.alu t "sub" [(.num cf.zero), oa]
                 else if op == "not" then PV.Core.Stmt.alu t "seqz" [oa] else PV.Core.Stmt.alu t op [oa]], .reg t)
  | .read q args =>
    match flatArgs cf fs args with
    | none => none
    | some (fs1, code, os) => some ((fs1.pick target).1, code ++ [PV.Core.Stmt.load (fs1.pick target).2 q os], .reg (fs1.pick target).2)
  | .prim op args =>
    match flatArgs cf fs args with
    | none => none
    | some (fs1, code, os) =>
      if allLit args then none else
      some ((fs1.pick target).1, code ++ [PV.Core.Stmt.alu (fs1.pick target).2 op os], .reg (fs1.pick target).2)
  | .sget a =>
    match flatE cf fs none a with
    | none => none
    | some (fs1, ca, oa) => some ((fs1.pick target).1, ca ++ [PV.Core.Stmt.getm (fs1.pick target).2 oa], .reg (fs1.pick target).2)
  | .ifexp c a b =>
    -- `u if c else v`: test, then both arms (the front end emits the code of the `else` arm twice, F-C01-h), then `select`
    match flatE cf fs none c with
    | none => none
    | some (fs1, cc, oc) =>
      match flatE cf fs1 none a with
      | none => none
      | some (fs2, ca, oa) =>
        match flatE cf fs2 none b with
        | none => none
        | some (fs3, cb, ob) =>
          if isLit c || !(noSget a && noSget b) then none else
          some ((fs3.pick target).1, cc ++ ca ++ cb ++ cb ++ [PV.Core.Stmt.alu (fs3.pick target).2 "select" [oc, oa, ob]], .reg (fs3.pick target).2)
  | .lvar _ => none
  | .index _ _ => none
  | .call _ _ => none

def flatArgs (cf : Cfg V) (fs : FS) : List (PV.Src.Expr V) → Option (FS × List (CStmt V) × List (Opnd Reg V))
  | [] => some (fs, [], [])
  | e :: es =>
    match flatE cf fs none e with
    | none => none
    | some (fs1, c1, o1) =>
      match flatArgs cf fs1 es with
      | none => none
      | some (fs2, c2, os) => some (fs2, c1 ++ c2, o1 :: os)
end

/-- a test: a comparison, or (for `if` only, `truth`) a variable, a device read or an `and` / `or`, possibly under `not`, tested
    for being non-zero:
    (operand code, condition, branch suffix, operands) -/
def flatTest (cf : Cfg V) (truth : Bool) (fs : FS) : PV.Src.Expr V → Option (FS × List (CStmt V) × String × String × List (Opnd Reg V))
  | .bin op a b =>
    if cmpNames.contains op then
      match flatE cf fs none a with
      | none => none
      | some (fs1, ca, oa) =>
        match flatE cf fs1 none b with
        | none => none
        | some (fs2, cb, ob) =>
          match branchPair op with
          | none => none
          | some (c, neg) => if isLit a && isLit b then none else some (fs2, ca ++ cb, c, neg, [oa, ob])
    else if truth && (op == "and" || op == "or") then
      -- `if p and q:` — the value is computed, then tested for being non-zero (`beqz t ELSE`)
      match flatE cf fs none (.bin op a b) with
      | none => none
      | some (fs1, code, o) => some (fs1, code, "nez", "eqz", [o])
    else none
  | .read q args =>
    if truth then
      match flatE cf fs none (.read q args) with
      | none => none
      | some (fs1, code, o) => some (fs1, code, "nez", "eqz", [o])
    else none
  | .un op e =>
    -- `if not x:` / `if not <device read>:` / `if not (p and q):` — `bnez … ELSE`
    if truth && op == "not" then
      match e with
      | .gvar x =>
        match fs.lookup x with
        | some r => some (fs, [], "eqz", "nez", [Opnd.reg r])
        | none => none
      | .read q args =>
        match flatE cf fs none (.read q args) with
        | none => none
        | some (fs1, code, o) => some (fs1, code, "eqz", "nez", [o])
      | .bin op2 a b =>
        if op2 == "and" || op2 == "or" then
          match flatE cf fs none (.bin op2 a b) with
          | none => none
          | some (fs1, code, o) => some (fs1, code, "eqz", "nez", [o])
        else none
      | _ => none
    else none
  | .gvar x =>
    if truth then
      match fs.lookup x with
      | some r => some (fs, [], "nez", "eqz", [Opnd.reg r])
      | none => none
    else none
  | _ => none

mutual
def flatS (cf : Cfg V) (once : List String) (fs : FS) : PV.Src.Stmt V → Option (FS × List (CStmt V))
  | .gassign x e =>
    match e with
    | .gvar _ => none                            -- `x = y` is aliased by the front end: outside
    | _ =>
      match flatE cf (fs.regOf x).1 (some (fs.regOf x).2) e with
      | none => none
      | some (fs1, code, o) =>
        match o with
        | .num v => if once.contains x then none else some (fs1, code ++ [PV.Core.Stmt.alu (fs.regOf x).2 "move" [.num v]])
        | .reg r => if r = (fs.regOf x).2 then some (fs1, code) else none
  | .write q args =>
    match flatArgs cf fs args with
    | none => none
    | some (fs1, code, os) => some (fs1, code ++ [PV.Core.Stmt.store q os])
  | .sput a v =>
    match flatE cf fs none a with
    | none => none
    | some (fs1, ca, oa) =>
      match flatE cf fs1 none v with
      | none => none
      | some (fs2, cv, ov) => some (fs2, ca ++ cv ++ [PV.Core.Stmt.putm oa ov])
  | .ite c t e =>
    match flatTest cf true fs c with
    | none => none
    | some (fs1, pre, cnd, neg, os) =>
      match flatB cf once fs1 t with
      | none => none
      | some (fs2, ct) =>
        if e.isEmpty then some (fs2, pre ++ [PV.Core.Stmt.ifThen cnd neg os (seqAll ct)])
        else
          match flatB cf once fs2 e with
          | none => none
          | some (fs3, ce) => some (fs3, pre ++ [PV.Core.Stmt.ite cnd neg os (seqAll ct) (seqAll ce)])
  | .while c body =>
    match c with
    | .num v =>
      if cf.isOne v then
        match flatB cf once fs body with
        | none => none
        | some (fs1, cb) => some (fs1, [PV.Core.Stmt.loop (seqAll cb)])
      else none
    | _ =>
      match flatTest cf false fs c with
      | none => none
      | some (fs1, pre, cnd, neg, os) =>
        if !pre.isEmpty then none else
          match flatB cf once fs1 body with
          | none => none
          | some (fs2, cb) => some (fs2, [PV.Core.Stmt.while cnd neg os (seqAll cb)])
  | .brk => some (fs, [PV.Core.Stmt.brk])
  | .cont => some (fs, [PV.Core.Stmt.cont])
  | .yield => some (fs, [PV.Core.Stmt.yield])
  | .sleep e =>
    match flatE cf fs none e with
    | none => none
    | some (fs1, code, o) => some (fs1, code ++ [PV.Core.Stmt.sleep o])
  | .pass => some (fs, [])
  | .lassign _ _ => none
  | .forRange _ _ _ _ _ _ => none
  | .forList _ _ _ _ => none
  | .ret _ => none
  | .expr _ => none
  | .hcf => none
  | .push _ => none

def flatB (cf : Cfg V) (once : List String) (fs : FS) : List (PV.Src.Stmt V) → Option (FS × List (CStmt V))
  | [] => some (fs, [])
  | s :: rest =>
    match flatS cf once fs s with
    | none => none
    | some (fs1, c1) =>
      match flatB cf once fs1 rest with
      | none => none
      | some (fs2, c2) => some (fs2, c1 ++ c2)
end

-- names assigned by a block (with multiplicity)
mutual
def assignedS : PV.Src.Stmt V → List String
  | .gassign x _ => [x]
  | .lassign x _ => [x]
  | .ite _ t e => assignedB t ++ assignedB e
  | .while _ b => assignedB b
  | .forRange _ x _ _ _ b => x :: assignedB b
  | .forList _ x _ b => x :: assignedB b
  | _ => []
def assignedB : List (PV.Src.Stmt V) → List String
  | [] => []
  | s :: r => assignedS s ++ assignedB r
end

/-- a function-free program inside the fragment: its core form -/
def flatten (cf : Cfg V) (p : PV.Src.Program V) : Option (CStmt V) :=
  if !p.funcs.isEmpty then none else
  let asg := assignedB p.main
  let once := asg.filter (fun x => asg.count x == 1)
  match flatB cf once {} p.main with
  | none => none
  | some (_, code) => some (seqAll code)

end PV.Front
