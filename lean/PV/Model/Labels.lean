/-
Labels of an emitted program and their removal (C05).  A program is a list of lines; a line is a label
definition or an instruction given by its tokens (opcode first).  `specRemove` is the declarative meaning of
"the output with labels removed": drop the label lines and replace every operand that is a label by the
index of the instruction that follows the label.  No imports: linked into `pvdrv`.
-/
namespace PV.Labels

inductive Line where
  | label (name : String)
  | instr (toks : List String)
  deriving Repr, DecidableEq

def Line.isInstr : Line → Bool
  | .instr _ => true
  | .label _ => false

/-- number of instruction lines -/
def countInstrs : List Line → Nat
  | [] => 0
  | .instr _ :: rest => countInstrs rest + 1
  | .label _ :: rest => countInstrs rest

/-- index (among instructions) of the instruction that follows the first definition of `l`; `base` = instructions seen so far -/
def labelIndexFrom (l : String) : List Line → Nat → Option Nat
  | [], _ => none
  | .label n :: rest, base => if n = l then some base else labelIndexFrom l rest base
  | .instr _ :: rest, base => labelIndexFrom l rest (base + 1)

def labelIndex (p : List Line) (l : String) : Option Nat := labelIndexFrom l p 0

/-- how often `l` is defined -/
def defCount (l : String) : List Line → Nat
  | [] => 0
  | .label n :: rest => (if n = l then 1 else 0) + defCount l rest
  | .instr _ :: rest => defCount l rest

def substTok (p : List Line) (tok : String) : String :=
  match labelIndex p tok with
  | some n => toString n
  | none => tok

/-- operands (all tokens after the opcode) that are labels become line numbers -/
def substInstr (p : List Line) : List String → List String
  | [] => []
  | op :: args => op :: args.map (substTok p)

/-- the program with labels removed -/
def specRemoveAux (p : List Line) : List Line → List (List String)
  | [] => []
  | .label _ :: rest => specRemoveAux p rest
  | .instr toks :: rest => substInstr p toks :: specRemoveAux p rest

def specRemove (p : List Line) : List (List String) := specRemoveAux p p

/-- labels referenced by the operands of jump-type instructions: last operand of `j`/`jal`/`b…`, and any operand that is a defined label -/
def referenced (p : List Line) : List String :=
  p.flatMap (fun ln => match ln with
    | .instr (_ :: args) => args.filter (fun a => (labelIndex p a).isSome)
    | _ => [])

end PV.Labels
