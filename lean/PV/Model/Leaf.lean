import PV.Model.Cfg
/-
C06, leaf functions: a static check of a function body that calls nothing.

`checkLeaf P lo hi` accepts the lines `lo … hi-1` when none of them is a `jal`, none writes `ra`, and each either is the
return `j ra` or has static successors that all lie inside the body.  `PV/Proofs/Leaf.lean` proves that the only way out of
such a body is the return to the address `ra` held on entry.  Executable, no Mathlib: linked into `pvdrv`.
-/
namespace PV.Leaf
open PV.IC10

section
variable {R V : Type} [DecidableEq R] [Special R]

/-- the return instruction `j ra` -/
def isRet (i : Instr R V) : Bool :=
  i.kind == .jmp && (match i.args with | [.reg r] => decide (r = Special.ra) | _ => false)

def inside (lo hi t : Nat) : Bool := decide (lo ≤ t) && decide (t < hi)

def lineOk (sem : Sem V) (lo hi pc : Nat) (i : Instr R V) : Bool :=
  i.kind != .jal && i.dst != some Special.ra &&
  (isRet i || match PV.Cfg.succs sem pc i with
    | some l => l.all (inside lo hi)
    | none => false)

def checkLeaf (sem : Sem V) (P : List (Instr R V)) (lo hi : Nat) : Bool :=
  (List.range (hi - lo)).all (fun d => match P[lo + d]? with
    | some i => lineOk sem lo hi (lo + d) i
    | none => false)

end
end PV.Leaf
