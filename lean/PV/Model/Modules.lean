/-
Naming of scopes for programs split over library modules (C13): `utils.get_scope_name` yields "<module>" for module-level
names and "<module>.<function>" inside functions ("" / "<function>" for the main file); the symbol tables are keyed by
(scope, name); labels of functions are the scope-qualified name with "_" replaced by "."; `__name__` is the head of the
scope, or "__main__" for the main file.  No imports.
-/
namespace PV.Modules

/-- scope key of a name defined in module `m` (main file: the empty name), at module level or inside function `f` -/
def scopeKey (m : List Char) (f : Option (List Char)) : List Char :=
  match f with
  | none => m
  | some fn => if m.isEmpty then fn else m ++ '.' :: fn

/-- the value `__name__` folds to inside scope `key` -/
def nameConst (key : List Char) : List Char :=
  let head := key.takeWhile (· ≠ '.')
  if head.isEmpty then "__main__".toList else head

/-- label of a function: scope-qualified name, "_" → "." -/
def mangle (qualified : List Char) : List Char := qualified.map (fun c => if c = '_' then '.' else c)

def dotFree (s : List Char) : Prop := ∀ c ∈ s, c ≠ '.'

end PV.Modules
