import PV.Base.PyStr
import PV.Gen.Options
/-
Model of the `# pytrapic:` directive scanner at the head of `compiler.compile_code`
(compiler.py, the loop over `main_module.splitlines()`), statement for statement.

Options are an association list in field order (`Gen.optionFields` gives names and defaults).
-/
namespace PV.Pragma
open PV.PyStr

abbrev Name := List Char
abbrev Opts := List (Name × Bool)

def defaults : Opts := PV.Gen.optionFields.map (fun (n, b) => (n.toList, b))

/-- `setattr(options, name, v)` guarded by `name in options.__dataclass_fields__` -/
def setOpt (o : Opts) (name : Name) (v : Bool) : Opts :=
  o.map (fun (n, b) => if n = name then (n, v) else (n, b))

def lookup (o : Opts) (name : Name) : Option Bool :=
  (o.find? (fun p => p.1 = name)).map (·.2)

def marker : List Char := "pytrapic:".toList
def noPrefix : List Char := "no_".toList

/-- one comma-separated tag ↦ (option name, value):
    `tag = tag.strip().replace("-", "_"); value = not tag.startswith("no_"); if not value: tag = tag[3:].strip()` -/
def directiveOfTag (tag : List Char) : Name × Bool :=
  let t := replaceChar '-' '_' (strip tag)
  if startsWith t noPrefix then (strip (t.drop 3), false) else (t, true)

/-- the directives carried by one source line, in order (empty for lines that are not directive lines) -/
def lineDirectives (line : List Char) : List (Name × Bool) :=
  if !contains line marker then [] else
  let l := strip line
  if !startsWith l ['#'] then [] else
  match splitOnce ['#'] l [] with
  | [_, rest] =>
    match splitOnce marker rest [] with
    | [_, tags] => (splitChar ',' (strip tags) []).map directiveOfTag
    | _ => []
  | _ => []

/-- all directives of a source text, in application order -/
def directives (src : List Char) : List (Name × Bool) :=
  if !contains src marker then [] else (splitlines src).flatMap lineDirectives

def applyAll (ds : List (Name × Bool)) (o : Opts) : Opts :=
  ds.foldl (fun acc d => setOpt acc d.1 d.2) o

/-- the options `compile_code(src, o)` hands to the compiler -/
def scan (src : List Char) (o : Opts) : Opts := applyAll (directives src) o

end PV.Pragma
