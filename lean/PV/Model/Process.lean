/-
Model of the long-lived compiler process (C11): the module-level cells that survive a call of `compile_code`
  * the output mode (`utils._output_mode`) — set from the options at the start of every call,
  * the constexpr memo (`utils._eval_constexpr_cache`) — keyed by the whole evaluation script,
  * the prefab hash set (`utils._all_hashes`) — filled on first use from a constant,
and a compilation as an uninterpreted function of (source, options, output mode, evaluator, hash set).
No imports.
-/
namespace PV.Process

/-- everything the model does not look into -/
structure Sys where
  Src : Type
  Opts : Type
  Res : Type
  Key : Type
  Val : Type
  [decKey : DecidableEq Key]
  /-- the directive scanner (C15) -/
  scan : Src → Opts → Opts
  compact : Opts → Bool
  /-- the passes: result and the constexpr scripts they asked for, given the mode, an evaluator and the hash set -/
  core : Src → Opts → Bool → (Key → Val) → List Int → Res × List Key
  /-- evaluating a constexpr script in a fresh interpreter (deterministic) -/
  pyEval : Key → Val
  /-- the prefab hashes (a constant of the installed package) -/
  allHashes : List Int

attribute [instance] Sys.decKey

structure G (S : Sys) where
  mode : Bool
  cache : List (S.Key × S.Val)
  hashes : Option (List Int)

def lookup {S : Sys} (cache : List (S.Key × S.Val)) (k : S.Key) : Option S.Val :=
  (cache.find? (fun p => p.1 == k)).map (·.2)

/-- the evaluator a compilation sees: the memo first, a fresh evaluation otherwise -/
def evalM {S : Sys} (g : G S) (k : S.Key) : S.Val :=
  match lookup g.cache k with
  | some v => v
  | none => S.pyEval k

/-- one `compile_code(src, opts)` in a process whose cells are `g` -/
def step {S : Sys} (g : G S) (req : S.Src × S.Opts) : G S × S.Res :=
  let opts := S.scan req.1 req.2
  let mode := S.compact opts                               -- set_output_mode(…)
  let hashes := g.hashes.getD S.allHashes                  -- filled lazily, always from the same constant
  let (res, asked) := S.core req.1 opts mode (evalM g) hashes
  let cache := g.cache ++ (asked.filter (fun k => (lookup g.cache k).isNone)).map (fun k => (k, S.pyEval k))
  ({ mode := mode, cache := cache, hashes := some hashes }, res)

def runAll {S : Sys} (g : G S) : List (S.Src × S.Opts) → G S × List S.Res
  | [] => (g, [])
  | r :: rest =>
    let (g1, x) := step g r
    let (g2, xs) := runAll g1 rest
    (g2, x :: xs)

/-- a fresh process -/
def G.fresh (S : Sys) (mode : Bool) : G S := { mode := mode, cache := [], hashes := none }

/-- the result of a request in a fresh process -/
def freshResult (S : Sys) (req : S.Src × S.Opts) : S.Res := (step (G.fresh S false) req).2

end PV.Process
