/-
Model of `FunctionData.add_ra_instructions` (compile_pass.py): where `push ra` / `pop ra` are inserted into the code of a
function that both calls and returns.  Instructions are (opcode, inputs, output) triples of strings.  No imports.
-/
namespace PV.RaInsert

structure Ins where
  op : String
  ins : List String
  out : Option String
  deriving Repr, DecidableEq

def pushRa : Ins := ⟨"push", ["ra"], none⟩
def popRa : Ins := ⟨"pop", [], some "ra"⟩

def isCall (i : Ins) : Bool := i.op.endsWith "al"
def isReturn (i : Ins) : Bool := i.op == "j" && i.ins.head? == some "ra"
def isEndLabel (name : String) (i : Ins) : Bool := i.op.endsWith (name ++ "end:")

/-- index of the last element satisfying `p` -/
def lastIdx {α : Type} (p : α → Bool) : List α → Option Nat
  | [] => none
  | x :: xs => match lastIdx p xs with
    | some k => some (k + 1)
    | none => if p x then some 0 else none

/-- fixed-slot convention: `push ra` after the function label, `pop ra` after the end label -/
def addRaFixed (name : String) (code : List Ins) : List Ins :=
  if code.any isCall && code.any isReturn then
    match lastIdx (isEndLabel name) code with
    | some e => (code.insertIdx 1 pushRa).insertIdx (e + 2) popRa
    | none => code.insertIdx 1 pushRa      -- (the real code raises TypeError here; functions always carry their end label)
  else code

/-- push/pop convention -/
def leadingArgPops : List Ins → Nat
  | i :: rest => if i.op == "pop" && i.out.isSome then leadingArgPops rest + 1 else 0
  | [] => 0

def exitPoints (name : String) (code : List Ins) : List Nat :=
  (code.zipIdx.filter (fun (i, _) => (i.op == "j" && i.ins.head? == some (name ++ "end")) || i.op == name ++ "end:")).map (·.2)

def popPositions (code : List Ins) (exits : List Nat) : List Nat :=
  (exits.map (fun pos => if pos > 0 && (code[pos - 1]?.map (·.op)) == some "push" then pos - 1 else pos)).eraseDups

/-- insert at the given positions, highest first -/
def insertAll (code : List Ins) (inserts : List (Nat × Ins)) : List Ins :=
  let sorted := inserts.mergeSort (fun a b => a.1 ≥ b.1)
  sorted.foldl (fun c (pos, i) => c.insertIdx pos i) code

def addRaPushPop (name : String) (code : List Ins) : List Ins :=
  if code.any isCall && code.any isReturn then
    let nArgs := leadingArgPops (code.drop 1)
    let pops := popPositions code (exitPoints name code)
    insertAll code ((1 + nArgs, pushRa) :: pops.map (fun p => (p, popRa)))
  else code

def addRa (name : String) (pushPop : Bool) (code : List Ins) : List Ins :=
  if pushPop then addRaPushPop name code else addRaFixed name code

end PV.RaInsert
