/-
Model of `register_assignment.assign_colors`: linear-scan colouring of line intervals `[start, stop)`.
  symbols sorted by start (stable); intervals that ended (`stop ≤ start`) are expired and their colours appended to the
  free list in the order of the active list; the new symbol takes the LAST free colour, else a fresh one.
No imports: linked into `pvdrv`.
-/
namespace PV.RegAlloc

/-- an interval `(start, stop)`, meaning the lines `start ≤ line < stop` -/
abbrev Iv := Nat × Nat

structure St where
  /-- `(stop, colour)` of the intervals still active, in insertion order -/
  active : List (Nat × Nat)
  free : List Nat
  next : Nat
  deriving Repr

def St.init : St := ⟨[], [], 0⟩

def stepSym (st : St) (s : Iv) : St × Nat :=
  let still := st.active.filter (fun p => !(decide (p.1 ≤ s.1)))
  let free := st.free ++ (st.active.filter (fun p => decide (p.1 ≤ s.1))).map (·.2)
  match free.getLast? with
  | some c => ({ active := still ++ [(s.2, c)], free := free.dropLast, next := st.next }, c)
  | none => ({ active := still ++ [(s.2, st.next)], free := [], next := st.next + 1 }, st.next)

def colorsFrom (st : St) : List Iv → List Nat
  | [] => []
  | s :: rest => (stepSym st s).2 :: colorsFrom (stepSym st s).1 rest

/-- colours of an interval list that is already sorted by start -/
def assignColorsSorted (l : List Iv) : List Nat := colorsFrom St.init l

/-- stable insertion sort by start (Python's `sorted(key=start)` is stable) -/
def sortByStart (l : List (Iv × Nat)) : List (Iv × Nat) := l.foldr (fun x acc => insertByStart' x acc) []
where insertByStart' (x : Iv × Nat) (acc : List (Iv × Nat)) : List (Iv × Nat) :=
  -- inserting from the right with "strictly smaller goes first" keeps equal keys in their original order
  match acc with
  | [] => [x]
  | y :: ys => if x.1.1 ≤ y.1.1 then x :: y :: ys else y :: insertByStart' x ys

/-- `assign_colors` on symbols in their given order: result[i] is the colour of the i-th symbol -/
def assignColors (l : List Iv) : List Nat :=
  let idx := l.zipIdx
  let sorted := sortByStart idx
  let cols := assignColorsSorted (sorted.map (·.1))
  let pairs := (sorted.map (·.2)).zip cols
  (List.range l.length).map (fun i => ((pairs.find? (·.1 == i)).map (·.2)).getD 0)

end PV.RegAlloc

namespace PV.RegAlloc

/-! ### `assign_registers`: scopes in call order, callers' registers blocked -/

structure Scope where
  name : String
  /-- scopes this one is called from (their blocked registers are not available here) -/
  callers : List String
  /-- register symbols of the scope in table order: (virtual name, interval) -/
  syms : List (String × Iv)
  deriving Repr

structure AState where
  /-- virtual name ↦ physical register index -/
  mapping : List (String × Nat)
  /-- scope ↦ registers blocked for its callees (own registers ∪ callers' blocked registers) -/
  blocked : List (String × List Nat)
  /-- scope ↦ own registers ∪ callers' blocked registers (what `registers_by_scope` holds) -/
  regsBy : List (String × List Nat)
  deriving Repr

def lookupL {α : Type} (t : List (String × α)) (k : String) : Option α := (t.find? (·.1 == k)).map (·.2)

def parentRegs (st : AState) (sc : Scope) : List Nat :=
  (sc.callers.flatMap (fun c => (lookupL st.blocked c).getD [])).eraseDups

/-- registers available to a scope: 0..15 without the callers' blocked ones, ascending -/
def available (parents : List Nat) : List Nat := (List.range 16).filter (fun r => !parents.contains r)

inductive Res where
  | ok (st : AState)
  | outOfRegisters
  deriving Repr

/-- assign the symbols of one scope given their colours; a symbol whose virtual name is already mapped keeps that register -/
def assignSyms (avail : List Nat) : List (String × Nat) → List (String × Nat) → List Nat → Option (List (String × Nat) × List Nat)
  | [], mapping, used => some (mapping, used)
  | (v, col) :: rest, mapping, used =>
    match lookupL mapping v with
    | some _ => assignSyms avail rest mapping used
    | none =>
      match avail[col]? with
      | none => none
      | some r => assignSyms avail rest (mapping ++ [(v, r)]) (if used.contains r then used else used ++ [r])

def stepScope (st : AState) (sc : Scope) : Res :=
  let parents := parentRegs st sc
  let avail := available parents
  let cols := assignColors (sc.syms.map (·.2))
  match assignSyms avail ((sc.syms.map (·.1)).zip cols) st.mapping [] with
  | none => .outOfRegisters
  | some (mapping, used) =>
    let all := (used ++ parents).eraseDups
    .ok { mapping := mapping, blocked := st.blocked ++ [(sc.name, all)], regsBy := st.regsBy ++ [(sc.name, all)] }

def assignRegisters (scopes : List Scope) : Res :=
  scopes.foldl (fun acc sc => match acc with
    | .ok st => stepScope st sc
    | .outOfRegisters => .outOfRegisters) (.ok ⟨[], [], []⟩)

/-- the reported register set: union over scopes of `registers_by_scope`, sorted -/
def usedRegisters (st : AState) : List Nat :=
  (List.range 16).filter (fun r => st.regsBy.any (fun p => p.2.contains r))

end PV.RegAlloc
