import PV.Model.Cfg
/-
Regions of an emitted program (C07): every line belongs to the top-level script (region 0) or to one function body.
`checkFall` looks at every static control-flow edge: it must stay inside its region, or be a `jal` / `j` to the entry line
of a function, or run off the end of the program, or be one of the explicitly allowed edges (used to single out the known
fall-through from the end of the main script into the first function).
-/
namespace PV.Regions
open PV.IC10 PV.Cfg

section
variable {R V : Type} [DecidableEq R] [Special R]

def isCall : Kind → Bool
  | .jmp | .jal => true
  | _ => false

def edgeOk (len : Nat) (owner : Nat → Nat) (entries : List Nat) (allow : List (Nat × Nat)) (pc : Nat) (k : Kind) (n : Nat) : Bool :=
  decide (len ≤ n) || owner n == owner pc || (isCall k && entries.contains n) || allow.contains (pc, n)

def checkFall (sem : Sem V) (P : List (Instr R V)) (owner : Nat → Nat) (entries : List Nat) (allow : List (Nat × Nat)) : Bool :=
  P.zipIdx.all (fun (i, pc) =>
    match succs sem pc i with
    | some l => l.all (edgeOk P.length owner entries allow pc i.kind)
    | none => true)

end
end PV.Regions
