import PV.Base.PyStr
/-
Model of the statistics computed at the end of `CompilerPassGatherCode.get_code`:
    num_lines = len(s.splitlines());  num_bytes = len(s) + max(num_lines - 1, 0)
(`Nat` subtraction is truncated, which is exactly the `max(…, 0)`).
-/
namespace PV.Stats
open PV.PyStr

def numLines (code : List Char) : Nat := (splitlines code).length
def numBytes (code : List Char) : Nat := code.length + (numLines code - 1)

/-- no character of the line is a `splitlines` boundary -/
def NoBreaks (l : List Char) : Prop := ∀ c ∈ l, isBreak c = false

end PV.Stats
