import PV.IC10.Machine
/-
Label removal at machine level (C05 / C02).

A program that still has its labels is, on the chip, a list of lines in which every label occupies a line that does
nothing, and every jump operand that named a label is the number of that line.  `remove_labels` deletes the label lines
and rewrites the jump operands.  `strip` is that operation on machine programs: delete the lines `L`, and in every direct
jump / branch replace the literal target `t` by `rho L t` = the number of kept lines before `t`.

`PV/Proofs/Strip.lean` proves that a program of direct control flow (`simple`) and its stripped form run in lock step up to
the steps spent on label lines.  Executable, no Mathlib: linked into `pvdrv`.
-/
namespace PV.Strip
open PV.IC10

/-- number of kept lines before line `t` -/
def rho (L : Nat → Bool) : Nat → Nat
  | 0 => 0
  | t + 1 => rho L t + (if L t then 0 else 1)

section
variable {R V : Type}

/-- kinds whose last operand is a line number (`jal` included: `strip` renumbers its target too, although the theorem does
    not cover programs that contain it) -/
def isDirect : Kind → Bool
  | .jmp | .jal | .br _ | .brq _ _ => true
  | _ => false

/-- kinds the theorem does not cover: `jal` stores a line number in `ra`, relative branches add to the current line -/
def isExcluded : Kind → Bool
  | .jal | .brr _ => true
  | _ => false

def renumOpnd (sem : Sem V) (lit : Nat → V) (L : Nat → Bool) : Opnd R V → Opnd R V
  | .num v => match sem.toAddr v with
    | some t => .num (lit (rho L t))
    | none => .num v
  | o => o

/-- the last operand renumbered -/
def renumLast (sem : Sem V) (lit : Nat → V) (L : Nat → Bool) : List (Opnd R V) → List (Opnd R V)
  | [] => []
  | [o] => [renumOpnd sem lit L o]
  | o :: rest => o :: renumLast sem lit L rest

def renum (sem : Sem V) (lit : Nat → V) (L : Nat → Bool) (i : Instr R V) : Instr R V :=
  if isDirect i.kind then { i with args := renumLast sem lit L i.args } else i

def lastIsLine (sem : Sem V) : List (Opnd R V) → Bool
  | [] => false
  | [.num v] => (sem.toAddr v).isSome
  | [_] => false
  | _ :: rest => lastIsLine sem rest

/-- an instruction the theorem covers: no `jal`, no relative branch, and a direct jump has a literal line as its last
    operand (`j` has exactly one operand) -/
def simple (sem : Sem V) (i : Instr R V) : Bool :=
  !isExcluded i.kind && (!isDirect i.kind || (lastIsLine sem i.args && (i.kind != .jmp || i.args.length == 1)))

/-- keep the lines outside `L`, renumbered; `base` = line number of the head of the list -/
def stripFrom (sem : Sem V) (lit : Nat → V) (L : Nat → Bool) : Nat → List (Instr R V) → List (Instr R V)
  | _, [] => []
  | base, i :: rest => if L base then stripFrom sem lit L (base + 1) rest else renum sem lit L i :: stripFrom sem lit L (base + 1) rest

def strip (sem : Sem V) (lit : Nat → V) (L : Nat → Bool) (P : List (Instr R V)) : List (Instr R V) := stripFrom sem lit L 0 P

end
end PV.Strip
