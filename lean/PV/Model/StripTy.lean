import PV.Model.Strip
/-
Label removal for programs with calls (C05 / C02): which registers and stack cells hold LINE NUMBERS.

A `jal` puts the line after it into `ra`; the labelled program and the label-free program therefore hold different numbers
there (`a` and `rho L a`), and so do the stack cells `ra` is saved to.  `Ty` records which registers / cells hold such a line
number; `tyStep` is the transfer function of one instruction and says `none` when a line number would be used as a value
(ALU operand, device write, comparison, address) — then the two programs could differ.  `PV/Proofs/StripTy.lean` proves that
along a run on which `tyStep` never says `none` the two programs stay in lock step.  The driver evaluates `tyStep` along the
runs of real outputs (`strip-run`).  Executable, no Mathlib: linked into `pvdrv`.
-/
namespace PV.Strip
open PV.IC10

structure Ty (R : Type) where
  reg : R → Bool
  mem : Nat → Bool

section
variable {R V : Type} [DecidableEq R] [Special R]

def Ty.none : Ty R := ⟨fun _ => false, fun _ => false⟩
def Ty.setReg (T : Ty R) (r : R) (b : Bool) : Ty R := { T with reg := fun x => if x = r then b else T.reg x }
def Ty.setMem (T : Ty R) (a : Nat) (b : Bool) : Ty R := { T with mem := fun x => if x = a then b else T.mem x }
def Ty.setDst (T : Ty R) : Option R → Bool → Ty R
  | Option.none, _ => T
  | some d, b => T.setReg d b

def opTy (T : Ty R) : Opnd R V → Bool
  | .reg r => T.reg r
  | .num _ => false

/-- no operand is a line number -/
def useOk (T : Ty R) (args : List (Opnd R V)) : Bool := args.all (fun o => !opTy T o)

/-- the typing after instruction `i` executed in state `s`; `none`: a line number is used as a value -/
def tyStep (sem : Sem V) (T : Ty R) (s : St R V) (i : Instr R V) : Option (Ty R) :=
  if T.reg Special.sp then Option.none else
  match i.kind with
  | .alu _ | .load _ => if useOk T i.args then some (T.setDst i.dst false) else Option.none
  | .store _ | .yield | .sleep | .hcf | .nop | .bad _ => if useOk T i.args then some T else Option.none
  | .br _ | .brq _ _ => if useOk T i.args && lastIsLine sem i.args then some T else Option.none
  | .brr _ => Option.none
  | .jmp =>
    match i.args with
    | [.num v] => if (sem.toAddr v).isSome then some T else Option.none
    | [.reg r] => if T.reg r then some T else Option.none
    | _ => Option.none
  | .jal =>
    match i.args with
    | [.num v] => if (sem.toAddr v).isSome then some (T.setReg Special.ra true) else Option.none
    | _ => Option.none
  | .push =>
    match i.args with
    | [o] =>
      match sem.toAddr (s.regs Special.sp) with
      | some a => if a < stackSize then some (T.setMem a (opTy T o)) else some T
      | Option.none => some T
    | _ => Option.none
  | .pop =>
    match i.dst with
    | some d =>
      if d = Special.sp then Option.none else
      match sem.toAddr (s.regs Special.sp) with
      | some (a + 1) => if a < stackSize then some (T.setReg d (T.mem a)) else some T
      | _ => some T
    | Option.none => some T
  | .peek =>
    match i.dst with
    | some d =>
      if d = Special.sp then Option.none else
      match sem.toAddr (s.regs Special.sp) with
      | some (a + 1) => if a < stackSize then some (T.setReg d (T.mem a)) else some T
      | _ => some T
    | Option.none => some T
  | .poke =>
    match i.args with
    | [ao, vo] =>
      if opTy T ao then Option.none else
      match sem.toAddr (ao.eval s.regs) with
      | some n => if n < stackSize then some (T.setMem n (opTy T vo)) else some T
      | Option.none => some T
    | _ => if useOk T i.args then some T else Option.none
  | .getdb =>
    match i.args with
    | [ao] =>
      if opTy T ao then Option.none else
      match i.dst with
      | some d =>
        if d = Special.sp then Option.none else
        match sem.toAddr (ao.eval s.regs) with
        | some n => if n < stackSize then some (T.setReg d (T.mem n)) else some T
        | Option.none => some T
      | Option.none => some T
    | _ => if useOk T i.args then some T else Option.none

/-- the typing along a run of `P` (label lines do nothing and keep the typing); `none` as soon as a step is ill-typed -/
def tyRun (sem : Sem V) (env : Env V) (P : List (Instr R V)) (L : Nat → Bool) : Nat → St R V → Ty R → Option (Ty R)
  | 0, _, T => some T
  | n + 1, s, T =>
    if s.halted then some T else
    match P[s.pc]? with
    | Option.none => some T
    | some i =>
      if L s.pc then tyRun sem env P L n (step sem env P s) T else
      match tyStep sem T s i with
      | Option.none => Option.none
      | some T' => tyRun sem env P L n (step sem env P s) T'

end
end PV.Strip
