import PV.Base.Crc32
import PV.IC10.Spec
import PV.Gen.Structures
import PV.Gen.Intrinsics
import PV.Gen.Enums
/-
Decidable well-formedness predicates over the regenerated tables (C16).  The tables themselves are
data emitted by `tools/extract.py` from /repo on every run; these predicates are the property's wording.
-/
namespace PV.Tables
open PV PV.Gen

/-- named slot `(name, i, false)` resolves to the numbered slot `slot<i>`; a numbered entry is spelled `slot<i>` -/
def slotsOk (slots : List (String × Nat × Bool)) : Bool :=
  slots.all (fun (name, i, numbered) =>
    if numbered then name == "slot" ++ toString i
    else slots.any (fun (n2, i2, num2) => num2 && i2 == i && n2 == "slot" ++ toString i))

/-- stored hash = signed CRC-32 of the (non-empty) prefab name -/
def hashOk (r : StructRow) : Bool := r.hashS == calcHashBytes r.prefab && !r.prefab.isEmpty
/-- the plural batch form exists, has the same prefab name and hash, and offers the same slots -/
def pluralOk (r : StructRow) : Bool := r.plural != "" && r.pluralPrefab == r.prefab && r.hashP == r.hashS && r.slotsP == r.slotsS
/-- each named slot resolves to its numbered slot -/
def slotOk (r : StructRow) : Bool := slotsOk r.slotsS

/-- one structure type is consistent -/
def rowOk (r : StructRow) : Bool := hashOk r && pluralOk r && slotOk r

/-- the Python-side name of an instruction: a trailing `_` is appended to Python keywords / builtins (`yield_`, `not_`, …) -/
def opOfPyName (n : String) : String :=
  if n.endsWith "_" then String.mk (n.toList.take (n.length - 1)) else n

/-- names in intrinsics.py that are compile-time functions, not instruction wrappers -/
def notInstructions : List String := ["HASH", "STR"]

def intrinsicOk (r : IntrinsicRow) : Bool :=
  if notInstructions.contains r.pyName then r.problem == "not an instruction"
  else
    r.problem == "" &&
    r.op == opOfPyName r.pyName &&
    r.argPos == List.range r.argPos.length && r.numOperands == r.argPos.length &&
    (match PV.IC10.Spec.lookup r.op with
     | some sg => sg.out == r.hasOutput && sg.ins.length == r.numOperands
     | none => false) &&
    r.declaresResult == r.hasOutput &&
    ic10Instructions.contains r.op

/-- no two names of one enumeration share a number -/
def enumOk (e : String × List (String × Int)) : Bool :=
  (e.2.map (·.2)).Nodup

instance : DecidablePred (fun (l : List Int) => l.Nodup) := fun _ => inferInstance

end PV.Tables
