import PV.Base.Crc32
import PV.Base.Digits
/-
Model of how the transpiler prints symbolic operands (`types.compute_hash`, `types.compute_string`,
`types._apply_output_mode`, `utils.format_enum`, `utils.format_int`) and of what a printed token denotes
to the IC10 loader (`denote`: `$hex` / decimal literals, `HASH("…")` = signed CRC-32 of the UTF-8 bytes,
`STR("…")` = big-endian byte packing, enum names by the regenerated tables).  C08, also used by C09 / C12.
No Mathlib: linked into `pvdrv`.
-/
namespace PV.Tokens
open PV PV.Digits

inductive Mode where
  | verbose | compact | numeric
  deriving Repr, DecidableEq

/-- UTF-8 encoding of one code point (written out, so that it reduces in the kernel) -/
def utf8Char (c : Char) : List UInt8 :=
  let n := c.toNat
  if n < 0x80 then [n.toUInt8]
  else if n < 0x800 then [(0xC0 + n / 64).toUInt8, (0x80 + n % 64).toUInt8]
  else if n < 0x10000 then [(0xE0 + n / 4096).toUInt8, (0x80 + n / 64 % 64).toUInt8, (0x80 + n % 64).toUInt8]
  else [(0xF0 + n / 262144).toUInt8, (0x80 + n / 4096 % 64).toUInt8, (0x80 + n / 64 % 64).toUInt8, (0x80 + n % 64).toUInt8]

/-- `name.encode()` -/
def utf8 (cs : List Char) : List UInt8 := cs.flatMap utf8Char

/-- `utils.calc_hash(name)` -/
def hashOf (cs : List Char) : Int := calcHashBytes (utf8 cs)

/-- `compute_string`: `val = val << 8 | ord(c)` -/
def computeStringVal (cs : List Char) : Nat := cs.foldl (fun acc c => (acc <<< 8) ||| c.toNat) 0

/-- what `STR("…")` means to the chip: the characters' codes as bytes, big-endian -/
def strPack (cs : List Char) : Nat := cs.foldl (fun acc c => acc * 256 + c.toNat) 0

def hashText (cs : List Char) : List Char := "HASH(\"".toList ++ cs ++ "\")".toList
def strText (cs : List Char) : List Char := "STR(\"".toList ++ cs ++ "\")".toList

/-- a printed operand: either an integer (printed later by `format_int`) or literal text -/
inductive Out where
  | int (n : Int)
  | text (cs : List Char)
  deriving Repr, DecidableEq

/-- `_apply_output_mode(num, text, mode)` -/
def applyOutputMode (num : Int) (text : List Char) : Mode → Out
  | .verbose => .text text
  | .numeric => .int num
  | .compact => if (intToDec num).length < text.length then .int num else .text text

def computeHash (mode : Mode) (name : List Char) : Out := applyOutputMode (hashOf name) (hashText name) mode
def computeString (mode : Mode) (s : List Char) : Out := applyOutputMode (Int.ofNat (computeStringVal s)) (strText s) mode

/-- enums whose members are printed by bare name in verbose mode -/
def bareEnums : List String := ["LogicType", "LogicBatchMethod", "LogicSlotType"]

/-- `format_enum(member)` for member `m` (number `v`) of enum class `ty` -/
def formatEnum (mode : Mode) (ty m : List Char) (v : Int) : Out :=
  match mode with
  | .verbose => if bareEnums.contains (String.ofList ty) then .text m else .text (ty ++ ['.'] ++ m)
  | _ => .int v

/-- the final spelling (`IC10Operand.to_string`) -/
def spell (hashes : List Int) : Out → List Char
  | .int n => formatInt hashes n
  | .text cs => cs

/-! ### what a token denotes -/

abbrev EnumTable := List (String × List (String × Int))

def enumLookup (T : EnumTable) (ty m : String) : Option Int :=
  (T.find? (·.1 == ty)).bind (fun e => (e.2.find? (·.1 == m)).map (·.2))

/-- strip `pre("` … `")` -/
def quoted (pre : List Char) (cs : List Char) : Option (List Char) :=
  let p := pre ++ ['(', '"']
  if p.isPrefixOf cs ∧ ['"', ')'].isSuffixOf cs ∧ p.length + 2 ≤ cs.length then
    some ((cs.drop p.length).take (cs.length - p.length - 2))
  else none

def splitDot (cs : List Char) : Option (List Char × List Char) :=
  match cs.span (· ≠ '.') with
  | (a, '.' :: b) => if b.contains '.' then none else some (a, b)
  | _ => none

/-- value of a token; `pos` is the enum class the operand position expects (for bare names), if any -/
def denote (T : EnumTable) (pos : Option String) (cs : List Char) : Option Int :=
  match parseNum cs with
  | some n => some n
  | none =>
  match quoted "HASH".toList cs with
  | some s => some (hashOf s)
  | none =>
  match quoted "STR".toList cs with
  | some s => some (Int.ofNat (strPack s))
  | none =>
  match splitDot cs with
  | some (ty, m) => enumLookup T (String.ofList ty) (String.ofList m)
  | none =>
    match pos with
    | some ty => enumLookup T ty (String.ofList cs)
    | none => none

end PV.Tokens
