/-
Model of the outer shell of `compile_code` (C10):
  * `verdict` — the try/except skeleton of `Compiler.compile`: whatever the passes do (return, CompilerError,
    AstroidSyntaxError, any other Exception) is mapped to a dictionary with `code` or with `error`;
  * `Child` — the life cycle of the helper interpreter of a constexpr evaluation (`utils.eval_constexpr`).
No imports.
-/
namespace PV.Verdict

/-- how the passes can end -/
inductive Outcome (R : Type) where
  | returns (r : R)
  | compilerError (msg : String) (line : Option Nat)
  | syntaxError (msg : String) (line : Option Nat)
  | otherException (msg : String) (trace : String)

inductive Verdict (R : Type) where
  | code (r : R)
  | error (description : String) (line : Option Nat) (stackTrace : Option String)

def verdict {R : Type} : Outcome R → Verdict R
  | .returns r => .code r
  | .compilerError msg line => .error ("Compiler error: " ++ msg) line none
  | .syntaxError msg line => .error ("Syntax error: " ++ msg) line none
  | .otherException msg tr => .error ("Internal compiler error: " ++ msg) none (some tr)

/-! ### the helper process of a constexpr evaluation -/

inductive Child where
  | notStarted
  | running
  | exited (rc : Nat)     -- terminated by itself, reaped by communicate()
  | killedAndReaped       -- timeout: kill() + communicate()
  deriving Repr, DecidableEq

/-- what the environment does to a started child within the time limit -/
inductive Fate where
  | finishes (rc : Nat)
  | timesOut
  deriving Repr

inductive EvalResult where
  | value
  | errorTimeout
  | errorFailed
  | errorBadJson
  deriving Repr, DecidableEq

/-- `eval_constexpr` after Popen: communicate(timeout) → on timeout kill and reap, then report -/
def evalChild (fate : Fate) (jsonOk : Bool) : Child × EvalResult :=
  match fate with
  | .timesOut => (.killedAndReaped, .errorTimeout)
  | .finishes rc => if rc != 0 then (.exited rc, .errorFailed) else if jsonOk then (.exited 0, .value) else (.exited 0, .errorBadJson)

def Child.gone : Child → Bool
  | .running => false
  | _ => true

end PV.Verdict
