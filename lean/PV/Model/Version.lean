/-
Model of the version-note placement at the end of `CompilerPassGatherCode.get_code`:
    for i in range(len(lines)):
        if len(lines[i]) + l < 89: lines[i] += version_string; break
-/
namespace PV.Version

/-- append `note` to the first line that stays short enough; all other lines unchanged -/
def addVersion (note : List Char) : List (List Char) → List (List Char)
  | [] => []
  | l :: ls => if l.length + note.length < 89 then (l ++ note) :: ls else l :: addVersion note ls

end PV.Version
