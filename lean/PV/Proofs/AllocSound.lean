import PV.Model.AllocCheck
import PV.Proofs.Cfg
/-!
Soundness of the allocation validator: if every line passes `okAt` and every executed control transfer satisfies
`succOk`, the renamed program and the original program run in lock step with equal pc, stack memory, effect trace and
halting status, and agree on every live register.
-/
namespace PV.AllocCheck
open PV.IC10
set_option linter.unusedSectionVars false

variable {R V : Type} [DecidableEq R] [Special R]
variable {R' : Type} [DecidableEq R'] [Special R']

/-- simulation relation: everything equal, registers agree (through `ρ`) on the set `L` while the chip runs -/
structure Rel (ρ : R → R') (L : List R) (s : St R V) (t : St R' V) : Prop where
  pc : t.pc = s.pc
  mem : t.mem = s.mem
  trace : t.trace = s.trace
  halted : t.halted = s.halted
  regs : s.halted = false → ∀ v ∈ L, t.regs (ρ v) = s.regs v

theorem eval_map (ρ : R → R') (f : R → V) (g : R' → V) (o : Opnd R V)
    (h : ∀ r ∈ opndRegs o, g (ρ r) = f r) : (mapOpnd ρ o).eval g = o.eval f := by
  cases o with
  | reg r => simpa [mapOpnd, Opnd.eval, opndRegs] using h r (by simp [opndRegs])
  | num v => rfl

theorem vals_map (ρ : R → R') (f : R → V) (g : R' → V) (args : List (Opnd R V))
    (h : ∀ r ∈ args.flatMap opndRegs, g (ρ r) = f r) :
    (args.map (mapOpnd ρ)).map (Opnd.eval g) = args.map (Opnd.eval f) := by
  induction args with
  | nil => rfl
  | cons a as ih =>
    simp only [List.map_cons, List.cons.injEq]
    constructor
    · exact eval_map ρ f g a (fun r hr => h r (by simp [List.flatMap_cons, hr]))
    · exact ih (fun r hr => h r (by simp only [List.flatMap_cons, List.mem_append]; exact Or.inr hr))

/-! ### which kinds set which fields of the outcome -/

section exec_facts
variable (sem : Sem V) (env : Env V) (k : Kind) (vals : List V) (spv : V) (pc : Nat) (mem : Nat → V) (tr : List (Eff V))

theorem exec_sp_some (h : (exec sem env k vals spv pc mem tr).sp.isSome = true) : k = .push ∨ k = .pop := by
  cases k <;> simp only [exec] at h <;> (try simp at h) <;> (try (left; rfl)) <;> (try (right; rfl))
  all_goals (repeat' split at h) <;> simp at h

theorem exec_ra_some (h : (exec sem env k vals spv pc mem tr).ra.isSome = true) : k = .jal := by
  cases k <;> simp only [exec] at h <;> (try simp at h) <;> (try rfl)
  all_goals (repeat' split at h) <;> simp at h

theorem exec_dst_some (h : (exec sem env k vals spv pc mem tr).dst.isSome = true) : kindHasDst k = true := by
  cases k <;> simp only [exec] at h <;> (try simp at h) <;> (try rfl)
  all_goals (repeat' split at h) <;> simp at h

/-- an outcome that keeps the chip running has written everything the kind is declared to write -/
theorem exec_running_writes
    (h : (exec sem env k vals spv pc mem tr).next = .seq ∨ ∃ n, (exec sem env k vals spv pc mem tr).next = .jump n) :
    (kindHasDst k = true → (exec sem env k vals spv pc mem tr).dst.isSome = true) ∧
    ((k = .push ∨ k = .pop) → (exec sem env k vals spv pc mem tr).sp.isSome = true) ∧
    (k = .jal → (exec sem env k vals spv pc mem tr).ra.isSome = true) := by
  cases k <;> simp only [exec, kindHasDst] at h ⊢ <;> (try simp) <;> (try simp at h)
  all_goals (repeat' split) <;> (try simp) <;> (try (simp_all))
end exec_facts


/-! ### the local check, as propositions -/

structure OkAt (ρ : R → R') (C : Cert R) (pc : Nat) (i : Instr R V) : Prop where
  uses_live : ∀ u ∈ uses i, u ∈ C.liveIn pc
  out_cov : ∀ v ∈ C.liveOut pc, v ∈ defs i ∨ v ∈ C.liveIn pc
  no_clash : ∀ d ∈ defs i, ∀ v ∈ C.liveOut pc, v ≠ d → ρ v ≠ ρ d
  sp_fix : ρ Special.sp = Special.sp
  ra_fix : ρ Special.ra = Special.ra
  sp_in : Special.sp ∈ C.liveIn pc
  sp_out : Special.sp ∈ C.liveOut pc
  ra_out : Special.ra ∈ C.liveOut pc

theorem okAt_spec (ρ : R → R') (C : Cert R) (pc : Nat) (i : Instr R V) (h : okAt ρ C pc i = true) : OkAt ρ C pc i := by
  unfold okAt at h
  simp only [Bool.and_eq_true, List.all_eq_true, List.contains_iff_mem, Bool.or_eq_true, beq_iff_eq, bne_iff_ne, ne_eq] at h
  obtain ⟨⟨⟨⟨⟨⟨⟨⟨⟨h1, h2⟩, h3⟩, _⟩, h5⟩, h6⟩, h7⟩, _⟩, h9⟩, h10⟩ := h
  refine ⟨h1, h2, ?_, h5, h6, h7, h9, h10⟩
  intro d hd v hv hne
  rcases h3 d hd v hv with e | e
  · exact absurd e hne
  · exact e

theorem okProg_spec (ρ : R → R') (C : Cert R) (P : List (Instr R V)) (h : okProg ρ C P = true) :
    ∀ pc i, P[pc]? = some i → OkAt ρ C pc i := by
  intro pc i hi
  unfold okProg at h
  rw [List.all_eq_true] at h
  have hm : (i, pc) ∈ P.zipIdx := by
    rw [List.mem_zipIdx_iff_getElem?]
    simpa using hi
  exact okAt_spec ρ C pc i (h (i, pc) hm)

/-! ### write-back agreement -/

/-- after writing the same outcome back on both sides, the registers agree on every `v` for which
    (1) renaming separates `v` from each written register, and (2) if `v` is not written it agreed before -/
theorem writeBack_agree (ρ : R → R') (f : R → V) (g : R' → V) (dst : Option R) (o : Out V) (v : R)
    (hspfix : ρ Special.sp = Special.sp) (hrafix : ρ Special.ra = Special.ra)
    (hd : ∀ d, dst = some d → o.dst.isSome = true → (ρ v = ρ d → v = d))
    (hra : o.ra.isSome = true → (ρ v = Special.ra → v = Special.ra))
    (hsp : o.sp.isSome = true → (ρ v = Special.sp → v = Special.sp))
    (hbase : (∀ d, dst = some d → o.dst.isSome = true → v ≠ d) → (o.ra.isSome = true → v ≠ Special.ra) →
        (o.sp.isSome = true → v ≠ Special.sp) → g (ρ v) = f v) :
    writeBack g (dst.map ρ) o (ρ v) = writeBack f dst o v := by
  unfold writeBack
  cases hdst : dst with
  | some d =>
    cases hod : o.dst with
    | some x =>
      simp only [Option.map_some, upd]
      by_cases e : v = d
      · subst e; simp
      · have : ρ v ≠ ρ d := fun h => e (hd d hdst (by simp [hod]) h)
        simp only [this, e, if_false]
        -- ra / sp layer
        cases hora : o.ra with
        | some y =>
          simp only [updOpt, upd, hrafix]
          by_cases e2 : v = Special.ra
          · subst e2; simp [hrafix]
          · have : ρ v ≠ Special.ra := fun h => e2 (hra (by simp [hora]) h)
            simp only [this, e2, if_false]
            cases hosp : o.sp with
            | some z =>
              simp only [upd, hspfix]
              by_cases e3 : v = Special.sp
              · subst e3; simp [hspfix]
              · have : ρ v ≠ Special.sp := fun h => e3 (hsp (by simp [hosp]) h)
                simp only [this, e3, if_false]
                exact hbase (fun d' hd' _ => by rw [hdst] at hd'; injection hd' with hd'; subst hd'; exact e) (fun _ => e2) (fun _ => e3)
            | none =>
              simp only
              exact hbase (fun d' hd' _ => by rw [hdst] at hd'; injection hd' with hd'; subst hd'; exact e) (fun _ => e2) (fun h => by simp [hosp] at h)
        | none =>
          simp only [updOpt]
          cases hosp : o.sp with
          | some z =>
            simp only [upd, hspfix]
            by_cases e3 : v = Special.sp
            · subst e3; simp [hspfix]
            · have : ρ v ≠ Special.sp := fun h => e3 (hsp (by simp [hosp]) h)
              simp only [this, e3, if_false]
              exact hbase (fun d' hd' _ => by rw [hdst] at hd'; injection hd' with hd'; subst hd'; exact e) (fun h => by simp [hora] at h) (fun _ => e3)
          | none =>
            simp only
            exact hbase (fun d' hd' _ => by rw [hdst] at hd'; injection hd' with hd'; subst hd'; exact e) (fun h => by simp [hora] at h) (fun h => by simp [hosp] at h)
    | none =>
      simp only [Option.map_some]
      cases hora : o.ra with
      | some y =>
        simp only [updOpt, upd, hrafix]
        by_cases e2 : v = Special.ra
        · subst e2; simp [hrafix]
        · have : ρ v ≠ Special.ra := fun h => e2 (hra (by simp [hora]) h)
          simp only [this, e2, if_false]
          cases hosp : o.sp with
          | some z =>
            simp only [upd, hspfix]
            by_cases e3 : v = Special.sp
            · subst e3; simp [hspfix]
            · have : ρ v ≠ Special.sp := fun h => e3 (hsp (by simp [hosp]) h)
              simp only [this, e3, if_false]
              exact hbase (fun d' _ h => by simp [hod] at h) (fun _ => e2) (fun _ => e3)
          | none =>
            simp only
            exact hbase (fun d' _ h => by simp [hod] at h) (fun _ => e2) (fun h => by simp [hosp] at h)
      | none =>
        simp only [updOpt]
        cases hosp : o.sp with
        | some z =>
          simp only [upd, hspfix]
          by_cases e3 : v = Special.sp
          · subst e3; simp [hspfix]
          · have : ρ v ≠ Special.sp := fun h => e3 (hsp (by simp [hosp]) h)
            simp only [this, e3, if_false]
            exact hbase (fun d' _ h => by simp [hod] at h) (fun h => by simp [hora] at h) (fun _ => e3)
        | none =>
          simp only
          exact hbase (fun d' _ h => by simp [hod] at h) (fun h => by simp [hora] at h) (fun h => by simp [hosp] at h)
  | none =>
    simp only [Option.map_none]
    cases hora : o.ra with
    | some y =>
      simp only [updOpt, upd, hrafix]
      by_cases e2 : v = Special.ra
      · subst e2; simp [hrafix]
      · have : ρ v ≠ Special.ra := fun h => e2 (hra (by simp [hora]) h)
        simp only [this, e2, if_false]
        cases hosp : o.sp with
        | some z =>
          simp only [upd, hspfix]
          by_cases e3 : v = Special.sp
          · subst e3; simp [hspfix]
          · have : ρ v ≠ Special.sp := fun h => e3 (hsp (by simp [hosp]) h)
            simp only [this, e3, if_false]
            exact hbase (fun d' h _ => by simp [hdst] at h) (fun _ => e2) (fun _ => e3)
        | none =>
          simp only
          exact hbase (fun d' h _ => by simp [hdst] at h) (fun _ => e2) (fun h => by simp [hosp] at h)
    | none =>
      simp only [updOpt]
      cases hosp : o.sp with
      | some z =>
        simp only [upd, hspfix]
        by_cases e3 : v = Special.sp
        · subst e3; simp [hspfix]
        · have : ρ v ≠ Special.sp := fun h => e3 (hsp (by simp [hosp]) h)
          simp only [this, e3, if_false]
          exact hbase (fun d' h _ => by simp [hdst] at h) (fun h => by simp [hora] at h) (fun _ => e3)
      | none =>
        simp only
        exact hbase (fun d' h _ => by simp [hdst] at h) (fun h => by simp [hora] at h) (fun h => by simp [hosp] at h)


theorem getElem?_map_instr (ρ : R → R') (P : List (Instr R V)) (pc : Nat) :
    (P.map (mapInstr ρ))[pc]? = (P[pc]?).map (mapInstr ρ) := by simp

theorem mem_defs_cases (i : Instr R V) (v : R) (h : v ∈ defs i) :
    (kindHasDst i.kind = true ∧ i.dst = some v) ∨ ((i.kind = .push ∨ i.kind = .pop) ∧ v = Special.sp) ∨
    (i.kind = .jal ∧ v = Special.ra) := by
  unfold defs at h
  rcases List.mem_append.mp h with h | h
  · left
    split at h
    · rename_i hk
      refine ⟨hk, ?_⟩
      cases hd : i.dst with
      | none => rw [hd] at h; simp [dstList] at h
      | some d => rw [hd] at h; simp [dstList] at h; rw [h]
    · simp at h
  · right
    split at h
    · left; rename_i hk; simp at h; exact ⟨Or.inl hk, h⟩
    · left; rename_i hk; simp at h; exact ⟨Or.inr hk, h⟩
    · right; rename_i hk; simp at h; exact ⟨hk, h⟩
    · simp at h

/-- **one step preserves the simulation** -/
theorem step_rel (sem : Sem V) (env : Env V) (ρ : R → R') (C : Cert R) (P : List (Instr R V))
    (hP : ∀ pc i, P[pc]? = some i → OkAt ρ C pc i) (s : St R V) (t : St R' V)
    (h : Rel ρ (C.liveIn s.pc) s t)
    (hsucc : s.halted = false → (step sem env P s).halted = false → succOk C s.pc (step sem env P s).pc = true) :
    Rel ρ (C.liveIn (step sem env P s).pc) (step sem env P s) (step sem env (P.map (mapInstr ρ)) t) := by
  obtain ⟨hpc, hmem, htr, hh, hregs⟩ := h
  by_cases hhalt : s.halted = true
  · have ht : t.halted = true := by rw [hh]; exact hhalt
    simp only [step, hhalt, ht, if_true]
    exact ⟨hpc, hmem, htr, hh, fun hf => by rw [hhalt] at hf; cases hf⟩
  · have hhs : s.halted = false := by simpa using hhalt
    have hht : t.halted = false := by rw [hh]; exact hhs
    have hregs' := hregs hhs
    cases hi : P[s.pc]? with
    | none =>
      have hti : (P.map (mapInstr ρ))[t.pc]? = none := by rw [getElem?_map_instr, hpc, hi]; rfl
      simp only [step, hhs, hht, hi, hti, Bool.false_eq_true, if_false]
      exact ⟨hpc, hmem, htr, rfl, fun hf => by simp at hf⟩
    | some i =>
      have hok := hP s.pc i hi
      have hti : (P.map (mapInstr ρ))[t.pc]? = some (mapInstr ρ i) := by rw [getElem?_map_instr, hpc, hi]; rfl
      have hvals : (mapInstr ρ i).args.map (Opnd.eval t.regs) = i.args.map (Opnd.eval s.regs) := by
        apply vals_map
        intro r hr
        exact hregs' r (hok.uses_live r (by unfold uses; exact List.mem_append_left _ hr))
      have hspv : t.regs Special.sp = s.regs Special.sp := by
        have := hregs' Special.sp hok.sp_in
        rw [hok.sp_fix] at this; exact this
      -- both sides compute the same outcome
      have hs' : step sem env P s = applyOut s i.dst (exec sem env i.kind (i.args.map (Opnd.eval s.regs)) (s.regs Special.sp) s.pc s.mem s.trace) := by
        simp only [step, hhs, hi, Bool.false_eq_true, if_false]
      have ht' : step sem env (P.map (mapInstr ρ)) t = applyOut t (i.dst.map ρ) (exec sem env i.kind (i.args.map (Opnd.eval s.regs)) (s.regs Special.sp) s.pc s.mem s.trace) := by
        simp only [step, hht, hti, Bool.false_eq_true, if_false]
        rw [hvals, hspv, hpc, hmem, htr]
        rfl
      generalize ho : exec sem env i.kind (i.args.map (Opnd.eval s.regs)) (s.regs Special.sp) s.pc s.mem s.trace = o at hs' ht'
      have hsucc' := hsucc hhs
      rw [hs'] at hsucc' ⊢
      rw [ht']
      -- agreement of the written-back register files on the live-in of the next line, when the chip keeps running
      have hag : (o.next = .seq ∨ ∃ n, o.next = .jump n) → ∀ nxt, succOk C s.pc nxt = true → ∀ v ∈ C.liveIn nxt,
          writeBack t.regs (i.dst.map ρ) o (ρ v) = writeBack s.regs i.dst o v := by
        intro hrun nxt hso v hv
        have hvo : v ∈ C.liveOut s.pc := by
          unfold succOk at hso
          rw [List.all_eq_true] at hso
          exact List.contains_iff_mem.mp (hso v hv)
        have hw := exec_running_writes sem env i.kind (i.args.map (Opnd.eval s.regs)) (s.regs Special.sp) s.pc s.mem s.trace (by rw [ho]; exact hrun)
        rw [ho] at hw
        apply writeBack_agree ρ s.regs t.regs i.dst o v hok.sp_fix hok.ra_fix
        · intro d hd hsome hρ
          apply Decidable.byContradiction; intro hne
          have hk := exec_dst_some sem env i.kind (i.args.map (Opnd.eval s.regs)) (s.regs Special.sp) s.pc s.mem s.trace (by rw [ho]; exact hsome)
          have hdm : d ∈ defs i := by unfold defs; simp [hk, hd, dstList]
          exact hok.no_clash d hdm v hvo hne hρ
        · intro hsome hρ
          apply Decidable.byContradiction; intro hne
          have hk := exec_ra_some sem env i.kind (i.args.map (Opnd.eval s.regs)) (s.regs Special.sp) s.pc s.mem s.trace (by rw [ho]; exact hsome)
          have hdm : (Special.ra : R) ∈ defs i := by unfold defs; simp [hk]
          exact hok.no_clash Special.ra hdm v hvo hne (by rw [hok.ra_fix]; exact hρ)
        · intro hsome hρ
          apply Decidable.byContradiction; intro hne
          have hk := exec_sp_some sem env i.kind (i.args.map (Opnd.eval s.regs)) (s.regs Special.sp) s.pc s.mem s.trace (by rw [ho]; exact hsome)
          have hdm : (Special.sp : R) ∈ defs i := by
            unfold defs
            rcases hk with hk | hk <;> simp [hk]
          exact hok.no_clash Special.sp hdm v hvo hne (by rw [hok.sp_fix]; exact hρ)
        · intro hnd hnra hnsp
          rcases hok.out_cov v hvo with hdef | hin
          · exfalso
            rcases mem_defs_cases i v hdef with ⟨hk, hd⟩ | ⟨hk, hv'⟩ | ⟨hk, hv'⟩
            · exact hnd v hd (hw.1 hk) rfl
            · exact hnsp (hw.2.1 hk) hv'
            · exact hnra (hw.2.2 hk) hv'
          · exact hregs' v hin
      -- now the four ways of leaving the instruction
      unfold applyOut at hsucc' ⊢
      cases hn : o.next with
      | seq =>
        simp only [hn] at hsucc' ⊢
        refine ⟨by simp [hpc], by rw [hmem], by rw [htr], rfl, ?_⟩
        intro _ v hv
        exact hag (Or.inl hn) (s.pc + 1) (hsucc' trivial) v hv
      | jump n =>
        simp only [hn] at hsucc' ⊢
        refine ⟨rfl, by rw [hmem], by rw [htr], rfl, ?_⟩
        intro _ v hv
        exact hag (Or.inr ⟨n, hn⟩) n (hsucc' trivial) v hv
      | halt =>
        simp only [hn]
        exact ⟨hpc, by rw [hmem], by rw [htr], rfl, fun hf => by simp at hf⟩
      | fault why =>
        simp only [hn]
        exact ⟨hpc, by rw [hmem], by rw [htr], rfl, fun hf => by simp at hf⟩

theorem run_succ (sem : Sem V) (env : Env V) {Q : Type} [DecidableEq Q] [Special Q] (P : List (Instr Q V)) (n : Nat) (s : St Q V) :
    run sem env P (n + 1) s = run sem env P n (step sem env P s) := rfl

/-- **soundness of the validator**: if every line passes the local check and every control transfer the ORIGINAL program
    actually performs goes to a line whose live-in is covered (static edges are checked by the validator; for `j ra` / `jr`
    this is the declared-successor side condition), then after any number of steps the renamed program is in the same
    state as the original one — same line, same stack, same effect trace, same halting status — and every live register
    holds the value of the variable or temporary it was renamed from. -/
theorem checkAlloc_sound (sem : Sem V) (env : Env V) (ρ : R → R') (C : Cert R) (P : List (Instr R V))
    (hP : okProg ρ C P = true) :
    ∀ (n : Nat) (s : St R V) (t : St R' V), Rel ρ (C.liveIn s.pc) s t →
    (∀ k, (run sem env P k s).halted = false → (step sem env P (run sem env P k s)).halted = false →
        succOk C (run sem env P k s).pc (step sem env P (run sem env P k s)).pc = true) →
    Rel ρ (C.liveIn (run sem env P n s).pc) (run sem env P n s) (run sem env (P.map (mapInstr ρ)) n t) := by
  have hP' := okProg_spec ρ C P hP
  intro n
  induction n with
  | zero => intro s t h _; exact h
  | succ n ih =>
    intro s t h hdyn
    rw [run_succ, run_succ]
    apply ih
    · exact step_rel sem env ρ C P hP' s t h (hdyn 0)
    · intro k
      have := hdyn (k + 1)
      rw [run_succ] at this
      exact this

/-- in particular the externally visible behaviour is the same -/
theorem checkAlloc_trace_eq (sem : Sem V) (env : Env V) (ρ : R → R') (C : Cert R) (P : List (Instr R V))
    (hP : okProg ρ C P = true) (n : Nat) (s : St R V) (t : St R' V) (h : Rel ρ (C.liveIn s.pc) s t)
    (hdyn : ∀ k, (run sem env P k s).halted = false → (step sem env P (run sem env P k s)).halted = false →
        succOk C (run sem env P k s).pc (step sem env P (run sem env P k s)).pc = true) :
    (run sem env (P.map (mapInstr ρ)) n t).trace = (run sem env P n s).trace ∧
    (run sem env (P.map (mapInstr ρ)) n t).halted = (run sem env P n s).halted :=
  let r := checkAlloc_sound sem env ρ C P hP n s t h hdyn
  ⟨r.trace, r.halted⟩

end PV.AllocCheck

namespace PV.AllocCheck
open PV.IC10
set_option linter.unusedSectionVars false
variable {R V : Type} [DecidableEq R] [Special R]
variable {R' : Type} [DecidableEq R'] [Special R']

/-- the only dynamic assumption left: a jump through a register lands on one of its declared successors -/
def IndirectOk (sem : Sem V) (env : Env V) (P : List (Instr R V)) (declared : Nat → List Nat) (s : St R V) : Prop :=
  ∀ k i, (run sem env P k s).halted = false → P[(run sem env P k s).pc]? = some i →
    PV.Cfg.succs sem (run sem env P k s).pc i = none → (step sem env P (run sem env P k s)).halted = false →
    (step sem env P (run sem env P k s)).pc ∈ declared (run sem env P k s).pc

/-- **soundness with the static edge check**: local check + edge check accepted, and jumps through registers land on their
    declared successors ⇒ the allocated program runs in lock step with the program before allocation, forever -/
theorem checkAlloc_sound_static (sem : Sem V) (env : Env V) (ρ : R → R') (C : Cert R) (P : List (Instr R V))
    (declared : Nat → List Nat) (hP : okProg ρ C P = true) (hE : edgesOk sem C P declared = true)
    (n : Nat) (s : St R V) (t : St R' V) (h : Rel ρ (C.liveIn s.pc) s t) (hind : IndirectOk sem env P declared s) :
    Rel ρ (C.liveIn (run sem env P n s).pc) (run sem env P n s) (run sem env (P.map (mapInstr ρ)) n t) := by
  apply checkAlloc_sound sem env ρ C P hP n s t h
  intro k hk hk'
  -- the state after k steps
  generalize hsk : run sem env P k s = sk at hk hk'
  cases hi : P[sk.pc]? with
  | none =>
    -- running off the program halts the chip: contradiction with hk'
    have : (step sem env P sk).halted = true := by simp [step, hk, hi]
    rw [this] at hk'; cases hk'
  | some i =>
    unfold edgesOk at hE
    rw [List.all_eq_true] at hE
    have hm : (i, sk.pc) ∈ P.zipIdx := by
      rw [List.mem_zipIdx_iff_getElem?]; simpa using hi
    have he := hE (i, sk.pc) hm
    cases hs : PV.Cfg.succs sem sk.pc i with
    | some l =>
      simp only [hs, List.all_eq_true] at he
      rcases PV.Cfg.step_pc_mem_succs sem env P sk i l hk hi hs with hh | hmem
      · rw [hh] at hk'; cases hk'
      · exact he _ hmem
    | none =>
      simp only [hs, List.all_eq_true] at he
      have := hind k i (by rw [hsk]; exact hk) (by rw [hsk]; exact hi) (by rw [hsk]; exact hs) (by rw [hsk]; exact hk')
      rw [hsk] at this
      exact he _ this

end PV.AllocCheck
