import PV.Base.B64
/-! Helper lemmas for C18 (share-link round trip). -/
namespace PV.B64

/-- unpadded URL-safe encoding, the closed form of `encodeTail` -/
def encU : List Nat → List Char
  | [] => []
  | [a] => [toUrl (encChar (a / 4)), toUrl (encChar ((a % 4) * 16))]
  | [a, b] => [toUrl (encChar (a / 4)), toUrl (encChar ((a % 4) * 16 + b / 16)),
               toUrl (encChar ((b % 16) * 4))]
  | a :: b :: c :: rest =>
      toUrl (encChar (a / 4)) :: toUrl (encChar ((a % 4) * 16 + b / 16)) ::
      toUrl (encChar ((b % 16) * 4 + c / 64)) :: toUrl (encChar (c % 64)) :: encU rest

theorem toUrl_enc_ne_pad (n : Nat) (h : n < 64) : toUrl (encChar n) ≠ '=' := by
  have : ∀ n : Fin 64, toUrl (encChar n.val) ≠ '=' := by decide +kernel
  exact this ⟨n, h⟩

theorem toUrl_pad : toUrl '=' = '=' := by decide

theorem encodeTail_eq (bs : List Nat) (hb : ∀ b ∈ bs, b < 256) : encodeTail bs = encU bs := by
  unfold encodeTail
  induction bs using encU.induct with
  | case1 => simp [b64encode, encU]
  | case2 a =>
    have ha : a < 256 := hb a (by simp)
    have h1 := toUrl_enc_ne_pad (a / 4) (by omega)
    have h2 := toUrl_enc_ne_pad ((a % 4) * 16) (by omega)
    simp [b64encode, encU, toUrl_pad, h1, h2]
  | case3 a b =>
    have ha : a < 256 := hb a (by simp)
    have hb' : b < 256 := hb b (by simp)
    have h1 := toUrl_enc_ne_pad (a / 4) (by omega)
    have h2 := toUrl_enc_ne_pad ((a % 4) * 16 + b / 16) (by omega)
    have h3 := toUrl_enc_ne_pad ((b % 16) * 4) (by omega)
    simp [b64encode, encU, toUrl_pad, h1, h2, h3]
  | case4 a b c rest ih =>
    have ha : a < 256 := hb a (by simp)
    have hb' : b < 256 := hb b (by simp)
    have hc : c < 256 := hb c (by simp)
    have h1 := toUrl_enc_ne_pad (a / 4) (by omega)
    have h2 := toUrl_enc_ne_pad ((a % 4) * 16 + b / 16) (by omega)
    have h3 := toUrl_enc_ne_pad ((b % 16) * 4 + c / 64) (by omega)
    have h4 := toUrl_enc_ne_pad (c % 64) (by omega)
    have := ih (fun x hx => hb x (by simp [hx]))
    simp only [ne_eq, decide_not] at this
    simp [b64encode, encU, h1, h2, h3, h4, this]

/-- decoding the url-mapped-back character of a sextet gives the sextet, and it is not a pad -/
theorem dec_std_url_enc (n : Nat) (h : n < 64) :
    decChar (toStd (toUrl (encChar n))) = some n ∧ toStd (toUrl (encChar n)) ≠ '=' := by
  have : ∀ n : Fin 64, decChar (toStd (toUrl (encChar n.val))) = some n.val
      ∧ toStd (toUrl (encChar n.val)) ≠ '=' := by decide +kernel
  exact this ⟨n, h⟩

theorem urlSafe_enc (n : Nat) (h : n < 64) : urlSafe (toUrl (encChar n)) = true := by
  have : ∀ n : Fin 64, urlSafe (toUrl (encChar n.val)) = true := by decide +kernel
  exact this ⟨n, h⟩

/-- length of the unpadded encoding modulo 4 is 0, 2 or 3 according to `bs.length % 3` -/
theorem encU_length (bs : List Nat) :
    (encU bs).length % 4 = (match bs.length % 3 with | 0 => 0 | 1 => 2 | _ => 3) := by
  induction bs using encU.induct with
  | case1 => simp [encU]
  | case2 a => simp [encU]
  | case3 a b => simp [encU]
  | case4 a b c rest ih =>
    simp only [encU, List.length_cons]
    have e1 : (rest.length + 1 + 1 + 1) % 3 = rest.length % 3 := by omega
    have e2 : ((encU rest).length + 1 + 1 + 1 + 1) % 4 = (encU rest).length % 4 := by omega
    rw [e1, e2, ih]

/-- state after feeding the decoder the (std-mapped) unpadded encoding of `bs` from a quad boundary -/
theorem fold_encU (bs : List Nat) (hb : ∀ b ∈ bs, b < 256) (s : DSt)
    (hq : s.quad = 0) (hd : s.done = false) :
    let r := ((encU bs).map toStd).foldl dstep s
    r.done = false ∧ r.out = s.out ++ bs ∧
      r.quad = (match bs.length % 3 with | 0 => 0 | 1 => 2 | _ => 3) ∧
      (r.quad ≠ 0 → r.pads = 0) := by
  induction bs using encU.induct generalizing s with
  | case1 => simp [encU, hq, hd]
  | case2 a =>
    have ha : a < 256 := hb a (by simp)
    obtain ⟨h1, n1⟩ := dec_std_url_enc (a / 4) (by omega)
    obtain ⟨h2, n2⟩ := dec_std_url_enc ((a % 4) * 16) (by omega)
    simp only [encU, List.map_cons, List.map_nil, List.foldl_cons, List.foldl_nil, dstep, hd,
      n1, n2, h1, h2, hq]
    simp
    omega
  | case3 a b =>
    have ha : a < 256 := hb a (by simp)
    have hb' : b < 256 := hb b (by simp)
    obtain ⟨h1, n1⟩ := dec_std_url_enc (a / 4) (by omega)
    obtain ⟨h2, n2⟩ := dec_std_url_enc ((a % 4) * 16 + b / 16) (by omega)
    obtain ⟨h3, n3⟩ := dec_std_url_enc ((b % 16) * 4) (by omega)
    simp only [encU, List.map_cons, List.map_nil, List.foldl_cons, List.foldl_nil, dstep, hd,
      n1, n2, n3, h1, h2, h3, hq]
    simp
    omega
  | case4 a b c rest ih =>
    have ha : a < 256 := hb a (by simp)
    have hb' : b < 256 := hb b (by simp)
    have hc : c < 256 := hb c (by simp)
    obtain ⟨h1, n1⟩ := dec_std_url_enc (a / 4) (by omega)
    obtain ⟨h2, n2⟩ := dec_std_url_enc ((a % 4) * 16 + b / 16) (by omega)
    obtain ⟨h3, n3⟩ := dec_std_url_enc ((b % 16) * 4 + c / 64) (by omega)
    obtain ⟨h4, n4⟩ := dec_std_url_enc (c % 64) (by omega)
    have hstep : ((encU (a :: b :: c :: rest)).map toStd).foldl dstep s
        = ((encU rest).map toStd).foldl dstep
            { s with quad := 0, left := 0, pads := 0, out := s.out ++ [a, b, c] } := by
      simp only [encU, List.map_cons, List.foldl_cons]
      congr 1
      simp only [dstep, hd, n1, n2, n3, n4, h1, h2, h3, h4, hq]
      simp
      omega
    have e1 : (a :: b :: c :: rest).length % 3 = rest.length % 3 := by
      simp only [List.length_cons]; omega
    intro r
    have := ih (fun x hx => hb x (by simp [hx]))
      { s with quad := 0, left := 0, pads := 0, out := s.out ++ [a, b, c] } rfl hd
    simp only [r, hstep, e1]
    simpa using this

end PV.B64
