import PV.Model.Cfg
/-! A step from a line with static successors lands on one of them, or the chip stops. -/
namespace PV.Cfg
open PV.IC10
set_option linter.unusedSectionVars false

variable {R V : Type} [DecidableEq R] [Special R]

theorem applyOut_pc (s : St R V) (dst : Option R) (o : Out V) :
    (applyOut s dst o).halted = true ∨
    (o.next = .seq ∧ (applyOut s dst o).pc = s.pc + 1) ∨ (∃ n, o.next = .jump n ∧ (applyOut s dst o).pc = n) := by
  unfold applyOut
  cases h : o.next with
  | seq => right; left; simp
  | jump n => right; right; exact ⟨n, rfl, by simp⟩
  | halt => left; simp
  | fault w => left; simp

theorem target_jump (sem : Sem V) (v : V) (n : Nat) (h : target sem v = .jump n) : sem.toAddr v = some n := by
  unfold target at h
  cases ht : sem.toAddr v with
  | none => rw [ht] at h; cases h
  | some m => rw [ht] at h; injection h with h; rw [h]

theorem getLastD_map_num (f : R → V) (args : List (Opnd R V)) (d : V) (a : Opnd R V) (h : args.getLast? = some a) :
    (args.map (Opnd.eval f)).getLastD d = a.eval f := by
  induction args with
  | nil => simp at h
  | cons x xs ih =>
    cases xs with
    | nil => simp at h; subst h; rfl
    | cons y ys =>
      have h' : (y :: ys).getLast? = some a := by simpa [List.getLast?_cons_cons] using h
      have := ih h'
      simpa [List.getLastD] using this

/-- which kinds can leave sequential control flow, and where to -/
theorem exec_next (sem : Sem V) (env : Env V) (k : Kind) (vals : List V) (spv : V) (pc : Nat) (mem : Nat → V) (tr : List (Eff V)) (n : Nat)
    (h : (exec sem env k vals spv pc mem tr).next = .jump n) :
    ((k = .jmp ∨ k = .jal) ∧ sem.toAddr (vals.headD (sem.ofNat 0)) = some n) ∨
    ((∃ c, k = .br c) ∨ (∃ q neg, k = .brq q neg)) ∧ sem.toAddr (vals.getLastD (sem.ofNat 0)) = some n ∨
    (∃ c, k = .brr c) ∧ sem.toAddr (sem.alu "add" [sem.ofNat pc, vals.getLastD (sem.ofNat 0)]) = some n := by
  cases k <;> simp only [exec] at h
  case br c => right; left; split at h <;> first | exact ⟨Or.inl ⟨c, rfl⟩, target_jump sem _ n h⟩ | cases h
  case brr c => right; right; split at h <;> first | exact ⟨⟨c, rfl⟩, target_jump sem _ n h⟩ | cases h
  case brq q neg => right; left; split at h <;> first | exact ⟨Or.inr ⟨q, neg, rfl⟩, target_jump sem _ n h⟩ | cases h
  case jmp => left; exact ⟨Or.inl rfl, target_jump sem _ n h⟩
  case jal => left; exact ⟨Or.inr rfl, target_jump sem _ n h⟩
  all_goals (first | cases h | (repeat' split at h) <;> cases h)

/-- **a step from a line with static successors lands on one of them, or the chip has stopped** -/
theorem step_pc_mem_succs (sem : Sem V) (env : Env V) (P : List (Instr R V)) (s : St R V) (i : Instr R V) (l : List Nat)
    (hh : s.halted = false) (hi : P[s.pc]? = some i) (hs : succs sem s.pc i = some l) :
    (step sem env P s).halted = true ∨ (step sem env P s).pc ∈ l := by
  have hstep : step sem env P s = applyOut s i.dst (exec sem env i.kind (i.args.map (Opnd.eval s.regs)) (s.regs Special.sp) s.pc s.mem s.trace) := by
    simp only [step, hh, hi, Bool.false_eq_true, if_false]
  rw [hstep]
  rcases applyOut_pc s i.dst (exec sem env i.kind (i.args.map (Opnd.eval s.regs)) (s.regs Special.sp) s.pc s.mem s.trace) with h | ⟨hseq, hpc⟩ | ⟨n, hj, hpc⟩
  · exact Or.inl h
  · right
    rw [hpc]
    -- sequential successor: every kind that can continue sequentially lists pc+1, except jmp/jal which never do
    unfold succs at hs
    cases hk : i.kind <;> rw [hk] at hs hseq <;> simp only [exec] at hseq
    case jmp => simp [target] at hseq; split at hseq <;> cases hseq
    case jal => simp [target] at hseq; split at hseq <;> cases hseq
    case br c =>
      simp only at hs
      cases hl : i.args.getLast? with
      | none => rw [hl] at hs; simp only at hs; injection hs with hs; rw [← hs]; simp
      | some a => rw [hl] at hs; simp only at hs; cases hn : numTarget sem a with
        | none => rw [hn] at hs; cases hs
        | some t => rw [hn] at hs; injection hs with hs; rw [← hs]; simp
    case brq q neg =>
      simp only at hs
      cases hl : i.args.getLast? with
      | none => rw [hl] at hs; simp only at hs; injection hs with hs; rw [← hs]; simp
      | some a => rw [hl] at hs; simp only at hs; cases hn : numTarget sem a with
        | none => rw [hn] at hs; cases hs
        | some t => rw [hn] at hs; injection hs with hs; rw [← hs]; simp
    case brr c =>
      simp only at hs
      cases hl : i.args.getLast? with
      | none => rw [hl] at hs; simp only at hs; injection hs with hs; rw [← hs]; simp
      | some a => rw [hl] at hs; simp only at hs; cases hn : relTarget sem s.pc a with
        | none => rw [hn] at hs; cases hs
        | some t => rw [hn] at hs; injection hs with hs; rw [← hs]; simp
    all_goals (injection hs with hs; rw [← hs]; simp)
  · right
    rw [hpc]
    rcases exec_next sem env i.kind _ _ _ _ _ n hj with ⟨hk, ht⟩ | ⟨hk, ht⟩ | ⟨hk, ht⟩
    · unfold succs at hs
      have hs' : (match i.args with
          | [] => some (optList (sem.toAddr (sem.ofNat 0)))
          | a :: _ => (numTarget sem a).map optList) = some l := by
        rcases hk with hk | hk <;> rw [hk] at hs <;> exact hs
      cases ha : i.args with
      | nil =>
        rw [ha] at hs' ht
        simp only [List.map_nil, List.headD_nil] at ht
        injection hs' with hs'; rw [← hs', ht]; simp [optList]
      | cons a rest =>
        rw [ha] at hs' ht
        simp only [List.map_cons, List.headD_cons] at ht
        cases a with
        | reg r => simp [numTarget] at hs'
        | num v =>
          simp only [numTarget, Option.map_some] at hs'
          injection hs' with hs'
          simp only [Opnd.eval] at ht
          rw [← hs', ht]; simp [optList]
    · unfold succs at hs
      have hs' : (match i.args.getLast? with
          | none => some ((s.pc + 1) :: optList (sem.toAddr (sem.ofNat 0)))
          | some a => (numTarget sem a).map (fun t => (s.pc + 1) :: optList t)) = some l := by
        rcases hk with ⟨c, hk⟩ | ⟨q, neg, hk⟩ <;> rw [hk] at hs <;> exact hs
      cases hl : i.args.getLast? with
      | none =>
        rw [hl] at hs'
        have hnil : i.args = [] := List.getLast?_eq_none_iff.mp hl
        rw [hnil] at ht
        simp only [List.map_nil, List.getLastD_nil] at ht
        injection hs' with hs'; rw [← hs', ht]; simp [optList]
      | some a =>
        rw [hl] at hs'
        rw [getLastD_map_num s.regs i.args _ a hl] at ht
        cases a with
        | reg r => simp [numTarget] at hs'
        | num v =>
          simp only [numTarget, Option.map_some] at hs'
          injection hs' with hs'
          simp only [Opnd.eval] at ht
          rw [← hs', ht]; simp [optList]
    · unfold succs at hs
      obtain ⟨c, hk⟩ := hk
      rw [hk] at hs
      simp only at hs
      cases hl : i.args.getLast? with
      | none =>
        rw [hl] at hs
        have hnil : i.args = [] := List.getLast?_eq_none_iff.mp hl
        rw [hnil] at ht
        simp only [List.map_nil, List.getLastD_nil] at ht
        injection hs with hs; rw [← hs, ht]; simp [optList]
      | some a =>
        rw [hl] at hs
        rw [getLastD_map_num s.regs i.args _ a hl] at ht
        cases a with
        | reg r => simp [relTarget] at hs
        | num v =>
          simp only [relTarget, Option.map_some] at hs
          injection hs with hs
          simp only [Opnd.eval] at ht
          rw [← hs, ht]; simp [optList]

end PV.Cfg
