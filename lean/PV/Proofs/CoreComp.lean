import PV.Model.Core
/-!
Correctness of the model code generator `PV.Core.comp` on the IC10 machine: forward simulation, indexed by the fuel of the
reference semantics.  `ok e` ⇒ the machine reaches the line where the statement's exit `e` lands (the line after its code;
the end label of the enclosing loop for `break`; its start label for `continue`; the end label of the procedure for `return`)
with the same registers — except `ra`, which calls overwrite and the program never reads — the same stack memory and the same
effect trace; `timeout n` ⇒ after some `k ≥ n` machine steps the machine is in a state with the same trace (so the source
trace is a prefix of the chip's behaviour, and — the machine being deterministic — vice versa).
-/
namespace PV.Core
open PV.IC10
set_option linter.unusedSectionVars false
set_option linter.unusedVariables false

variable {V : Type}

/-- `c` sits in `P` at line `base` -/
def CodeAt (P : List (Instr Reg V)) (base : Nat) (c : List (Instr Reg V)) : Prop :=
  ∀ i, i < c.length → P[base + i]? = c[i]?

theorem CodeAt.left {P : List (Instr Reg V)} {base : Nat} {c d : List (Instr Reg V)} (h : CodeAt P base (c ++ d)) : CodeAt P base c := by
  intro i hi
  have := h i (by simp; omega)
  simpa [List.getElem?_append_left hi] using this

theorem CodeAt.right {P : List (Instr Reg V)} {base : Nat} {c d : List (Instr Reg V)} (h : CodeAt P base (c ++ d)) :
    CodeAt P (base + c.length) d := by
  intro i hi
  have := h (c.length + i) (by simp; omega)
  rw [List.getElem?_append_right (by omega)] at this
  simpa [Nat.add_assoc] using this

theorem CodeAt.head {P : List (Instr Reg V)} {base : Nat} {x : Instr Reg V} {d : List (Instr Reg V)} (h : CodeAt P base (x :: d)) :
    P[base]? = some x := by
  have := h 0 (by simp)
  simpa using this

theorem CodeAt.tail {P : List (Instr Reg V)} {base : Nat} {x : Instr Reg V} {d : List (Instr Reg V)} (h : CodeAt P base (x :: d)) :
    CodeAt P (base + 1) d := by
  have : CodeAt P base ([x] ++ d) := by simpa using h
  simpa using this.right

theorem comp_length (lit : Nat → V) (entry : Nat → Nat) (s : Stmt V) (base cl bl rl : Nat) : (comp lit entry s base cl bl rl).length = size s := by
  induction s generalizing base cl bl rl with
  | seq p q ihp ihq => simp [comp, size, ihp, ihq]
  | ite c neg args p q ihp ihq => simp [comp, size, ihp, ihq, nopI] <;> omega
  | ifThen c neg args p ihp => simp [comp, size, ihp, nopI]
  | «while» c neg args body ih => simp [comp, size, ih, nopI] <;> omega
  | loop body ih => simp [comp, size, ih, nopI] <;> omega
  | inl body ih => simp [comp, size, ih, nopI] <;> omega
  | _ => simp [comp, size]

/-- the machine state `st` is the source state `σ` at line `pc` and call depth `d`: same registers except `ra` / `sp` (which
    calls and the call stack use and a well-formed program never touches), `sp = d`, the cells below `d` hold the saved return
    addresses `stk`, the cells from `lo` on are the program's memory -/
structure At (sem : Sem V) (lo : Nat) (st : St Reg V) (σ : SSt V) (pc d : Nat) (stk : List V) : Prop where
  regs : ∀ r, r ≠ (Special.ra : Reg) → r ≠ (Special.sp : Reg) → st.regs r = σ.regs r
  sp : st.regs Special.sp = sem.ofNat d
  len : stk.length = d
  stack : ∀ i, i < d → st.mem i = stk.getD i (sem.ofNat 0)
  mem : ∀ n, lo ≤ n → st.mem n = σ.mem n
  pc : st.pc = pc
  trace : st.trace = σ.trace
  halted : st.halted = false

/-- the machine state that corresponds exactly to a source state at line `pc` -/
def mk (σ : SSt V) (pc : Nat) : St Reg V :=
  { regs := σ.regs, mem := σ.mem, pc := pc, trace := σ.trace, halted := false }

theorem at_mk (sem : Sem V) (lo : Nat) (σ : SSt V) (pc : Nat) (hsp : σ.regs Special.sp = sem.ofNat 0) : At sem lo (mk σ pc) σ pc 0 [] :=
  ⟨fun _ _ _ => rfl, hsp, rfl, fun i hi => by omega, fun _ _ => rfl, rfl, rfl, rfl⟩

theorem run_add (sem : Sem V) (env : Env V) (P : List (Instr Reg V)) (a b : Nat) (s : St Reg V) :
    run sem env P (a + b) s = run sem env P b (run sem env P a s) := by
  induction a generalizing s with
  | zero => simp [run]
  | succ n ih => rw [Nat.succ_add]; simp [run, ih]

theorem run_one (sem : Sem V) (env : Env V) (P : List (Instr Reg V)) (s : St Reg V) : run sem env P 1 s = step sem env P s := rfl

/-! ### operands -/

theorem eval_ok (f g : Reg → V) (h : ∀ r, r ≠ (Special.ra : Reg) → r ≠ (Special.sp : Reg) → f r = g r) (o : Opnd Reg V) (ho : opndOk o) :
    o.eval f = o.eval g := by
  cases o with
  | reg r => exact h r ho.1 ho.2
  | num v => rfl

theorem evalArgs_ok (f g : Reg → V) (h : ∀ r, r ≠ (Special.ra : Reg) → r ≠ (Special.sp : Reg) → f r = g r) :
    ∀ (args : List (Opnd Reg V)), (∀ o ∈ args, opndOk o) → evalArgs f args = evalArgs g args := by
  intro args
  induction args with
  | nil => intro _; rfl
  | cons o rest ih =>
    intro ho
    simp only [evalArgs, List.map_cons]
    rw [eval_ok f g h o (ho o (by simp))]
    have := ih (fun x hx => ho x (by simp [hx]))
    simp only [evalArgs] at this
    rw [this]

theorem dropLast_snoc' {α : Type} (l : List α) (a : α) : (l ++ [a]).dropLast = l := by simp
theorem getLastD_snoc' {α : Type} (l : List α) (a d : α) : (l ++ [a]).getLastD d = a := by
  induction l with
  | nil => rfl
  | cons x xs ih => cases xs <;> simp_all [List.getLastD]

theorem getD_append_lt {α : Type} (l l' : List α) (dflt : α) (i : Nat) (h : i < l.length) : (l ++ l').getD i dflt = l.getD i dflt := by
  simp [List.getD, List.getElem?_append_left h]

theorem getD_append_len {α : Type} (l : List α) (x dflt : α) : (l ++ [x]).getD l.length dflt = x := by
  simp [List.getD]

/-! ### single steps, relationally -/

section steps
variable (sem : Sem V) (lo : Nat) (env : Env V) (P : List (Instr Reg V)) (st : St Reg V) (σ : SSt V) (pc d : Nat) (stk : List V)

theorem sp_ne_ra : (Special.sp : Reg) ≠ Special.ra := by decide

/-- a step that writes one register that is neither `ra` nor `sp` and leaves the stack alone -/
theorem step_write (h : At sem lo st σ pc d stk) (x : Reg) (v : V) (hx : regOk x) (τ : List (Eff V))
    (hstep : step sem env P st = { regs := upd st.regs x v, mem := st.mem, pc := pc + 1, trace := τ, halted := false }) :
    At sem lo (step sem env P st) { regs := upd σ.regs x v, mem := σ.mem, trace := τ } (pc + 1) d stk ∧
      (step sem env P st).regs Special.ra = st.regs Special.ra := by
  rw [hstep]
  refine ⟨⟨fun r h1 h2 => ?_, ?_, h.len, h.stack, h.mem, rfl, rfl, rfl⟩, ?_⟩
  · simp only [upd]; split
    · rfl
    · exact h.regs r h1 h2
  · simp only [upd, Ne.symm hx.2, if_false]; exact h.sp
  · simp only [upd, Ne.symm hx.1, if_false]

/-- a step that changes neither registers nor stack -/
theorem step_plain (h : At sem lo st σ pc d stk) (pc' : Nat) (τ : List (Eff V))
    (hstep : step sem env P st = { regs := st.regs, mem := st.mem, pc := pc', trace := τ, halted := false }) :
    At sem lo (step sem env P st) { σ with trace := τ } pc' d stk ∧ (step sem env P st).regs Special.ra = st.regs Special.ra := by
  rw [hstep]
  exact ⟨⟨h.regs, h.sp, h.len, h.stack, h.mem, rfl, rfl, rfl⟩, rfl⟩

theorem step_alu (h : At sem lo st σ pc d stk) (x : Reg) (op : String) (args : List (Opnd Reg V)) (hx : regOk x) (ha : ∀ o ∈ args, opndOk o)
    (hi : P[pc]? = some ⟨.alu op, some x, args⟩) :
    At sem lo (step sem env P st) { σ with regs := upd σ.regs x (sem.alu op (evalArgs σ.regs args)) } (pc + 1) d stk ∧
      (step sem env P st).regs Special.ra = st.regs Special.ra := by
  have hv : args.map (Opnd.eval st.regs) = evalArgs σ.regs args := evalArgs_ok st.regs σ.regs h.regs args ha
  have := step_write sem lo env P st σ pc d stk h x (sem.alu op (evalArgs σ.regs args)) hx st.trace
    (by simp [step, h.halted, h.pc, hi, IC10.exec, hv, applyOut, writeBack, updOpt])
  rw [h.trace] at this
  exact this

theorem step_load (h : At sem lo st σ pc d stk) (x : Reg) (q : String) (args : List (Opnd Reg V)) (hx : regOk x) (ha : ∀ o ∈ args, opndOk o)
    (hi : P[pc]? = some ⟨.load q, some x, args⟩) :
    At sem lo (step sem env P st) { σ with regs := upd σ.regs x (env σ.trace q (evalArgs σ.regs args)) } (pc + 1) d stk ∧
      (step sem env P st).regs Special.ra = st.regs Special.ra := by
  have hv : args.map (Opnd.eval st.regs) = evalArgs σ.regs args := evalArgs_ok st.regs σ.regs h.regs args ha
  have := step_write sem lo env P st σ pc d stk h x (env σ.trace q (evalArgs σ.regs args)) hx st.trace
    (by simp [step, h.halted, h.pc, hi, IC10.exec, hv, h.trace, applyOut, writeBack, updOpt])
  rw [h.trace] at this
  exact this

theorem step_getm (h : At sem lo st σ pc d stk) (x : Reg) (v : V) (n : Nat) (hx : regOk x)
    (ha : sem.toAddr v = some n) (hlo : lo ≤ n) (hn : n < stackSize) (hi : P[pc]? = some ⟨.getdb, some x, [.num v]⟩) :
    At sem lo (step sem env P st) { σ with regs := upd σ.regs x (σ.mem n) } (pc + 1) d stk ∧
      (step sem env P st).regs Special.ra = st.regs Special.ra := by
  have := step_write sem lo env P st σ pc d stk h x (σ.mem n) hx st.trace
    (by simp [step, h.halted, h.pc, hi, IC10.exec, Opnd.eval, ha, hn, h.mem n hlo, applyOut, writeBack, updOpt])
  rw [h.trace] at this
  exact this

theorem step_store (h : At sem lo st σ pc d stk) (q : String) (args : List (Opnd Reg V)) (ha : ∀ o ∈ args, opndOk o)
    (hi : P[pc]? = some ⟨.store q, none, args⟩) :
    At sem lo (step sem env P st) { σ with trace := ⟨q, evalArgs σ.regs args⟩ :: σ.trace } (pc + 1) d stk ∧
      (step sem env P st).regs Special.ra = st.regs Special.ra := by
  have hv : args.map (Opnd.eval st.regs) = evalArgs σ.regs args := evalArgs_ok st.regs σ.regs h.regs args ha
  exact step_plain sem lo env P st σ pc d stk h (pc + 1) _
    (by simp [step, h.halted, h.pc, hi, IC10.exec, hv, applyOut, writeBack, updOpt, h.trace])

theorem step_yield (h : At sem lo st σ pc d stk) (hi : P[pc]? = some ⟨.yield, none, []⟩) :
    At sem lo (step sem env P st) { σ with trace := ⟨"yield", []⟩ :: σ.trace } (pc + 1) d stk ∧
      (step sem env P st).regs Special.ra = st.regs Special.ra :=
  step_plain sem lo env P st σ pc d stk h (pc + 1) _
    (by simp [step, h.halted, h.pc, hi, IC10.exec, applyOut, writeBack, updOpt, h.trace])

theorem step_sleep (h : At sem lo st σ pc d stk) (a : Opnd Reg V) (hao : opndOk a) (hi : P[pc]? = some ⟨.sleep, none, [a]⟩) :
    At sem lo (step sem env P st) { σ with trace := ⟨"sleep", [a.eval σ.regs]⟩ :: σ.trace } (pc + 1) d stk ∧
      (step sem env P st).regs Special.ra = st.regs Special.ra := by
  have e1 : a.eval st.regs = a.eval σ.regs := eval_ok st.regs σ.regs h.regs a hao
  exact step_plain sem lo env P st σ pc d stk h (pc + 1) _
    (by simp [step, h.halted, h.pc, hi, IC10.exec, e1, applyOut, writeBack, updOpt, h.trace])

theorem step_nop (h : At sem lo st σ pc d stk) (hi : P[pc]? = some nopI) :
    At sem lo (step sem env P st) σ (pc + 1) d stk ∧ (step sem env P st).regs Special.ra = st.regs Special.ra := by
  have := step_plain sem lo env P st σ pc d stk h (pc + 1) st.trace
    (by simp [step, h.halted, h.pc, hi, nopI, IC10.exec, applyOut, writeBack, updOpt])
  rw [h.trace] at this
  exact this

theorem step_jmp (h : At sem lo st σ pc d stk) (lit : Nat → V) (n : Nat) (hl : sem.toAddr (lit n) = some n) (hi : P[pc]? = some ⟨.jmp, none, [.num (lit n)]⟩) :
    At sem lo (step sem env P st) σ n d stk ∧ (step sem env P st).regs Special.ra = st.regs Special.ra := by
  have := step_plain sem lo env P st σ pc d stk h n st.trace
    (by simp [step, h.halted, h.pc, hi, IC10.exec, target, Opnd.eval, hl, applyOut, writeBack, updOpt])
  rw [h.trace] at this
  exact this

theorem step_br (h : At sem lo st σ pc d stk) (lit : Nat → V) (c : String) (args : List (Opnd Reg V)) (n : Nat) (hl : sem.toAddr (lit n) = some n)
    (ha : ∀ o ∈ args, opndOk o) (hi : P[pc]? = some ⟨.br c, none, args ++ [.num (lit n)]⟩) :
    At sem lo (step sem env P st) σ (if sem.cond c (evalArgs σ.regs args) then n else pc + 1) d stk ∧
      (step sem env P st).regs Special.ra = st.regs Special.ra := by
  have hv : (args ++ [Opnd.num (lit n)]).map (Opnd.eval st.regs) = evalArgs σ.regs args ++ [lit n] := by
    have := evalArgs_ok st.regs σ.regs h.regs args ha
    simp only [evalArgs] at this
    simp [evalArgs, Opnd.eval, this]
  by_cases hc : sem.cond c (evalArgs σ.regs args) = true
  · have := step_plain sem lo env P st σ pc d stk h n st.trace (by
      simp only [step, h.halted, h.pc, hi, IC10.exec, hv, dropLast_snoc', getLastD_snoc', hc, if_true, target, hl, applyOut, writeBack, updOpt, Bool.false_eq_true, if_false]
      simp)
    rw [h.trace] at this
    rw [if_pos hc]; exact this
  · have hc' : sem.cond c (evalArgs σ.regs args) = false := by simpa using hc
    have := step_plain sem lo env P st σ pc d stk h (pc + 1) st.trace (by
      simp only [step, h.halted, h.pc, hi, IC10.exec, hv, dropLast_snoc', hc', Bool.false_eq_true, if_false, applyOut, writeBack, updOpt]
      simp [h.pc])
    rw [h.trace] at this
    rw [if_neg hc]; exact this

/-- `put db n v` at a literal address of the program's memory: the call stack below is not touched -/
theorem step_putm (h : At sem lo st σ pc d stk) (a : V) (v : Opnd Reg V) (n : Nat) (hvo : opndOk v) (hd : d ≤ lo)
    (ha : sem.toAddr a = some n) (hlo : lo ≤ n) (hn : n < stackSize) (hi : P[pc]? = some ⟨.poke, none, [.num a, v]⟩) :
    At sem lo (step sem env P st) { σ with mem := updMem σ.mem n (v.eval σ.regs) } (pc + 1) d stk ∧
      (step sem env P st).regs Special.ra = st.regs Special.ra := by
  have e2 : v.eval st.regs = v.eval σ.regs := eval_ok st.regs σ.regs h.regs v hvo
  have hnum : (Opnd.num a : Opnd Reg V).eval st.regs = a := rfl
  have hs : step sem env P st = { regs := st.regs, mem := updMem st.mem n (v.eval σ.regs), pc := pc + 1, trace := st.trace, halted := false } := by
    rw [← e2]
    simp [step, h.halted, h.pc, hi, IC10.exec, hnum, ha, hn, applyOut, writeBack, updOpt]
  rw [hs]
  refine ⟨⟨h.regs, h.sp, h.len, fun i hi' => ?_, fun m hm => ?_, rfl, h.trace, rfl⟩, rfl⟩
  · have : i ≠ n := by omega
    simp only [updMem, this, if_false]; exact h.stack i hi'
  · simp only [updMem]; split
    · rfl
    · exact h.mem m hm

/-- `jal`: `ra` receives the line after the call, everything else stays -/
theorem step_jal (h : At sem lo st σ pc d stk) (lit : Nat → V) (n : Nat) (hl : sem.toAddr (lit n) = some n) (hi : P[pc]? = some ⟨.jal, none, [.num (lit n)]⟩) :
    At sem lo (step sem env P st) σ n d stk ∧ (step sem env P st).regs Special.ra = sem.ofNat (pc + 1) := by
  have hs : step sem env P st = { regs := upd st.regs Special.ra (sem.ofNat (pc + 1)), mem := st.mem, pc := n, trace := st.trace, halted := false } := by
    simp [step, h.halted, h.pc, hi, IC10.exec, target, Opnd.eval, hl, applyOut, writeBack, updOpt]
  rw [hs]
  refine ⟨⟨fun r h1 h2 => ?_, ?_, h.len, h.stack, h.mem, rfl, h.trace, rfl⟩, by simp [upd]⟩
  · simp only [upd, h1, if_false]; exact h.regs r h1 h2
  · simp only [upd, sp_ne_ra, if_false]; exact h.sp

/-- `j ra`: continues at the line `ra` holds -/
theorem step_ret (h : At sem lo st σ pc d stk) (n : Nat) (hra : sem.toAddr (st.regs Special.ra) = some n) (hi : P[pc]? = some retI) :
    At sem lo (step sem env P st) σ n d stk ∧ (step sem env P st).regs Special.ra = st.regs Special.ra := by
  have := step_plain sem lo env P st σ pc d stk h n st.trace
    (by simp [step, h.halted, h.pc, hi, retI, IC10.exec, target, Opnd.eval, hra, applyOut, writeBack, updOpt])
  rw [h.trace] at this
  exact this

/-- `push ra` at the entry of a procedure that calls others: the return address goes to cell `d` of the call stack -/
theorem step_push_ra (hof : ∀ n, sem.toAddr (sem.ofNat n) = some n) (h : At sem lo st σ pc d stk) (hd : d < lo) (hlo : lo ≤ stackSize)
    (hi : P[pc]? = some pushRa) :
    At sem lo (step sem env P st) σ (pc + 1) (d + 1) (stk ++ [st.regs Special.ra]) ∧ (step sem env P st).regs Special.ra = st.regs Special.ra := by
  have hds : d < stackSize := by omega
  have hs : step sem env P st =
      { regs := upd st.regs Special.sp (sem.ofNat (d + 1)), mem := updMem st.mem d (st.regs Special.ra), pc := pc + 1, trace := st.trace, halted := false } := by
    simp [step, h.halted, h.pc, hi, pushRa, IC10.exec, Opnd.eval, h.sp, hof, hds, applyOut, writeBack, updOpt]
  rw [hs]
  refine ⟨⟨fun r h1 h2 => ?_, by simp [upd], by simp [h.len], fun i hi' => ?_, fun m hm => ?_, rfl, h.trace, rfl⟩, ?_⟩
  · simp only [upd, h2, if_false]; exact h.regs r h1 h2
  · simp only [updMem]
    by_cases hid : i = d
    · subst hid; simp only [if_true]; rw [← h.len, getD_append_len]
    · have hlt : i < d := by omega
      simp only [hid, if_false]
      rw [h.stack i hlt, getD_append_lt _ _ _ _ (by rw [h.len]; exact hlt)]
  · have : m ≠ d := by omega
    simp only [updMem, this, if_false]; exact h.mem m hm
  · simp only [upd, Ne.symm sp_ne_ra, if_false]

/-- `pop ra` after the end label: the return address saved at the entry comes back -/
theorem step_pop_ra (hof : ∀ n, sem.toAddr (sem.ofNat n) = some n) (v : V) (h : At sem lo st σ pc (d + 1) (stk ++ [v])) (hd : d < lo) (hlo : lo ≤ stackSize)
    (hi : P[pc]? = some popRa) :
    At sem lo (step sem env P st) σ (pc + 1) d stk ∧ (step sem env P st).regs Special.ra = v := by
  have hds : d < stackSize := by omega
  have hlen : stk.length = d := by have := h.len; simpa using this
  have hcell : st.mem d = v := by
    have := h.stack d (by omega)
    rw [this, ← hlen, getD_append_len]
  have hs : step sem env P st =
      { regs := upd (upd st.regs Special.sp (sem.ofNat d)) Special.ra (st.mem d), mem := st.mem, pc := pc + 1, trace := st.trace, halted := false } := by
    simp [step, h.halted, h.pc, hi, popRa, IC10.exec, h.sp, hof, hds, applyOut, writeBack, updOpt]
  rw [hs]
  refine ⟨⟨fun r h1 h2 => ?_, ?_, hlen, fun i hi' => ?_, h.mem, rfl, h.trace, rfl⟩, by simp [upd, hcell]⟩
  · simp only [upd, h1, h2, if_false]; exact h.regs r h1 h2
  · simp [upd, sp_ne_ra]
  · rw [h.stack i (by omega), getD_append_lt _ _ _ _ (by omega)]

end steps

/-! ### the simulation -/

/-- the line at which a statement's exit lands: the next line, the enclosing loop's end / start label, the procedure's end label -/
def land (e : Exit) (next cl bl rl : Nat) : Nat :=
  match e with
  | .norm => next
  | .brk => bl
  | .cont => cl
  | .ret => rl

theorem run_step (sem : Sem V) (env : Env V) (P : List (Instr Reg V)) (k : Nat) (st : St Reg V) :
    run sem env P (k + 1) st = step sem env P (run sem env P k st) := by
  induction k generalizing st with
  | zero => rfl
  | succ k ih => exact ih (step sem env P st)

theorem good_mono (sem : Sem V) (lo : Nat) (a b : Nat → Prop) (hab : ∀ k, a k → b k) : ∀ s : Stmt V, Good sem lo a s → Good sem lo b s := by
  intro s
  induction s with
  | call k => intro h; exact hab k h
  | seq p q ihp ihq => intro h; exact ⟨ihp h.1, ihq h.2⟩
  | ite c neg args p q ihp ihq => intro h; exact ⟨h.1, h.2.1, ihp h.2.2.1, ihq h.2.2.2⟩
  | ifThen c neg args p ihp => intro h; exact ⟨h.1, h.2.1, ihp h.2.2⟩
  | «while» c neg args body ih => intro h; exact ⟨h.1, h.2.1, ih h.2.2⟩
  | loop body ih => intro h; exact ih h
  | inl body ih => intro h; exact ih h
  | _ => intro h; exact h

theorem good_false_nocall (sem : Sem V) (lo : Nat) : ∀ s : Stmt V, Good sem lo (fun _ => False) s → NoCall s := by
  intro s
  induction s with
  | call k => intro h; exact h
  | seq p q ihp ihq => intro h; exact ⟨ihp h.1, ihq h.2⟩
  | ite c neg args p q ihp ihq => intro h; exact ⟨ihp h.2.2.1, ihq h.2.2.2⟩
  | ifThen c neg args p ihp => intro h; exact ihp h.2.2
  | «while» c neg args body ih => intro h; exact ih h.2.2
  | loop body ih => intro h; exact ih h
  | inl body ih => intro h; exact ih h
  | _ => intro _; trivial

theorem hasCall_false_nocall : ∀ s : Stmt V, hasCall s = false → NoCall s := by
  intro s
  induction s with
  | call k => intro h; simp [hasCall] at h
  | seq p q ihp ihq => intro h; simp only [hasCall, Bool.or_eq_false_iff] at h; exact ⟨ihp h.1, ihq h.2⟩
  | ite c neg args p q ihp ihq => intro h; simp only [hasCall, Bool.or_eq_false_iff] at h; exact ⟨ihp h.1, ihq h.2⟩
  | ifThen c neg args p ihp => intro h; exact ihp h
  | «while» c neg args body ih => intro h; exact ih h
  | loop body ih => intro h; exact ih h
  | inl body ih => intro h; exact ih h
  | _ => intro _; trivial

section sim
variable (sem : Sem V) (lo : Nat) (env : Env V) (lit : Nat → V) (entry : Nat → Nat) (F : Nat → Stmt V) (P : List (Instr Reg V))
variable (rk : Nat → Nat) (okP : Nat → Prop)

/-- procedure `k` sits at its entry line and is well formed; the procedures it calls have a smaller rank (no recursion: the
    depth of the call stack is bounded) -/
structure ProcOk (k : Nat) : Prop where
  code : CodeAt P (entry k) (compProc lit entry (F k) k)
  good : Good sem lo (fun j => okP j ∧ rk j < rk k) (F k)

def Claim (n : Nat) (s : Stmt V) : Prop :=
  ∀ (ok : Nat → Prop) (b : Nat), (∀ k, ok k → okP k ∧ rk k < b) → Good sem lo ok s →
  ∀ (base cl bl rl : Nat) (σ : SSt V) (st : St Reg V) (d : Nat) (stk : List V), d + b ≤ lo →
    CodeAt P base (comp lit entry s base cl bl rl) → At sem lo st σ base d stk →
    (∀ e σ', exec sem env F n s σ = .ok e σ' →
        ∃ k, At sem lo (run sem env P k st) σ' (land e (base + size s) cl bl rl) d stk ∧
             (NoCall s → (run sem env P k st).regs Special.ra = st.regs Special.ra)) ∧
    (∀ σ', exec sem env F n s σ = .timeout σ' → ∃ k pc d' stk', n ≤ k ∧ At sem lo (run sem env P k st) σ' pc d' stk')

theorem claim_stmt (hlit : ∀ n, sem.toAddr (lit n) = some n) (hof : ∀ n, sem.toAddr (sem.ofNat n) = some n) (hlo : lo ≤ stackSize)
    (hokP : ∀ k, okP k → ProcOk sem lo lit entry F P rk okP k) (n : Nat)
    (hprev : ∀ m, n = m + 1 → ∀ s, Claim sem lo env lit entry F P rk okP m s) :
    ∀ s, Claim sem lo env lit entry F P rk okP n s := by
  intro s
  induction s with
  | alu x op args =>
    intro ok b hokb hg base cl bl rl σ st d stk hdb hc hat
    have hi : P[base]? = some ⟨.alu op, some x, args⟩ := by have := hc 0 (by simp [comp]); simpa [comp] using this
    obtain ⟨h1, h2⟩ := step_alu sem lo env P st σ base d stk hat x op args hg.1 hg.2 hi
    refine ⟨fun e σ' h => ⟨1, ?_, fun _ => h2⟩, fun σ' h => by simp [exec] at h⟩
    simp only [exec, Res.done, Res.ok.injEq] at h
    obtain ⟨rfl, rfl⟩ := h
    exact h1
  | load x q args =>
    intro ok b hokb hg base cl bl rl σ st d stk hdb hc hat
    have hi : P[base]? = some ⟨.load q, some x, args⟩ := by have := hc 0 (by simp [comp]); simpa [comp] using this
    obtain ⟨h1, h2⟩ := step_load sem lo env P st σ base d stk hat x q args hg.1 hg.2 hi
    refine ⟨fun e σ' h => ⟨1, ?_, fun _ => h2⟩, fun σ' h => by simp [exec] at h⟩
    simp only [exec, Res.done, Res.ok.injEq] at h
    obtain ⟨rfl, rfl⟩ := h
    exact h1
  | store q args =>
    intro ok b hokb hg base cl bl rl σ st d stk hdb hc hat
    have hi : P[base]? = some ⟨.store q, none, args⟩ := by have := hc 0 (by simp [comp]); simpa [comp] using this
    obtain ⟨h1, h2⟩ := step_store sem lo env P st σ base d stk hat q args hg hi
    refine ⟨fun e σ' h => ⟨1, ?_, fun _ => h2⟩, fun σ' h => by simp [exec] at h⟩
    simp only [exec, Res.done, Res.ok.injEq] at h
    obtain ⟨rfl, rfl⟩ := h
    exact h1
  | yield =>
    intro ok b hokb hg base cl bl rl σ st d stk hdb hc hat
    have hi : P[base]? = some ⟨.yield, none, []⟩ := by have := hc 0 (by simp [comp]); simpa [comp] using this
    obtain ⟨h1, h2⟩ := step_yield sem lo env P st σ base d stk hat hi
    refine ⟨fun e σ' h => ⟨1, ?_, fun _ => h2⟩, fun σ' h => by simp [exec] at h⟩
    simp only [exec, Res.done, Res.ok.injEq] at h
    obtain ⟨rfl, rfl⟩ := h
    exact h1
  | sleep a =>
    intro ok b hokb hg base cl bl rl σ st d stk hdb hc hat
    have hi : P[base]? = some ⟨.sleep, none, [a]⟩ := by have := hc 0 (by simp [comp]); simpa [comp] using this
    obtain ⟨h1, h2⟩ := step_sleep sem lo env P st σ base d stk hat a hg hi
    refine ⟨fun e σ' h => ⟨1, ?_, fun _ => h2⟩, fun σ' h => by simp [exec] at h⟩
    simp only [exec, Res.done, Res.ok.injEq] at h
    obtain ⟨rfl, rfl⟩ := h
    exact h1
  | skip =>
    intro ok b hokb hg base cl bl rl σ st d stk hdb hc hat
    refine ⟨fun e σ' h => ⟨0, ?_, fun _ => rfl⟩, fun σ' h => by simp [exec] at h⟩
    simp only [exec, Res.done, Res.ok.injEq] at h
    obtain ⟨rfl, rfl⟩ := h
    simpa [run, size, land] using hat
  | getm x a =>
    intro ok b hokb hg base cl bl rl σ st d stk hdb hc hat
    obtain ⟨hx, haok⟩ := hg
    cases a with
    | reg r => exact haok.elim
    | num v =>
      obtain ⟨m, ha, hlom, hm⟩ := haok
      have hi : P[base]? = some ⟨.getdb, some x, [.num v]⟩ := by have := hc 0 (by simp [comp]); simpa [comp] using this
      obtain ⟨h1, h2⟩ := step_getm sem lo env P st σ base d stk hat x v m hx ha hlom hm hi
      refine ⟨fun e σ' h => ⟨1, ?_, fun _ => h2⟩, fun σ' h => ?_⟩
      · simp only [exec, Opnd.eval, ha, hm, if_true, Res.done, Res.ok.injEq] at h
        obtain ⟨rfl, rfl⟩ := h
        exact h1
      · simp [exec, Opnd.eval, ha, hm, Res.done] at h
  | putm a v =>
    intro ok b hokb hg base cl bl rl σ st d stk hdb hc hat
    obtain ⟨haok, hv⟩ := hg
    cases a with
    | reg r => exact haok.elim
    | num w =>
      obtain ⟨m, ha, hlom, hm⟩ := haok
      have hi : P[base]? = some ⟨.poke, none, [.num w, v]⟩ := by have := hc 0 (by simp [comp]); simpa [comp] using this
      obtain ⟨h1, h2⟩ := step_putm sem lo env P st σ base d stk hat w v m hv (by omega) ha hlom hm hi
      refine ⟨fun e σ' h => ⟨1, ?_, fun _ => h2⟩, fun σ' h => ?_⟩
      · simp only [exec, Opnd.eval, ha, hm, if_true, Res.done, Res.ok.injEq] at h
        obtain ⟨rfl, rfl⟩ := h
        exact h1
      · simp [exec, Opnd.eval, ha, hm, Res.done] at h
  | brk =>
    intro ok b hokb hg base cl bl rl σ st d stk hdb hc hat
    have hi : P[base]? = some ⟨.jmp, none, [.num (lit bl)]⟩ := by have := hc 0 (by simp [comp]); simpa [comp] using this
    obtain ⟨h1, h2⟩ := step_jmp sem lo env P st σ base d stk hat lit bl (hlit _) hi
    refine ⟨fun e σ' h => ⟨1, ?_, fun _ => h2⟩, fun σ' h => by simp [exec] at h⟩
    simp only [exec, Res.ok.injEq] at h
    obtain ⟨rfl, rfl⟩ := h
    exact h1
  | cont =>
    intro ok b hokb hg base cl bl rl σ st d stk hdb hc hat
    have hi : P[base]? = some ⟨.jmp, none, [.num (lit cl)]⟩ := by have := hc 0 (by simp [comp]); simpa [comp] using this
    obtain ⟨h1, h2⟩ := step_jmp sem lo env P st σ base d stk hat lit cl (hlit _) hi
    refine ⟨fun e σ' h => ⟨1, ?_, fun _ => h2⟩, fun σ' h => by simp [exec] at h⟩
    simp only [exec, Res.ok.injEq] at h
    obtain ⟨rfl, rfl⟩ := h
    exact h1
  | ret =>
    intro ok b hokb hg base cl bl rl σ st d stk hdb hc hat
    have hi : P[base]? = some ⟨.jmp, none, [.num (lit rl)]⟩ := by have := hc 0 (by simp [comp]); simpa [comp] using this
    obtain ⟨h1, h2⟩ := step_jmp sem lo env P st σ base d stk hat lit rl (hlit _) hi
    refine ⟨fun e σ' h => ⟨1, ?_, fun _ => h2⟩, fun σ' h => by simp [exec] at h⟩
    simp only [exec, Res.ok.injEq] at h
    obtain ⟨rfl, rfl⟩ := h
    exact h1
  | call j =>
    intro ok b hokb hg base cl bl rl σ st d stk hdb hc hat
    obtain ⟨hjok, hjrk⟩ := hokb j hg
    have hp := hokP j hjok
    have hi : P[base]? = some ⟨.jal, none, [.num (lit (entry j))]⟩ := by have := hc 0 (by simp [comp]); simpa [comp] using this
    have hbodyOk : ∀ k, (fun i => okP i ∧ rk i < rk j) k → okP k ∧ rk k < rk j := fun k h => h
    obtain ⟨hj1, hra1⟩ := step_jal sem lo env P st σ base d stk hat lit (entry j) (hlit _) hi
    cases n with
    | zero =>
      refine ⟨fun e σ' h => by simp [exec] at h, fun σ' h => ?_⟩
      simp only [exec, Res.timeout.injEq] at h
      subst h
      exact ⟨0, base, d, stk, Nat.le_refl 0, hat⟩
    | succ m =>
      by_cases hcall : hasCall (F j) = true
      · -- a procedure that calls others: label ; push ra ; body ; end label ; pop ra ; j ra
        have hblock : CodeAt P (entry j) ([nopI, pushRa] ++ (comp lit entry (F j) (entry j + 2) 0 0 (entry j + 2 + size (F j)) ++ [nopI, popRa, retI])) := by
          have := hp.code; simp only [compProc, hcall, if_true] at this; simpa [List.append_assoc] using this
        have hlab : P[entry j]? = some nopI := by have := hblock 0 (by simp); simpa using this
        have hpush : P[entry j + 1]? = some pushRa := by have := hblock 1 (by simp); simpa using this
        have hb1 := hblock.right
        simp only [List.length_cons, List.length_nil] at hb1
        have hbody : CodeAt P (entry j + 2) (comp lit entry (F j) (entry j + 2) 0 0 (entry j + 2 + size (F j))) := by
          have := hb1.left; simpa using this
        have hb2 := hb1.right
        rw [comp_length] at hb2
        have hend : P[entry j + 2 + size (F j)]? = some nopI := by
          have := hb2 0 (by simp); simpa [Nat.add_assoc] using this
        have hpop : P[entry j + 2 + size (F j) + 1]? = some popRa := by
          have := hb2 1 (by simp); simpa [Nat.add_assoc] using this
        have hjra : P[entry j + 2 + size (F j) + 1 + 1]? = some retI := by
          have := hb2 2 (by simp); simpa [Nat.add_assoc] using this
        obtain ⟨hj2, hra2⟩ := step_nop sem lo env P _ σ (entry j) d stk hj1 hlab
        obtain ⟨hj3, hra3⟩ := step_push_ra sem lo env P _ σ (entry j + 1) d stk hof hj2 (by omega) hlo hpush
        have hrasaved : (step sem env P (step sem env P st)).regs Special.ra = sem.ofNat (base + 1) := by rw [hra2, hra1]
        rw [hrasaved] at hj3
        have hcl := hprev m rfl (F j) _ (rk j) hbodyOk hp.good (entry j + 2) 0 0 (entry j + 2 + size (F j)) σ _ (d + 1) _ (by omega) hbody
          (by have e : entry j + 1 + 1 = entry j + 2 := by omega
              rw [e] at hj3; exact hj3)
        have hrun3 : ∀ k (u : St Reg V), run sem env P (k + 1 + 1 + 1) u = run sem env P k (step sem env P (step sem env P (step sem env P u))) := fun k u => rfl
        constructor
        · intro e σ' h
          simp only [exec] at h
          cases hb : exec sem env F m (F j) σ with
          | ok e1 σ1 =>
            rw [hb] at h
            obtain ⟨k1, h1, _⟩ := hcl.1 e1 σ1 hb
            have hfin : At sem lo (run sem env P k1 (step sem env P (step sem env P (step sem env P st)))) σ1 (entry j + 2 + size (F j)) (d + 1)
                (stk ++ [sem.ofNat (base + 1)]) → ∃ k, At sem lo (run sem env P k st) σ1 (base + 1) d stk := by
              intro hat1
              obtain ⟨hn1, _⟩ := step_nop sem lo env P _ σ1 _ (d + 1) _ hat1 hend
              obtain ⟨hn2, hrn2⟩ := step_pop_ra sem lo env P _ σ1 _ d stk hof (sem.ofNat (base + 1)) hn1 (by omega) hlo hpop
              obtain ⟨hn3, _⟩ := step_ret sem lo env P _ σ1 _ d stk hn2 (base + 1) (by rw [hrn2, hof]) hjra
              refine ⟨k1 + 1 + 1 + 1 + 1 + 1 + 1, ?_⟩
              have e : run sem env P (k1 + 1 + 1 + 1 + 1 + 1 + 1) st = run sem env P (k1 + 1 + 1 + 1) (step sem env P (step sem env P (step sem env P st))) := rfl
              rw [e, run_step, run_step, run_step]
              exact hn3
            cases e1 with
            | norm =>
              simp only [Res.done, Res.ok.injEq] at h
              obtain ⟨rfl, rfl⟩ := h
              obtain ⟨k, hk⟩ := hfin (by simpa [land] using h1)
              exact ⟨k, hk, fun hnc => hnc.elim⟩
            | ret =>
              simp only [Res.done, Res.ok.injEq] at h
              obtain ⟨rfl, rfl⟩ := h
              obtain ⟨k, hk⟩ := hfin (by simpa [land] using h1)
              exact ⟨k, hk, fun hnc => hnc.elim⟩
            | brk => simp at h
            | cont => simp at h
          | timeout σ1 => rw [hb] at h; simp at h
          | stuck => rw [hb] at h; simp at h
        · intro σ' h
          simp only [exec] at h
          cases hb : exec sem env F m (F j) σ with
          | ok e1 σ1 => rw [hb] at h; cases e1 <;> simp [Res.done] at h
          | timeout σ1 =>
            rw [hb] at h
            simp only [Res.timeout.injEq] at h
            subst h
            obtain ⟨k1, pc, d', stk', hle, h1⟩ := hcl.2 σ1 hb
            exact ⟨k1 + 1 + 1 + 1, pc, d', stk', by omega, by rw [hrun3]; exact h1⟩
          | stuck => rw [hb] at h; simp at h
      · -- a leaf procedure: label ; body ; end label ; j ra
        have hcall' : hasCall (F j) = false := by simpa using hcall
        have hleaf : NoCall (F j) := hasCall_false_nocall (F j) hcall'
        have hblock : CodeAt P (entry j) ([nopI] ++ (comp lit entry (F j) (entry j + 1) 0 0 (entry j + 1 + size (F j)) ++ [nopI, retI])) := by
          have := hp.code; simp only [compProc, hcall', Bool.false_eq_true, if_false] at this; simpa [List.append_assoc] using this
        have hlab : P[entry j]? = some nopI := by have := hblock 0 (by simp); simpa using this
        have hb1 := hblock.right
        simp only [List.length_singleton] at hb1
        have hbody := hb1.left
        have hb2 := hb1.right
        rw [comp_length] at hb2
        have hend : P[entry j + 1 + size (F j)]? = some nopI := by have := hb2 0 (by simp); simpa using this
        have hjra : P[entry j + 1 + size (F j) + 1]? = some retI := by have := hb2 1 (by simp); simpa using this
        obtain ⟨hj2, hra2⟩ := step_nop sem lo env P _ σ (entry j) d stk hj1 hlab
        have hcl := hprev m rfl (F j) _ (rk j) hbodyOk hp.good (entry j + 1) 0 0 (entry j + 1 + size (F j)) σ _ d stk (by omega) hbody hj2
        constructor
        · intro e σ' h
          simp only [exec] at h
          cases hb : exec sem env F m (F j) σ with
          | ok e1 σ1 =>
            rw [hb] at h
            obtain ⟨k1, h1, hr1⟩ := hcl.1 e1 σ1 hb
            have hfin : At sem lo (run sem env P k1 (step sem env P (step sem env P st))) σ1 (entry j + 1 + size (F j)) d stk →
                ∃ k, At sem lo (run sem env P k st) σ1 (base + 1) d stk := by
              intro hat1
              obtain ⟨hn1, hrn1⟩ := step_nop sem lo env P _ σ1 _ d stk hat1 hend
              have hraval : sem.toAddr ((step sem env P (run sem env P k1 (step sem env P (step sem env P st)))).regs Special.ra) = some (base + 1) := by
                rw [hrn1, hr1 hleaf, hra2, hra1, hof]
              obtain ⟨hn2, _⟩ := step_ret sem lo env P _ σ1 _ d stk hn1 (base + 1) hraval hjra
              refine ⟨k1 + 1 + 1 + 1 + 1, ?_⟩
              have e : run sem env P (k1 + 1 + 1 + 1 + 1) st = run sem env P (k1 + 1 + 1) (step sem env P (step sem env P st)) := rfl
              rw [e, run_step, run_step]
              exact hn2
            cases e1 with
            | norm =>
              simp only [Res.done, Res.ok.injEq] at h
              obtain ⟨rfl, rfl⟩ := h
              obtain ⟨k, hk⟩ := hfin (by simpa [land] using h1)
              exact ⟨k, hk, fun hnc => hnc.elim⟩
            | ret =>
              simp only [Res.done, Res.ok.injEq] at h
              obtain ⟨rfl, rfl⟩ := h
              obtain ⟨k, hk⟩ := hfin (by simpa [land] using h1)
              exact ⟨k, hk, fun hnc => hnc.elim⟩
            | brk => simp at h
            | cont => simp at h
          | timeout σ1 => rw [hb] at h; simp at h
          | stuck => rw [hb] at h; simp at h
        · intro σ' h
          simp only [exec] at h
          cases hb : exec sem env F m (F j) σ with
          | ok e1 σ1 => rw [hb] at h; cases e1 <;> simp [Res.done] at h
          | timeout σ1 =>
            rw [hb] at h
            simp only [Res.timeout.injEq] at h
            subst h
            obtain ⟨k1, pc, d', stk', hle, h1⟩ := hcl.2 σ1 hb
            exact ⟨k1 + 1 + 1, pc, d', stk', by omega, h1⟩
          | stuck => rw [hb] at h; simp at h
  | seq p q ihp ihq =>
    intro ok b hokb hg base cl bl rl σ st d stk hdb hc hat
    obtain ⟨hgp, hgq⟩ := hg
    simp only [comp] at hc
    have hcp := hc.left
    have hcq := hc.right
    rw [comp_length] at hcq
    have esz : base + size (p.seq q) = base + size p + size q := by simp [size, Nat.add_assoc]
    constructor
    · intro e σ' h
      simp only [exec] at h
      cases hp : exec sem env F n p σ with
      | ok e1 σ1 =>
        rw [hp] at h
        obtain ⟨k1, h1, hr1⟩ := (ihp ok b hokb hgp base cl bl rl σ st d stk hdb hcp hat).1 e1 σ1 hp
        cases e1 with
        | norm =>
          simp only [land] at h1
          simp only at h
          obtain ⟨k2, h2, hr2⟩ := (ihq ok b hokb hgq (base + size p) cl bl rl σ1 _ d stk hdb hcq h1).1 e σ' h
          refine ⟨k1 + k2, ?_, fun hnc => ?_⟩
          · rw [run_add, esz]; exact h2
          · rw [run_add, hr2 hnc.2, hr1 hnc.1]
        | brk =>
          simp only [Res.ok.injEq] at h
          obtain ⟨rfl, rfl⟩ := h
          exact ⟨k1, h1, fun hnc => hr1 hnc.1⟩
        | cont =>
          simp only [Res.ok.injEq] at h
          obtain ⟨rfl, rfl⟩ := h
          exact ⟨k1, h1, fun hnc => hr1 hnc.1⟩
        | ret =>
          simp only [Res.ok.injEq] at h
          obtain ⟨rfl, rfl⟩ := h
          exact ⟨k1, h1, fun hnc => hr1 hnc.1⟩
      | timeout σ1 => rw [hp] at h; simp at h
      | stuck => rw [hp] at h; simp at h
    · intro σ' h
      simp only [exec] at h
      cases hp : exec sem env F n p σ with
      | ok e1 σ1 =>
        rw [hp] at h
        obtain ⟨k1, h1, hr1⟩ := (ihp ok b hokb hgp base cl bl rl σ st d stk hdb hcp hat).1 e1 σ1 hp
        cases e1 with
        | norm =>
          simp only [land] at h1
          simp only at h
          obtain ⟨k2, pc, d', stk', hle, h2⟩ := (ihq ok b hokb hgq (base + size p) cl bl rl σ1 _ d stk hdb hcq h1).2 σ' h
          exact ⟨k1 + k2, pc, d', stk', by omega, by rw [run_add]; exact h2⟩
        | brk => simp at h
        | cont => simp at h
        | ret => simp at h
      | timeout σ1 =>
        rw [hp] at h
        simp only [Res.timeout.injEq] at h
        subst h
        exact (ihp ok b hokb hgp base cl bl rl σ st d stk hdb hcp hat).2 σ1 hp
      | stuck => rw [hp] at h; simp at h
  | ite c neg args p q ihp ihq =>
    intro ok b hokb hg base cl bl rl σ st d stk hdb hc hat
    obtain ⟨hneg, hargs, hgp, hgq⟩ := hg
    have hbr : P[base]? = some ⟨.br neg, none, args ++ [.num (lit (base + size p + 2))]⟩ := by
      have := hc 0 (by simp [comp]); simpa [comp] using this
    have hcode : CodeAt P base ([⟨.br neg, none, args ++ [.num (lit (base + size p + 2))]⟩] ++ (comp lit entry p (base + 1) cl bl rl ++
        ([⟨.jmp, none, [.num (lit (base + size p + size q + 3))]⟩, nopI] ++ (comp lit entry q (base + size p + 3) cl bl rl ++ [nopI])))) := by
      simpa [comp, List.append_assoc] using hc
    have h1 := hcode.right
    simp only [List.length_singleton] at h1
    have hcp := h1.left
    have h2 := h1.right
    rw [comp_length] at h2
    have hjmp : P[base + 1 + size p]? = some ⟨.jmp, none, [.num (lit (base + size p + size q + 3))]⟩ := by
      have := h2 0 (by simp); simpa using this
    have helse : P[base + size p + 2]? = some nopI := by
      have := h2 1 (by simp)
      have e : base + 1 + size p + 1 = base + size p + 2 := by omega
      rw [e] at this; simpa using this
    have h3 := h2.right
    simp only [List.length_cons, List.length_nil] at h3
    have hcq : CodeAt P (base + size p + 3) (comp lit entry q (base + size p + 3) cl bl rl) := by
      have := h3.left
      have e : base + 1 + size p + (0 + 1 + 1) = base + size p + 3 := by omega
      rw [e] at this; exact this
    have hend : P[base + size p + size q + 3]? = some nopI := by
      have := h3.right
      rw [comp_length] at this
      have e : base + 1 + size p + (0 + 1 + 1) + size q = base + size p + size q + 3 := by omega
      rw [e] at this
      have := this 0 (by simp); simpa using this
    have esz : base + size (Stmt.ite c neg args p q) = base + size p + size q + 3 + 1 := by simp [size]; omega
    obtain ⟨hb1, rb1⟩ := step_br sem lo env P st σ base d stk hat lit neg args (base + size p + 2) (hlit _) hargs hbr
    rw [hneg _ (by simp [evalArgs])] at hb1
    by_cases hb : sem.cond c (evalArgs σ.regs args) = true
    · simp only [hb, Bool.not_true, Bool.false_eq_true, if_false] at hb1
      constructor
      · intro e σ' h
        simp only [exec, hb, if_true] at h
        obtain ⟨k1, hk1, hr1⟩ := (ihp ok b hokb hgp (base + 1) cl bl rl σ _ d stk hdb hcp hb1).1 e σ' h
        have hrun : ∀ k, run sem env P (k + 1) st = run sem env P k (step sem env P st) := fun k => rfl
        cases e with
        | norm =>
          simp only [land] at hk1
          obtain ⟨hj, rj⟩ := step_jmp sem lo env P _ σ' _ d stk hk1 lit _ (hlit _) hjmp
          obtain ⟨he, re⟩ := step_nop sem lo env P _ σ' _ d stk hj hend
          refine ⟨k1 + 1 + 1 + 1, ?_, fun hnc => ?_⟩
          · rw [hrun, run_step, run_step]; simp only [land]; rw [esz]; exact he
          · rw [hrun, run_step, run_step, re, rj, hr1 hnc.1, rb1]
        | brk => exact ⟨k1 + 1, by rw [hrun]; exact hk1, fun hnc => by rw [hrun, hr1 hnc.1, rb1]⟩
        | cont => exact ⟨k1 + 1, by rw [hrun]; exact hk1, fun hnc => by rw [hrun, hr1 hnc.1, rb1]⟩
        | ret => exact ⟨k1 + 1, by rw [hrun]; exact hk1, fun hnc => by rw [hrun, hr1 hnc.1, rb1]⟩
      · intro σ' h
        simp only [exec, hb, if_true] at h
        obtain ⟨k1, pc, d', stk', hle, hk1⟩ := (ihp ok b hokb hgp (base + 1) cl bl rl σ _ d stk hdb hcp hb1).2 σ' h
        exact ⟨k1 + 1, pc, d', stk', by omega, hk1⟩
    · have hb' : sem.cond c (evalArgs σ.regs args) = false := by simpa using hb
      simp only [hb', Bool.not_false, if_true] at hb1
      obtain ⟨hl1, rl1⟩ := step_nop sem lo env P _ σ _ d stk hb1 helse
      have e3 : base + size p + 2 + 1 = base + size p + 3 := by omega
      rw [e3] at hl1
      have hrun2 : ∀ k, run sem env P (k + 1 + 1) st = run sem env P k (step sem env P (step sem env P st)) := fun k => rfl
      constructor
      · intro e σ' h
        simp only [exec, hb', Bool.false_eq_true, if_false] at h
        obtain ⟨k1, hk1, hr1⟩ := (ihq ok b hokb hgq (base + size p + 3) cl bl rl σ _ d stk hdb hcq hl1).1 e σ' h
        cases e with
        | norm =>
          simp only [land] at hk1
          have e4 : base + size p + 3 + size q = base + size p + size q + 3 := by omega
          rw [e4] at hk1
          obtain ⟨he, re⟩ := step_nop sem lo env P _ σ' _ d stk hk1 hend
          refine ⟨k1 + 1 + 1 + 1, ?_, fun hnc => ?_⟩
          · have : run sem env P (k1 + 1 + 1 + 1) st = run sem env P (k1 + 1) (step sem env P (step sem env P st)) := rfl
            rw [this, run_step]; simp only [land]; rw [esz]; exact he
          · have : run sem env P (k1 + 1 + 1 + 1) st = run sem env P (k1 + 1) (step sem env P (step sem env P st)) := rfl
            rw [this, run_step, re, hr1 hnc.2, rl1, rb1]
        | brk => exact ⟨k1 + 1 + 1, by rw [hrun2]; exact hk1, fun hnc => by rw [hrun2, hr1 hnc.2, rl1, rb1]⟩
        | cont => exact ⟨k1 + 1 + 1, by rw [hrun2]; exact hk1, fun hnc => by rw [hrun2, hr1 hnc.2, rl1, rb1]⟩
        | ret => exact ⟨k1 + 1 + 1, by rw [hrun2]; exact hk1, fun hnc => by rw [hrun2, hr1 hnc.2, rl1, rb1]⟩
      · intro σ' h
        simp only [exec, hb', Bool.false_eq_true, if_false] at h
        obtain ⟨k1, pc, d', stk', hle, hk1⟩ := (ihq ok b hokb hgq (base + size p + 3) cl bl rl σ _ d stk hdb hcq hl1).2 σ' h
        exact ⟨k1 + 1 + 1, pc, d', stk', by omega, hk1⟩
  | ifThen c neg args p ihp =>
    intro ok b hokb hg base cl bl rl σ st d stk hdb hc hat
    obtain ⟨hneg, hargs, hgp⟩ := hg
    have hbr : P[base]? = some ⟨.br neg, none, args ++ [.num (lit (base + size p + 1))]⟩ := by
      have := hc 0 (by simp [comp]); simpa [comp] using this
    have hcode : CodeAt P base ([⟨.br neg, none, args ++ [.num (lit (base + size p + 1))]⟩] ++ (comp lit entry p (base + 1) cl bl rl ++ [nopI, nopI])) := by
      simpa [comp, List.append_assoc] using hc
    have h1 := hcode.right
    simp only [List.length_singleton] at h1
    have hcp := h1.left
    have h2 := h1.right
    rw [comp_length] at h2
    have hl1 : P[base + 1 + size p]? = some nopI := by have := h2 0 (by simp); simpa using this
    have hl2 : P[base + 1 + size p + 1]? = some nopI := by have := h2 1 (by simp); simpa using this
    have esz : base + size (Stmt.ifThen c neg args p) = base + 1 + size p + 1 + 1 := by simp [size]; omega
    obtain ⟨hb1, rb1⟩ := step_br sem lo env P st σ base d stk hat lit neg args (base + size p + 1) (hlit _) hargs hbr
    rw [hneg _ (by simp [evalArgs])] at hb1
    have hrun : ∀ k, run sem env P (k + 1) st = run sem env P k (step sem env P st) := fun k => rfl
    by_cases hb : sem.cond c (evalArgs σ.regs args) = true
    · simp only [hb, Bool.not_true, Bool.false_eq_true, if_false] at hb1
      constructor
      · intro e σ' h
        simp only [exec, hb, if_true] at h
        obtain ⟨k1, hk1, hr1⟩ := (ihp ok b hokb hgp (base + 1) cl bl rl σ _ d stk hdb hcp hb1).1 e σ' h
        cases e with
        | norm =>
          simp only [land] at hk1
          obtain ⟨hn1, rn1⟩ := step_nop sem lo env P _ σ' _ d stk hk1 hl1
          obtain ⟨hn2, rn2⟩ := step_nop sem lo env P _ σ' _ d stk hn1 hl2
          refine ⟨k1 + 1 + 1 + 1, ?_, fun hnc => ?_⟩
          · rw [hrun, run_step, run_step]; simp only [land]; rw [esz]; exact hn2
          · rw [hrun, run_step, run_step, rn2, rn1, hr1 hnc, rb1]
        | brk => exact ⟨k1 + 1, by rw [hrun]; exact hk1, fun hnc => by rw [hrun, hr1 hnc, rb1]⟩
        | cont => exact ⟨k1 + 1, by rw [hrun]; exact hk1, fun hnc => by rw [hrun, hr1 hnc, rb1]⟩
        | ret => exact ⟨k1 + 1, by rw [hrun]; exact hk1, fun hnc => by rw [hrun, hr1 hnc, rb1]⟩
      · intro σ' h
        simp only [exec, hb, if_true] at h
        obtain ⟨k1, pc, d', stk', hle, hk1⟩ := (ihp ok b hokb hgp (base + 1) cl bl rl σ _ d stk hdb hcp hb1).2 σ' h
        exact ⟨k1 + 1, pc, d', stk', by omega, hk1⟩
    · have hb' : sem.cond c (evalArgs σ.regs args) = false := by simpa using hb
      simp only [hb', Bool.not_false, if_true] at hb1
      have e1 : base + size p + 1 = base + 1 + size p := by omega
      rw [e1] at hb1
      obtain ⟨hn1, rn1⟩ := step_nop sem lo env P _ σ _ d stk hb1 hl1
      obtain ⟨hn2, rn2⟩ := step_nop sem lo env P _ σ _ d stk hn1 hl2
      constructor
      · intro e σ' h
        simp only [exec, hb', Bool.false_eq_true, if_false, Res.done, Res.ok.injEq] at h
        obtain ⟨rfl, rfl⟩ := h
        refine ⟨1 + 1 + 1, ?_, fun _ => ?_⟩
        · have : run sem env P (1 + 1 + 1) st = step sem env P (step sem env P (step sem env P st)) := rfl
          rw [this]; simp only [land]; rw [esz]; exact hn2
        · have : run sem env P (1 + 1 + 1) st = step sem env P (step sem env P (step sem env P st)) := rfl
          rw [this, rn2, rn1, rb1]
      · intro σ' h
        simp [exec, hb'] at h
  | «while» c neg args body ih =>
    intro ok b hokb hg base cl bl rl σ st d stk hdb hc hat
    obtain ⟨hneg, hargs, hgb⟩ := hg
    have hcode : CodeAt P base ([nopI] ++ ([⟨.br neg, none, args ++ [.num (lit (base + size body + 3))]⟩] ++
        (comp lit entry body (base + 2) base (base + size body + 3) rl ++ [⟨.jmp, none, [.num (lit base)]⟩, nopI]))) := by
      simpa [comp, List.append_assoc] using hc
    have hlab : P[base]? = some nopI := by have := hcode 0 (by simp); simpa using this
    have h1 := hcode.right
    simp only [List.length_singleton] at h1
    have hbr : P[base + 1]? = some ⟨.br neg, none, args ++ [.num (lit (base + size body + 3))]⟩ := by
      have := h1 0 (by simp); simpa using this
    have h2 := h1.right
    simp only [List.length_singleton] at h2
    have hbody : CodeAt P (base + 2) (comp lit entry body (base + 2) base (base + size body + 3) rl) := by
      have := h2.left
      have e : base + 1 + 1 = base + 2 := by omega
      rw [e] at this; exact this
    have h3 := h2.right
    rw [comp_length] at h3
    have hjmp : P[base + 2 + size body]? = some ⟨.jmp, none, [.num (lit base)]⟩ := by
      have := h3 0 (by simp)
      have e : base + 1 + 1 + size body + 0 = base + 2 + size body := by omega
      rw [e] at this; simpa using this
    have hend : P[base + size body + 3]? = some nopI := by
      have := h3 1 (by simp)
      have e : base + 1 + 1 + size body + 1 = base + size body + 3 := by omega
      rw [e] at this; simpa using this
    have esz : base + size (Stmt.while c neg args body) = base + size body + 3 + 1 := by simp [size]; omega
    have hrun2 : ∀ k (u : St Reg V), run sem env P (k + 1 + 1) u = run sem env P k (step sem env P (step sem env P u)) := fun k u => rfl
    cases n with
    | zero =>
      refine ⟨fun e σ' h => by simp [exec] at h, fun σ' h => ?_⟩
      simp only [exec, Res.timeout.injEq] at h
      subst h
      exact ⟨0, base, d, stk, Nat.le_refl 0, hat⟩
    | succ m =>
      have hw := hprev m rfl (.while c neg args body) ok b hokb ⟨hneg, hargs, hgb⟩ base cl bl rl
      obtain ⟨hl1, rl1⟩ := step_nop sem lo env P st σ base d stk hat hlab
      obtain ⟨hb1, rb1⟩ := step_br sem lo env P _ σ (base + 1) d stk hl1 lit neg args (base + size body + 3) (hlit _) hargs hbr
      rw [hneg _ (by simp [evalArgs])] at hb1
      by_cases hb : sem.cond c (evalArgs σ.regs args) = true
      · simp only [hb, Bool.not_true, Bool.false_eq_true, if_false] at hb1
        have e2 : base + 1 + 1 = base + 2 := by omega
        rw [e2] at hb1
        have hbd := ih ok b hokb hgb (base + 2) base (base + size body + 3) rl σ _ d stk hdb hbody hb1
        constructor
        · intro e σ' h
          simp only [exec] at h
          rw [if_pos hb] at h
          cases hx : exec sem env F (m + 1) body σ with
          | ok e1 σ1 =>
            rw [hx] at h
            obtain ⟨k1, hk1, hr1⟩ := hbd.1 e1 σ1 hx
            cases e1 with
            | norm =>
              simp only [land] at hk1
              simp only at h
              obtain ⟨hj, rj⟩ := step_jmp sem lo env P _ σ1 _ d stk hk1 lit base (hlit _) hjmp
              obtain ⟨k2, hk2, hr2⟩ := (hw σ1 _ d stk hdb hc hj).1 e σ' h
              refine ⟨k1 + 1 + k2 + 1 + 1, ?_, fun hnc => ?_⟩
              · have : run sem env P (k1 + 1 + k2 + 1 + 1) st = run sem env P (k1 + 1 + k2) (step sem env P (step sem env P st)) := rfl
                rw [this, run_add, run_step]; exact hk2
              · have : run sem env P (k1 + 1 + k2 + 1 + 1) st = run sem env P (k1 + 1 + k2) (step sem env P (step sem env P st)) := rfl
                rw [this, run_add, run_step, hr2 hnc, rj, hr1 hnc, rb1, rl1]
            | cont =>
              simp only [land] at hk1
              simp only at h
              obtain ⟨k2, hk2, hr2⟩ := (hw σ1 _ d stk hdb hc hk1).1 e σ' h
              refine ⟨k1 + k2 + 1 + 1, ?_, fun hnc => ?_⟩
              · have : run sem env P (k1 + k2 + 1 + 1) st = run sem env P (k1 + k2) (step sem env P (step sem env P st)) := rfl
                rw [this, run_add]; exact hk2
              · have : run sem env P (k1 + k2 + 1 + 1) st = run sem env P (k1 + k2) (step sem env P (step sem env P st)) := rfl
                rw [this, run_add, hr2 hnc, hr1 hnc, rb1, rl1]
            | brk =>
              simp only [land] at hk1
              simp only [Res.done, Res.ok.injEq] at h
              obtain ⟨rfl, rfl⟩ := h
              obtain ⟨he, re⟩ := step_nop sem lo env P _ σ1 _ d stk hk1 hend
              refine ⟨k1 + 1 + 1 + 1, ?_, fun hnc => ?_⟩
              · have : run sem env P (k1 + 1 + 1 + 1) st = run sem env P (k1 + 1) (step sem env P (step sem env P st)) := rfl
                rw [this, run_step]; simp only [land]; rw [esz]; exact he
              · have : run sem env P (k1 + 1 + 1 + 1) st = run sem env P (k1 + 1) (step sem env P (step sem env P st)) := rfl
                rw [this, run_step, re, hr1 hnc, rb1, rl1]
            | ret =>
              simp only [land] at hk1
              simp only [Res.ok.injEq] at h
              obtain ⟨rfl, rfl⟩ := h
              refine ⟨k1 + 1 + 1, ?_, fun hnc => ?_⟩
              · rw [hrun2]; exact hk1
              · rw [hrun2, hr1 hnc, rb1, rl1]
          | timeout σ1 => rw [hx] at h; simp at h
          | stuck => rw [hx] at h; simp at h
        · intro σ' h
          simp only [exec] at h
          rw [if_pos hb] at h
          cases hx : exec sem env F (m + 1) body σ with
          | ok e1 σ1 =>
            rw [hx] at h
            obtain ⟨k1, hk1, hr1⟩ := hbd.1 e1 σ1 hx
            cases e1 with
            | norm =>
              simp only [land] at hk1
              simp only at h
              obtain ⟨hj, rj⟩ := step_jmp sem lo env P _ σ1 _ d stk hk1 lit base (hlit _) hjmp
              obtain ⟨k2, pc, d', stk', hle, hk2⟩ := (hw σ1 _ d stk hdb hc hj).2 σ' h
              refine ⟨k1 + 1 + k2 + 1 + 1, pc, d', stk', by omega, ?_⟩
              have : run sem env P (k1 + 1 + k2 + 1 + 1) st = run sem env P (k1 + 1 + k2) (step sem env P (step sem env P st)) := rfl
              rw [this, run_add, run_step]; exact hk2
            | cont =>
              simp only [land] at hk1
              simp only at h
              obtain ⟨k2, pc, d', stk', hle, hk2⟩ := (hw σ1 _ d stk hdb hc hk1).2 σ' h
              refine ⟨k1 + k2 + 1 + 1, pc, d', stk', by omega, ?_⟩
              have : run sem env P (k1 + k2 + 1 + 1) st = run sem env P (k1 + k2) (step sem env P (step sem env P st)) := rfl
              rw [this, run_add]; exact hk2
            | brk => simp [Res.done] at h
            | ret => simp at h
          | timeout σ1 =>
            rw [hx] at h
            simp only [Res.timeout.injEq] at h
            subst h
            obtain ⟨k1, pc, d', stk', hle, hk1⟩ := hbd.2 σ1 hx
            exact ⟨k1 + 1 + 1, pc, d', stk', by omega, by rw [hrun2]; exact hk1⟩
          | stuck => rw [hx] at h; simp at h
      · have hb' : sem.cond c (evalArgs σ.regs args) = false := by simpa using hb
        simp only [hb', Bool.not_false, if_true] at hb1
        obtain ⟨he, re⟩ := step_nop sem lo env P _ σ _ d stk hb1 hend
        constructor
        · intro e σ' h
          simp only [exec] at h
          rw [if_neg hb] at h
          simp only [Res.done, Res.ok.injEq] at h
          obtain ⟨rfl, rfl⟩ := h
          refine ⟨1 + 1 + 1, ?_, fun _ => ?_⟩
          · have : run sem env P (1 + 1 + 1) st = step sem env P (step sem env P (step sem env P st)) := rfl
            rw [this]; simp only [land]; rw [esz]; exact he
          · have : run sem env P (1 + 1 + 1) st = step sem env P (step sem env P (step sem env P st)) := rfl
            rw [this, re, rb1, rl1]
        · intro σ' h
          simp only [exec] at h
          rw [if_neg hb] at h
          simp [Res.done] at h
  | inl body ih =>
    intro ok b hokb hgb base cl bl rl σ st d stk hdb hc hat
    have hcode : CodeAt P base ([nopI] ++ (comp lit entry body (base + 1) cl bl (base + 1 + size body) ++ [nopI])) := by
      simpa [comp, List.append_assoc] using hc
    have hlab : P[base]? = some nopI := by have := hcode 0 (by simp); simpa using this
    have h1 := hcode.right
    simp only [List.length_singleton] at h1
    have hbody := h1.left
    have h2 := h1.right
    rw [comp_length] at h2
    have hend : P[base + 1 + size body]? = some nopI := by have := h2 0 (by simp); simpa using this
    have esz : base + size (Stmt.inl body) = base + 1 + size body + 1 := by simp [size]; omega
    have hrun1 : ∀ k (u : St Reg V), run sem env P (k + 1) u = run sem env P k (step sem env P u) := fun k u => rfl
    obtain ⟨hl1, rl1⟩ := step_nop sem lo env P st σ base d stk hat hlab
    have hbd := ih ok b hokb hgb (base + 1) cl bl (base + 1 + size body) σ _ d stk hdb hbody hl1
    constructor
    · intro e σ' h
      simp only [exec] at h
      cases hx : exec sem env F n body σ with
      | ok e1 σ1 =>
        rw [hx] at h
        obtain ⟨k1, hk1, hr1⟩ := hbd.1 e1 σ1 hx
        have hfin : At sem lo (run sem env P k1 (step sem env P st)) σ1 (base + 1 + size body) d stk →
            ∃ k, At sem lo (run sem env P k st) σ1 (base + size (Stmt.inl body)) d stk ∧
              (NoCall (Stmt.inl body) → (run sem env P k st).regs Special.ra = st.regs Special.ra) := by
          intro hat1
          obtain ⟨he, re⟩ := step_nop sem lo env P _ σ1 _ d stk hat1 hend
          refine ⟨k1 + 1 + 1, ?_, fun hnc => ?_⟩
          · rw [hrun1, run_step, esz]; exact he
          · rw [hrun1, run_step, re, hr1 hnc, rl1]
        cases e1 with
        | norm =>
          simp only [Res.done, Res.ok.injEq] at h
          obtain ⟨rfl, rfl⟩ := h
          exact hfin (by simpa [land] using hk1)
        | ret =>
          simp only [Res.done, Res.ok.injEq] at h
          obtain ⟨rfl, rfl⟩ := h
          exact hfin (by simpa [land] using hk1)
        | brk => simp at h
        | cont => simp at h
      | timeout σ1 => rw [hx] at h; simp at h
      | stuck => rw [hx] at h; simp at h
    · intro σ' h
      simp only [exec] at h
      cases hx : exec sem env F n body σ with
      | ok e1 σ1 => rw [hx] at h; cases e1 <;> simp [Res.done] at h
      | timeout σ1 =>
        rw [hx] at h
        simp only [Res.timeout.injEq] at h
        subst h
        obtain ⟨k1, pc, d', stk', hle, hk1⟩ := hbd.2 σ1 hx
        exact ⟨k1 + 1, pc, d', stk', by omega, by rw [hrun1]; exact hk1⟩
      | stuck => rw [hx] at h; simp at h
  | loop body ih =>
    intro ok b hokb hgb base cl bl rl σ st d stk hdb hc hat
    have hcode : CodeAt P base ([nopI] ++ (comp lit entry body (base + 1) base (base + size body + 2) rl ++ [⟨.jmp, none, [.num (lit base)]⟩, nopI])) := by
      simpa [comp, List.append_assoc] using hc
    have hlab : P[base]? = some nopI := by have := hcode 0 (by simp); simpa using this
    have h1 := hcode.right
    simp only [List.length_singleton] at h1
    have hbody := h1.left
    have h2 := h1.right
    rw [comp_length] at h2
    have hjmp : P[base + 1 + size body]? = some ⟨.jmp, none, [.num (lit base)]⟩ := by
      have := h2 0 (by simp); simpa using this
    have hend : P[base + size body + 2]? = some nopI := by
      have := h2 1 (by simp)
      have e : base + 1 + size body + 1 = base + size body + 2 := by omega
      rw [e] at this; simpa using this
    have esz : base + size (Stmt.loop body) = base + size body + 2 + 1 := by simp [size]; omega
    have hrun1 : ∀ k (u : St Reg V), run sem env P (k + 1) u = run sem env P k (step sem env P u) := fun k u => rfl
    cases n with
    | zero =>
      refine ⟨fun e σ' h => by simp [exec] at h, fun σ' h => ?_⟩
      simp only [exec, Res.timeout.injEq] at h
      subst h
      exact ⟨0, base, d, stk, Nat.le_refl 0, hat⟩
    | succ m =>
      have hw := hprev m rfl (.loop body) ok b hokb hgb base cl bl rl
      obtain ⟨hl1, rl1⟩ := step_nop sem lo env P st σ base d stk hat hlab
      have hbd := ih ok b hokb hgb (base + 1) base (base + size body + 2) rl σ _ d stk hdb hbody hl1
      constructor
      · intro e σ' h
        simp only [exec] at h
        cases hx : exec sem env F (m + 1) body σ with
        | ok e1 σ1 =>
          rw [hx] at h
          obtain ⟨k1, hk1, hr1⟩ := hbd.1 e1 σ1 hx
          cases e1 with
          | norm =>
            simp only [land] at hk1
            simp only at h
            obtain ⟨hj, rj⟩ := step_jmp sem lo env P _ σ1 _ d stk hk1 lit base (hlit _) hjmp
            obtain ⟨k2, hk2, hr2⟩ := (hw σ1 _ d stk hdb hc hj).1 e σ' h
            refine ⟨k1 + 1 + k2 + 1, ?_, fun hnc => ?_⟩
            · rw [hrun1, run_add, run_step]; exact hk2
            · rw [hrun1, run_add, run_step, hr2 hnc, rj, hr1 hnc, rl1]
          | cont =>
            simp only [land] at hk1
            simp only at h
            obtain ⟨k2, hk2, hr2⟩ := (hw σ1 _ d stk hdb hc hk1).1 e σ' h
            refine ⟨k1 + k2 + 1, ?_, fun hnc => ?_⟩
            · rw [hrun1, run_add]; exact hk2
            · rw [hrun1, run_add, hr2 hnc, hr1 hnc, rl1]
          | brk =>
            simp only [land] at hk1
            simp only [Res.done, Res.ok.injEq] at h
            obtain ⟨rfl, rfl⟩ := h
            obtain ⟨he, re⟩ := step_nop sem lo env P _ σ1 _ d stk hk1 hend
            refine ⟨k1 + 1 + 1, ?_, fun hnc => ?_⟩
            · rw [hrun1, run_step]; simp only [land]; rw [esz]; exact he
            · rw [hrun1, run_step, re, hr1 hnc, rl1]
          | ret =>
            simp only [land] at hk1
            simp only [Res.ok.injEq] at h
            obtain ⟨rfl, rfl⟩ := h
            refine ⟨k1 + 1, ?_, fun hnc => ?_⟩
            · rw [hrun1]; exact hk1
            · rw [hrun1, hr1 hnc, rl1]
        | timeout σ1 => rw [hx] at h; simp at h
        | stuck => rw [hx] at h; simp at h
      · intro σ' h
        simp only [exec] at h
        cases hx : exec sem env F (m + 1) body σ with
        | ok e1 σ1 =>
          rw [hx] at h
          obtain ⟨k1, hk1, hr1⟩ := hbd.1 e1 σ1 hx
          cases e1 with
          | norm =>
            simp only [land] at hk1
            simp only at h
            obtain ⟨hj, rj⟩ := step_jmp sem lo env P _ σ1 _ d stk hk1 lit base (hlit _) hjmp
            obtain ⟨k2, pc, d', stk', hle, hk2⟩ := (hw σ1 _ d stk hdb hc hj).2 σ' h
            refine ⟨k1 + 1 + k2 + 1, pc, d', stk', by omega, ?_⟩
            rw [hrun1, run_add, run_step]; exact hk2
          | cont =>
            simp only [land] at hk1
            simp only at h
            obtain ⟨k2, pc, d', stk', hle, hk2⟩ := (hw σ1 _ d stk hdb hc hk1).2 σ' h
            refine ⟨k1 + k2 + 1, pc, d', stk', by omega, ?_⟩
            rw [hrun1, run_add]; exact hk2
          | brk => simp [Res.done] at h
          | ret => simp at h
        | timeout σ1 =>
          rw [hx] at h
          simp only [Res.timeout.injEq] at h
          subst h
          obtain ⟨k1, pc, d', stk', hle, hk1⟩ := hbd.2 σ1 hx
          exact ⟨k1 + 1, pc, d', stk', by omega, by rw [hrun1]; exact hk1⟩
        | stuck => rw [hx] at h; simp at h

/-- the simulation for every fuel -/
theorem sim (hlit : ∀ n, sem.toAddr (lit n) = some n) (hof : ∀ n, sem.toAddr (sem.ofNat n) = some n) (hlo : lo ≤ stackSize)
    (hokP : ∀ k, okP k → ProcOk sem lo lit entry F P rk okP k) :
    ∀ n s, Claim sem lo env lit entry F P rk okP n s := by
  intro n
  induction n with
  | zero => exact claim_stmt sem lo env lit entry F P rk okP hlit hof hlo hokP 0 (by intro m h; omega)
  | succ n ih =>
    refine claim_stmt sem lo env lit entry F P rk okP hlit hof hlo hokP (n + 1) ?_
    intro m h
    have hm : m = n := by omega
    subst hm
    exact ih

end sim

end PV.Core
