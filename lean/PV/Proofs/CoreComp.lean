import PV.Model.Core
/-!
Correctness of the model code generator `PV.Core.comp` on the IC10 machine: forward simulation, indexed by the fuel of the
reference semantics.  `ok e` ⇒ the machine reaches the line where the statement's exit `e` lands (the line after its code;
the end label of the enclosing loop for `break`; its start label for `continue`) with the same registers and the same
effect trace; `timeout n` ⇒ after some `k ≥ n` machine steps the machine is in a state with the same trace (so the source
trace is a prefix of the chip's behaviour, and — the machine being deterministic — vice versa).
-/
namespace PV.Core
open PV.IC10
set_option linter.unusedSectionVars false
set_option linter.unusedVariables false

variable {V : Type}

/-- `c` sits in `P` at line `base` -/
def CodeAt (P : List (Instr Reg V)) (base : Nat) (c : List (Instr Reg V)) : Prop :=
  ∀ i, i < c.length → P[base + i]? = c[i]?

theorem CodeAt.left {P : List (Instr Reg V)} {base : Nat} {c d : List (Instr Reg V)} (h : CodeAt P base (c ++ d)) : CodeAt P base c := by
  intro i hi
  have := h i (by simp; omega)
  simpa [List.getElem?_append_left hi] using this

theorem CodeAt.right {P : List (Instr Reg V)} {base : Nat} {c d : List (Instr Reg V)} (h : CodeAt P base (c ++ d)) :
    CodeAt P (base + c.length) d := by
  intro i hi
  have := h (c.length + i) (by simp; omega)
  rw [List.getElem?_append_right (by omega)] at this
  simpa [Nat.add_assoc] using this

theorem CodeAt.head {P : List (Instr Reg V)} {base : Nat} {x : Instr Reg V} {d : List (Instr Reg V)} (h : CodeAt P base (x :: d)) :
    P[base]? = some x := by
  have := h 0 (by simp)
  simpa using this

theorem CodeAt.tail {P : List (Instr Reg V)} {base : Nat} {x : Instr Reg V} {d : List (Instr Reg V)} (h : CodeAt P base (x :: d)) :
    CodeAt P (base + 1) d := by
  have : CodeAt P base ([x] ++ d) := by simpa using h
  simpa using this.right

theorem comp_length (lit : Nat → V) (s : Stmt V) (base cl bl : Nat) : (comp lit s base cl bl).length = size s := by
  induction s generalizing base cl bl with
  | seq p q ihp ihq => simp [comp, size, ihp, ihq]
  | ite c neg args p q ihp ihq => simp [comp, size, ihp, ihq, nopI] <;> omega
  | ifThen c neg args p ihp => simp [comp, size, ihp, nopI]
  | «while» c neg args body ih => simp [comp, size, ih, nopI] <;> omega
  | loop body ih => simp [comp, size, ih, nopI] <;> omega
  | _ => simp [comp, size]

/-- the machine state that corresponds to a source state at line `pc` -/
def mk (σ : SSt V) (mem : Nat → V) (pc : Nat) : St Reg V :=
  { regs := σ.regs, mem := mem, pc := pc, trace := σ.trace, halted := false }

theorem run_add (sem : Sem V) (env : Env V) (P : List (Instr Reg V)) (a b : Nat) (s : St Reg V) :
    run sem env P (a + b) s = run sem env P b (run sem env P a s) := by
  induction a generalizing s with
  | zero => simp [run]
  | succ n ih => rw [Nat.succ_add]; simp [run, ih]

theorem run_one (sem : Sem V) (env : Env V) (P : List (Instr Reg V)) (s : St Reg V) : run sem env P 1 s = step sem env P s := rfl

/-! ### single steps -/
theorem eval_num (f : Reg → V) (v : V) : (Opnd.num v : Opnd Reg V).eval f = v := rfl

section steps
variable (sem : Sem V) (env : Env V) (P : List (Instr Reg V)) (σ : SSt V) (mem : Nat → V) (pc : Nat)

theorem step_alu (x : Reg) (op : String) (args : List (Opnd Reg V)) (h : P[pc]? = some ⟨.alu op, some x, args⟩) :
    step sem env P (mk σ mem pc) = mk { σ with regs := upd σ.regs x (sem.alu op (evalArgs σ.regs args)) } mem (pc + 1) := by
  simp [step, mk, h, IC10.exec, applyOut, writeBack, updOpt, evalArgs]

theorem step_load (x : Reg) (q : String) (args : List (Opnd Reg V)) (h : P[pc]? = some ⟨.load q, some x, args⟩) :
    step sem env P (mk σ mem pc) = mk { σ with regs := upd σ.regs x (env σ.trace q (evalArgs σ.regs args)) } mem (pc + 1) := by
  simp [step, mk, h, IC10.exec, applyOut, writeBack, updOpt, evalArgs]

theorem step_store (q : String) (args : List (Opnd Reg V)) (h : P[pc]? = some ⟨.store q, none, args⟩) :
    step sem env P (mk σ mem pc) = mk { σ with trace := ⟨q, evalArgs σ.regs args⟩ :: σ.trace } mem (pc + 1) := by
  simp [step, mk, h, IC10.exec, applyOut, writeBack, updOpt, evalArgs]

theorem step_yield (h : P[pc]? = some ⟨.yield, none, []⟩) :
    step sem env P (mk σ mem pc) = mk { σ with trace := ⟨"yield", []⟩ :: σ.trace } mem (pc + 1) := by
  simp [step, mk, h, IC10.exec, applyOut, writeBack, updOpt]

theorem step_sleep (a : Opnd Reg V) (h : P[pc]? = some ⟨.sleep, none, [a]⟩) :
    step sem env P (mk σ mem pc) = mk { σ with trace := ⟨"sleep", [a.eval σ.regs]⟩ :: σ.trace } mem (pc + 1) := by
  simp [step, mk, h, IC10.exec, applyOut, writeBack, updOpt]

theorem step_nop (h : P[pc]? = some nopI) : step sem env P (mk σ mem pc) = mk σ mem (pc + 1) := by
  simp [step, mk, h, nopI, IC10.exec, applyOut, writeBack, updOpt]

theorem step_jmp (lit : Nat → V) (n : Nat) (hl : sem.toAddr (lit n) = some n) (h : P[pc]? = some ⟨.jmp, none, [.num (lit n)]⟩) :
    step sem env P (mk σ mem pc) = mk σ mem n := by
  simp [step, mk, h, IC10.exec, target, eval_num, hl, applyOut, writeBack, updOpt]

theorem dropLast_snoc' {α : Type} (l : List α) (a : α) : (l ++ [a]).dropLast = l := by simp
theorem getLastD_snoc' {α : Type} (l : List α) (a d : α) : (l ++ [a]).getLastD d = a := by
  induction l with
  | nil => rfl
  | cons x xs ih => cases xs <;> simp_all [List.getLastD]

theorem step_br (lit : Nat → V) (c : String) (args : List (Opnd Reg V)) (n : Nat) (hl : sem.toAddr (lit n) = some n)
    (h : P[pc]? = some ⟨.br c, none, args ++ [.num (lit n)]⟩) :
    step sem env P (mk σ mem pc) =
      if sem.cond c (evalArgs σ.regs args) then mk σ mem n else mk σ mem (pc + 1) := by
  have hv : (args ++ [Opnd.num (lit n)]).map (Opnd.eval σ.regs) = evalArgs σ.regs args ++ [lit n] := by
    simp [evalArgs, Opnd.eval]
  by_cases hc : sem.cond c (evalArgs σ.regs args) = true
  · simp only [step, mk, h, IC10.exec, hv, dropLast_snoc', getLastD_snoc', hc, if_true, target, hl, applyOut, writeBack, updOpt, Bool.false_eq_true, if_false]
    simp
  · have hc' : sem.cond c (evalArgs σ.regs args) = false := by simpa using hc
    simp only [step, mk, h, IC10.exec, hv, dropLast_snoc', hc', Bool.false_eq_true, if_false, applyOut, writeBack, updOpt]
    simp

end steps

/-! ### the simulation -/

/-- the line at which a statement's exit lands: the next line, or the enclosing loop's end / start label -/
def land (e : Exit) (next cl bl : Nat) : Nat :=
  match e with
  | .norm => next
  | .brk => bl
  | .cont => cl

def Claim (sem : Sem V) (env : Env V) (lit : Nat → V) (P : List (Instr Reg V)) (mem : Nat → V) (n : Nat) (s : Stmt V) : Prop :=
  ∀ (base cl bl : Nat) (σ : SSt V), CodeAt P base (comp lit s base cl bl) →
    (∀ e σ', exec sem env n s σ = .ok e σ' → ∃ k, run sem env P k (mk σ mem base) = mk σ' mem (land e (base + size s) cl bl)) ∧
    (∀ σ', exec sem env n s σ = .timeout σ' → ∃ k pc, n ≤ k ∧ run sem env P k (mk σ mem base) = mk σ' mem pc)

theorem claim_stmt (sem : Sem V) (env : Env V) (lit : Nat → V) (hlit : ∀ n, sem.toAddr (lit n) = some n)
    (P : List (Instr Reg V)) (mem : Nat → V) (n : Nat)
    (hprev : ∀ m, n = m + 1 → ∀ s, NegOk sem s → Claim sem env lit P mem m s) :
    ∀ s, NegOk sem s → Claim sem env lit P mem n s := by
  intro s
  induction s with
  | alu x op args =>
    intro _ base cl bl σ hc
    have hi : P[base]? = some ⟨.alu op, some x, args⟩ := by have := hc 0 (by simp [comp]); simpa [comp] using this
    refine ⟨fun e σ' h => ⟨1, ?_⟩, fun σ' h => by simp [exec] at h⟩
    simp only [exec, Res.done, Res.ok.injEq] at h
    obtain ⟨rfl, rfl⟩ := h
    rw [run_one, step_alu sem env P σ mem base x op args hi]; rfl
  | load x q args =>
    intro _ base cl bl σ hc
    have hi : P[base]? = some ⟨.load q, some x, args⟩ := by have := hc 0 (by simp [comp]); simpa [comp] using this
    refine ⟨fun e σ' h => ⟨1, ?_⟩, fun σ' h => by simp [exec] at h⟩
    simp only [exec, Res.done, Res.ok.injEq] at h
    obtain ⟨rfl, rfl⟩ := h
    rw [run_one, step_load sem env P σ mem base x q args hi]; rfl
  | store q args =>
    intro _ base cl bl σ hc
    have hi : P[base]? = some ⟨.store q, none, args⟩ := by have := hc 0 (by simp [comp]); simpa [comp] using this
    refine ⟨fun e σ' h => ⟨1, ?_⟩, fun σ' h => by simp [exec] at h⟩
    simp only [exec, Res.done, Res.ok.injEq] at h
    obtain ⟨rfl, rfl⟩ := h
    rw [run_one, step_store sem env P σ mem base q args hi]; rfl
  | yield =>
    intro _ base cl bl σ hc
    have hi : P[base]? = some ⟨.yield, none, []⟩ := by have := hc 0 (by simp [comp]); simpa [comp] using this
    refine ⟨fun e σ' h => ⟨1, ?_⟩, fun σ' h => by simp [exec] at h⟩
    simp only [exec, Res.done, Res.ok.injEq] at h
    obtain ⟨rfl, rfl⟩ := h
    rw [run_one, step_yield sem env P σ mem base hi]; rfl
  | sleep a =>
    intro _ base cl bl σ hc
    have hi : P[base]? = some ⟨.sleep, none, [a]⟩ := by have := hc 0 (by simp [comp]); simpa [comp] using this
    refine ⟨fun e σ' h => ⟨1, ?_⟩, fun σ' h => by simp [exec] at h⟩
    simp only [exec, Res.done, Res.ok.injEq] at h
    obtain ⟨rfl, rfl⟩ := h
    rw [run_one, step_sleep sem env P σ mem base a hi]; rfl
  | skip =>
    intro _ base cl bl σ hc
    refine ⟨fun e σ' h => ⟨0, ?_⟩, fun σ' h => by simp [exec] at h⟩
    simp only [exec, Res.done, Res.ok.injEq] at h
    obtain ⟨rfl, rfl⟩ := h
    simp [run, size, land]
  | brk =>
    intro _ base cl bl σ hc
    have hi : P[base]? = some ⟨.jmp, none, [.num (lit bl)]⟩ := by have := hc 0 (by simp [comp]); simpa [comp] using this
    refine ⟨fun e σ' h => ⟨1, ?_⟩, fun σ' h => by simp [exec] at h⟩
    simp only [exec, Res.ok.injEq] at h
    obtain ⟨rfl, rfl⟩ := h
    rw [run_one, step_jmp sem env P σ mem base lit bl (hlit _) hi]; rfl
  | cont =>
    intro _ base cl bl σ hc
    have hi : P[base]? = some ⟨.jmp, none, [.num (lit cl)]⟩ := by have := hc 0 (by simp [comp]); simpa [comp] using this
    refine ⟨fun e σ' h => ⟨1, ?_⟩, fun σ' h => by simp [exec] at h⟩
    simp only [exec, Res.ok.injEq] at h
    obtain ⟨rfl, rfl⟩ := h
    rw [run_one, step_jmp sem env P σ mem base lit cl (hlit _) hi]; rfl
  | seq p q ihp ihq =>
    intro hn base cl bl σ hc
    obtain ⟨hnp, hnq⟩ := hn
    simp only [comp] at hc
    have hcp := hc.left
    have hcq := hc.right
    rw [comp_length] at hcq
    constructor
    · intro e σ' h
      simp only [exec] at h
      cases hp : exec sem env n p σ with
      | ok e1 σ1 =>
        rw [hp] at h
        obtain ⟨k1, hk1⟩ := (ihp hnp base cl bl σ hcp).1 e1 σ1 hp
        cases e1 with
        | norm =>
          simp only [land] at hk1
          simp only at h
          obtain ⟨k2, hk2⟩ := (ihq hnq (base + size p) cl bl σ1 hcq).1 e σ' h
          exact ⟨k1 + k2, by rw [run_add, hk1, hk2, size, Nat.add_assoc]⟩
        | brk =>
          simp only [Res.ok.injEq] at h
          obtain ⟨rfl, rfl⟩ := h
          exact ⟨k1, hk1⟩
        | cont =>
          simp only [Res.ok.injEq] at h
          obtain ⟨rfl, rfl⟩ := h
          exact ⟨k1, hk1⟩
      | timeout σ1 => rw [hp] at h; simp at h
    · intro σ' h
      simp only [exec] at h
      cases hp : exec sem env n p σ with
      | ok e1 σ1 =>
        rw [hp] at h
        obtain ⟨k1, hk1⟩ := (ihp hnp base cl bl σ hcp).1 e1 σ1 hp
        cases e1 with
        | norm =>
          simp only [land] at hk1
          simp only at h
          obtain ⟨k2, pc, hle, hk2⟩ := (ihq hnq (base + size p) cl bl σ1 hcq).2 σ' h
          exact ⟨k1 + k2, pc, by omega, by rw [run_add, hk1, hk2]⟩
        | brk => simp at h
        | cont => simp at h
      | timeout σ1 =>
        rw [hp] at h
        simp only [Res.timeout.injEq] at h
        obtain ⟨k1, pc, hle, hk1⟩ := (ihp hnp base cl bl σ hcp).2 σ1 hp
        exact ⟨k1, pc, hle, by rw [hk1, h]⟩
  | ite c neg args p q ihp ihq =>
    intro hn base cl bl σ hc
    obtain ⟨hneg, hnp, hnq⟩ := hn
    -- layout: br ; p ; jmp ; nop ; q ; nop
    have hbr : P[base]? = some ⟨.br neg, none, args ++ [.num (lit (base + size p + 2))]⟩ := by
      have := hc 0 (by simp [comp]); simpa [comp] using this
    have hcode : CodeAt P base ([⟨.br neg, none, args ++ [.num (lit (base + size p + 2))]⟩] ++ (comp lit p (base + 1) cl bl ++
        ([⟨.jmp, none, [.num (lit (base + size p + size q + 3))]⟩, nopI] ++ (comp lit q (base + size p + 3) cl bl ++ [nopI])))) := by
      simpa [comp, List.append_assoc] using hc
    have h1 := hcode.right
    simp only [List.length_singleton] at h1
    have hcp := h1.left
    have h2 := h1.right
    rw [comp_length] at h2
    have hjmp : P[base + 1 + size p]? = some ⟨.jmp, none, [.num (lit (base + size p + size q + 3))]⟩ := by
      have := h2 0 (by simp); simpa using this
    have helse : P[base + 1 + size p + 1]? = some nopI := by
      have := h2 1 (by simp); simpa using this
    have h3 := h2.right
    simp only [List.length_cons, List.length_nil] at h3
    have hcq : CodeAt P (base + size p + 3) (comp lit q (base + size p + 3) cl bl) := by
      have := h3.left
      have e : base + 1 + size p + (0 + 1 + 1) = base + size p + 3 := by omega
      rw [e] at this; exact this
    have hend : P[base + size p + 3 + size q]? = some nopI := by
      have := h3.right
      rw [comp_length] at this
      have e : base + 1 + size p + (0 + 1 + 1) + size q = base + size p + 3 + size q := by omega
      rw [e] at this
      have := this 0 (by simp); simpa using this
    have hstep := step_br sem env P σ mem base lit neg args (base + size p + 2) (hlit _) hbr
    rw [hneg _ (by simp [evalArgs])] at hstep
    by_cases hb : sem.cond c (evalArgs σ.regs args) = true
    · -- then-branch: falls through the branch, runs p, jumps to the end
      simp only [hb, Bool.not_true, Bool.false_eq_true, if_false] at hstep
      have hjstep : ∀ σ1 : SSt V, step sem env P (mk σ1 mem (base + 1 + size p)) = mk σ1 mem (base + size p + size q + 3) :=
        fun σ1 => step_jmp sem env P σ1 mem (base + 1 + size p) lit _ (hlit _) hjmp
      have hestep : ∀ σ1 : SSt V, step sem env P (mk σ1 mem (base + size p + size q + 3)) = mk σ1 mem (base + size p + size q + 4) := by
        intro σ1
        have e : base + size p + size q + 3 = base + size p + 3 + size q := by omega
        rw [e]; rw [step_nop sem env P σ1 mem _ hend]
        exact congrArg (mk σ1 mem) (by omega)
      constructor
      · intro e σ' h
        simp only [exec, hb, if_true] at h
        obtain ⟨k1, hk1⟩ := (ihp hnp (base + 1) cl bl σ hcp).1 e σ' h
        cases e with
        | norm =>
          simp only [land] at hk1 ⊢
          refine ⟨1 + (k1 + (1 + 1)), ?_⟩
          rw [run_add, run_add, run_add, run_one, run_one, run_one, hstep, hk1, hjstep, hestep]
          exact congrArg (mk _ mem) (by simp only [size]; omega)
        | brk =>
          simp only [land] at hk1 ⊢
          exact ⟨1 + k1, by rw [run_add, run_one, hstep, hk1]⟩
        | cont =>
          simp only [land] at hk1 ⊢
          exact ⟨1 + k1, by rw [run_add, run_one, hstep, hk1]⟩
      · intro σ' h
        simp only [exec, hb, if_true] at h
        obtain ⟨k1, pc, hle, hk1⟩ := (ihp hnp (base + 1) cl bl σ hcp).2 σ' h
        exact ⟨1 + k1, pc, by omega, by rw [run_add, run_one, hstep, hk1]⟩
    · -- else-branch: the branch is taken to the else label
      have hb' : sem.cond c (evalArgs σ.regs args) = false := by simpa using hb
      simp only [hb', Bool.not_false, if_true] at hstep
      have hlstep : step sem env P (mk σ mem (base + size p + 2)) = mk σ mem (base + size p + 3) := by
        have e : base + size p + 2 = base + 1 + size p + 1 := by omega
        rw [e, step_nop sem env P σ mem _ helse]
        exact congrArg (mk σ mem) (by omega)
      have hestep : ∀ σ1 : SSt V, step sem env P (mk σ1 mem (base + size p + 3 + size q)) = mk σ1 mem (base + size p + 3 + size q + 1) :=
        fun σ1 => step_nop sem env P σ1 mem _ hend
      constructor
      · intro e σ' h
        simp only [exec, hb', Bool.false_eq_true, if_false] at h
        obtain ⟨k1, hk1⟩ := (ihq hnq (base + size p + 3) cl bl σ hcq).1 e σ' h
        cases e with
        | norm =>
          simp only [land] at hk1 ⊢
          refine ⟨1 + (1 + (k1 + 1)), ?_⟩
          rw [run_add, run_add, run_add, run_one, run_one, run_one, hstep, hlstep, hk1, hestep]
          exact congrArg (mk _ mem) (by simp only [size]; omega)
        | brk =>
          simp only [land] at hk1 ⊢
          exact ⟨1 + (1 + k1), by rw [run_add, run_add, run_one, run_one, hstep, hlstep, hk1]⟩
        | cont =>
          simp only [land] at hk1 ⊢
          exact ⟨1 + (1 + k1), by rw [run_add, run_add, run_one, run_one, hstep, hlstep, hk1]⟩
      · intro σ' h
        simp only [exec, hb', Bool.false_eq_true, if_false] at h
        obtain ⟨k1, pc, hle, hk1⟩ := (ihq hnq (base + size p + 3) cl bl σ hcq).2 σ' h
        exact ⟨1 + (1 + k1), pc, by omega, by rw [run_add, run_add, run_one, run_one, hstep, hlstep, hk1]⟩
  | ifThen c neg args p ihp =>
    intro hn base cl bl σ hc
    obtain ⟨hneg, hnp⟩ := hn
    have hbr : P[base]? = some ⟨.br neg, none, args ++ [.num (lit (base + size p + 1))]⟩ := by
      have := hc 0 (by simp [comp]); simpa [comp] using this
    have hcode : CodeAt P base ([⟨.br neg, none, args ++ [.num (lit (base + size p + 1))]⟩] ++ (comp lit p (base + 1) cl bl ++ [nopI, nopI])) := by
      simpa [comp, List.append_assoc] using hc
    have h1 := hcode.right
    simp only [List.length_singleton] at h1
    have hcp := h1.left
    have h2 := h1.right
    rw [comp_length] at h2
    have hl1 : P[base + 1 + size p]? = some nopI := by have := h2 0 (by simp); simpa using this
    have hl2 : P[base + 1 + size p + 1]? = some nopI := by have := h2 1 (by simp); simpa using this
    have hstep := step_br sem env P σ mem base lit neg args (base + size p + 1) (hlit _) hbr
    rw [hneg _ (by simp [evalArgs])] at hstep
    have hn1 : ∀ σ1 : SSt V, step sem env P (mk σ1 mem (base + 1 + size p)) = mk σ1 mem (base + 1 + size p + 1) :=
      fun σ1 => step_nop sem env P σ1 mem _ hl1
    have hn2 : ∀ σ1 : SSt V, step sem env P (mk σ1 mem (base + 1 + size p + 1)) = mk σ1 mem (base + 1 + size p + 1 + 1) :=
      fun σ1 => step_nop sem env P σ1 mem _ hl2
    by_cases hb : sem.cond c (evalArgs σ.regs args) = true
    · simp only [hb, Bool.not_true, Bool.false_eq_true, if_false] at hstep
      constructor
      · intro e σ' h
        simp only [exec, hb, if_true] at h
        obtain ⟨k1, hk1⟩ := (ihp hnp (base + 1) cl bl σ hcp).1 e σ' h
        cases e with
        | norm =>
          simp only [land] at hk1 ⊢
          refine ⟨1 + (k1 + (1 + 1)), ?_⟩
          rw [run_add, run_add, run_add, run_one, run_one, run_one, hstep, hk1, hn1, hn2]
          exact congrArg (mk _ mem) (by simp only [size]; omega)
        | brk =>
          simp only [land] at hk1 ⊢
          exact ⟨1 + k1, by rw [run_add, run_one, hstep, hk1]⟩
        | cont =>
          simp only [land] at hk1 ⊢
          exact ⟨1 + k1, by rw [run_add, run_one, hstep, hk1]⟩
      · intro σ' h
        simp only [exec, hb, if_true] at h
        obtain ⟨k1, pc, hle, hk1⟩ := (ihp hnp (base + 1) cl bl σ hcp).2 σ' h
        exact ⟨1 + k1, pc, by omega, by rw [run_add, run_one, hstep, hk1]⟩
    · have hb' : sem.cond c (evalArgs σ.regs args) = false := by simpa using hb
      simp only [hb', Bool.not_false, if_true] at hstep
      constructor
      · intro e σ' h
        simp only [exec, hb', Bool.false_eq_true, if_false, Res.done, Res.ok.injEq] at h
        obtain ⟨rfl, rfl⟩ := h
        refine ⟨1 + (1 + 1), ?_⟩
        rw [run_add, run_add, run_one, run_one, run_one, hstep]
        have e : base + size p + 1 = base + 1 + size p := by omega
        rw [e, hn1, hn2]
        simp only [land]
        exact congrArg (mk _ mem) (by simp only [size]; omega)
      · intro σ' h
        simp [exec, hb'] at h
  | «while» c neg args body ih =>
    intro hn base cl bl σ hc
    obtain ⟨hneg, hnb⟩ := hn
    have hcode : CodeAt P base ([nopI] ++ ([⟨.br neg, none, args ++ [.num (lit (base + size body + 3))]⟩] ++
        (comp lit body (base + 2) base (base + size body + 3) ++ [⟨.jmp, none, [.num (lit base)]⟩, nopI]))) := by
      simpa [comp, List.append_assoc] using hc
    have hlab : P[base]? = some nopI := by have := hcode 0 (by simp); simpa using this
    have h1 := hcode.right
    simp only [List.length_singleton] at h1
    have hbr : P[base + 1]? = some ⟨.br neg, none, args ++ [.num (lit (base + size body + 3))]⟩ := by
      have := h1 0 (by simp); simpa using this
    have h2 := h1.right
    simp only [List.length_singleton] at h2
    have hbody : CodeAt P (base + 2) (comp lit body (base + 2) base (base + size body + 3)) := by
      have := h2.left
      have e : base + 1 + 1 = base + 2 := by omega
      rw [e] at this; exact this
    have h3 := h2.right
    rw [comp_length] at h3
    have hjmp : P[base + 2 + size body]? = some ⟨.jmp, none, [.num (lit base)]⟩ := by
      have := h3 0 (by simp)
      have e : base + 1 + 1 + size body + 0 = base + 2 + size body := by omega
      rw [e] at this; simpa using this
    have hend : P[base + 2 + size body + 1]? = some nopI := by
      have := h3 1 (by simp)
      have e : base + 1 + 1 + size body + 1 = base + 2 + size body + 1 := by omega
      rw [e] at this; simpa using this
    have hlstep : ∀ σ1 : SSt V, step sem env P (mk σ1 mem base) = mk σ1 mem (base + 1) := fun σ1 => step_nop sem env P σ1 mem _ hlab
    have hbstep : ∀ σ1 : SSt V, step sem env P (mk σ1 mem (base + 1)) =
        if sem.cond c (evalArgs σ1.regs args) then mk σ1 mem (base + 1 + 1) else mk σ1 mem (base + size body + 3) := by
      intro σ1
      have := step_br sem env P σ1 mem (base + 1) lit neg args (base + size body + 3) (hlit _) hbr
      rw [hneg _ (by simp [evalArgs])] at this
      rw [this]
      cases sem.cond c (evalArgs σ1.regs args) <;> simp
    have hjstep : ∀ σ1 : SSt V, step sem env P (mk σ1 mem (base + 2 + size body)) = mk σ1 mem base :=
      fun σ1 => step_jmp sem env P σ1 mem _ lit base (hlit _) hjmp
    have hestep : ∀ σ1 : SSt V, step sem env P (mk σ1 mem (base + size body + 3)) = mk σ1 mem (base + size body + 4) := by
      intro σ1
      have e : base + size body + 3 = base + 2 + size body + 1 := by omega
      rw [e, step_nop sem env P σ1 mem _ hend]
      exact congrArg (mk σ1 mem) (by omega)
    have e2 : base + 1 + 1 = base + 2 := by omega
    cases n with
    | zero =>
      refine ⟨fun e σ' h => by simp [exec] at h, fun σ' h => ?_⟩
      simp only [exec, Res.timeout.injEq] at h
      exact ⟨0, base, by omega, by simp [run, h]⟩
    | succ m =>
      have hw := hprev m rfl (.while c neg args body) ⟨hneg, hnb⟩ base cl bl
      constructor
      · intro e σ' h
        simp only [exec] at h
        by_cases hb : sem.cond c (evalArgs σ.regs args) = true
        · rw [if_pos hb] at h
          cases hbd : exec sem env (m + 1) body σ with
          | ok e1 σ1 =>
            rw [hbd] at h
            obtain ⟨k1, hk1⟩ := (ih hnb (base + 2) base (base + size body + 3) σ hbody).1 e1 σ1 hbd
            cases e1 with
            | norm =>
              simp only [land] at hk1
              simp only at h
              obtain ⟨k2, hk2⟩ := (hw σ1 hc).1 e σ' h
              refine ⟨1 + (1 + (k1 + (1 + k2))), ?_⟩
              rw [run_add, run_add, run_add, run_add, run_one, run_one, run_one, hlstep, hbstep, if_pos hb, e2, hk1, hjstep, hk2]
            | cont =>
              simp only [land] at hk1
              simp only at h
              obtain ⟨k2, hk2⟩ := (hw σ1 hc).1 e σ' h
              refine ⟨1 + (1 + (k1 + k2)), ?_⟩
              rw [run_add, run_add, run_add, run_one, run_one, hlstep, hbstep, if_pos hb, e2, hk1, hk2]
            | brk =>
              simp only [land] at hk1
              simp only [Res.done, Res.ok.injEq] at h
              obtain ⟨rfl, rfl⟩ := h
              refine ⟨1 + (1 + (k1 + 1)), ?_⟩
              rw [run_add, run_add, run_add, run_one, run_one, run_one, hlstep, hbstep, if_pos hb, e2, hk1, hestep]
              simp only [land]
              exact congrArg (mk _ mem) (by simp only [size]; omega)
          | timeout σ1 => rw [hbd] at h; simp at h
        · have hb' : sem.cond c (evalArgs σ.regs args) = false := by simpa using hb
          rw [if_neg hb] at h
          simp only [Res.done, Res.ok.injEq] at h
          obtain ⟨rfl, rfl⟩ := h
          refine ⟨1 + (1 + 1), ?_⟩
          rw [run_add, run_add, run_one, run_one, run_one, hlstep, hbstep, if_neg hb, hestep]
          simp only [land]
          exact congrArg (mk _ mem) (by simp only [size]; omega)
      · intro σ' h
        simp only [exec] at h
        by_cases hb : sem.cond c (evalArgs σ.regs args) = true
        · rw [if_pos hb] at h
          cases hbd : exec sem env (m + 1) body σ with
          | ok e1 σ1 =>
            rw [hbd] at h
            obtain ⟨k1, hk1⟩ := (ih hnb (base + 2) base (base + size body + 3) σ hbody).1 e1 σ1 hbd
            cases e1 with
            | norm =>
              simp only [land] at hk1
              simp only at h
              obtain ⟨k2, pc, hle, hk2⟩ := (hw σ1 hc).2 σ' h
              refine ⟨1 + (1 + (k1 + (1 + k2))), pc, by omega, ?_⟩
              rw [run_add, run_add, run_add, run_add, run_one, run_one, run_one, hlstep, hbstep, if_pos hb, e2, hk1, hjstep, hk2]
            | cont =>
              simp only [land] at hk1
              simp only at h
              obtain ⟨k2, pc, hle, hk2⟩ := (hw σ1 hc).2 σ' h
              refine ⟨1 + (1 + (k1 + k2)), pc, by omega, ?_⟩
              rw [run_add, run_add, run_add, run_one, run_one, hlstep, hbstep, if_pos hb, e2, hk1, hk2]
            | brk => simp [Res.done] at h
          | timeout σ1 =>
            rw [hbd] at h
            simp only [Res.timeout.injEq] at h
            obtain ⟨k1, pc, hle, hk1⟩ := (ih hnb (base + 2) base (base + size body + 3) σ hbody).2 σ1 hbd
            refine ⟨1 + (1 + k1), pc, by omega, ?_⟩
            rw [run_add, run_add, run_one, run_one, hlstep, hbstep, if_pos hb, e2, hk1, h]
        · rw [if_neg hb] at h
          simp [Res.done] at h
  | loop body ih =>
    intro hnb base cl bl σ hc
    have hcode : CodeAt P base ([nopI] ++ (comp lit body (base + 1) base (base + size body + 2) ++ [⟨.jmp, none, [.num (lit base)]⟩, nopI])) := by
      simpa [comp, List.append_assoc] using hc
    have hlab : P[base]? = some nopI := by have := hcode 0 (by simp); simpa using this
    have h1 := hcode.right
    simp only [List.length_singleton] at h1
    have hbody := h1.left
    have h2 := h1.right
    rw [comp_length] at h2
    have hjmp : P[base + 1 + size body]? = some ⟨.jmp, none, [.num (lit base)]⟩ := by
      have := h2 0 (by simp); simpa using this
    have hend : P[base + 1 + size body + 1]? = some nopI := by
      have := h2 1 (by simp); simpa using this
    have hlstep : ∀ σ1 : SSt V, step sem env P (mk σ1 mem base) = mk σ1 mem (base + 1) := fun σ1 => step_nop sem env P σ1 mem _ hlab
    have hjstep : ∀ σ1 : SSt V, step sem env P (mk σ1 mem (base + 1 + size body)) = mk σ1 mem base :=
      fun σ1 => step_jmp sem env P σ1 mem _ lit base (hlit _) hjmp
    have hestep : ∀ σ1 : SSt V, step sem env P (mk σ1 mem (base + size body + 2)) = mk σ1 mem (base + size body + 3) := by
      intro σ1
      have e : base + size body + 2 = base + 1 + size body + 1 := by omega
      rw [e, step_nop sem env P σ1 mem _ hend]
      exact congrArg (mk σ1 mem) (by omega)
    cases n with
    | zero =>
      refine ⟨fun e σ' h => by simp [exec] at h, fun σ' h => ?_⟩
      simp only [exec, Res.timeout.injEq] at h
      exact ⟨0, base, by omega, by simp [run, h]⟩
    | succ m =>
      have hw := hprev m rfl (.loop body) hnb base cl bl
      constructor
      · intro e σ' h
        simp only [exec] at h
        cases hbd : exec sem env (m + 1) body σ with
        | ok e1 σ1 =>
          rw [hbd] at h
          obtain ⟨k1, hk1⟩ := (ih hnb (base + 1) base (base + size body + 2) σ hbody).1 e1 σ1 hbd
          cases e1 with
          | norm =>
            simp only [land] at hk1
            simp only at h
            obtain ⟨k2, hk2⟩ := (hw σ1 hc).1 e σ' h
            refine ⟨1 + (k1 + (1 + k2)), ?_⟩
            rw [run_add, run_add, run_add, run_one, run_one, hlstep, hk1, hjstep, hk2]
          | cont =>
            simp only [land] at hk1
            simp only at h
            obtain ⟨k2, hk2⟩ := (hw σ1 hc).1 e σ' h
            refine ⟨1 + (k1 + k2), ?_⟩
            rw [run_add, run_add, run_one, hlstep, hk1, hk2]
          | brk =>
            simp only [land] at hk1
            simp only [Res.done, Res.ok.injEq] at h
            obtain ⟨rfl, rfl⟩ := h
            refine ⟨1 + (k1 + 1), ?_⟩
            rw [run_add, run_add, run_one, run_one, hlstep, hk1, hestep]
            simp only [land]
            exact congrArg (mk _ mem) (by simp only [size]; omega)
        | timeout σ1 => rw [hbd] at h; simp at h
      · intro σ' h
        simp only [exec] at h
        cases hbd : exec sem env (m + 1) body σ with
        | ok e1 σ1 =>
          rw [hbd] at h
          obtain ⟨k1, hk1⟩ := (ih hnb (base + 1) base (base + size body + 2) σ hbody).1 e1 σ1 hbd
          cases e1 with
          | norm =>
            simp only [land] at hk1
            simp only at h
            obtain ⟨k2, pc, hle, hk2⟩ := (hw σ1 hc).2 σ' h
            refine ⟨1 + (k1 + (1 + k2)), pc, by omega, ?_⟩
            rw [run_add, run_add, run_add, run_one, run_one, hlstep, hk1, hjstep, hk2]
          | cont =>
            simp only [land] at hk1
            simp only at h
            obtain ⟨k2, pc, hle, hk2⟩ := (hw σ1 hc).2 σ' h
            refine ⟨1 + (k1 + k2), pc, by omega, ?_⟩
            rw [run_add, run_add, run_one, hlstep, hk1, hk2]
          | brk => simp [Res.done] at h
        | timeout σ1 =>
          rw [hbd] at h
          simp only [Res.timeout.injEq] at h
          obtain ⟨k1, pc, hle, hk1⟩ := (ih hnb (base + 1) base (base + size body + 2) σ hbody).2 σ1 hbd
          refine ⟨1 + k1, pc, by omega, ?_⟩
          rw [run_add, run_one, hlstep, hk1, h]

/-- the simulation for every fuel -/
theorem sim (sem : Sem V) (env : Env V) (lit : Nat → V) (hlit : ∀ n, sem.toAddr (lit n) = some n)
    (P : List (Instr Reg V)) (mem : Nat → V) : ∀ n s, NegOk sem s → Claim sem env lit P mem n s := by
  intro n
  induction n with
  | zero => exact claim_stmt sem env lit hlit P mem 0 (by intro m h; omega)
  | succ n ih =>
    refine claim_stmt sem env lit hlit P mem (n + 1) ?_
    intro m h
    have hm : m = n := by omega
    subst hm
    exact ih

end PV.Core
