import PV.Model.Core
/-!
Correctness of the model code generator `PV.Core.comp` on the IC10 machine: forward simulation, indexed by the fuel of the
reference semantics.  `ok e` ⇒ the machine reaches the line where the statement's exit `e` lands (the line after its code;
the end label of the enclosing loop for `break`; its start label for `continue`; the end label of the procedure for `return`)
with the same registers — except `ra`, which calls overwrite and the program never reads — the same stack memory and the same
effect trace; `timeout n` ⇒ after some `k ≥ n` machine steps the machine is in a state with the same trace (so the source
trace is a prefix of the chip's behaviour, and — the machine being deterministic — vice versa).
-/
namespace PV.Core
open PV.IC10
set_option linter.unusedSectionVars false
set_option linter.unusedVariables false

variable {V : Type}

/-- `c` sits in `P` at line `base` -/
def CodeAt (P : List (Instr Reg V)) (base : Nat) (c : List (Instr Reg V)) : Prop :=
  ∀ i, i < c.length → P[base + i]? = c[i]?

theorem CodeAt.left {P : List (Instr Reg V)} {base : Nat} {c d : List (Instr Reg V)} (h : CodeAt P base (c ++ d)) : CodeAt P base c := by
  intro i hi
  have := h i (by simp; omega)
  simpa [List.getElem?_append_left hi] using this

theorem CodeAt.right {P : List (Instr Reg V)} {base : Nat} {c d : List (Instr Reg V)} (h : CodeAt P base (c ++ d)) :
    CodeAt P (base + c.length) d := by
  intro i hi
  have := h (c.length + i) (by simp; omega)
  rw [List.getElem?_append_right (by omega)] at this
  simpa [Nat.add_assoc] using this

theorem CodeAt.head {P : List (Instr Reg V)} {base : Nat} {x : Instr Reg V} {d : List (Instr Reg V)} (h : CodeAt P base (x :: d)) :
    P[base]? = some x := by
  have := h 0 (by simp)
  simpa using this

theorem CodeAt.tail {P : List (Instr Reg V)} {base : Nat} {x : Instr Reg V} {d : List (Instr Reg V)} (h : CodeAt P base (x :: d)) :
    CodeAt P (base + 1) d := by
  have : CodeAt P base ([x] ++ d) := by simpa using h
  simpa using this.right

theorem comp_length (lit : Nat → V) (entry : Nat → Nat) (s : Stmt V) (base cl bl rl : Nat) : (comp lit entry s base cl bl rl).length = size s := by
  induction s generalizing base cl bl rl with
  | seq p q ihp ihq => simp [comp, size, ihp, ihq]
  | ite c neg args p q ihp ihq => simp [comp, size, ihp, ihq, nopI] <;> omega
  | ifThen c neg args p ihp => simp [comp, size, ihp, nopI]
  | «while» c neg args body ih => simp [comp, size, ih, nopI] <;> omega
  | loop body ih => simp [comp, size, ih, nopI] <;> omega
  | _ => simp [comp, size]

/-- the machine state `st` is the source state `σ` at line `pc`, except possibly for `ra` (which a `jal` overwrites and a
    well-formed program never reads) -/
structure At (st : St Reg V) (σ : SSt V) (pc : Nat) : Prop where
  regs : ∀ r, r ≠ (Special.ra : Reg) → st.regs r = σ.regs r
  mem : st.mem = σ.mem
  pc : st.pc = pc
  trace : st.trace = σ.trace
  halted : st.halted = false

/-- the machine state that corresponds exactly to a source state at line `pc` -/
def mk (σ : SSt V) (pc : Nat) : St Reg V :=
  { regs := σ.regs, mem := σ.mem, pc := pc, trace := σ.trace, halted := false }

theorem at_mk (σ : SSt V) (pc : Nat) : At (mk σ pc) σ pc := ⟨fun _ _ => rfl, rfl, rfl, rfl, rfl⟩

theorem run_add (sem : Sem V) (env : Env V) (P : List (Instr Reg V)) (a b : Nat) (s : St Reg V) :
    run sem env P (a + b) s = run sem env P b (run sem env P a s) := by
  induction a generalizing s with
  | zero => simp [run]
  | succ n ih => rw [Nat.succ_add]; simp [run, ih]

theorem run_one (sem : Sem V) (env : Env V) (P : List (Instr Reg V)) (s : St Reg V) : run sem env P 1 s = step sem env P s := rfl

/-! ### operands -/

theorem eval_ok (f g : Reg → V) (h : ∀ r, r ≠ (Special.ra : Reg) → f r = g r) (o : Opnd Reg V) (ho : opndOk o) : o.eval f = o.eval g := by
  cases o with
  | reg r => exact h r ho
  | num v => rfl

theorem evalArgs_ok (f g : Reg → V) (h : ∀ r, r ≠ (Special.ra : Reg) → f r = g r) :
    ∀ (args : List (Opnd Reg V)), (∀ o ∈ args, opndOk o) → evalArgs f args = evalArgs g args := by
  intro args
  induction args with
  | nil => intro _; rfl
  | cons o rest ih =>
    intro ho
    simp only [evalArgs, List.map_cons]
    rw [eval_ok f g h o (ho o (by simp))]
    have := ih (fun x hx => ho x (by simp [hx]))
    simp only [evalArgs] at this
    rw [this]

theorem dropLast_snoc' {α : Type} (l : List α) (a : α) : (l ++ [a]).dropLast = l := by simp
theorem getLastD_snoc' {α : Type} (l : List α) (a d : α) : (l ++ [a]).getLastD d = a := by
  induction l with
  | nil => rfl
  | cons x xs ih => cases xs <;> simp_all [List.getLastD]

/-! ### single steps, relationally -/

section steps
variable (sem : Sem V) (env : Env V) (P : List (Instr Reg V)) (st : St Reg V) (σ : SSt V) (pc : Nat)

theorem ra_ne_sp : (Special.sp : Reg) ≠ Special.ra := by decide

theorem step_alu (h : At st σ pc) (x : Reg) (op : String) (args : List (Opnd Reg V)) (hx : x ≠ (Special.ra : Reg)) (ha : ∀ o ∈ args, opndOk o)
    (hi : P[pc]? = some ⟨.alu op, some x, args⟩) :
    At (step sem env P st) { σ with regs := upd σ.regs x (sem.alu op (evalArgs σ.regs args)) } (pc + 1) ∧
      (step sem env P st).regs Special.ra = st.regs Special.ra := by
  obtain ⟨hr, hm, hp, ht, hh⟩ := h
  have hv : args.map (Opnd.eval st.regs) = evalArgs σ.regs args := evalArgs_ok st.regs σ.regs hr args ha
  simp only [step, hh, hp, hi, Bool.false_eq_true, if_false, IC10.exec, hv, applyOut, writeBack, updOpt]
  refine ⟨⟨?_, hm, by simp [hp], by simp [ht], rfl⟩, by simp [upd, Ne.symm hx]⟩
  intro r hr'
  simp only [upd]
  split
  · rfl
  · exact hr r hr'

theorem step_load (h : At st σ pc) (x : Reg) (q : String) (args : List (Opnd Reg V)) (hx : x ≠ (Special.ra : Reg)) (ha : ∀ o ∈ args, opndOk o)
    (hi : P[pc]? = some ⟨.load q, some x, args⟩) :
    At (step sem env P st) { σ with regs := upd σ.regs x (env σ.trace q (evalArgs σ.regs args)) } (pc + 1) ∧
      (step sem env P st).regs Special.ra = st.regs Special.ra := by
  obtain ⟨hr, hm, hp, ht, hh⟩ := h
  have hv : args.map (Opnd.eval st.regs) = evalArgs σ.regs args := evalArgs_ok st.regs σ.regs hr args ha
  simp only [step, hh, hp, hi, Bool.false_eq_true, if_false, IC10.exec, hv, ht, applyOut, writeBack, updOpt]
  refine ⟨⟨?_, hm, by simp [hp], by simp [ht], rfl⟩, by simp [upd, Ne.symm hx]⟩
  intro r hr'
  simp only [upd]
  split
  · rfl
  · exact hr r hr'

theorem step_getm (h : At st σ pc) (x : Reg) (a : Opnd Reg V) (n : Nat) (hx : x ≠ (Special.ra : Reg)) (hao : opndOk a)
    (ha : sem.toAddr (a.eval σ.regs) = some n) (hn : n < stackSize) (hi : P[pc]? = some ⟨.getdb, some x, [a]⟩) :
    At (step sem env P st) { σ with regs := upd σ.regs x (σ.mem n) } (pc + 1) ∧
      (step sem env P st).regs Special.ra = st.regs Special.ra := by
  obtain ⟨hr, hm, hp, ht, hh⟩ := h
  have hv : a.eval st.regs = a.eval σ.regs := eval_ok st.regs σ.regs hr a hao
  simp only [step, hh, hp, hi, Bool.false_eq_true, if_false, IC10.exec, List.map_cons, List.map_nil, hv, ha, hn, if_true, hm, applyOut, writeBack, updOpt]
  refine ⟨⟨?_, rfl, by simp [hp], by simp [ht], rfl⟩, by simp [upd, Ne.symm hx]⟩
  intro r hr'
  simp only [upd]
  split
  · rfl
  · exact hr r hr'

theorem step_plain (h : At st σ pc) (i : Instr Reg V) (hi : P[pc]? = some i) (σ' : SSt V) (hregs : σ'.regs = σ.regs)
    (hstep : step sem env P st = { regs := st.regs, mem := σ'.mem, pc := pc + 1, trace := σ'.trace, halted := false }) :
    At (step sem env P st) σ' (pc + 1) ∧ (step sem env P st).regs Special.ra = st.regs Special.ra := by
  rw [hstep]
  exact ⟨⟨fun r hr' => by rw [hregs]; exact h.regs r hr', rfl, rfl, rfl, rfl⟩, rfl⟩

theorem step_store (h : At st σ pc) (q : String) (args : List (Opnd Reg V)) (ha : ∀ o ∈ args, opndOk o)
    (hi : P[pc]? = some ⟨.store q, none, args⟩) :
    At (step sem env P st) { σ with trace := ⟨q, evalArgs σ.regs args⟩ :: σ.trace } (pc + 1) ∧
      (step sem env P st).regs Special.ra = st.regs Special.ra := by
  have hv : args.map (Opnd.eval st.regs) = evalArgs σ.regs args := evalArgs_ok st.regs σ.regs h.regs args ha
  refine step_plain sem env P st σ pc h _ hi { σ with trace := ⟨q, evalArgs σ.regs args⟩ :: σ.trace } rfl ?_
  simp [step, h.halted, h.pc, hi, IC10.exec, hv, applyOut, writeBack, updOpt, h.mem, h.trace]

theorem step_putm (h : At st σ pc) (a v : Opnd Reg V) (n : Nat) (hao : opndOk a) (hvo : opndOk v)
    (ha : sem.toAddr (a.eval σ.regs) = some n) (hn : n < stackSize) (hi : P[pc]? = some ⟨.poke, none, [a, v]⟩) :
    At (step sem env P st) { σ with mem := updMem σ.mem n (v.eval σ.regs) } (pc + 1) ∧
      (step sem env P st).regs Special.ra = st.regs Special.ra := by
  have e1 : a.eval st.regs = a.eval σ.regs := eval_ok st.regs σ.regs h.regs a hao
  have e2 : v.eval st.regs = v.eval σ.regs := eval_ok st.regs σ.regs h.regs v hvo
  refine step_plain sem env P st σ pc h _ hi { σ with mem := updMem σ.mem n (v.eval σ.regs) } rfl ?_
  simp [step, h.halted, h.pc, hi, IC10.exec, e1, e2, ha, hn, applyOut, writeBack, updOpt, h.mem, h.trace]

theorem step_yield (h : At st σ pc) (hi : P[pc]? = some ⟨.yield, none, []⟩) :
    At (step sem env P st) { σ with trace := ⟨"yield", []⟩ :: σ.trace } (pc + 1) ∧
      (step sem env P st).regs Special.ra = st.regs Special.ra := by
  refine step_plain sem env P st σ pc h _ hi { σ with trace := ⟨"yield", []⟩ :: σ.trace } rfl ?_
  simp [step, h.halted, h.pc, hi, IC10.exec, applyOut, writeBack, updOpt, h.mem, h.trace]

theorem step_sleep (h : At st σ pc) (a : Opnd Reg V) (hao : opndOk a) (hi : P[pc]? = some ⟨.sleep, none, [a]⟩) :
    At (step sem env P st) { σ with trace := ⟨"sleep", [a.eval σ.regs]⟩ :: σ.trace } (pc + 1) ∧
      (step sem env P st).regs Special.ra = st.regs Special.ra := by
  have e1 : a.eval st.regs = a.eval σ.regs := eval_ok st.regs σ.regs h.regs a hao
  refine step_plain sem env P st σ pc h _ hi { σ with trace := ⟨"sleep", [a.eval σ.regs]⟩ :: σ.trace } rfl ?_
  simp [step, h.halted, h.pc, hi, IC10.exec, e1, applyOut, writeBack, updOpt, h.mem, h.trace]

theorem step_nop (h : At st σ pc) (hi : P[pc]? = some nopI) :
    At (step sem env P st) σ (pc + 1) ∧ (step sem env P st).regs Special.ra = st.regs Special.ra := by
  refine step_plain sem env P st σ pc h _ hi σ rfl ?_
  simp [step, h.halted, h.pc, hi, nopI, IC10.exec, applyOut, writeBack, updOpt, h.mem, h.trace]

theorem step_jmp (h : At st σ pc) (lit : Nat → V) (n : Nat) (hl : sem.toAddr (lit n) = some n) (hi : P[pc]? = some ⟨.jmp, none, [.num (lit n)]⟩) :
    At (step sem env P st) σ n ∧ (step sem env P st).regs Special.ra = st.regs Special.ra := by
  have hs : step sem env P st = { regs := st.regs, mem := st.mem, pc := n, trace := st.trace, halted := false } := by
    simp [step, h.halted, h.pc, hi, IC10.exec, target, Opnd.eval, hl, applyOut, writeBack, updOpt]
  rw [hs]
  exact ⟨⟨h.regs, h.mem, rfl, h.trace, rfl⟩, rfl⟩

theorem step_br (h : At st σ pc) (lit : Nat → V) (c : String) (args : List (Opnd Reg V)) (n : Nat) (hl : sem.toAddr (lit n) = some n)
    (ha : ∀ o ∈ args, opndOk o) (hi : P[pc]? = some ⟨.br c, none, args ++ [.num (lit n)]⟩) :
    At (step sem env P st) σ (if sem.cond c (evalArgs σ.regs args) then n else pc + 1) ∧
      (step sem env P st).regs Special.ra = st.regs Special.ra := by
  have hv : (args ++ [Opnd.num (lit n)]).map (Opnd.eval st.regs) = evalArgs σ.regs args ++ [lit n] := by
    have := evalArgs_ok st.regs σ.regs h.regs args ha
    simp only [evalArgs] at this
    simp [evalArgs, Opnd.eval, this]
  by_cases hc : sem.cond c (evalArgs σ.regs args) = true
  · have hs : step sem env P st = { regs := st.regs, mem := st.mem, pc := n, trace := st.trace, halted := false } := by
      simp only [step, h.halted, h.pc, hi, IC10.exec, hv, dropLast_snoc', getLastD_snoc', hc, if_true, target, hl, applyOut, writeBack, updOpt, Bool.false_eq_true, if_false]
      simp
    rw [hs, if_pos hc]
    exact ⟨⟨h.regs, h.mem, rfl, h.trace, rfl⟩, rfl⟩
  · have hc' : sem.cond c (evalArgs σ.regs args) = false := by simpa using hc
    have hs : step sem env P st = { regs := st.regs, mem := st.mem, pc := pc + 1, trace := st.trace, halted := false } := by
      simp only [step, h.halted, h.pc, hi, IC10.exec, hv, dropLast_snoc', hc', Bool.false_eq_true, if_false, applyOut, writeBack, updOpt]
      simp [h.pc]
    rw [hs, if_neg hc]
    exact ⟨⟨h.regs, h.mem, rfl, h.trace, rfl⟩, rfl⟩

/-- `jal`: `ra` receives the line after the call, everything else stays -/
theorem step_jal (h : At st σ pc) (lit : Nat → V) (n : Nat) (hl : sem.toAddr (lit n) = some n) (hi : P[pc]? = some ⟨.jal, none, [.num (lit n)]⟩) :
    At (step sem env P st) σ n ∧ (step sem env P st).regs Special.ra = sem.ofNat (pc + 1) := by
  have hs : step sem env P st = { regs := upd st.regs Special.ra (sem.ofNat (pc + 1)), mem := st.mem, pc := n, trace := st.trace, halted := false } := by
    simp [step, h.halted, h.pc, hi, IC10.exec, target, Opnd.eval, hl, applyOut, writeBack, updOpt]
  rw [hs]
  refine ⟨⟨fun r hr' => ?_, h.mem, rfl, h.trace, rfl⟩, by simp [upd]⟩
  simp only [upd, hr', if_false]
  exact h.regs r hr'

/-- `j ra`: continues at the line `ra` holds -/
theorem step_ret (h : At st σ pc) (n : Nat) (hra : sem.toAddr (st.regs Special.ra) = some n) (hi : P[pc]? = some ⟨.jmp, none, [.reg Special.ra]⟩) :
    At (step sem env P st) σ n ∧ (step sem env P st).regs Special.ra = st.regs Special.ra := by
  have hs : step sem env P st = { regs := st.regs, mem := st.mem, pc := n, trace := st.trace, halted := false } := by
    simp [step, h.halted, h.pc, hi, IC10.exec, target, Opnd.eval, hra, applyOut, writeBack, updOpt]
  rw [hs]
  exact ⟨⟨h.regs, h.mem, rfl, h.trace, rfl⟩, rfl⟩

end steps

/-! ### the simulation -/

/-- the line at which a statement's exit lands: the next line, the enclosing loop's end / start label, the procedure's end label -/
def land (e : Exit) (next cl bl rl : Nat) : Nat :=
  match e with
  | .norm => next
  | .brk => bl
  | .cont => cl
  | .ret => rl

theorem run_step (sem : Sem V) (env : Env V) (P : List (Instr Reg V)) (k : Nat) (st : St Reg V) :
    run sem env P (k + 1) st = step sem env P (run sem env P k st) := by
  induction k generalizing st with
  | zero => rfl
  | succ k ih => exact ih (step sem env P st)

theorem good_mono (sem : Sem V) (a b : Nat → Prop) (hab : ∀ k, a k → b k) : ∀ s : Stmt V, Good sem a s → Good sem b s := by
  intro s
  induction s with
  | call k => intro h; exact hab k h
  | seq p q ihp ihq => intro h; exact ⟨ihp h.1, ihq h.2⟩
  | ite c neg args p q ihp ihq => intro h; exact ⟨h.1, h.2.1, ihp h.2.2.1, ihq h.2.2.2⟩
  | ifThen c neg args p ihp => intro h; exact ⟨h.1, h.2.1, ihp h.2.2⟩
  | «while» c neg args body ih => intro h; exact ⟨h.1, h.2.1, ih h.2.2⟩
  | loop body ih => intro h; exact ih h
  | _ => intro h; exact h

theorem good_false_nocall (sem : Sem V) : ∀ s : Stmt V, Good sem (fun _ => False) s → NoCall s := by
  intro s
  induction s with
  | call k => intro h; exact h
  | seq p q ihp ihq => intro h; exact ⟨ihp h.1, ihq h.2⟩
  | ite c neg args p q ihp ihq => intro h; exact ⟨ihp h.2.2.1, ihq h.2.2.2⟩
  | ifThen c neg args p ihp => intro h; exact ihp h.2.2
  | «while» c neg args body ih => intro h; exact ih h.2.2
  | loop body ih => intro h; exact ih h
  | _ => intro _; trivial

section sim
variable (sem : Sem V) (env : Env V) (lit : Nat → V) (entry : Nat → Nat) (F : Nat → Stmt V) (P : List (Instr Reg V))

/-- procedure `k` sits at its entry line, calls nothing and is well formed -/
structure ProcOk (k : Nat) : Prop where
  code : CodeAt P (entry k) (compProc lit entry (F k) k)
  good : Good sem (fun _ => False) (F k)

def Claim (n : Nat) (s : Stmt V) : Prop :=
  ∀ (base cl bl rl : Nat) (σ : SSt V) (st : St Reg V), CodeAt P base (comp lit entry s base cl bl rl) → At st σ base →
    (∀ e σ', exec sem env F n s σ = .ok e σ' →
        ∃ k, At (run sem env P k st) σ' (land e (base + size s) cl bl rl) ∧
             (NoCall s → (run sem env P k st).regs Special.ra = st.regs Special.ra)) ∧
    (∀ σ', exec sem env F n s σ = .timeout σ' → ∃ k pc, n ≤ k ∧ At (run sem env P k st) σ' pc)

theorem claim_stmt (hlit : ∀ n, sem.toAddr (lit n) = some n) (hof : ∀ n, sem.toAddr (sem.ofNat n) = some n)
    (ok : Nat → Prop) (hok : ∀ k, ok k → ProcOk sem lit entry F P k) (n : Nat)
    (hprev : ∀ m, n = m + 1 → ∀ s, Good sem ok s → Claim sem env lit entry F P m s) :
    ∀ s, Good sem ok s → Claim sem env lit entry F P n s := by
  intro s
  induction s with
  | alu x op args =>
    intro hg base cl bl rl σ st hc hat
    have hi : P[base]? = some ⟨.alu op, some x, args⟩ := by have := hc 0 (by simp [comp]); simpa [comp] using this
    obtain ⟨h1, h2⟩ := step_alu sem env P st σ base hat x op args hg.1 hg.2 hi
    refine ⟨fun e σ' h => ⟨1, ?_, fun _ => h2⟩, fun σ' h => by simp [exec] at h⟩
    simp only [exec, Res.done, Res.ok.injEq] at h
    obtain ⟨rfl, rfl⟩ := h
    exact h1
  | load x q args =>
    intro hg base cl bl rl σ st hc hat
    have hi : P[base]? = some ⟨.load q, some x, args⟩ := by have := hc 0 (by simp [comp]); simpa [comp] using this
    obtain ⟨h1, h2⟩ := step_load sem env P st σ base hat x q args hg.1 hg.2 hi
    refine ⟨fun e σ' h => ⟨1, ?_, fun _ => h2⟩, fun σ' h => by simp [exec] at h⟩
    simp only [exec, Res.done, Res.ok.injEq] at h
    obtain ⟨rfl, rfl⟩ := h
    exact h1
  | store q args =>
    intro hg base cl bl rl σ st hc hat
    have hi : P[base]? = some ⟨.store q, none, args⟩ := by have := hc 0 (by simp [comp]); simpa [comp] using this
    obtain ⟨h1, h2⟩ := step_store sem env P st σ base hat q args hg hi
    refine ⟨fun e σ' h => ⟨1, ?_, fun _ => h2⟩, fun σ' h => by simp [exec] at h⟩
    simp only [exec, Res.done, Res.ok.injEq] at h
    obtain ⟨rfl, rfl⟩ := h
    exact h1
  | yield =>
    intro hg base cl bl rl σ st hc hat
    have hi : P[base]? = some ⟨.yield, none, []⟩ := by have := hc 0 (by simp [comp]); simpa [comp] using this
    obtain ⟨h1, h2⟩ := step_yield sem env P st σ base hat hi
    refine ⟨fun e σ' h => ⟨1, ?_, fun _ => h2⟩, fun σ' h => by simp [exec] at h⟩
    simp only [exec, Res.done, Res.ok.injEq] at h
    obtain ⟨rfl, rfl⟩ := h
    exact h1
  | sleep a =>
    intro hg base cl bl rl σ st hc hat
    have hi : P[base]? = some ⟨.sleep, none, [a]⟩ := by have := hc 0 (by simp [comp]); simpa [comp] using this
    obtain ⟨h1, h2⟩ := step_sleep sem env P st σ base hat a hg hi
    refine ⟨fun e σ' h => ⟨1, ?_, fun _ => h2⟩, fun σ' h => by simp [exec] at h⟩
    simp only [exec, Res.done, Res.ok.injEq] at h
    obtain ⟨rfl, rfl⟩ := h
    exact h1
  | skip =>
    intro hg base cl bl rl σ st hc hat
    refine ⟨fun e σ' h => ⟨0, ?_, fun _ => rfl⟩, fun σ' h => by simp [exec] at h⟩
    simp only [exec, Res.done, Res.ok.injEq] at h
    obtain ⟨rfl, rfl⟩ := h
    simpa [run, size, land] using hat
  | getm x a =>
    intro hg base cl bl rl σ st hc hat
    have hi : P[base]? = some ⟨.getdb, some x, [a]⟩ := by have := hc 0 (by simp [comp]); simpa [comp] using this
    refine ⟨fun e σ' h => ?_, fun σ' h => ?_⟩
    · simp only [exec] at h
      cases ha : sem.toAddr (a.eval σ.regs) with
      | none => rw [ha] at h; simp at h
      | some m =>
        rw [ha] at h
        simp only at h
        by_cases hm : m < stackSize
        · rw [if_pos hm] at h
          simp only [Res.done, Res.ok.injEq] at h
          obtain ⟨rfl, rfl⟩ := h
          obtain ⟨h1, h2⟩ := step_getm sem env P st σ base hat x a m hg.1 hg.2 ha hm hi
          exact ⟨1, h1, fun _ => h2⟩
        · rw [if_neg hm] at h; simp at h
    · simp only [exec] at h
      cases ha : sem.toAddr (a.eval σ.regs) with
      | none => rw [ha] at h; simp at h
      | some m => rw [ha] at h; simp only at h; split at h <;> simp [Res.done] at h
  | putm a v =>
    intro hg base cl bl rl σ st hc hat
    have hi : P[base]? = some ⟨.poke, none, [a, v]⟩ := by have := hc 0 (by simp [comp]); simpa [comp] using this
    refine ⟨fun e σ' h => ?_, fun σ' h => ?_⟩
    · simp only [exec] at h
      cases ha : sem.toAddr (a.eval σ.regs) with
      | none => rw [ha] at h; simp at h
      | some m =>
        rw [ha] at h
        simp only at h
        by_cases hm : m < stackSize
        · rw [if_pos hm] at h
          simp only [Res.done, Res.ok.injEq] at h
          obtain ⟨rfl, rfl⟩ := h
          obtain ⟨h1, h2⟩ := step_putm sem env P st σ base hat a v m hg.1 hg.2 ha hm hi
          exact ⟨1, h1, fun _ => h2⟩
        · rw [if_neg hm] at h; simp at h
    · simp only [exec] at h
      cases ha : sem.toAddr (a.eval σ.regs) with
      | none => rw [ha] at h; simp at h
      | some m => rw [ha] at h; simp only at h; split at h <;> simp [Res.done] at h
  | brk =>
    intro hg base cl bl rl σ st hc hat
    have hi : P[base]? = some ⟨.jmp, none, [.num (lit bl)]⟩ := by have := hc 0 (by simp [comp]); simpa [comp] using this
    obtain ⟨h1, h2⟩ := step_jmp sem env P st σ base hat lit bl (hlit _) hi
    refine ⟨fun e σ' h => ⟨1, ?_, fun _ => h2⟩, fun σ' h => by simp [exec] at h⟩
    simp only [exec, Res.ok.injEq] at h
    obtain ⟨rfl, rfl⟩ := h
    exact h1
  | cont =>
    intro hg base cl bl rl σ st hc hat
    have hi : P[base]? = some ⟨.jmp, none, [.num (lit cl)]⟩ := by have := hc 0 (by simp [comp]); simpa [comp] using this
    obtain ⟨h1, h2⟩ := step_jmp sem env P st σ base hat lit cl (hlit _) hi
    refine ⟨fun e σ' h => ⟨1, ?_, fun _ => h2⟩, fun σ' h => by simp [exec] at h⟩
    simp only [exec, Res.ok.injEq] at h
    obtain ⟨rfl, rfl⟩ := h
    exact h1
  | ret =>
    intro hg base cl bl rl σ st hc hat
    have hi : P[base]? = some ⟨.jmp, none, [.num (lit rl)]⟩ := by have := hc 0 (by simp [comp]); simpa [comp] using this
    obtain ⟨h1, h2⟩ := step_jmp sem env P st σ base hat lit rl (hlit _) hi
    refine ⟨fun e σ' h => ⟨1, ?_, fun _ => h2⟩, fun σ' h => by simp [exec] at h⟩
    simp only [exec, Res.ok.injEq] at h
    obtain ⟨rfl, rfl⟩ := h
    exact h1
  | call j =>
    intro hg base cl bl rl σ st hc hat
    have hp := hok j hg
    have hi : P[base]? = some ⟨.jal, none, [.num (lit (entry j))]⟩ := by have := hc 0 (by simp [comp]); simpa [comp] using this
    -- the procedure's block: label ; body ; end label ; j ra
    have hblock : CodeAt P (entry j) ([nopI] ++ (comp lit entry (F j) (entry j + 1) 0 0 (entry j + 1 + size (F j)) ++ [nopI, ⟨.jmp, none, [.reg Special.ra]⟩])) := by
      simpa [compProc, List.append_assoc] using hp.code
    have hlab : P[entry j]? = some nopI := by have := hblock 0 (by simp); simpa using this
    have hb1 := hblock.right
    simp only [List.length_singleton] at hb1
    have hbody := hb1.left
    have hb2 := hb1.right
    rw [comp_length] at hb2
    have hend : P[entry j + 1 + size (F j)]? = some nopI := by have := hb2 0 (by simp); simpa using this
    have hjra : P[entry j + 1 + size (F j) + 1]? = some ⟨.jmp, none, [.reg Special.ra]⟩ := by have := hb2 1 (by simp); simpa using this
    have hgood : Good sem ok (F j) := good_mono sem _ ok (fun _ h => h.elim) (F j) hp.good
    have hleaf : NoCall (F j) := good_false_nocall sem (F j) hp.good
    obtain ⟨hj1, hra1⟩ := step_jal sem env P st σ base hat lit (entry j) (hlit _) hi
    obtain ⟨hj2, hra2⟩ := step_nop sem env P _ σ (entry j) hj1 hlab
    cases n with
    | zero =>
      refine ⟨fun e σ' h => by simp [exec] at h, fun σ' h => ?_⟩
      simp only [exec, Res.timeout.injEq] at h
      subst h
      exact ⟨0, base, Nat.le_refl 0, hat⟩
    | succ m =>
      have hcl := hprev m rfl (F j) hgood (entry j + 1) 0 0 (entry j + 1 + size (F j)) σ _ hbody hj2
      constructor
      · intro e σ' h
        simp only [exec] at h
        cases hb : exec sem env F m (F j) σ with
        | ok e1 σ1 =>
          rw [hb] at h
          obtain ⟨k1, h1, hr1⟩ := hcl.1 e1 σ1 hb
          have hfin : ∀ (hat1 : At (run sem env P k1 (step sem env P (step sem env P st))) σ1 (entry j + 1 + size (F j))),
              ∃ k, At (run sem env P k st) σ1 (base + 1) := by
            intro hat1
            obtain ⟨hn1, hrn1⟩ := step_nop sem env P _ σ1 _ hat1 hend
            have hraval : sem.toAddr ((step sem env P (run sem env P k1 (step sem env P (step sem env P st)))).regs Special.ra) = some (base + 1) := by
              rw [hrn1, hr1 hleaf, hra2, hra1, hof]
            obtain ⟨hn2, _⟩ := step_ret sem env P _ σ1 _ hn1 (base + 1) hraval hjra
            refine ⟨k1 + 1 + 1 + 1 + 1, ?_⟩
            have e : run sem env P (k1 + 1 + 1 + 1 + 1) st = run sem env P (k1 + 1 + 1) (step sem env P (step sem env P st)) := rfl
            rw [e, run_step, run_step]
            exact hn2
          cases e1 with
          | norm =>
            simp only [Res.done, Res.ok.injEq] at h
            obtain ⟨rfl, rfl⟩ := h
            obtain ⟨k, hk⟩ := hfin (by simpa [land] using h1)
            exact ⟨k, hk, fun hnc => hnc.elim⟩
          | ret =>
            simp only [Res.done, Res.ok.injEq] at h
            obtain ⟨rfl, rfl⟩ := h
            obtain ⟨k, hk⟩ := hfin (by simpa [land] using h1)
            exact ⟨k, hk, fun hnc => hnc.elim⟩
          | brk => simp at h
          | cont => simp at h
        | timeout σ1 => rw [hb] at h; simp at h
        | stuck => rw [hb] at h; simp at h
      · intro σ' h
        simp only [exec] at h
        cases hb : exec sem env F m (F j) σ with
        | ok e1 σ1 => rw [hb] at h; cases e1 <;> simp [Res.done] at h
        | timeout σ1 =>
          rw [hb] at h
          simp only [Res.timeout.injEq] at h
          subst h
          obtain ⟨k1, pc, hle, h1⟩ := hcl.2 σ1 hb
          refine ⟨k1 + 1 + 1, pc, by omega, ?_⟩
          exact h1
        | stuck => rw [hb] at h; simp at h
  | seq p q ihp ihq =>
    intro hg base cl bl rl σ st hc hat
    obtain ⟨hgp, hgq⟩ := hg
    simp only [comp] at hc
    have hcp := hc.left
    have hcq := hc.right
    rw [comp_length] at hcq
    have esz : base + size (p.seq q) = base + size p + size q := by simp [size, Nat.add_assoc]
    constructor
    · intro e σ' h
      simp only [exec] at h
      cases hp : exec sem env F n p σ with
      | ok e1 σ1 =>
        rw [hp] at h
        obtain ⟨k1, h1, hr1⟩ := (ihp hgp base cl bl rl σ st hcp hat).1 e1 σ1 hp
        cases e1 with
        | norm =>
          simp only [land] at h1
          simp only at h
          obtain ⟨k2, h2, hr2⟩ := (ihq hgq (base + size p) cl bl rl σ1 _ hcq h1).1 e σ' h
          refine ⟨k1 + k2, ?_, fun hnc => ?_⟩
          · rw [run_add, esz]; exact h2
          · rw [run_add, hr2 hnc.2, hr1 hnc.1]
        | brk =>
          simp only [Res.ok.injEq] at h
          obtain ⟨rfl, rfl⟩ := h
          exact ⟨k1, h1, fun hnc => hr1 hnc.1⟩
        | cont =>
          simp only [Res.ok.injEq] at h
          obtain ⟨rfl, rfl⟩ := h
          exact ⟨k1, h1, fun hnc => hr1 hnc.1⟩
        | ret =>
          simp only [Res.ok.injEq] at h
          obtain ⟨rfl, rfl⟩ := h
          exact ⟨k1, h1, fun hnc => hr1 hnc.1⟩
      | timeout σ1 => rw [hp] at h; simp at h
      | stuck => rw [hp] at h; simp at h
    · intro σ' h
      simp only [exec] at h
      cases hp : exec sem env F n p σ with
      | ok e1 σ1 =>
        rw [hp] at h
        obtain ⟨k1, h1, hr1⟩ := (ihp hgp base cl bl rl σ st hcp hat).1 e1 σ1 hp
        cases e1 with
        | norm =>
          simp only [land] at h1
          simp only at h
          obtain ⟨k2, pc, hle, h2⟩ := (ihq hgq (base + size p) cl bl rl σ1 _ hcq h1).2 σ' h
          exact ⟨k1 + k2, pc, by omega, by rw [run_add]; exact h2⟩
        | brk => simp at h
        | cont => simp at h
        | ret => simp at h
      | timeout σ1 =>
        rw [hp] at h
        simp only [Res.timeout.injEq] at h
        subst h
        exact (ihp hgp base cl bl rl σ st hcp hat).2 σ1 hp
      | stuck => rw [hp] at h; simp at h
  | ite c neg args p q ihp ihq =>
    intro hg base cl bl rl σ st hc hat
    obtain ⟨hneg, hargs, hgp, hgq⟩ := hg
    have hbr : P[base]? = some ⟨.br neg, none, args ++ [.num (lit (base + size p + 2))]⟩ := by
      have := hc 0 (by simp [comp]); simpa [comp] using this
    have hcode : CodeAt P base ([⟨.br neg, none, args ++ [.num (lit (base + size p + 2))]⟩] ++ (comp lit entry p (base + 1) cl bl rl ++
        ([⟨.jmp, none, [.num (lit (base + size p + size q + 3))]⟩, nopI] ++ (comp lit entry q (base + size p + 3) cl bl rl ++ [nopI])))) := by
      simpa [comp, List.append_assoc] using hc
    have h1 := hcode.right
    simp only [List.length_singleton] at h1
    have hcp := h1.left
    have h2 := h1.right
    rw [comp_length] at h2
    have hjmp : P[base + 1 + size p]? = some ⟨.jmp, none, [.num (lit (base + size p + size q + 3))]⟩ := by
      have := h2 0 (by simp); simpa using this
    have helse : P[base + size p + 2]? = some nopI := by
      have := h2 1 (by simp)
      have e : base + 1 + size p + 1 = base + size p + 2 := by omega
      rw [e] at this; simpa using this
    have h3 := h2.right
    simp only [List.length_cons, List.length_nil] at h3
    have hcq : CodeAt P (base + size p + 3) (comp lit entry q (base + size p + 3) cl bl rl) := by
      have := h3.left
      have e : base + 1 + size p + (0 + 1 + 1) = base + size p + 3 := by omega
      rw [e] at this; exact this
    have hend : P[base + size p + size q + 3]? = some nopI := by
      have := h3.right
      rw [comp_length] at this
      have e : base + 1 + size p + (0 + 1 + 1) + size q = base + size p + size q + 3 := by omega
      rw [e] at this
      have := this 0 (by simp); simpa using this
    have esz : base + size (Stmt.ite c neg args p q) = base + size p + size q + 3 + 1 := by simp [size]; omega
    obtain ⟨hb1, rb1⟩ := step_br sem env P st σ base hat lit neg args (base + size p + 2) (hlit _) hargs hbr
    rw [hneg _ (by simp [evalArgs])] at hb1
    by_cases hb : sem.cond c (evalArgs σ.regs args) = true
    · simp only [hb, Bool.not_true, Bool.false_eq_true, if_false] at hb1
      constructor
      · intro e σ' h
        simp only [exec, hb, if_true] at h
        obtain ⟨k1, hk1, hr1⟩ := (ihp hgp (base + 1) cl bl rl σ _ hcp hb1).1 e σ' h
        have hrun : ∀ k, run sem env P (k + 1) st = run sem env P k (step sem env P st) := fun k => rfl
        cases e with
        | norm =>
          simp only [land] at hk1
          obtain ⟨hj, rj⟩ := step_jmp sem env P _ σ' _ hk1 lit _ (hlit _) hjmp
          obtain ⟨he, re⟩ := step_nop sem env P _ σ' _ hj hend
          refine ⟨k1 + 1 + 1 + 1, ?_, fun hnc => ?_⟩
          · rw [hrun, run_step, run_step]; simp only [land]; rw [esz]; exact he
          · rw [hrun, run_step, run_step, re, rj, hr1 hnc.1, rb1]
        | brk => exact ⟨k1 + 1, by rw [hrun]; exact hk1, fun hnc => by rw [hrun, hr1 hnc.1, rb1]⟩
        | cont => exact ⟨k1 + 1, by rw [hrun]; exact hk1, fun hnc => by rw [hrun, hr1 hnc.1, rb1]⟩
        | ret => exact ⟨k1 + 1, by rw [hrun]; exact hk1, fun hnc => by rw [hrun, hr1 hnc.1, rb1]⟩
      · intro σ' h
        simp only [exec, hb, if_true] at h
        obtain ⟨k1, pc, hle, hk1⟩ := (ihp hgp (base + 1) cl bl rl σ _ hcp hb1).2 σ' h
        exact ⟨k1 + 1, pc, by omega, hk1⟩
    · have hb' : sem.cond c (evalArgs σ.regs args) = false := by simpa using hb
      simp only [hb', Bool.not_false, if_true] at hb1
      obtain ⟨hl1, rl1⟩ := step_nop sem env P _ σ _ hb1 helse
      have e3 : base + size p + 2 + 1 = base + size p + 3 := by omega
      rw [e3] at hl1
      have hrun2 : ∀ k, run sem env P (k + 1 + 1) st = run sem env P k (step sem env P (step sem env P st)) := fun k => rfl
      constructor
      · intro e σ' h
        simp only [exec, hb', Bool.false_eq_true, if_false] at h
        obtain ⟨k1, hk1, hr1⟩ := (ihq hgq (base + size p + 3) cl bl rl σ _ hcq hl1).1 e σ' h
        cases e with
        | norm =>
          simp only [land] at hk1
          have e4 : base + size p + 3 + size q = base + size p + size q + 3 := by omega
          rw [e4] at hk1
          obtain ⟨he, re⟩ := step_nop sem env P _ σ' _ hk1 hend
          refine ⟨k1 + 1 + 1 + 1, ?_, fun hnc => ?_⟩
          · have : run sem env P (k1 + 1 + 1 + 1) st = run sem env P (k1 + 1) (step sem env P (step sem env P st)) := rfl
            rw [this, run_step]; simp only [land]; rw [esz]; exact he
          · have : run sem env P (k1 + 1 + 1 + 1) st = run sem env P (k1 + 1) (step sem env P (step sem env P st)) := rfl
            rw [this, run_step, re, hr1 hnc.2, rl1, rb1]
        | brk => exact ⟨k1 + 1 + 1, by rw [hrun2]; exact hk1, fun hnc => by rw [hrun2, hr1 hnc.2, rl1, rb1]⟩
        | cont => exact ⟨k1 + 1 + 1, by rw [hrun2]; exact hk1, fun hnc => by rw [hrun2, hr1 hnc.2, rl1, rb1]⟩
        | ret => exact ⟨k1 + 1 + 1, by rw [hrun2]; exact hk1, fun hnc => by rw [hrun2, hr1 hnc.2, rl1, rb1]⟩
      · intro σ' h
        simp only [exec, hb', Bool.false_eq_true, if_false] at h
        obtain ⟨k1, pc, hle, hk1⟩ := (ihq hgq (base + size p + 3) cl bl rl σ _ hcq hl1).2 σ' h
        exact ⟨k1 + 1 + 1, pc, by omega, hk1⟩
  | ifThen c neg args p ihp =>
    intro hg base cl bl rl σ st hc hat
    obtain ⟨hneg, hargs, hgp⟩ := hg
    have hbr : P[base]? = some ⟨.br neg, none, args ++ [.num (lit (base + size p + 1))]⟩ := by
      have := hc 0 (by simp [comp]); simpa [comp] using this
    have hcode : CodeAt P base ([⟨.br neg, none, args ++ [.num (lit (base + size p + 1))]⟩] ++ (comp lit entry p (base + 1) cl bl rl ++ [nopI, nopI])) := by
      simpa [comp, List.append_assoc] using hc
    have h1 := hcode.right
    simp only [List.length_singleton] at h1
    have hcp := h1.left
    have h2 := h1.right
    rw [comp_length] at h2
    have hl1 : P[base + 1 + size p]? = some nopI := by have := h2 0 (by simp); simpa using this
    have hl2 : P[base + 1 + size p + 1]? = some nopI := by have := h2 1 (by simp); simpa using this
    have esz : base + size (Stmt.ifThen c neg args p) = base + 1 + size p + 1 + 1 := by simp [size]; omega
    obtain ⟨hb1, rb1⟩ := step_br sem env P st σ base hat lit neg args (base + size p + 1) (hlit _) hargs hbr
    rw [hneg _ (by simp [evalArgs])] at hb1
    have hrun : ∀ k, run sem env P (k + 1) st = run sem env P k (step sem env P st) := fun k => rfl
    by_cases hb : sem.cond c (evalArgs σ.regs args) = true
    · simp only [hb, Bool.not_true, Bool.false_eq_true, if_false] at hb1
      constructor
      · intro e σ' h
        simp only [exec, hb, if_true] at h
        obtain ⟨k1, hk1, hr1⟩ := (ihp hgp (base + 1) cl bl rl σ _ hcp hb1).1 e σ' h
        cases e with
        | norm =>
          simp only [land] at hk1
          obtain ⟨hn1, rn1⟩ := step_nop sem env P _ σ' _ hk1 hl1
          obtain ⟨hn2, rn2⟩ := step_nop sem env P _ σ' _ hn1 hl2
          refine ⟨k1 + 1 + 1 + 1, ?_, fun hnc => ?_⟩
          · rw [hrun, run_step, run_step]; simp only [land]; rw [esz]; exact hn2
          · rw [hrun, run_step, run_step, rn2, rn1, hr1 hnc, rb1]
        | brk => exact ⟨k1 + 1, by rw [hrun]; exact hk1, fun hnc => by rw [hrun, hr1 hnc, rb1]⟩
        | cont => exact ⟨k1 + 1, by rw [hrun]; exact hk1, fun hnc => by rw [hrun, hr1 hnc, rb1]⟩
        | ret => exact ⟨k1 + 1, by rw [hrun]; exact hk1, fun hnc => by rw [hrun, hr1 hnc, rb1]⟩
      · intro σ' h
        simp only [exec, hb, if_true] at h
        obtain ⟨k1, pc, hle, hk1⟩ := (ihp hgp (base + 1) cl bl rl σ _ hcp hb1).2 σ' h
        exact ⟨k1 + 1, pc, by omega, hk1⟩
    · have hb' : sem.cond c (evalArgs σ.regs args) = false := by simpa using hb
      simp only [hb', Bool.not_false, if_true] at hb1
      have e1 : base + size p + 1 = base + 1 + size p := by omega
      rw [e1] at hb1
      obtain ⟨hn1, rn1⟩ := step_nop sem env P _ σ _ hb1 hl1
      obtain ⟨hn2, rn2⟩ := step_nop sem env P _ σ _ hn1 hl2
      constructor
      · intro e σ' h
        simp only [exec, hb', Bool.false_eq_true, if_false, Res.done, Res.ok.injEq] at h
        obtain ⟨rfl, rfl⟩ := h
        refine ⟨1 + 1 + 1, ?_, fun _ => ?_⟩
        · have : run sem env P (1 + 1 + 1) st = step sem env P (step sem env P (step sem env P st)) := rfl
          rw [this]; simp only [land]; rw [esz]; exact hn2
        · have : run sem env P (1 + 1 + 1) st = step sem env P (step sem env P (step sem env P st)) := rfl
          rw [this, rn2, rn1, rb1]
      · intro σ' h
        simp [exec, hb'] at h
  | «while» c neg args body ih =>
    intro hg base cl bl rl σ st hc hat
    obtain ⟨hneg, hargs, hgb⟩ := hg
    have hcode : CodeAt P base ([nopI] ++ ([⟨.br neg, none, args ++ [.num (lit (base + size body + 3))]⟩] ++
        (comp lit entry body (base + 2) base (base + size body + 3) rl ++ [⟨.jmp, none, [.num (lit base)]⟩, nopI]))) := by
      simpa [comp, List.append_assoc] using hc
    have hlab : P[base]? = some nopI := by have := hcode 0 (by simp); simpa using this
    have h1 := hcode.right
    simp only [List.length_singleton] at h1
    have hbr : P[base + 1]? = some ⟨.br neg, none, args ++ [.num (lit (base + size body + 3))]⟩ := by
      have := h1 0 (by simp); simpa using this
    have h2 := h1.right
    simp only [List.length_singleton] at h2
    have hbody : CodeAt P (base + 2) (comp lit entry body (base + 2) base (base + size body + 3) rl) := by
      have := h2.left
      have e : base + 1 + 1 = base + 2 := by omega
      rw [e] at this; exact this
    have h3 := h2.right
    rw [comp_length] at h3
    have hjmp : P[base + 2 + size body]? = some ⟨.jmp, none, [.num (lit base)]⟩ := by
      have := h3 0 (by simp)
      have e : base + 1 + 1 + size body + 0 = base + 2 + size body := by omega
      rw [e] at this; simpa using this
    have hend : P[base + size body + 3]? = some nopI := by
      have := h3 1 (by simp)
      have e : base + 1 + 1 + size body + 1 = base + size body + 3 := by omega
      rw [e] at this; simpa using this
    have esz : base + size (Stmt.while c neg args body) = base + size body + 3 + 1 := by simp [size]; omega
    have hrun2 : ∀ k (u : St Reg V), run sem env P (k + 1 + 1) u = run sem env P k (step sem env P (step sem env P u)) := fun k u => rfl
    cases n with
    | zero =>
      refine ⟨fun e σ' h => by simp [exec] at h, fun σ' h => ?_⟩
      simp only [exec, Res.timeout.injEq] at h
      subst h
      exact ⟨0, base, Nat.le_refl 0, hat⟩
    | succ m =>
      have hw := hprev m rfl (.while c neg args body) ⟨hneg, hargs, hgb⟩ base cl bl rl
      obtain ⟨hl1, rl1⟩ := step_nop sem env P st σ base hat hlab
      obtain ⟨hb1, rb1⟩ := step_br sem env P _ σ (base + 1) hl1 lit neg args (base + size body + 3) (hlit _) hargs hbr
      rw [hneg _ (by simp [evalArgs])] at hb1
      by_cases hb : sem.cond c (evalArgs σ.regs args) = true
      · simp only [hb, Bool.not_true, Bool.false_eq_true, if_false] at hb1
        have e2 : base + 1 + 1 = base + 2 := by omega
        rw [e2] at hb1
        have hbd := ih hgb (base + 2) base (base + size body + 3) rl σ _ hbody hb1
        constructor
        · intro e σ' h
          simp only [exec] at h
          rw [if_pos hb] at h
          cases hx : exec sem env F (m + 1) body σ with
          | ok e1 σ1 =>
            rw [hx] at h
            obtain ⟨k1, hk1, hr1⟩ := hbd.1 e1 σ1 hx
            cases e1 with
            | norm =>
              simp only [land] at hk1
              simp only at h
              obtain ⟨hj, rj⟩ := step_jmp sem env P _ σ1 _ hk1 lit base (hlit _) hjmp
              obtain ⟨k2, hk2, hr2⟩ := (hw σ1 _ hc hj).1 e σ' h
              refine ⟨k1 + 1 + k2 + 1 + 1, ?_, fun hnc => ?_⟩
              · have : run sem env P (k1 + 1 + k2 + 1 + 1) st = run sem env P (k1 + 1 + k2) (step sem env P (step sem env P st)) := rfl
                rw [this, run_add, run_step]; exact hk2
              · have : run sem env P (k1 + 1 + k2 + 1 + 1) st = run sem env P (k1 + 1 + k2) (step sem env P (step sem env P st)) := rfl
                rw [this, run_add, run_step, hr2 hnc, rj, hr1 hnc, rb1, rl1]
            | cont =>
              simp only [land] at hk1
              simp only at h
              obtain ⟨k2, hk2, hr2⟩ := (hw σ1 _ hc hk1).1 e σ' h
              refine ⟨k1 + k2 + 1 + 1, ?_, fun hnc => ?_⟩
              · have : run sem env P (k1 + k2 + 1 + 1) st = run sem env P (k1 + k2) (step sem env P (step sem env P st)) := rfl
                rw [this, run_add]; exact hk2
              · have : run sem env P (k1 + k2 + 1 + 1) st = run sem env P (k1 + k2) (step sem env P (step sem env P st)) := rfl
                rw [this, run_add, hr2 hnc, hr1 hnc, rb1, rl1]
            | brk =>
              simp only [land] at hk1
              simp only [Res.done, Res.ok.injEq] at h
              obtain ⟨rfl, rfl⟩ := h
              obtain ⟨he, re⟩ := step_nop sem env P _ σ1 _ hk1 hend
              refine ⟨k1 + 1 + 1 + 1, ?_, fun hnc => ?_⟩
              · have : run sem env P (k1 + 1 + 1 + 1) st = run sem env P (k1 + 1) (step sem env P (step sem env P st)) := rfl
                rw [this, run_step]; simp only [land]; rw [esz]; exact he
              · have : run sem env P (k1 + 1 + 1 + 1) st = run sem env P (k1 + 1) (step sem env P (step sem env P st)) := rfl
                rw [this, run_step, re, hr1 hnc, rb1, rl1]
            | ret =>
              simp only [land] at hk1
              simp only [Res.ok.injEq] at h
              obtain ⟨rfl, rfl⟩ := h
              refine ⟨k1 + 1 + 1, ?_, fun hnc => ?_⟩
              · rw [hrun2]; exact hk1
              · rw [hrun2, hr1 hnc, rb1, rl1]
          | timeout σ1 => rw [hx] at h; simp at h
          | stuck => rw [hx] at h; simp at h
        · intro σ' h
          simp only [exec] at h
          rw [if_pos hb] at h
          cases hx : exec sem env F (m + 1) body σ with
          | ok e1 σ1 =>
            rw [hx] at h
            obtain ⟨k1, hk1, hr1⟩ := hbd.1 e1 σ1 hx
            cases e1 with
            | norm =>
              simp only [land] at hk1
              simp only at h
              obtain ⟨hj, rj⟩ := step_jmp sem env P _ σ1 _ hk1 lit base (hlit _) hjmp
              obtain ⟨k2, pc, hle, hk2⟩ := (hw σ1 _ hc hj).2 σ' h
              refine ⟨k1 + 1 + k2 + 1 + 1, pc, by omega, ?_⟩
              have : run sem env P (k1 + 1 + k2 + 1 + 1) st = run sem env P (k1 + 1 + k2) (step sem env P (step sem env P st)) := rfl
              rw [this, run_add, run_step]; exact hk2
            | cont =>
              simp only [land] at hk1
              simp only at h
              obtain ⟨k2, pc, hle, hk2⟩ := (hw σ1 _ hc hk1).2 σ' h
              refine ⟨k1 + k2 + 1 + 1, pc, by omega, ?_⟩
              have : run sem env P (k1 + k2 + 1 + 1) st = run sem env P (k1 + k2) (step sem env P (step sem env P st)) := rfl
              rw [this, run_add]; exact hk2
            | brk => simp [Res.done] at h
            | ret => simp at h
          | timeout σ1 =>
            rw [hx] at h
            simp only [Res.timeout.injEq] at h
            subst h
            obtain ⟨k1, pc, hle, hk1⟩ := hbd.2 σ1 hx
            exact ⟨k1 + 1 + 1, pc, by omega, by rw [hrun2]; exact hk1⟩
          | stuck => rw [hx] at h; simp at h
      · have hb' : sem.cond c (evalArgs σ.regs args) = false := by simpa using hb
        simp only [hb', Bool.not_false, if_true] at hb1
        obtain ⟨he, re⟩ := step_nop sem env P _ σ _ hb1 hend
        constructor
        · intro e σ' h
          simp only [exec] at h
          rw [if_neg hb] at h
          simp only [Res.done, Res.ok.injEq] at h
          obtain ⟨rfl, rfl⟩ := h
          refine ⟨1 + 1 + 1, ?_, fun _ => ?_⟩
          · have : run sem env P (1 + 1 + 1) st = step sem env P (step sem env P (step sem env P st)) := rfl
            rw [this]; simp only [land]; rw [esz]; exact he
          · have : run sem env P (1 + 1 + 1) st = step sem env P (step sem env P (step sem env P st)) := rfl
            rw [this, re, rb1, rl1]
        · intro σ' h
          simp only [exec] at h
          rw [if_neg hb] at h
          simp [Res.done] at h
  | loop body ih =>
    intro hgb base cl bl rl σ st hc hat
    have hcode : CodeAt P base ([nopI] ++ (comp lit entry body (base + 1) base (base + size body + 2) rl ++ [⟨.jmp, none, [.num (lit base)]⟩, nopI])) := by
      simpa [comp, List.append_assoc] using hc
    have hlab : P[base]? = some nopI := by have := hcode 0 (by simp); simpa using this
    have h1 := hcode.right
    simp only [List.length_singleton] at h1
    have hbody := h1.left
    have h2 := h1.right
    rw [comp_length] at h2
    have hjmp : P[base + 1 + size body]? = some ⟨.jmp, none, [.num (lit base)]⟩ := by
      have := h2 0 (by simp); simpa using this
    have hend : P[base + size body + 2]? = some nopI := by
      have := h2 1 (by simp)
      have e : base + 1 + size body + 1 = base + size body + 2 := by omega
      rw [e] at this; simpa using this
    have esz : base + size (Stmt.loop body) = base + size body + 2 + 1 := by simp [size]; omega
    have hrun1 : ∀ k (u : St Reg V), run sem env P (k + 1) u = run sem env P k (step sem env P u) := fun k u => rfl
    cases n with
    | zero =>
      refine ⟨fun e σ' h => by simp [exec] at h, fun σ' h => ?_⟩
      simp only [exec, Res.timeout.injEq] at h
      subst h
      exact ⟨0, base, Nat.le_refl 0, hat⟩
    | succ m =>
      have hw := hprev m rfl (.loop body) hgb base cl bl rl
      obtain ⟨hl1, rl1⟩ := step_nop sem env P st σ base hat hlab
      have hbd := ih hgb (base + 1) base (base + size body + 2) rl σ _ hbody hl1
      constructor
      · intro e σ' h
        simp only [exec] at h
        cases hx : exec sem env F (m + 1) body σ with
        | ok e1 σ1 =>
          rw [hx] at h
          obtain ⟨k1, hk1, hr1⟩ := hbd.1 e1 σ1 hx
          cases e1 with
          | norm =>
            simp only [land] at hk1
            simp only at h
            obtain ⟨hj, rj⟩ := step_jmp sem env P _ σ1 _ hk1 lit base (hlit _) hjmp
            obtain ⟨k2, hk2, hr2⟩ := (hw σ1 _ hc hj).1 e σ' h
            refine ⟨k1 + 1 + k2 + 1, ?_, fun hnc => ?_⟩
            · rw [hrun1, run_add, run_step]; exact hk2
            · rw [hrun1, run_add, run_step, hr2 hnc, rj, hr1 hnc, rl1]
          | cont =>
            simp only [land] at hk1
            simp only at h
            obtain ⟨k2, hk2, hr2⟩ := (hw σ1 _ hc hk1).1 e σ' h
            refine ⟨k1 + k2 + 1, ?_, fun hnc => ?_⟩
            · rw [hrun1, run_add]; exact hk2
            · rw [hrun1, run_add, hr2 hnc, hr1 hnc, rl1]
          | brk =>
            simp only [land] at hk1
            simp only [Res.done, Res.ok.injEq] at h
            obtain ⟨rfl, rfl⟩ := h
            obtain ⟨he, re⟩ := step_nop sem env P _ σ1 _ hk1 hend
            refine ⟨k1 + 1 + 1, ?_, fun hnc => ?_⟩
            · rw [hrun1, run_step]; simp only [land]; rw [esz]; exact he
            · rw [hrun1, run_step, re, hr1 hnc, rl1]
          | ret =>
            simp only [land] at hk1
            simp only [Res.ok.injEq] at h
            obtain ⟨rfl, rfl⟩ := h
            refine ⟨k1 + 1, ?_, fun hnc => ?_⟩
            · rw [hrun1]; exact hk1
            · rw [hrun1, hr1 hnc, rl1]
        | timeout σ1 => rw [hx] at h; simp at h
        | stuck => rw [hx] at h; simp at h
      · intro σ' h
        simp only [exec] at h
        cases hx : exec sem env F (m + 1) body σ with
        | ok e1 σ1 =>
          rw [hx] at h
          obtain ⟨k1, hk1, hr1⟩ := hbd.1 e1 σ1 hx
          cases e1 with
          | norm =>
            simp only [land] at hk1
            simp only at h
            obtain ⟨hj, rj⟩ := step_jmp sem env P _ σ1 _ hk1 lit base (hlit _) hjmp
            obtain ⟨k2, pc, hle, hk2⟩ := (hw σ1 _ hc hj).2 σ' h
            refine ⟨k1 + 1 + k2 + 1, pc, by omega, ?_⟩
            rw [hrun1, run_add, run_step]; exact hk2
          | cont =>
            simp only [land] at hk1
            simp only at h
            obtain ⟨k2, pc, hle, hk2⟩ := (hw σ1 _ hc hk1).2 σ' h
            refine ⟨k1 + k2 + 1, pc, by omega, ?_⟩
            rw [hrun1, run_add]; exact hk2
          | brk => simp [Res.done] at h
          | ret => simp at h
        | timeout σ1 =>
          rw [hx] at h
          simp only [Res.timeout.injEq] at h
          subst h
          obtain ⟨k1, pc, hle, hk1⟩ := hbd.2 σ1 hx
          exact ⟨k1 + 1, pc, by omega, by rw [hrun1]; exact hk1⟩
        | stuck => rw [hx] at h; simp at h

/-- the simulation for every fuel -/
theorem sim (hlit : ∀ n, sem.toAddr (lit n) = some n) (hof : ∀ n, sem.toAddr (sem.ofNat n) = some n)
    (ok : Nat → Prop) (hok : ∀ k, ok k → ProcOk sem lit entry F P k) :
    ∀ n s, Good sem ok s → Claim sem env lit entry F P n s := by
  intro n
  induction n with
  | zero => exact claim_stmt sem env lit entry F P hlit hof ok hok 0 (by intro m h; omega)
  | succ n ih =>
    refine claim_stmt sem env lit entry F P hlit hof ok hok (n + 1) ?_
    intro m h
    have hm : m = n := by omega
    subst hm
    exact ih

end sim

end PV.Core
