import PV.Base.Digits
/-! Round-trip lemmas for `PV.Digits`. -/
namespace PV.Digits

theorem ofDigits_append (b : Nat) (xs : List Nat) (d : Nat) : ofDigits b (xs ++ [d]) = ofDigits b xs * b + d := by
  simp [ofDigits, List.foldl_append]

theorem ofDigits_digitsAux (b : Nat) (hb : 2 ≤ b) : ∀ fuel n, n < fuel → ofDigits b (digitsAux b fuel n) = n
  | 0, n, h => by omega
  | fuel + 1, n, h => by
    unfold digitsAux
    split
    · simp [ofDigits]
    · rename_i hn
      have hlt : n / b < fuel := by
        have : n / b < n := Nat.div_lt_self (by omega) (by omega)
        omega
      rw [ofDigits_append, ofDigits_digitsAux b hb fuel (n / b) hlt]
      exact Nat.div_add_mod' n b

theorem ofDigits_digits (b n : Nat) (hb : 2 ≤ b) : ofDigits b (digits b n) = n :=
  ofDigits_digitsAux b hb (n + 1) n (by omega)

theorem digitsAux_lt (b : Nat) (hb : 2 ≤ b) : ∀ fuel n, ∀ d ∈ digitsAux b fuel n, d < b
  | 0, _, d, h => by simp [digitsAux] at h
  | fuel + 1, n, d, h => by
    unfold digitsAux at h
    split at h
    · simp at h; omega
    · rcases List.mem_append.mp h with h | h
      · exact digitsAux_lt b hb fuel _ d h
      · simp at h; rw [h]; exact Nat.mod_lt _ (by omega)

theorem digitsAux_ne_nil (b : Nat) : ∀ fuel n, n < fuel → digitsAux b fuel n ≠ []
  | 0, n, h => by omega
  | fuel + 1, n, _ => by
    unfold digitsAux
    split <;> simp

theorem charDigit_digitChar (d : Nat) (h : d < 16) : charDigit (digitChar d) = some d := by
  have : d = 0 ∨ d = 1 ∨ d = 2 ∨ d = 3 ∨ d = 4 ∨ d = 5 ∨ d = 6 ∨ d = 7 ∨ d = 8 ∨ d = 9 ∨ d = 10 ∨ d = 11 ∨
      d = 12 ∨ d = 13 ∨ d = 14 ∨ d = 15 := by omega
  rcases this with h | h | h | h | h | h | h | h | h | h | h | h | h | h | h | h <;> subst h <;> decide

/-- folding the reader over the characters of a digit list -/
theorem fold_read (b : Nat) (hb16 : b ≤ 16) : ∀ (ds : List Nat) (acc : Nat), (∀ d ∈ ds, d < b) →
    (ds.map digitChar).foldl (readStep b) (some acc) = some (ds.foldl (fun acc d => acc * b + d) acc)
  | [], acc, _ => rfl
  | d :: ds, acc, h => by
    have hd : d < b := h d (by simp)
    simp only [List.map_cons, List.foldl_cons, readStep]
    rw [charDigit_digitChar d (by omega)]
    simp only [hd, if_true]
    exact fold_read b hb16 ds (acc * b + d) (fun x hx => h x (by simp [hx]))

theorem strToNat_natToStr (b n : Nat) (hb : 2 ≤ b) (hb16 : b ≤ 16) : strToNat b (natToStr b n) = some n := by
  unfold strToNat natToStr
  have hne : digits b n ≠ [] := digitsAux_ne_nil b (n + 1) n (by omega)
  have hemp : ((digits b n).map digitChar).isEmpty = false := by
    cases h : digits b n with
    | nil => exact absurd h hne
    | cons a t => rfl
  rw [hemp]
  simp only [Bool.false_eq_true, if_false]
  have hf := fold_read b hb16 (digits b n) 0 (digitsAux_lt b hb (n + 1) n)
  have := ofDigits_digits b n hb
  unfold ofDigits at this
  rw [this] at hf
  exact hf

/-- the first character of a numeral is a digit character, in particular neither `-` nor `$` -/
theorem natToStr_head (b n : Nat) (hb : 2 ≤ b) (hb16 : b ≤ 16) :
    ∃ c rest, natToStr b n = c :: rest ∧ c ≠ '-' ∧ c ≠ '$' := by
  unfold natToStr
  have hne : digits b n ≠ [] := digitsAux_ne_nil b (n + 1) n (by omega)
  cases h : digits b n with
  | nil => exact absurd h hne
  | cons d t =>
    refine ⟨digitChar d, t.map digitChar, rfl, ?_, ?_⟩
    · have hd : d < b := by
        have := digitsAux_lt b hb (n + 1) n d (by unfold digits at h; rw [h]; simp)
        exact this
      have : d < 16 := by omega
      have hc := charDigit_digitChar d this
      intro e; rw [e] at hc
      have : charDigit '-' = none := by decide
      rw [this] at hc; cases hc
    · have hd : d < b := by
        have := digitsAux_lt b hb (n + 1) n d (by unfold digits at h; rw [h]; simp)
        exact this
      have : d < 16 := by omega
      have hc := charDigit_digitChar d this
      intro e; rw [e] at hc
      have : charDigit '$' = none := by decide
      rw [this] at hc; cases hc

theorem parseNum_intToDec (n : Int) : parseNum (intToDec n) = some n := by
  unfold intToDec
  split
  · rename_i hneg
    simp only [parseNum]
    rw [strToNat_natToStr 10 _ (by omega) (by omega)]
    simp only [Option.map_some]
    congr 1
    simp only [Int.ofNat_eq_natCast]; omega
  · rename_i hpos
    obtain ⟨c, rest, hcr, h1, h2⟩ := natToStr_head 10 n.natAbs (by omega) (by omega)
    have : parseNum (natToStr 10 n.natAbs) = (strToNat 10 (natToStr 10 n.natAbs)).map Int.ofNat := by
      rw [hcr]
      unfold parseNum
      split
      · rename_i heq; injection heq with h _; exact absurd h h2
      · rename_i heq; injection heq with h _; exact absurd h h1
      · rfl
    rw [this, strToNat_natToStr 10 _ (by omega) (by omega)]
    simp only [Option.map_some]
    congr 1
    simp only [Int.ofNat_eq_natCast]; omega

/-- **every integer the transpiler prints reads back as itself**, whatever the set of known hashes -/
theorem formatInt_roundtrip (hashes : List Int) (n : Int) : parseNum (formatInt hashes n) = some n := by
  unfold formatInt
  split
  · exact parseNum_intToDec n
  · rename_i h
    have hn : 10000 < n := by
      have h1 : ¬ n ≤ 10000 := fun hh => h (Or.inl hh)
      omega
    simp only [parseNum]
    rw [strToNat_natToStr 16 _ (by omega) (by omega)]
    simp only [Option.map_some]
    congr 1
    simp only [Int.ofNat_eq_natCast]; omega

end PV.Digits
