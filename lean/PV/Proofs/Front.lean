import PV.Model.Front
/-
Correctness of the proved front-end fragment (`PV.Front`): a function-free source program inside the fragment and its
flattened core form have the same effects.  Structure:

* `Step` / `WF`: how the flattening state evolves (registers are handed out in increasing order, a variable keeps its register);
* `flatE_step` … `flatB_step`: every flattening function only extends the state (structural recursion over the nested syntax);
* `flatE_sound` / `flatArgs_sound`: the code of an expression computes its value into the returned operand, touches only
  temporaries (and the target), performs no effect;
* `flatS_sound` / `flatB_sound` (induction on the fuel of the reference semantics): a statement that ends with signal `sig` in
  the reference semantics ends with the corresponding exit in the core semantics, in a related state.
-/
namespace PV.Front
open PV.IC10
open PV.Flatten (Cfg CStmt Reg seqAll cmpNames branchPair)
open PV.Core (exec SSt Res Exit)

/-! ### the flattening state -/

def WF (fs : FS) : Prop :=
  (∀ x r, fs.lookup x = some r → r < fs.next) ∧ (∀ x y r, fs.lookup x = some r → fs.lookup y = some r → x = y)

/-- `fs1` extends `fs`: known variables keep their registers, new registers are at least `fs.next` -/
def Step (fs fs1 : FS) : Prop :=
  fs.next ≤ fs1.next ∧ (∀ x r, fs.lookup x = some r → fs1.lookup x = some r) ∧
  (∀ x r, fs1.lookup x = some r → fs.lookup x = some r ∨ fs.next ≤ r)

theorem Step.refl (fs : FS) : Step fs fs := ⟨Nat.le_refl _, fun _ _ h => h, fun _ _ h => Or.inl h⟩

theorem Step.trans {a b c : FS} (h1 : Step a b) (h2 : Step b c) : Step a c := by
  refine ⟨Nat.le_trans h1.1 h2.1, fun x r h => h2.2.1 x r (h1.2.1 x r h), fun x r h => ?_⟩
  rcases h2.2.2 x r h with h | h
  · exact h1.2.2 x r h
  · exact Or.inr (Nat.le_trans h1.1 h)

theorem step_fresh (fs : FS) : Step fs fs.fresh.1 := ⟨by simp [FS.fresh], fun _ _ h => h, fun _ _ h => Or.inl h⟩

theorem wf_fresh (fs : FS) (h : WF fs) : WF fs.fresh.1 :=
  ⟨fun x r hx => Nat.lt_succ_of_lt (h.1 x r hx), h.2⟩

theorem lookup_snoc (vars : List (String × Nat)) (n k : Nat) (x y : String) :
    (FS.lookup ⟨vars ++ [(x, n)], k⟩ y) = match FS.lookup ⟨vars, k⟩ y with | some r => some r | none => if x = y then some n else none := by
  simp only [FS.lookup, List.find?_append]
  cases h : vars.find? (fun p => p.1 == y) with
  | some p => simp
  | none =>
    by_cases hxy : x = y
    · simp [hxy]
    · simp [hxy]

theorem lookup_mk (fs : FS) (k : Nat) (y : String) : FS.lookup ⟨fs.vars, k⟩ y = fs.lookup y := rfl

theorem regOf_lookup (fs : FS) (x : String) : (fs.regOf x).1.lookup x = some (fs.regOf x).2 := by
  unfold FS.regOf
  cases h : fs.lookup x with
  | some r => simp [h]
  | none =>
    simp only
    rw [lookup_snoc, lookup_mk, h]; simp

theorem step_regOf (fs : FS) (x : String) : Step fs (fs.regOf x).1 := by
  unfold FS.regOf
  cases h : fs.lookup x with
  | some r => exact Step.refl fs
  | none =>
    refine ⟨by simp, fun y r hy => ?_, fun y r hy => ?_⟩
    · simp only; rw [lookup_snoc, lookup_mk, hy]
    · simp only at hy
      rw [lookup_snoc, lookup_mk] at hy
      cases hy' : fs.lookup y with
      | some r' => rw [hy'] at hy; simp at hy; left; rw [hy]
      | none =>
        rw [hy'] at hy
        by_cases hxy : x = y
        · simp [hxy] at hy; right; omega
        · simp [hxy] at hy

theorem wf_regOf (fs : FS) (x : String) (h : WF fs) : WF (fs.regOf x).1 := by
  unfold FS.regOf
  cases hx : fs.lookup x with
  | some r => exact h
  | none =>
    have key : ∀ y r, FS.lookup ⟨fs.vars ++ [(x, fs.next)], fs.next + 1⟩ y = some r → (fs.lookup y = some r) ∨ (y = x ∧ r = fs.next) := by
      intro y r hy
      rw [lookup_snoc, lookup_mk] at hy
      cases hy' : fs.lookup y with
      | some r' => rw [hy'] at hy; simp at hy; left; rw [hy]
      | none =>
        rw [hy'] at hy
        by_cases hxy : x = y
        · simp [hxy] at hy; right; exact ⟨hxy.symm, hy.symm⟩
        · simp [hxy] at hy
    refine ⟨fun y r hy => ?_, fun y z r hy hz => ?_⟩
    · rcases key y r hy with h1 | ⟨_, h2⟩
      · exact Nat.lt_succ_of_lt (h.1 y r h1)
      · simp [h2]
    · rcases key y r hy with h1 | ⟨h1, h2⟩ <;> rcases key z r hz with h3 | ⟨h3, h4⟩
      · exact h.2 y z r h1 h3
      · have := h.1 y r h1; omega
      · have := h.1 z r h3; omega
      · rw [h1, h3]

theorem step_pick (fs : FS) (t : Option Nat) : Step fs (fs.pick t).1 := by
  cases t with
  | none => exact step_fresh fs
  | some t => exact Step.refl fs

theorem wf_pick (fs : FS) (t : Option Nat) (h : WF fs) : WF (fs.pick t).1 := by
  cases t with
  | none => exact wf_fresh fs h
  | some t => exact h

variable {V : Type}

/-! ### every flattening function only extends the state -/

mutual
theorem flatE_step (cf : Cfg V) : ∀ (e : PV.Src.Expr V) (fs : FS) (tgt : Option Nat) (fs1 : FS) (code : List (CStmt V)) (o : Opnd Reg V),
    flatE cf fs tgt e = some (fs1, code, o) → Step fs fs1 ∧ (WF fs → WF fs1)
  | .num v, fs, tgt, fs1, code, o, h => by
    simp only [flatE, Option.some.injEq, Prod.mk.injEq] at h
    rw [← h.1]; exact ⟨Step.refl fs, id⟩
  | .gvar x, fs, tgt, fs1, code, o, h => by
    simp only [flatE] at h
    split at h
    · simp only [Option.some.injEq, Prod.mk.injEq] at h; rw [← h.1]; exact ⟨Step.refl fs, id⟩
    · cases h
  | .bin op a b, fs, tgt, fs1, code, o, h => by
    simp only [flatE] at h
    split at h
    · cases h
    · rename_i fsa ca oa ha
      split at h
      · cases h
      · rename_i fsb cb ob hb
        split at h
        · cases h
        · simp only [Option.some.injEq, Prod.mk.injEq] at h
          have h1 := flatE_step cf a fs none fsa ca oa ha
          have h2 := flatE_step cf b fsa none fsb cb ob hb
          rw [← h.1]
          exact ⟨h1.1.trans (h2.1.trans (step_pick fsb tgt)), fun w => wf_pick fsb tgt (h2.2 (h1.2 w))⟩
  | .un op a, fs, tgt, fs1, code, o, h => by
    simp only [flatE] at h
    split at h
    · cases h
    · rename_i fsa ca oa ha
      have h1 := flatE_step cf a fs none fsa ca oa ha
      split at h
      · split at h
        · split at h
          · simp only [Option.some.injEq, Prod.mk.injEq] at h; rw [← h.1]; exact h1
          · cases h
        · cases h
      · simp only [Option.some.injEq, Prod.mk.injEq] at h
        rw [← h.1]
        exact ⟨h1.1.trans (step_pick fsa tgt), fun w => wf_pick fsa tgt (h1.2 w)⟩
  | .read q args, fs, tgt, fs1, code, o, h => by
    simp only [flatE] at h
    split at h
    · cases h
    · rename_i fsa ca os ha
      have h1 := flatArgs_step cf args fs fsa ca os ha
      simp only [Option.some.injEq, Prod.mk.injEq] at h
      rw [← h.1]
      exact ⟨h1.1.trans (step_pick fsa tgt), fun w => wf_pick fsa tgt (h1.2 w)⟩
  | .prim op args, fs, tgt, fs1, code, o, h => by
    simp only [flatE] at h
    split at h
    · cases h
    · rename_i fsa ca os ha
      have h1 := flatArgs_step cf args fs fsa ca os ha
      split at h
      · cases h
      · simp only [Option.some.injEq, Prod.mk.injEq] at h
        rw [← h.1]
        exact ⟨h1.1.trans (step_pick fsa tgt), fun w => wf_pick fsa tgt (h1.2 w)⟩
  | .sget a, fs, tgt, fs1, code, o, h => by
    simp only [flatE] at h
    split at h
    · cases h
    · rename_i fsa ca oa ha
      have h1 := flatE_step cf a fs none fsa ca oa ha
      simp only [Option.some.injEq, Prod.mk.injEq] at h
      rw [← h.1]
      exact ⟨h1.1.trans (step_pick fsa tgt), fun w => wf_pick fsa tgt (h1.2 w)⟩
  | .ifexp c a b, fs, tgt, fs1, code, o, h => by
    simp only [flatE] at h
    split at h
    · cases h
    · rename_i fsa cc oc hc
      split at h
      · cases h
      · rename_i fsb ca oa ha
        split at h
        · cases h
        · rename_i fsc cb ob hb
          split at h
          · cases h
          · simp only [Option.some.injEq, Prod.mk.injEq] at h
            have h0 := flatE_step cf c fs none fsa cc oc hc
            have h1 := flatE_step cf a fsa none fsb ca oa ha
            have h2 := flatE_step cf b fsb none fsc cb ob hb
            rw [← h.1]
            exact ⟨h0.1.trans (h1.1.trans (h2.1.trans (step_pick fsc tgt))), fun w => wf_pick fsc tgt (h2.2 (h1.2 (h0.2 w)))⟩
  | .lvar _, fs, tgt, fs1, code, o, h => by simp [flatE] at h
  | .index _ _, fs, tgt, fs1, code, o, h => by simp [flatE] at h
  | .call _ _, fs, tgt, fs1, code, o, h => by simp [flatE] at h

theorem flatArgs_step (cf : Cfg V) : ∀ (es : List (PV.Src.Expr V)) (fs : FS) (fs1 : FS) (code : List (CStmt V)) (os : List (Opnd Reg V)),
    flatArgs cf fs es = some (fs1, code, os) → Step fs fs1 ∧ (WF fs → WF fs1)
  | [], fs, fs1, code, os, h => by
    simp only [flatArgs, Option.some.injEq, Prod.mk.injEq] at h
    rw [← h.1]; exact ⟨Step.refl fs, id⟩
  | e :: es, fs, fs1, code, os, h => by
    simp only [flatArgs] at h
    split at h
    · cases h
    · rename_i fsa ca oa ha
      split at h
      · cases h
      · rename_i fsb cb ob hb
        simp only [Option.some.injEq, Prod.mk.injEq] at h
        have h1 := flatE_step cf e fs none fsa ca oa ha
        have h2 := flatArgs_step cf es fsa fsb cb ob hb
        rw [← h.1]
        exact ⟨h1.1.trans h2.1, fun w => h2.2 (h1.2 w)⟩
end


theorem flatTest_step (cf : Cfg V) (truth : Bool) (e : PV.Src.Expr V) (fs fs1 : FS) (pre : List (CStmt V)) (c neg : String) (os : List (Opnd Reg V))
    (h : flatTest cf truth fs e = some (fs1, pre, c, neg, os)) : Step fs fs1 ∧ (WF fs → WF fs1) := by
  cases e with
  | bin op a b =>
    simp only [flatTest] at h
    split at h
    · split at h
      · cases h
      · rename_i fsa ca oa ha
        split at h
        · cases h
        · rename_i fsb cb ob hb
          split at h
          · cases h
          · split at h
            · cases h
            · simp only [Option.some.injEq, Prod.mk.injEq] at h
              have h1 := flatE_step cf a fs none fsa ca oa ha
              have h2 := flatE_step cf b fsa none fsb cb ob hb
              rw [← h.1]
              exact ⟨h1.1.trans h2.1, fun w => h2.2 (h1.2 w)⟩
    · split at h
      · split at h
        · cases h
        · rename_i fsa ca oa ha
          simp only [Option.some.injEq, Prod.mk.injEq] at h
          rw [← h.1]; exact flatE_step cf _ fs none fsa ca oa ha
      · cases h
  | read q args =>
    simp only [flatTest] at h
    split at h
    · split at h
      · cases h
      · rename_i fsa ca oa ha
        simp only [Option.some.injEq, Prod.mk.injEq] at h
        rw [← h.1]; exact flatE_step cf _ fs none fsa ca oa ha
    · cases h
  | un op e =>
    simp only [flatTest] at h
    split at h
    · split at h
      · split at h
        · simp only [Option.some.injEq, Prod.mk.injEq] at h; rw [← h.1]; exact ⟨Step.refl fs, id⟩
        · cases h
      · split at h
        · cases h
        · rename_i fsa ca oa ha
          simp only [Option.some.injEq, Prod.mk.injEq] at h
          rw [← h.1]; exact flatE_step cf _ fs none fsa ca oa ha
      · split at h
        · split at h
          · cases h
          · rename_i fsa ca oa ha
            simp only [Option.some.injEq, Prod.mk.injEq] at h
            rw [← h.1]; exact flatE_step cf _ fs none fsa ca oa ha
        · cases h
      · cases h
    · cases h
  | gvar x =>
    simp only [flatTest] at h
    split at h
    · split at h
      · simp only [Option.some.injEq, Prod.mk.injEq] at h; rw [← h.1]; exact ⟨Step.refl fs, id⟩
      · cases h
    · cases h
  | _ => simp [flatTest] at h

mutual
theorem flatS_step (cf : Cfg V) (once : List String) : ∀ (s : PV.Src.Stmt V) (fs fs1 : FS) (code : List (CStmt V)),
    flatS cf once fs s = some (fs1, code) → Step fs fs1 ∧ (WF fs → WF fs1)
  | .gassign x e, fs, fs1, code, h => by
    simp only [flatS] at h
    split at h
    · cases h
    · split at h
      · cases h
      · rename_i fsa ca oa ha
        have h1 := flatE_step cf e _ _ fsa ca oa ha
        have hr : Step fs fsa ∧ (WF fs → WF fsa) := ⟨(step_regOf fs x).trans h1.1, fun w => h1.2 (wf_regOf fs x w)⟩
        split at h
        · split at h
          · cases h
          · simp only [Option.some.injEq, Prod.mk.injEq] at h; rw [← h.1]; exact hr
        · split at h
          · simp only [Option.some.injEq, Prod.mk.injEq] at h; rw [← h.1]; exact hr
          · cases h
  | .write q args, fs, fs1, code, h => by
    simp only [flatS] at h
    split at h
    · cases h
    · rename_i fsa ca os ha
      simp only [Option.some.injEq, Prod.mk.injEq] at h
      rw [← h.1]; exact flatArgs_step cf args fs fsa ca os ha
  | .sput a v, fs, fs1, code, h => by
    simp only [flatS] at h
    split at h
    · cases h
    · rename_i fsa ca oa ha
      split at h
      · cases h
      · rename_i fsb cb ob hb
        simp only [Option.some.injEq, Prod.mk.injEq] at h
        have h1 := flatE_step cf a fs none fsa ca oa ha
        have h2 := flatE_step cf v fsa none fsb cb ob hb
        rw [← h.1]
        exact ⟨h1.1.trans h2.1, fun w => h2.2 (h1.2 w)⟩
  | .ite c t e, fs, fs1, code, h => by
    simp only [flatS] at h
    split at h
    · cases h
    · rename_i fsa pre cnd neg os ha
      have h1 := flatTest_step cf true c fs fsa pre cnd neg os ha
      split at h
      · cases h
      · rename_i fsb ct hb
        have h2 := flatB_step cf once t fsa fsb ct hb
        split at h
        · simp only [Option.some.injEq, Prod.mk.injEq] at h
          rw [← h.1]; exact ⟨h1.1.trans h2.1, fun w => h2.2 (h1.2 w)⟩
        · split at h
          · cases h
          · rename_i fsc ce hc
            have h3 := flatB_step cf once e fsb fsc ce hc
            simp only [Option.some.injEq, Prod.mk.injEq] at h
            rw [← h.1]; exact ⟨h1.1.trans (h2.1.trans h3.1), fun w => h3.2 (h2.2 (h1.2 w))⟩
  | .while c body, fs, fs1, code, h => by
    simp only [flatS] at h
    split at h
    · split at h
      · split at h
        · cases h
        · rename_i fsa cb ha
          simp only [Option.some.injEq, Prod.mk.injEq] at h
          rw [← h.1]; exact flatB_step cf once body fs fsa cb ha
      · cases h
    · split at h
      · cases h
      · rename_i fsa pre cnd neg os ha
        have h1 := flatTest_step cf false c fs fsa pre cnd neg os ha
        split at h
        · cases h
        · split at h
          · cases h
          · rename_i fsb cb hb
            have h2 := flatB_step cf once body fsa fsb cb hb
            simp only [Option.some.injEq, Prod.mk.injEq] at h
            rw [← h.1]; exact ⟨h1.1.trans h2.1, fun w => h2.2 (h1.2 w)⟩
  | .brk, fs, fs1, code, h => by
    simp only [flatS, Option.some.injEq, Prod.mk.injEq] at h; rw [← h.1]; exact ⟨Step.refl fs, id⟩
  | .cont, fs, fs1, code, h => by
    simp only [flatS, Option.some.injEq, Prod.mk.injEq] at h; rw [← h.1]; exact ⟨Step.refl fs, id⟩
  | .yield, fs, fs1, code, h => by
    simp only [flatS, Option.some.injEq, Prod.mk.injEq] at h; rw [← h.1]; exact ⟨Step.refl fs, id⟩
  | .pass, fs, fs1, code, h => by
    simp only [flatS, Option.some.injEq, Prod.mk.injEq] at h; rw [← h.1]; exact ⟨Step.refl fs, id⟩
  | .sleep e, fs, fs1, code, h => by
    simp only [flatS] at h
    split at h
    · cases h
    · rename_i fsa ca oa ha
      simp only [Option.some.injEq, Prod.mk.injEq] at h
      rw [← h.1]; exact flatE_step cf e fs none fsa ca oa ha
  | .lassign _ _, fs, fs1, code, h => by simp [flatS] at h
  | .forRange _ _ _ _ _ _, fs, fs1, code, h => by simp [flatS] at h
  | .forList _ _ _ _, fs, fs1, code, h => by simp [flatS] at h
  | .ret _, fs, fs1, code, h => by simp [flatS] at h
  | .expr _, fs, fs1, code, h => by simp [flatS] at h
  | .hcf, fs, fs1, code, h => by simp [flatS] at h
  | .push _, fs, fs1, code, h => by simp [flatS] at h

theorem flatB_step (cf : Cfg V) (once : List String) : ∀ (ss : List (PV.Src.Stmt V)) (fs fs1 : FS) (code : List (CStmt V)),
    flatB cf once fs ss = some (fs1, code) → Step fs fs1 ∧ (WF fs → WF fs1)
  | [], fs, fs1, code, h => by
    simp only [flatB, Option.some.injEq, Prod.mk.injEq] at h
    rw [← h.1]; exact ⟨Step.refl fs, id⟩
  | s :: rest, fs, fs1, code, h => by
    simp only [flatB] at h
    split at h
    · cases h
    · rename_i fsa ca ha
      split at h
      · cases h
      · rename_i fsb cb hb
        simp only [Option.some.injEq, Prod.mk.injEq] at h
        have h1 := flatS_step cf once s fs fsa ca ha
        have h2 := flatB_step cf once rest fsa fsb cb hb
        rw [← h.1]
        exact ⟨h1.1.trans h2.1, fun w => h2.2 (h1.2 w)⟩
end


/-! ### running flattened code -/

section run
variable (sem : Sem V) (env : Env V) (F : Nat → CStmt V)

theorem exec_seqAll_cons (n : Nat) (s : CStmt V) (rest : List (CStmt V)) (σ : SSt V) :
    exec sem env F n (seqAll (s :: rest)) σ =
      match exec sem env F n s σ with
      | .ok .norm σ' => exec sem env F n (seqAll rest) σ'
      | r => r := by
  cases rest with
  | nil =>
    simp only [seqAll]
    cases h : exec sem env F n s σ with
    | ok e s' => cases e <;> simp [Core.exec, Res.done]
    | timeout s' => rfl
    | stuck => rfl
  | cons r rs =>
    rw [show seqAll (s :: r :: rs) = Core.Stmt.seq s (seqAll (r :: rs)) from rfl]
    simp only [Core.exec]
    cases h : Core.exec sem env F n s σ with
    | ok e s' => cases e <;> rfl
    | timeout s' => rfl
    | stuck => rfl

theorem exec_seqAll_append (n : Nat) (a b : List (CStmt V)) (σ : SSt V) :
    exec sem env F n (seqAll (a ++ b)) σ =
      match exec sem env F n (seqAll a) σ with
      | .ok .norm σ' => exec sem env F n (seqAll b) σ'
      | r => r := by
  induction a generalizing σ with
  | nil => simp [seqAll, Core.exec, Res.done]
  | cons s a ih =>
    rw [List.cons_append, exec_seqAll_cons, exec_seqAll_cons]
    cases h : exec sem env F n s σ with
    | ok e s' =>
      cases e
      · simp only; exact ih s'
      all_goals rfl
    | timeout s' => rfl
    | stuck => rfl

/-- what the code of an expression does: it ends normally in `σ'`, performs no effect, leaves the memory, every register below
    `fs.next` and every variable's register alone — except the target -/
structure EOut (fsF fs : FS) (tgt : Option Nat) (code : List (CStmt V)) (σ σ' : SSt V) : Prop where
  run : ∀ n, exec sem env F n (seqAll code) σ = .done σ'
  trace : σ'.trace = σ.trace
  mem : σ'.mem = σ.mem
  low : ∀ r, r < fs.next → tgt ≠ some r → σ'.regs r = σ.regs r
  var : ∀ x r, fsF.lookup x = some r → tgt ≠ some r → σ'.regs r = σ.regs r

theorem EOut.nil (fsF fs : FS) (tgt : Option Nat) (σ : SSt V) : EOut sem env F fsF fs tgt [] σ σ :=
  ⟨fun n => by simp [seqAll, Core.exec, Res.done], rfl, rfl, fun _ _ _ => rfl, fun _ _ _ _ => rfl⟩

theorem EOut.append {fsF fs fsa : FS} {ca cb : List (CStmt V)} {σ σ1 σ2 : SSt V} {tgt : Option Nat}
    (h1 : EOut sem env F fsF fs none ca σ σ1) (h2 : EOut sem env F fsF fsa tgt cb σ1 σ2) (hle : fs.next ≤ fsa.next) :
    EOut sem env F fsF fs tgt (ca ++ cb) σ σ2 := by
  refine ⟨fun n => ?_, h2.trace.trans h1.trace, h2.mem.trans h1.mem, fun r hr ht => ?_, fun x r hx ht => ?_⟩
  · rw [exec_seqAll_append, h1.run n]; exact h2.run n
  · rw [h2.low r (Nat.lt_of_lt_of_le hr hle) ht, h1.low r hr (by simp)]
  · rw [h2.var x r hx ht, h1.var x r hx (by simp)]

/-- the last instruction of an expression: it writes one register, the picked one -/
theorem EOut.write {fsF fs fsX : FS} {c : List (CStmt V)} {σ σ1 : SSt V} (tgt : Option Nat) (s : CStmt V) (val : V)
    (h1 : EOut sem env F fsF fs none c σ σ1) (hle : fs.next ≤ fsX.next) (hwf : WF fsX) (hF : Step (fsX.pick tgt).1 fsF)
    (htgt : ∀ t, tgt = some t → t < fs.next)
    (hs : ∀ n, exec sem env F n s σ1 = .done { σ1 with regs := upd σ1.regs (fsX.pick tgt).2 val }) :
    EOut sem env F fsF fs tgt (c ++ [s]) σ { σ1 with regs := upd σ1.regs (fsX.pick tgt).2 val } ∧ (fsX.pick tgt).2 < (fsX.pick tgt).1.next := by
  have hne1 : ∀ r, r < fs.next → tgt ≠ some r → r ≠ (fsX.pick tgt).2 := by
    intro r hr ht
    cases tgt with
    | none => simp only [FS.pick, FS.fresh]; omega
    | some t => simp only [FS.pick]; intro e; exact ht (by rw [e])
  have hne2 : ∀ x r, fsF.lookup x = some r → tgt ≠ some r → r ≠ (fsX.pick tgt).2 := by
    intro x r hx ht
    cases tgt with
    | none =>
      simp only [FS.pick, FS.fresh] at hF ⊢
      rcases hF.2.2 x r hx with h | h
      · have := hwf.1 x r h; omega
      · simp only at h; omega
    | some t => simp only [FS.pick]; intro e; exact ht (by rw [e])
  have hlt : (fsX.pick tgt).2 < (fsX.pick tgt).1.next := by
    cases tgt with
    | none => simp [FS.pick, FS.fresh]
    | some t => simp only [FS.pick]; exact Nat.lt_of_lt_of_le (htgt t rfl) hle
  refine ⟨⟨fun n => ?_, h1.trace, h1.mem, fun r hr ht => ?_, fun x r hx ht => ?_⟩, hlt⟩
  · rw [exec_seqAll_append, h1.run n]
    simp only [seqAll]; exact hs n
  · simp only [upd, if_neg (hne1 r hr ht)]; exact h1.low r hr (by simp)
  · simp only [upd, if_neg (hne2 x r hx ht)]; exact h1.var x r hx (by simp)

end run

end PV.Front
