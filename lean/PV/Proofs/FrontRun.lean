import PV.Proofs.FrontStmt
/-
Programs that keep running: when the reference semantics runs out of fuel, the effects it has performed so far are effects the
flattened program performs too (`fuel_stmt`, `front_prefix`).
-/
namespace PV.Front
open PV.IC10
open PV.Flatten (Cfg CStmt Reg seqAll cmpNames branchPair)
open PV.Core (SSt Res Exit)

variable {V : Type}

/-- the core result has at least the effects `τ` (traces are newest first); `stuck` — a stack address outside the stack — is
    outside the compared domain -/
def Grow (τ : List (Eff V)) : Res V → Prop
  | .ok _ σ' => τ <:+ σ'.trace
  | .timeout σ' => τ <:+ σ'.trace
  | .stuck => True

theorem grow_trans {τ : List (Eff V)} {σ : SSt V} {r : Res V} (h1 : τ <:+ σ.trace) (h2 : Grow σ.trace r) : Grow τ r := by
  cases r with
  | ok e s => exact List.IsSuffix.trans h1 h2
  | timeout s => exact List.IsSuffix.trans h1 h2
  | stuck => trivial

section
variable (sem : Sem V) (env : Env V) (F : Nat → CStmt V)

theorem exec_grows_inner (n : Nat) (hrec : n = 0 ∨ ∃ k, n = k + 1 ∧ ∀ (c : CStmt V) (σ : SSt V), Grow σ.trace (PV.Core.exec sem env F k c σ)) :
    ∀ (c : CStmt V) (σ : SSt V), Grow σ.trace (PV.Core.exec sem env F n c σ) := by
  intro c
  induction c with
  | alu x op args => intro σ; simp only [PV.Core.exec, Res.done, Grow]; exact List.suffix_refl _
  | load x q args => intro σ; simp only [PV.Core.exec, Res.done, Grow]; exact List.suffix_refl _
  | store q args => intro σ; simp only [PV.Core.exec, Res.done, Grow]; exact List.suffix_cons _ _
  | yield => intro σ; simp only [PV.Core.exec, Res.done, Grow]; exact List.suffix_cons _ _
  | sleep a => intro σ; simp only [PV.Core.exec, Res.done, Grow]; exact List.suffix_cons _ _
  | skip => intro σ; simp only [PV.Core.exec, Res.done, Grow]; exact List.suffix_refl _
  | brk => intro σ; simp only [PV.Core.exec, Grow]; exact List.suffix_refl _
  | cont => intro σ; simp only [PV.Core.exec, Grow]; exact List.suffix_refl _
  | ret => intro σ; simp only [PV.Core.exec, Grow]; exact List.suffix_refl _
  | getm x a =>
    intro σ
    simp only [PV.Core.exec]
    split
    · split
      · simp only [Res.done, Grow]; exact List.suffix_refl _
      · trivial
    · trivial
  | putm a v =>
    intro σ
    simp only [PV.Core.exec]
    split
    · split
      · simp only [Res.done, Grow]; exact List.suffix_refl _
      · trivial
    · trivial
  | seq p q ihp ihq =>
    intro σ
    simp only [PV.Core.exec]
    have hp := ihp σ
    cases h : PV.Core.exec sem env F n p σ with
    | ok e s =>
      rw [h] at hp
      cases e
      · exact grow_trans hp (ihq s)
      all_goals exact hp
    | timeout s => rw [h] at hp; exact hp
    | stuck => trivial
  | ite c neg args p q ihp ihq =>
    intro σ
    simp only [PV.Core.exec]
    split
    · exact ihp σ
    · exact ihq σ
  | ifThen c neg args p ihp =>
    intro σ
    simp only [PV.Core.exec]
    split
    · exact ihp σ
    · simp only [Res.done, Grow]; exact List.suffix_refl _
  | inl body ih =>
    intro σ
    simp only [PV.Core.exec]
    have hb := ih σ
    cases h : PV.Core.exec sem env F n body σ with
    | ok e s => rw [h] at hb; cases e <;> first | exact hb | trivial
    | timeout s => rw [h] at hb; exact hb
    | stuck => trivial
  | call k =>
    intro σ
    rcases hrec with rfl | ⟨m, rfl, hm⟩
    · simp only [PV.Core.exec, Grow]; exact List.suffix_refl _
    · simp only [PV.Core.exec]
      have hb := hm (F k) σ
      cases h : PV.Core.exec sem env F m (F k) σ with
      | ok e s => rw [h] at hb; cases e <;> first | exact hb | trivial
      | timeout s => rw [h] at hb; exact hb
      | stuck => trivial
  | «while» c neg args body ih =>
    intro σ
    rcases hrec with rfl | ⟨m, rfl, hm⟩
    · simp only [PV.Core.exec, Grow]; exact List.suffix_refl _
    · simp only [PV.Core.exec]
      split
      · have hb := ih σ
        cases h : PV.Core.exec sem env F (m + 1) body σ with
        | ok e s =>
          rw [h] at hb
          cases e
          · exact grow_trans hb (hm _ s)
          · exact hb
          · exact grow_trans hb (hm _ s)
          · exact hb
        | timeout s => rw [h] at hb; exact hb
        | stuck => trivial
      · simp only [Res.done, Grow]; exact List.suffix_refl _
  | loop body ih =>
    intro σ
    rcases hrec with rfl | ⟨m, rfl, hm⟩
    · simp only [PV.Core.exec, Grow]; exact List.suffix_refl _
    · simp only [PV.Core.exec]
      have hb := ih σ
      cases h : PV.Core.exec sem env F (m + 1) body σ with
      | ok e s =>
        rw [h] at hb
        cases e
        · exact grow_trans hb (hm _ s)
        · exact hb
        · exact grow_trans hb (hm _ s)
        · exact hb
      | timeout s => rw [h] at hb; exact hb
      | stuck => trivial

/-- running core code never loses an effect -/
theorem exec_grows : ∀ (n : Nat) (c : CStmt V) (σ : SSt V), Grow σ.trace (PV.Core.exec sem env F n c σ) := by
  intro n
  induction n with
  | zero => exact exec_grows_inner sem env F 0 (Or.inl rfl)
  | succ k ih => exact exec_grows_inner sem env F (k + 1) (Or.inr ⟨k, rfl, ih⟩)


/-! ### evaluating an expression of the fragment never changes the state, whatever the outcome -/

variable (P : PV.Src.Program V) (cf : Cfg V)

def ESt (fuel : Nat) : Prop :=
  ∀ (e : PV.Src.Expr V) (fs : FS) (tgt : Option Nat) (fs1 : FS) (code : List (CStmt V)) (o : Opnd Reg V) (st st' : PV.Src.State V) (r : Except PV.Src.Err V),
    flatE cf fs tgt e = some (fs1, code, o) → PV.Src.evalExpr sem env P fuel [] st e = (st', r) → st' = st

def ASt (fuel : Nat) : Prop :=
  ∀ (es : List (PV.Src.Expr V)) (fs fs1 : FS) (code : List (CStmt V)) (os : List (Opnd Reg V)) (st st' : PV.Src.State V) (r : Except PV.Src.Err (List V)),
    flatArgs cf fs es = some (fs1, code, os) → PV.Src.evalArgs sem env P fuel [] st es = (st', r) → st' = st

theorem ast_of (fuel : Nat) (hE : ESt sem env P cf fuel) (hA : ASt sem env P cf fuel) : ASt sem env P cf (fuel + 1) := by
  intro es fs fs1 code os st st' r hf he
  cases es with
  | nil => simp only [PV.Src.evalArgs, Prod.mk.injEq] at he; exact he.1.symm
  | cons e es =>
    simp only [flatArgs] at hf
    split at hf
    · cases hf
    · rename_i fsa ca oa ha
      split at hf
      · cases hf
      · rename_i fsb cb ob hb
        simp only [PV.Src.evalArgs] at he
        split at he
        · rename_i s1 va hea
          have e1 := hE e fs none fsa ca oa st s1 _ ha hea
          subst e1
          split at he
          · rename_i s2 vs heb
            have e2 := hA es fsa fsb cb ob s1 s2 _ hb heb
            subst e2
            simp only [Prod.mk.injEq] at he; exact he.1.symm
          · rename_i s2 err heb
            have e2 := hA es fsa fsb cb ob s1 s2 _ hb heb
            subst e2
            simp only [Prod.mk.injEq] at he; exact he.1.symm
        · rename_i s1 err hea
          have e1 := hE e fs none fsa ca oa st s1 _ ha hea
          subst e1
          simp only [Prod.mk.injEq] at he; exact he.1.symm

theorem est_of (fuel : Nat) (hE : ESt sem env P cf fuel) (hA : ASt sem env P cf fuel) : ESt sem env P cf (fuel + 1) := by
  intro e fs tgt fs1 code o st st' r hf he
  cases e with
  | num w => simp only [PV.Src.evalExpr, Prod.mk.injEq] at he; exact he.1.symm
  | gvar x =>
    simp only [PV.Src.evalExpr] at he
    split at he <;> (simp only [Prod.mk.injEq] at he; exact he.1.symm)
  | bin op a b =>
    simp only [flatE] at hf
    split at hf
    · cases hf
    · rename_i fsa ca oa ha
      split at hf
      · cases hf
      · rename_i fsb cb ob hb
        simp only [PV.Src.evalExpr] at he
        split at he
        · rename_i s1 va hea
          have e1 := hE a fs none fsa ca oa st s1 _ ha hea
          subst e1
          split at he
          · rename_i s2 vb heb
            have e2 := hE b fsa none fsb cb ob s1 s2 _ hb heb
            subst e2
            simp only [Prod.mk.injEq] at he; exact he.1.symm
          · rename_i s2 err heb
            have e2 := hE b fsa none fsb cb ob s1 s2 _ hb heb
            subst e2
            simp only [Prod.mk.injEq] at he; exact he.1.symm
        · rename_i s1 err hea
          have e1 := hE a fs none fsa ca oa st s1 _ ha hea
          subst e1
          simp only [Prod.mk.injEq] at he; exact he.1.symm
  | un op a =>
    simp only [flatE] at hf
    split at hf
    · cases hf
    · rename_i fsa ca oa ha
      simp only [PV.Src.evalExpr] at he
      split at he
      · rename_i s1 va hea
        have e1 := hE a fs none fsa ca oa st s1 _ ha hea
        subst e1
        simp only [Prod.mk.injEq] at he; exact he.1.symm
      · rename_i s1 err hea
        have e1 := hE a fs none fsa ca oa st s1 _ ha hea
        subst e1
        simp only [Prod.mk.injEq] at he; exact he.1.symm
  | read q args =>
    simp only [flatE] at hf
    split at hf
    · cases hf
    · rename_i fsa ca os ha
      simp only [PV.Src.evalExpr] at he
      split at he
      · rename_i s1 vs hea
        have e1 := hA args fs fsa ca os st s1 _ ha hea
        subst e1
        simp only [Prod.mk.injEq] at he; exact he.1.symm
      · rename_i s1 err hea
        have e1 := hA args fs fsa ca os st s1 _ ha hea
        subst e1
        simp only [Prod.mk.injEq] at he; exact he.1.symm
  | prim op args =>
    simp only [flatE] at hf
    split at hf
    · cases hf
    · rename_i fsa ca os ha
      simp only [PV.Src.evalExpr] at he
      split at he
      · rename_i s1 vs hea
        have e1 := hA args fs fsa ca os st s1 _ ha hea
        subst e1
        simp only [Prod.mk.injEq] at he; exact he.1.symm
      · rename_i s1 err hea
        have e1 := hA args fs fsa ca os st s1 _ ha hea
        subst e1
        simp only [Prod.mk.injEq] at he; exact he.1.symm
  | sget a =>
    simp only [flatE] at hf
    split at hf
    · cases hf
    · rename_i fsa ca oa ha
      simp only [PV.Src.evalExpr] at he
      split at he
      · rename_i s1 va hea
        have e1 := hE a fs none fsa ca oa st s1 _ ha hea
        subst e1
        split at he
        · split at he <;> (simp only [Prod.mk.injEq] at he; exact he.1.symm)
        · simp only [Prod.mk.injEq] at he; exact he.1.symm
      · rename_i s1 err hea
        have e1 := hE a fs none fsa ca oa st s1 _ ha hea
        subst e1
        simp only [Prod.mk.injEq] at he; exact he.1.symm
  | lvar _ => simp [flatE] at hf
  | ifexp c a b =>
    simp only [flatE] at hf
    split at hf
    · cases hf
    · rename_i fsa cc oc hc
      split at hf
      · cases hf
      · rename_i fsb ca oa ha
        split at hf
        · cases hf
        · rename_i fsc cb ob hb
          simp only [PV.Src.evalExpr] at he
          split at he
          · rename_i s1 vc hec
            have e1 := hE c fs none fsa cc oc st s1 _ hc hec
            subst e1
            split at he
            · exact hE a fsa none fsb ca oa s1 st' _ ha he
            · exact hE b fsb none fsc cb ob s1 st' _ hb he
          · rename_i s1 err hec
            have e1 := hE c fs none fsa cc oc st s1 _ hc hec
            subst e1
            simp only [Prod.mk.injEq] at he; exact he.1.symm
  | index _ _ => simp [flatE] at hf
  | call _ _ => simp [flatE] at hf

theorem expr_state : ∀ fuel, ESt sem env P cf fuel ∧ ASt sem env P cf fuel := by
  intro fuel
  induction fuel with
  | zero =>
    constructor
    · intro e fs tgt fs1 code o st st' r hf he
      simp only [PV.Src.evalExpr, Prod.mk.injEq] at he; exact he.1.symm
    · intro es fs fs1 code os st st' r hf he
      cases es with
      | nil => simp only [PV.Src.evalArgs, Prod.mk.injEq] at he; exact he.1.symm
      | cons e es => simp only [PV.Src.evalArgs, Prod.mk.injEq] at he; exact he.1.symm
  | succ fuel ih => exact ⟨est_of sem env P cf fuel ih.1 ih.2, ast_of sem env P cf fuel ih.1 ih.2⟩

/-- the same for a test -/
theorem test_state (fuel : Nat) (c : PV.Src.Expr V) (truth : Bool) (fs fs1 : FS) (pre : List (CStmt V)) (cnd neg : String)
    (os : List (Opnd Reg V)) (st st' : PV.Src.State V) (r : Except PV.Src.Err V)
    (hf : flatTest cf truth fs c = some (fs1, pre, cnd, neg, os)) (he : PV.Src.evalExpr sem env P fuel [] st c = (st', r)) : st' = st := by
  cases fuel with
  | zero => simp only [PV.Src.evalExpr, Prod.mk.injEq] at he; exact he.1.symm
  | succ fuel =>
    have hE := (expr_state sem env P cf fuel).1
    have hE1 := (expr_state sem env P cf (fuel + 1)).1
    cases c with
    | bin op a b =>
      simp only [flatTest] at hf
      split at hf
      · split at hf
        · cases hf
        · rename_i fsa ca oa ha
          split at hf
          · cases hf
          · rename_i fsb cb ob hb
            simp only [PV.Src.evalExpr] at he
            split at he
            · rename_i s1 va hea
              have e1 := hE a fs none fsa ca oa st s1 _ ha hea
              subst e1
              split at he
              · rename_i s2 vb heb
                have e2 := hE b fsa none fsb cb ob s1 s2 _ hb heb
                subst e2
                simp only [Prod.mk.injEq] at he; exact he.1.symm
              · rename_i s2 err heb
                have e2 := hE b fsa none fsb cb ob s1 s2 _ hb heb
                subst e2
                simp only [Prod.mk.injEq] at he; exact he.1.symm
            · rename_i s1 err hea
              have e1 := hE a fs none fsa ca oa st s1 _ ha hea
              subst e1
              simp only [Prod.mk.injEq] at he; exact he.1.symm
      · split at hf
        · split at hf
          · cases hf
          · rename_i fsa ca oa ha
            exact hE1 (.bin op a b) fs none fsa ca oa st st' _ ha he
        · cases hf
    | read q args =>
      simp only [flatTest] at hf
      split at hf
      · split at hf
        · cases hf
        · rename_i fsa ca oa ha
          exact hE1 (.read q args) fs none fsa ca oa st st' _ ha he
      · cases hf
    | un op e =>
      -- evaluating `op e` evaluates `e` and nothing else
      have hsub : ∀ (fsa : FS) (ca : List (CStmt V)) (oa : Opnd Reg V), flatE cf fs none e = some (fsa, ca, oa) → st' = st := by
        intro fsa ca oa ha
        simp only [PV.Src.evalExpr] at he
        split at he
        · rename_i s1 va hea
          have e1 := hE e fs none fsa ca oa st s1 _ ha hea
          subst e1
          simp only [Prod.mk.injEq] at he; exact he.1.symm
        · rename_i s1 err hea
          have e1 := hE e fs none fsa ca oa st s1 _ ha hea
          subst e1
          simp only [Prod.mk.injEq] at he; exact he.1.symm
      cases e with
      | gvar x =>
        simp only [flatTest] at hf
        split at hf
        · split at hf
          · rename_i rr hr
            exact hsub fs [] (.reg rr) (by simp [flatE, hr])
          · cases hf
        · cases hf
      | read q args =>
        simp only [flatTest] at hf
        split at hf
        · split at hf
          · cases hf
          · rename_i fsa ca oa ha
            exact hsub fsa ca oa ha
        · cases hf
      | bin op2 a b =>
        simp only [flatTest] at hf
        split at hf
        · split at hf
          · split at hf
            · cases hf
            · rename_i fsa ca oa ha
              exact hsub fsa ca oa ha
          · cases hf
        · cases hf
      | _ => simp [flatTest] at hf
    | gvar x =>
      simp only [PV.Src.evalExpr] at he
      split at he <;> (simp only [Prod.mk.injEq] at he; exact he.1.symm)
    | _ => simp [flatTest] at hf

/-! ### out of fuel -/

variable (fsF : FS) (once : List String)

/-- the code has at least the effects the reference semantics had performed when its fuel ran out -/
def FOut (fuel : Nat) (c : CStmt V) (st' : PV.Src.State V) (σ : SSt V) : Prop :=
  ∀ m, fuel ≤ m → Grow st'.trace (PV.Core.exec sem env F m c σ)

theorem fout_unchanged {fuel : Nat} {c : CStmt V} {st : PV.Src.State V} {σ : SSt V} (hrel : Rel fsF st σ) : FOut sem env F fuel c st σ := by
  intro m _
  rw [hrel.trace]
  exact exec_grows sem env F m c σ

def SFuel (fuel : Nat) : Prop :=
  ∀ (s : PV.Src.Stmt V) (fs fs1 : FS) (code : List (CStmt V)) (st st' : PV.Src.State V) (σ : SSt V),
    flatS cf once fs s = some (fs1, code) → PV.Src.execStmt sem env P fuel [] st s = (st', .error .fuel) →
    WF fs → Step fs1 fsF → Rel fsF st σ → FOut sem env F fuel (seqAll code) st' σ

def BFuel (fuel : Nat) : Prop :=
  ∀ (ss : List (PV.Src.Stmt V)) (fs fs1 : FS) (code : List (CStmt V)) (st st' : PV.Src.State V) (σ : SSt V),
    flatB cf once fs ss = some (fs1, code) → PV.Src.execBlock sem env P fuel [] st ss = (st', .error .fuel) →
    WF fs → Step fs1 fsF → Rel fsF st σ → FOut sem env F fuel (seqAll code) st' σ

def WFuel (fuel : Nat) : Prop :=
  ∀ (c : PV.Src.Expr V) (body : List (PV.Src.Stmt V)) (fs fsa fsb : FS) (cnd neg : String) (os : List (Opnd Reg V)) (cb : List (CStmt V))
    (st st' : PV.Src.State V) (σ : SSt V),
    flatTest cf false fs c = some (fsa, [], cnd, neg, os) → flatB cf once fsa body = some (fsb, cb) →
    PV.Src.execWhile sem env P fuel [] st c body = (st', .error .fuel) →
    WF fs → Step fsb fsF → Rel fsF st σ → FOut sem env F fuel (PV.Core.Stmt.while cnd neg os (seqAll cb)) st' σ

def LFuel (fuel : Nat) : Prop :=
  ∀ (v : V) (body : List (PV.Src.Stmt V)) (fs fsb : FS) (cb : List (CStmt V)) (st st' : PV.Src.State V) (σ : SSt V),
    cf.isOne v = true → flatB cf once fs body = some (fsb, cb) →
    PV.Src.execWhile sem env P fuel [] st (.num v) body = (st', .error .fuel) →
    WF fs → Step fsb fsF → Rel fsF st σ → FOut sem env F fuel (PV.Core.Stmt.loop (seqAll cb)) st' σ

/-- what a loop does with the result of its body, as far as effects go -/
theorem grow_loop_step {τ : List (Eff V)} {rb : Res V} (hb : Grow τ rb) (next : SSt V → Res V) (hnext : ∀ s, Grow s.trace (next s)) :
    Grow τ (match rb with
      | .ok .brk s' => Res.done s'
      | .ok .ret s' => .ok .ret s'
      | .ok _ s' => next s'
      | r => r) := by
  cases rb with
  | ok e s =>
    cases e
    · exact grow_trans hb (hnext s)
    · exact hb
    · exact grow_trans hb (hnext s)
    · exact hb
  | timeout s => exact hb
  | stuck => trivial

theorem bfuel_zero : BFuel sem env F P cf fsF once 0 := by
  intro ss fs fs1 code st st' σ hf he hwf hF hrel
  cases ss with
  | nil => simp [PV.Src.execBlock] at he
  | cons s rest =>
    simp only [PV.Src.execBlock, Prod.mk.injEq] at he
    rw [← he.1]; exact fout_unchanged sem env F fsF hrel

theorem bfuel_of (hok : SemOk sem cf) (hwfF : WF fsF) (fuel : Nat) (hS : SFuel sem env F P cf fsF once fuel) (hB : BFuel sem env F P cf fsF once fuel) :
    BFuel sem env F P cf fsF once (fuel + 1) := by
  intro ss fs fs1 code st st' σ hf he hwf hF hrel
  cases ss with
  | nil => simp [PV.Src.execBlock] at he
  | cons s rest =>
    simp only [flatB] at hf
    split at hf
    · cases hf
    · rename_i fsa ca ha
      split at hf
      · cases hf
      · rename_i fsb cb hb
        simp only [Option.some.injEq, Prod.mk.injEq] at hf
        obtain ⟨e1, e2⟩ := hf
        subst e1 e2
        have sa := flatS_step cf once s fs fsa ca ha
        have sb := flatB_step cf once rest fsa fsb cb hb
        simp only [PV.Src.execBlock] at he
        split at he
        · rename_i s1 l1 hes
          obtain ⟨el, σ1, run1, rel1⟩ := (sound_stmt sem env F P cf fsF once hok hwfF fuel).1 s fs fsa ca st s1 l1 .normal σ ha hes hwf (sb.1.trans hF) hrel
          subst el
          have h2 := hB rest fsa fsb cb s1 st' σ1 hb he (sa.2 hwf) hF rel1
          intro m hm
          rw [exec_seqAll_append, run1 m (by omega)]
          simp only [exitOf]
          exact h2 m (by omega)
        · have h1 := hS s fs fsa ca st st' σ ha he hwf (sb.1.trans hF) hrel
          intro m hm
          rw [exec_seqAll_append]
          have g := h1 m (by omega)
          cases hr : PV.Core.exec sem env F m (seqAll ca) σ with
          | ok e s' =>
            rw [hr] at g
            cases e
            · exact grow_trans g (exec_grows sem env F m _ s')
            all_goals exact g
          | timeout s' => rw [hr] at g; exact g
          | stuck => trivial

theorem wfuel_zero : WFuel sem env F P cf fsF once 0 := by
  intro c body fs fsa fsb cnd neg os cb st st' σ hf hb he hwf hF hrel
  simp only [PV.Src.execWhile, Prod.mk.injEq] at he
  rw [← he.1]; exact fout_unchanged sem env F fsF hrel

theorem lfuel_zero : LFuel sem env F P cf fsF once 0 := by
  intro v body fs fsb cb st st' σ hone hb he hwf hF hrel
  simp only [PV.Src.execWhile, Prod.mk.injEq] at he
  rw [← he.1]; exact fout_unchanged sem env F fsF hrel

theorem wfuel_of (hok : SemOk sem cf) (hwfF : WF fsF) (fuel : Nat) (hB : BFuel sem env F P cf fsF once fuel) (hW : WFuel sem env F P cf fsF once fuel) :
    WFuel sem env F P cf fsF once (fuel + 1) := by
  intro c body fs fsa fsb cnd neg os cb st st' σ hf hb he hwf hF hrel
  have sa := flatTest_step cf false c fs fsa [] cnd neg os hf
  have sb := flatB_step cf once body fsa fsb cb hb
  have hBS := (sound_stmt sem env F P cf fsF once hok hwfF fuel).2.1
  simp only [PV.Src.execWhile] at he
  split at he
  · rename_i s1 vc hec
    obtain ⟨e1, σ1, o1, hc⟩ := sound_test sem env F P cf fsF hok fuel c false fs fsa [] cnd neg os st s1 vc σ hf hec hwf (sb.1.trans hF) hrel
    subst e1
    have := eout_nil_eq sem env F fsF o1
    subst this
    split at he
    · rename_i htrue
      simp only [PV.Src.truthy] at htrue
      rw [← hc] at htrue
      split at he
      · rename_i s2 l2 heb
        obtain ⟨el, σ2, run2, rel2⟩ := hBS body fsa fsb cb s1 s2 l2 .normal σ1 hb heb (sa.2 hwf) hF hrel
        subst el
        have h3 := hW c body fs fsa fsb cnd neg os cb s2 st' σ2 hf hb he hwf hF rel2
        intro m hm
        obtain ⟨m', rfl⟩ : ∃ m', m = m' + 1 := ⟨m - 1, by omega⟩
        simp only [PV.Core.exec, htrue, if_true]
        rw [run2 (m' + 1) (by omega)]
        simp only [exitOf]
        exact h3 m' (by omega)
      · rename_i s2 l2 heb
        obtain ⟨el, σ2, run2, rel2⟩ := hBS body fsa fsb cb s1 s2 l2 .cont σ1 hb heb (sa.2 hwf) hF hrel
        subst el
        have h3 := hW c body fs fsa fsb cnd neg os cb s2 st' σ2 hf hb he hwf hF rel2
        intro m hm
        obtain ⟨m', rfl⟩ : ∃ m', m = m' + 1 := ⟨m - 1, by omega⟩
        simp only [PV.Core.exec, htrue, if_true]
        rw [run2 (m' + 1) (by omega)]
        simp only [exitOf]
        exact h3 m' (by omega)
      · simp at he
      · have h2 := hB body fsa fsb cb s1 st' σ1 hb he (sa.2 hwf) hF hrel
        intro m hm
        obtain ⟨m', rfl⟩ : ∃ m', m = m' + 1 := ⟨m - 1, by omega⟩
        simp only [PV.Core.exec, htrue, if_true]
        exact grow_loop_step (h2 (m' + 1) (by omega)) _ (fun s => exec_grows sem env F m' _ s)
    · simp at he
  · rename_i s1 err hec
    have e1 := test_state sem env P cf fuel c false fs fsa [] cnd neg os st s1 _ hf hec
    subst e1
    simp only [Prod.mk.injEq] at he
    rw [← he.1]; exact fout_unchanged sem env F fsF hrel

theorem lfuel_of (hok : SemOk sem cf) (hwfF : WF fsF) (fuel : Nat) (hB : BFuel sem env F P cf fsF once fuel) (hL : LFuel sem env F P cf fsF once fuel) :
    LFuel sem env F P cf fsF once (fuel + 1) := by
  intro v body fs fsb cb st st' σ hone hb he hwf hF hrel
  have hBS := (sound_stmt sem env F P cf fsF once hok hwfF fuel).2.1
  simp only [PV.Src.execWhile] at he
  split at he
  · rename_i s1 vc hec
    have hv : s1 = st ∧ vc = v := by
      cases fuel with
      | zero => simp [PV.Src.evalExpr] at hec
      | succ k =>
        simp only [PV.Src.evalExpr, Prod.mk.injEq, Except.ok.injEq] at hec
        exact ⟨hec.1.symm, hec.2.symm⟩
    obtain ⟨e1, e2⟩ := hv
    subst e1 e2
    split at he
    · split at he
      · rename_i s2 l2 heb
        obtain ⟨el, σ2, run2, rel2⟩ := hBS body fs fsb cb s1 s2 l2 .normal σ hb heb hwf hF hrel
        subst el
        have h3 := hL vc body fs fsb cb s2 st' σ2 hone hb he hwf hF rel2
        intro m hm
        obtain ⟨m', rfl⟩ : ∃ m', m = m' + 1 := ⟨m - 1, by omega⟩
        simp only [PV.Core.exec]
        rw [run2 (m' + 1) (by omega)]
        simp only [exitOf]
        exact h3 m' (by omega)
      · rename_i s2 l2 heb
        obtain ⟨el, σ2, run2, rel2⟩ := hBS body fs fsb cb s1 s2 l2 .cont σ hb heb hwf hF hrel
        subst el
        have h3 := hL vc body fs fsb cb s2 st' σ2 hone hb he hwf hF rel2
        intro m hm
        obtain ⟨m', rfl⟩ : ∃ m', m = m' + 1 := ⟨m - 1, by omega⟩
        simp only [PV.Core.exec]
        rw [run2 (m' + 1) (by omega)]
        simp only [exitOf]
        exact h3 m' (by omega)
      · simp at he
      · have h2 := hB body fs fsb cb s1 st' σ hb he hwf hF hrel
        intro m hm
        obtain ⟨m', rfl⟩ : ∃ m', m = m' + 1 := ⟨m - 1, by omega⟩
        simp only [PV.Core.exec]
        exact grow_loop_step (h2 (m' + 1) (by omega)) _ (fun s => exec_grows sem env F m' _ s)
    · simp at he
  · rename_i s1 err hec
    have e1 : s1 = st := by
      cases fuel with
      | zero => simp only [PV.Src.evalExpr, Prod.mk.injEq] at hec; exact hec.1.symm
      | succ k => simp [PV.Src.evalExpr] at hec
    subst e1
    simp only [Prod.mk.injEq] at he
    rw [← he.1]; exact fout_unchanged sem env F fsF hrel


theorem sfuel_zero : SFuel sem env F P cf fsF once 0 := by
  intro s fs fs1 code st st' σ hf he hwf hF hrel
  simp only [PV.Src.execStmt, Prod.mk.injEq] at he
  rw [← he.1]; exact fout_unchanged sem env F fsF hrel

theorem sfuel_of (hok : SemOk sem cf) (hwfF : WF fsF) (fuel : Nat) (hB : BFuel sem env F P cf fsF once fuel)
    (hW : WFuel sem env F P cf fsF once fuel) (hL : LFuel sem env F P cf fsF once fuel) :
    SFuel sem env F P cf fsF once (fuel + 1) := by
  have hES := (expr_state sem env P cf fuel).1
  have hAS := (expr_state sem env P cf fuel).2
  intro s fs fs1 code st st' σ hf he hwf hF hrel
  cases s with
  | gassign x e =>
    simp only [flatS] at hf
    split at hf
    · cases hf
    · split at hf
      · cases hf
      · rename_i fsa ca o ha
        simp only [PV.Src.execStmt] at he
        split at he
        · simp at he
        · rename_i s1 err hev
          have e1 := hES e _ _ fsa ca o st s1 _ ha hev
          subst e1
          simp only [Prod.mk.injEq] at he
          rw [← he.1]; exact fout_unchanged sem env F fsF hrel
  | write q args =>
    simp only [flatS] at hf
    split at hf
    · cases hf
    · rename_i fsa ca os ha
      simp only [PV.Src.execStmt] at he
      split at he
      · simp at he
      · rename_i s1 err hev
        have e1 := hAS args fs fsa ca os st s1 _ ha hev
        subst e1
        simp only [Prod.mk.injEq] at he
        rw [← he.1]; exact fout_unchanged sem env F fsF hrel
  | sput a v =>
    simp only [flatS] at hf
    split at hf
    · cases hf
    · rename_i fsa ca oa ha
      split at hf
      · cases hf
      · rename_i fsb cb ob hb
        simp only [PV.Src.execStmt] at he
        split at he
        · rename_i s1 va hea
          have e1 := hES a fs none fsa ca oa st s1 _ ha hea
          subst e1
          split at he
          · rename_i s2 vv heb
            have e2 := hES v fsa none fsb cb ob s1 s2 _ hb heb
            subst e2
            split at he
            · split at he <;> simp at he
            · simp at he
          · rename_i s2 err heb
            have e2 := hES v fsa none fsb cb ob s1 s2 _ hb heb
            subst e2
            simp only [Prod.mk.injEq] at he
            rw [← he.1]; exact fout_unchanged sem env F fsF hrel
        · rename_i s1 err hea
          have e1 := hES a fs none fsa ca oa st s1 _ ha hea
          subst e1
          simp only [Prod.mk.injEq] at he
          rw [← he.1]; exact fout_unchanged sem env F fsF hrel
  | ite c t e =>
    simp only [flatS] at hf
    split at hf
    · cases hf
    · rename_i fsa pre cnd neg os ha
      have sa := flatTest_step cf true c fs fsa pre cnd neg os ha
      split at hf
      · cases hf
      · rename_i fsb ct hb
        have sb := flatB_step cf once t fsa fsb ct hb
        simp only [PV.Src.execStmt] at he
        split at he
        · rename_i s1 vc hec
          split at hf
          · rename_i hempty
            simp only [Option.some.injEq, Prod.mk.injEq] at hf
            obtain ⟨e1, e2⟩ := hf
            subst e1 e2
            obtain ⟨e1, σ1, o1, hc⟩ := sound_test sem env F P cf fsF hok fuel c true fs fsa pre cnd neg os st s1 vc σ ha hec hwf (sb.1.trans hF) hrel
            subst e1
            have rel1 := rel_frame sem env F fsF hrel o1
            split at he
            · rename_i htrue
              simp only [PV.Src.truthy] at htrue
              rw [← hc] at htrue
              have h2 := hB t fsa fsb ct s1 st' σ1 hb he (sa.2 hwf) hF rel1
              intro m hm
              rw [exec_seqAll_append, o1.run m]
              simp only [seqAll, PV.Core.exec, htrue, if_true]
              exact h2 m (by omega)
            · have he0 : e = [] := by cases e with | nil => rfl | cons _ _ => simp at hempty
              subst he0
              simp [PV.Src.execBlock] at he
          · split at hf
            · cases hf
            · rename_i fsc ce hcc
              have sc := flatB_step cf once e fsb fsc ce hcc
              simp only [Option.some.injEq, Prod.mk.injEq] at hf
              obtain ⟨e1, e2⟩ := hf
              subst e1 e2
              obtain ⟨e1, σ1, o1, hc⟩ := sound_test sem env F P cf fsF hok fuel c true fs fsa pre cnd neg os st s1 vc σ ha hec hwf (sb.1.trans (sc.1.trans hF)) hrel
              subst e1
              have rel1 := rel_frame sem env F fsF hrel o1
              split at he
              · rename_i htrue
                simp only [PV.Src.truthy] at htrue
                rw [← hc] at htrue
                have h2 := hB t fsa fsb ct s1 st' σ1 hb he (sa.2 hwf) (sc.1.trans hF) rel1
                intro m hm
                rw [exec_seqAll_append, o1.run m]
                simp only [seqAll, PV.Core.exec, htrue, if_true]
                exact h2 m (by omega)
              · rename_i hfalse
                simp only [PV.Src.truthy] at hfalse
                rw [← hc] at hfalse
                have h2 := hB e fsb fsc ce s1 st' σ1 hcc he (sb.2 (sa.2 hwf)) hF rel1
                intro m hm
                rw [exec_seqAll_append, o1.run m]
                simp only [seqAll, PV.Core.exec, hfalse, if_false, Bool.false_eq_true]
                exact h2 m (by omega)
        · rename_i s1 err hec
          have e1 := test_state sem env P cf fuel c true fs fsa pre cnd neg os st s1 _ ha hec
          subst e1
          simp only [Prod.mk.injEq] at he
          rw [← he.1]; exact fout_unchanged sem env F fsF hrel
  | «while» c body =>
    simp only [PV.Src.execStmt] at he
    simp only [flatS] at hf
    split at hf
    · rename_i v
      split at hf
      · rename_i hone
        split at hf
        · cases hf
        · rename_i fsa cb ha
          simp only [Option.some.injEq, Prod.mk.injEq] at hf
          obtain ⟨e1, e2⟩ := hf
          subst e1 e2
          have h2 := hL v body fs fsa cb st st' σ hone ha he hwf hF hrel
          intro m hm
          simp only [seqAll]; exact h2 m (by omega)
      · cases hf
    · split at hf
      · cases hf
      · rename_i fsa pre cnd neg os ha
        split at hf
        · cases hf
        · rename_i hpre
          have hpre0 : pre = [] := by cases pre with | nil => rfl | cons _ _ => simp at hpre
          subst hpre0
          split at hf
          · cases hf
          · rename_i fsb cb hb
            simp only [Option.some.injEq, Prod.mk.injEq] at hf
            obtain ⟨e1, e2⟩ := hf
            subst e1 e2
            have h2 := hW c body fs fsa fsb cnd neg os cb st st' σ ha hb he hwf hF hrel
            intro m hm
            simp only [seqAll]; exact h2 m (by omega)
  | brk => simp [PV.Src.execStmt] at he
  | cont => simp [PV.Src.execStmt] at he
  | pass => simp [PV.Src.execStmt] at he
  | yield => simp [PV.Src.execStmt] at he
  | sleep e =>
    simp only [flatS] at hf
    split at hf
    · cases hf
    · rename_i fsa ca oa ha
      simp only [PV.Src.execStmt] at he
      split at he
      · simp at he
      · rename_i s1 err hev
        have e1 := hES e fs none fsa ca oa st s1 _ ha hev
        subst e1
        simp only [Prod.mk.injEq] at he
        rw [← he.1]; exact fout_unchanged sem env F fsF hrel
  | lassign _ _ => simp [flatS] at hf
  | forRange _ _ _ _ _ _ => simp [flatS] at hf
  | forList _ _ _ _ => simp [flatS] at hf
  | ret _ => simp [flatS] at hf
  | expr _ => simp [flatS] at hf
  | hcf => simp [flatS] at hf
  | push _ => simp [flatS] at hf

/-- **out of fuel**: statements, blocks and loops -/
theorem fuel_stmt (hok : SemOk sem cf) (hwfF : WF fsF) : ∀ fuel,
    SFuel sem env F P cf fsF once fuel ∧ BFuel sem env F P cf fsF once fuel ∧ WFuel sem env F P cf fsF once fuel ∧ LFuel sem env F P cf fsF once fuel := by
  intro fuel
  induction fuel with
  | zero => exact ⟨sfuel_zero sem env F P cf fsF once, bfuel_zero sem env F P cf fsF once, wfuel_zero sem env F P cf fsF once, lfuel_zero sem env F P cf fsF once⟩
  | succ fuel ih =>
    exact ⟨sfuel_of sem env F P cf fsF once hok hwfF fuel ih.2.1 ih.2.2.1 ih.2.2.2, bfuel_of sem env F P cf fsF once hok hwfF fuel ih.1 ih.2.1,
      wfuel_of sem env F P cf fsF once hok hwfF fuel ih.2.1 ih.2.2.1, lfuel_of sem env F P cf fsF once hok hwfF fuel ih.2.1 ih.2.2.2⟩

end

/-- **programs that keep running**: when the reference semantics runs out of fuel in state `st'`, the flattened program, given at
    least as much fuel, has performed at least the effects of `st'` (or has left the compared domain: `stuck`) -/
theorem front_prefix (sem : Sem V) (env : Env V) (F : Nat → CStmt V) (cf : Cfg V) (hok : SemOk sem cf) (p : PV.Src.Program V) (s : CStmt V)
    (hflat : flatten cf p = some s) (fuel : Nat) (zero : V) (st' : PV.Src.State V)
    (hrun : PV.Src.execBlock sem env p fuel [] { globals := [], mem := fun _ => zero, sp := 0, trace := [] } p.main = (st', .error .fuel))
    (σ0 : SSt V) (hmem : ∀ n, σ0.mem n = zero) (htr : σ0.trace = []) :
    ∀ m, fuel ≤ m → Grow st'.trace (PV.Core.exec sem env F m s σ0) := by
  unfold flatten at hflat
  split at hflat
  · cases hflat
  · simp only [] at hflat
    split at hflat
    · cases hflat
    · rename_i fsF code hb
      simp only [Option.some.injEq] at hflat
      subst hflat
      have sb := flatB_step cf _ p.main {} fsF code hb
      have hwfF := sb.2 wf_empty
      have hrel : Rel fsF ({ globals := [], mem := fun _ => zero, sp := 0, trace := [] } : PV.Src.State V) σ0 :=
        ⟨fun x v h => by simp [PV.Src.Store.get] at h, fun n => (hmem n).symm, htr.symm⟩
      exact (fuel_stmt sem env F p cf fsF _ hok hwfF fuel).2.1 p.main {} fsF code _ st' σ0 hb hrun wf_empty (Step.refl fsF) hrel

end PV.Front
