import PV.Proofs.Front
/-
Semantic half of the front-end proof: the code `PV.Front` produces for expressions computes their values (`sound_expr`).
-/
namespace PV.Front
open PV.IC10
open PV.Flatten (Cfg CStmt Reg seqAll cmpNames branchPair)
open PV.Core (SSt Res Exit)

variable {V : Type}

/-- what the proof needs of the value domain: the constants and operations the front end relies on mean what it assumes -/
structure SemOk (sem : Sem V) (cf : Cfg V) : Prop where
  zero : cf.zero = sem.ofNat 0
  neg : ∀ v, sem.alu "sub" [sem.ofNat 0, v] = cf.negV v
  move : ∀ v, sem.alu "move" [v] = v
  one : ∀ v, cf.isOne v = true → sem.truthy v = true
  cmp : ∀ op c neg, cmpNames.contains op = true → branchPair op = some (c, neg) → ∀ a b, sem.truthy (sem.alu op [a, b]) = sem.cond c [a, b]
  nez : ∀ v, sem.truthy v = sem.cond "nez" [v]
  select : ∀ c a b, sem.alu "select" [c, a, b] = if sem.truthy c = true then a else b
  eqz : ∀ v, sem.truthy (sem.alu "seqz" [v]) = sem.cond "eqz" [v]

/-- source state and core state agree: every bound global variable lives in its register (`fsF`: the flattening state at the end
    of the program), same own-stack memory, same effects so far -/
structure Rel (fsF : FS) (st : PV.Src.State V) (σ : SSt V) : Prop where
  vars : ∀ x v, st.globals.get x = some v → ∃ r, fsF.lookup x = some r ∧ σ.regs r = v
  mem : ∀ n, st.mem n = σ.mem n
  trace : st.trace = σ.trace

section
variable (sem : Sem V) (env : Env V) (F : Nat → CStmt V) (P : PV.Src.Program V) (cf : Cfg V) (fsF : FS)

theorem rel_frame {st : PV.Src.State V} {σ σ' : SSt V} {fs : FS} {code : List (CStmt V)}
    (h : Rel fsF st σ) (o : EOut sem env F fsF fs none code σ σ') : Rel fsF st σ' := by
  refine ⟨fun x v hx => ?_, fun n => ?_, ?_⟩
  · obtain ⟨r, h1, h2⟩ := h.vars x v hx
    exact ⟨r, h1, by rw [o.var x r h1 (by simp), h2]⟩
  · rw [h.mem n, o.mem]
  · rw [h.trace, o.trace]

theorem opnd_stable (o : Opnd Reg V) (k : Nat) (f g : Reg → V) (h1 : ∀ r, o = .reg r → r < k) (h2 : ∀ r, r < k → g r = f r) :
    o.eval g = o.eval f := by
  cases o with
  | reg r => exact h2 r (h1 r rfl)
  | num v => rfl

/-! ### the code of an expression without own-stack reads always runs (whatever the reference semantics says about it) -/

mutual
theorem flatE_total : ∀ (e : PV.Src.Expr V) (fs : FS) (tgt : Option Nat) (fs1 : FS) (code : List (CStmt V)) (o : Opnd Reg V) (σ : SSt V),
    flatE cf fs tgt e = some (fs1, code, o) → noSget e = true → WF fs → Step fs1 fsF → (∀ t, tgt = some t → t < fs.next) →
    ∃ σ', EOut sem env F fsF fs tgt code σ σ' ∧ (∀ r, o = .reg r → r < fs1.next)
  | .num w, fs, tgt, fs1, code, o, σ, hf, hn, hwf, hF, htgt => by
    simp only [flatE, Option.some.injEq, Prod.mk.injEq] at hf
    obtain ⟨e1, e2, e3⟩ := hf
    subst e1 e2 e3
    exact ⟨σ, EOut.nil sem env F fsF fs tgt σ, by simp⟩
  | .gvar x, fs, tgt, fs1, code, o, σ, hf, hn, hwf, hF, htgt => by
    simp only [flatE] at hf
    split at hf
    · rename_i r hr
      simp only [Option.some.injEq, Prod.mk.injEq] at hf
      obtain ⟨e1, e2, e3⟩ := hf
      subst e1 e2 e3
      refine ⟨σ, EOut.nil sem env F fsF fs tgt σ, ?_⟩
      intro r' hr'; cases hr'; exact hwf.1 x _ hr
    · cases hf
  | .bin op a b, fs, tgt, fs1, code, o, σ, hf, hn, hwf, hF, htgt => by
    simp only [flatE] at hf
    split at hf
    · cases hf
    · rename_i fsa ca oa ha
      split at hf
      · cases hf
      · rename_i fsb cb ob hb
        split at hf
        · cases hf
        · simp only [Option.some.injEq, Prod.mk.injEq] at hf
          obtain ⟨e1, e2, e3⟩ := hf
          subst e1 e2 e3
          simp only [noSget, Bool.and_eq_true] at hn
          have sa := flatE_step cf a fs none fsa ca oa ha
          have sb := flatE_step cf b fsa none fsb cb ob hb
          have hFb : Step fsb fsF := (step_pick fsb tgt).trans hF
          obtain ⟨σ1, o1, b1⟩ := flatE_total a fs none fsa ca oa σ ha hn.1 hwf (sb.1.trans hFb) (by simp)
          obtain ⟨σ2, o2, b2⟩ := flatE_total b fsa none fsb cb ob σ1 hb hn.2 (sa.2 hwf) hFb (by simp)
          have hw := EOut.write sem env F tgt (PV.Core.Stmt.alu (fsb.pick tgt).2 op [oa, ob]) (sem.alu op (PV.Core.evalArgs σ2.regs [oa, ob]))
            (o1.append sem env F o2 sa.1.1) (Nat.le_trans sa.1.1 sb.1.1) (sb.2 (sa.2 hwf)) hF htgt (by
              intro n; simp only [PV.Core.exec, Res.done])
          exact ⟨_, hw.1, by intro r hr; cases hr; exact hw.2⟩
  | .un op a, fs, tgt, fs1, code, o, σ, hf, hn, hwf, hF, htgt => by
    simp only [flatE] at hf
    split at hf
    · cases hf
    · rename_i fsa ca oa ha
      have sa := flatE_step cf a fs none fsa ca oa ha
      simp only [noSget] at hn
      split at hf
      · split at hf
        · rename_i w
          split at hf
          · simp only [Option.some.injEq, Prod.mk.injEq] at hf
            obtain ⟨e1, e2, e3⟩ := hf
            subst e1 e2 e3
            obtain ⟨σ1, o1, b1⟩ := flatE_total a fs none fsa ca (.num w) σ ha hn hwf hF (by simp)
            exact ⟨σ1, ⟨o1.run, o1.trace, o1.mem, fun r hr _ => o1.low r hr (by simp), fun x r hx _ => o1.var x r hx (by simp)⟩, by simp⟩
          · cases hf
        · cases hf
      · simp only [Option.some.injEq, Prod.mk.injEq] at hf
        obtain ⟨e1, e2, e3⟩ := hf
        subst e1 e2 e3
        obtain ⟨σ1, o1, b1⟩ := flatE_total a fs none fsa ca oa σ ha hn hwf ((step_pick fsa tgt).trans hF) (by simp)
        by_cases h1 : (op == "neg") = true
        · have hw := EOut.write sem env F tgt (PV.Core.Stmt.alu (fsa.pick tgt).2 "sub" [(.num cf.zero), oa]) (sem.alu "sub" (PV.Core.evalArgs σ1.regs [(.num cf.zero), oa]))
            o1 sa.1.1 (sa.2 hwf) hF htgt (by intro n; simp only [PV.Core.exec, Res.done])
          simp only [h1, if_true]
          exact ⟨_, hw.1, by intro r hr; cases hr; exact hw.2⟩
        · by_cases h2 : (op == "not") = true
          · have hw := EOut.write sem env F tgt (PV.Core.Stmt.alu (fsa.pick tgt).2 "seqz" [oa]) (sem.alu "seqz" (PV.Core.evalArgs σ1.regs [oa]))
              o1 sa.1.1 (sa.2 hwf) hF htgt (by intro n; simp only [PV.Core.exec, Res.done])
            simp only [h1, h2, if_true, if_false, Bool.false_eq_true]
            exact ⟨_, hw.1, by intro r hr; cases hr; exact hw.2⟩
          · have hw := EOut.write sem env F tgt (PV.Core.Stmt.alu (fsa.pick tgt).2 op [oa]) (sem.alu op (PV.Core.evalArgs σ1.regs [oa]))
              o1 sa.1.1 (sa.2 hwf) hF htgt (by intro n; simp only [PV.Core.exec, Res.done])
            simp only [h1, h2, if_false, Bool.false_eq_true]
            exact ⟨_, hw.1, by intro r hr; cases hr; exact hw.2⟩
  | .read q args, fs, tgt, fs1, code, o, σ, hf, hn, hwf, hF, htgt => by
    simp only [flatE] at hf
    split at hf
    · cases hf
    · rename_i fsa ca os ha
      have sa := flatArgs_step cf args fs fsa ca os ha
      simp only [Option.some.injEq, Prod.mk.injEq] at hf
      obtain ⟨e1, e2, e3⟩ := hf
      subst e1 e2 e3
      simp only [noSget] at hn
      obtain ⟨σ1, o1, b1⟩ := flatArgs_total args fs fsa ca os σ ha hn hwf ((step_pick fsa tgt).trans hF)
      have hw := EOut.write sem env F tgt (PV.Core.Stmt.load (fsa.pick tgt).2 q os) (env σ1.trace q (PV.Core.evalArgs σ1.regs os))
        o1 sa.1.1 (sa.2 hwf) hF htgt (by intro n; simp only [PV.Core.exec, Res.done])
      exact ⟨_, hw.1, by intro r hr; cases hr; exact hw.2⟩
  | .prim op args, fs, tgt, fs1, code, o, σ, hf, hn, hwf, hF, htgt => by
    simp only [flatE] at hf
    split at hf
    · cases hf
    · rename_i fsa ca os ha
      have sa := flatArgs_step cf args fs fsa ca os ha
      split at hf
      · cases hf
      · simp only [Option.some.injEq, Prod.mk.injEq] at hf
        obtain ⟨e1, e2, e3⟩ := hf
        subst e1 e2 e3
        simp only [noSget] at hn
        obtain ⟨σ1, o1, b1⟩ := flatArgs_total args fs fsa ca os σ ha hn hwf ((step_pick fsa tgt).trans hF)
        have hw := EOut.write sem env F tgt (PV.Core.Stmt.alu (fsa.pick tgt).2 op os) (sem.alu op (PV.Core.evalArgs σ1.regs os))
          o1 sa.1.1 (sa.2 hwf) hF htgt (by intro n; simp only [PV.Core.exec, Res.done])
        exact ⟨_, hw.1, by intro r hr; cases hr; exact hw.2⟩
  | .ifexp c a b, fs, tgt, fs1, code, o, σ, hf, hn, hwf, hF, htgt => by
    simp only [flatE] at hf
    split at hf
    · cases hf
    · rename_i fsa cc oc hc
      split at hf
      · cases hf
      · rename_i fsb ca oa ha
        split at hf
        · cases hf
        · rename_i fsc cb ob hb
          split at hf
          · cases hf
          · simp only [Option.some.injEq, Prod.mk.injEq] at hf
            obtain ⟨e1, e2, e3⟩ := hf
            subst e1 e2 e3
            simp only [noSget, Bool.and_eq_true] at hn
            have s0 := flatE_step cf c fs none fsa cc oc hc
            have s1 := flatE_step cf a fsa none fsb ca oa ha
            have s2 := flatE_step cf b fsb none fsc cb ob hb
            have hFc : Step fsc fsF := (step_pick fsc tgt).trans hF
            obtain ⟨σ1, o1, _⟩ := flatE_total c fs none fsa cc oc σ hc hn.1.1 hwf (s1.1.trans (s2.1.trans hFc)) (by simp)
            obtain ⟨σ2, o2, _⟩ := flatE_total a fsa none fsb ca oa σ1 ha hn.1.2 (s0.2 hwf) (s2.1.trans hFc) (by simp)
            obtain ⟨σ3, o3, _⟩ := flatE_total b fsb none fsc cb ob σ2 hb hn.2 (s1.2 (s0.2 hwf)) hFc (by simp)
            obtain ⟨σ4, o4, _⟩ := flatE_total b fsb none fsc cb ob σ3 hb hn.2 (s1.2 (s0.2 hwf)) hFc (by simp)
            have o1234 := (((o1.append sem env F o2 s0.1.1).append sem env F o3 (Nat.le_trans s0.1.1 s1.1.1)).append sem env F o4 (Nat.le_trans s0.1.1 s1.1.1))
            have hw := EOut.write sem env F tgt (PV.Core.Stmt.alu (fsc.pick tgt).2 "select" [oc, oa, ob]) (sem.alu "select" (PV.Core.evalArgs σ4.regs [oc, oa, ob]))
              o1234 (Nat.le_trans s0.1.1 (Nat.le_trans s1.1.1 s2.1.1)) (s2.2 (s1.2 (s0.2 hwf))) hF htgt (by intro n; simp only [PV.Core.exec, Res.done])
            exact ⟨_, hw.1, by intro r hr; cases hr; exact hw.2⟩
  | .sget _, fs, tgt, fs1, code, o, σ, hf, hn, hwf, hF, htgt => by simp [noSget] at hn
  | .lvar _, fs, tgt, fs1, code, o, σ, hf, hn, hwf, hF, htgt => by simp [flatE] at hf
  | .index _ _, fs, tgt, fs1, code, o, σ, hf, hn, hwf, hF, htgt => by simp [flatE] at hf
  | .call _ _, fs, tgt, fs1, code, o, σ, hf, hn, hwf, hF, htgt => by simp [flatE] at hf

theorem flatArgs_total : ∀ (es : List (PV.Src.Expr V)) (fs fs1 : FS) (code : List (CStmt V)) (os : List (Opnd Reg V)) (σ : SSt V),
    flatArgs cf fs es = some (fs1, code, os) → noSgetL es = true → WF fs → Step fs1 fsF →
    ∃ σ', EOut sem env F fsF fs none code σ σ' ∧ (∀ o ∈ os, ∀ r, o = .reg r → r < fs1.next)
  | [], fs, fs1, code, os, σ, hf, hn, hwf, hF => by
    simp only [flatArgs, Option.some.injEq, Prod.mk.injEq] at hf
    obtain ⟨e1, e2, e3⟩ := hf
    subst e1 e2 e3
    exact ⟨σ, EOut.nil sem env F fsF fs none σ, by simp⟩
  | e :: es, fs, fs1, code, os, σ, hf, hn, hwf, hF => by
    simp only [flatArgs] at hf
    split at hf
    · cases hf
    · rename_i fsa ca oa ha
      split at hf
      · cases hf
      · rename_i fsb cb ob hb
        simp only [Option.some.injEq, Prod.mk.injEq] at hf
        obtain ⟨e1, e2, e3⟩ := hf
        subst e1 e2 e3
        simp only [noSgetL, Bool.and_eq_true] at hn
        have sa := flatE_step cf e fs none fsa ca oa ha
        have sb := flatArgs_step cf es fsa fsb cb ob hb
        obtain ⟨σ1, o1, b1⟩ := flatE_total e fs none fsa ca oa σ ha hn.1 hwf (sb.1.trans hF) (by simp)
        obtain ⟨σ2, o2, b2⟩ := flatArgs_total es fsa fsb cb ob σ1 hb hn.2 (sa.2 hwf) hF
        refine ⟨σ2, o1.append sem env F o2 sa.1.1, ?_⟩
        intro o ho r hr
        simp only [List.mem_cons] at ho
        rcases ho with rfl | ho
        · exact Nat.lt_of_lt_of_le (b1 r hr) sb.1.1
        · exact b2 o ho r hr
end

def ESound (fuel : Nat) : Prop :=
  ∀ (e : PV.Src.Expr V) (fs : FS) (tgt : Option Nat) (fs1 : FS) (code : List (CStmt V)) (o : Opnd Reg V) (st st' : PV.Src.State V) (v : V) (σ : SSt V),
    flatE cf fs tgt e = some (fs1, code, o) → PV.Src.evalExpr sem env P fuel [] st e = (st', .ok v) →
    WF fs → Step fs1 fsF → (∀ t, tgt = some t → t < fs.next) → Rel fsF st σ →
    st' = st ∧ ∃ σ', EOut sem env F fsF fs tgt code σ σ' ∧ o.eval σ'.regs = v ∧ (∀ r, o = .reg r → r < fs1.next)

def ASound (fuel : Nat) : Prop :=
  ∀ (es : List (PV.Src.Expr V)) (fs fs1 : FS) (code : List (CStmt V)) (os : List (Opnd Reg V)) (st st' : PV.Src.State V) (vs : List V) (σ : SSt V),
    flatArgs cf fs es = some (fs1, code, os) → PV.Src.evalArgs sem env P fuel [] st es = (st', .ok vs) →
    WF fs → Step fs1 fsF → Rel fsF st σ →
    st' = st ∧ ∃ σ', EOut sem env F fsF fs none code σ σ' ∧ PV.Core.evalArgs σ'.regs os = vs ∧ (∀ o ∈ os, ∀ r, o = .reg r → r < fs1.next)

theorem asound_of (fuel : Nat) (hE : ESound sem env F P cf fsF fuel) (hA : ASound sem env F P cf fsF fuel) :
    ASound sem env F P cf fsF (fuel + 1) := by
  intro es fs fs1 code os st st' vs σ hf he hwf hF hrel
  cases es with
  | nil =>
    simp only [flatArgs, Option.some.injEq, Prod.mk.injEq] at hf
    obtain ⟨e1, e2, e3⟩ := hf
    subst e1 e2 e3
    simp only [PV.Src.evalArgs, Prod.mk.injEq, Except.ok.injEq] at he
    exact ⟨he.1.symm, σ, EOut.nil sem env F fsF fs none σ, by simp [PV.Core.evalArgs, he.2], by simp⟩
  | cons e es =>
    simp only [flatArgs] at hf
    split at hf
    · cases hf
    · rename_i fsa ca oa ha
      split at hf
      · cases hf
      · rename_i fsb cb ob hb
        simp only [Option.some.injEq, Prod.mk.injEq] at hf
        obtain ⟨e1, e2, e3⟩ := hf
        subst e1 e2 e3
        have sa := flatE_step cf e fs none fsa ca oa ha
        have sb := flatArgs_step cf es fsa fsb cb ob hb
        simp only [PV.Src.evalArgs] at he
        split at he
        · rename_i s1 va hea
          obtain ⟨e1, σ1, o1, v1, b1⟩ := hE e fs none fsa ca oa st s1 va σ ha hea hwf (sb.1.trans hF) (by simp) hrel
          subst e1
          split at he
          · rename_i s2 vs2 heb
            obtain ⟨e2, σ2, o2, v2, b2⟩ := hA es fsa fsb cb ob s1 s2 vs2 σ1 hb heb (sa.2 hwf) hF (rel_frame sem env F fsF hrel o1)
            subst e2
            simp only [Prod.mk.injEq, Except.ok.injEq] at he
            refine ⟨he.1.symm, σ2, o1.append sem env F o2 sa.1.1, ?_, ?_⟩
            · rw [← he.2]
              simp only [PV.Core.evalArgs, List.map_cons, List.cons.injEq]
              refine ⟨?_, v2⟩
              rw [opnd_stable oa fsa.next σ1.regs σ2.regs b1 (fun r hr => o2.low r hr (by simp)), v1]
            · intro o ho r hr
              simp only [List.mem_cons] at ho
              rcases ho with rfl | ho
              · exact Nat.lt_of_lt_of_le (b1 r hr) sb.1.1
              · exact b2 o ho r hr
          · simp at he
        · simp at he


theorem esound_of (hok : SemOk sem cf) (fuel : Nat) (hE : ESound sem env F P cf fsF fuel) (hA : ASound sem env F P cf fsF fuel) :
    ESound sem env F P cf fsF (fuel + 1) := by
  intro e fs tgt fs1 code o st st' v σ hf he hwf hF htgt hrel
  cases e with
  | num w =>
    simp only [flatE, Option.some.injEq, Prod.mk.injEq] at hf
    obtain ⟨e1, e2, e3⟩ := hf
    subst e1 e2 e3
    simp only [PV.Src.evalExpr, Prod.mk.injEq, Except.ok.injEq] at he
    exact ⟨he.1.symm, σ, EOut.nil sem env F fsF fs tgt σ, he.2, by simp⟩
  | gvar x =>
    simp only [flatE] at hf
    split at hf
    · rename_i r hr
      simp only [Option.some.injEq, Prod.mk.injEq] at hf
      obtain ⟨e1, e2, e3⟩ := hf
      subst e1 e2 e3
      simp only [PV.Src.evalExpr] at he
      split at he
      · rename_i w hw
        simp only [Prod.mk.injEq, Except.ok.injEq] at he
        obtain ⟨r', h1, h2⟩ := hrel.vars x w hw
        have : r' = r := by
          have := hF.2.1 x r hr
          rw [h1] at this; exact Option.some.inj this
        subst this
        refine ⟨he.1.symm, σ, EOut.nil sem env F fsF fs tgt σ, ?_, ?_⟩
        · simp only [Opnd.eval]; rw [h2, he.2]
        · intro r hr'
          cases hr'
          exact hwf.1 x _ hr
      · simp at he
    · cases hf
  | bin op a b =>
    simp only [flatE] at hf
    split at hf
    · cases hf
    · rename_i fsa ca oa ha
      split at hf
      · cases hf
      · rename_i fsb cb ob hb
        split at hf
        · cases hf
        · simp only [Option.some.injEq, Prod.mk.injEq] at hf
          obtain ⟨e1, e2, e3⟩ := hf
          subst e1 e2 e3
          have sa := flatE_step cf a fs none fsa ca oa ha
          have sb := flatE_step cf b fsa none fsb cb ob hb
          have hFb : Step fsb fsF := (step_pick fsb tgt).trans hF
          simp only [PV.Src.evalExpr] at he
          split at he
          · rename_i s1 va hea
            obtain ⟨e1, σ1, o1, v1, b1⟩ := hE a fs none fsa ca oa st s1 va σ ha hea hwf (sb.1.trans hFb) (by simp) hrel
            subst e1
            split at he
            · rename_i s2 vb heb
              obtain ⟨e2, σ2, o2, v2, b2⟩ := hE b fsa none fsb cb ob s1 s2 vb σ1 hb heb (sa.2 hwf) hFb (by simp) (rel_frame sem env F fsF hrel o1)
              subst e2
              simp only [Prod.mk.injEq, Except.ok.injEq] at he
              have hw := EOut.write sem env F tgt (PV.Core.Stmt.alu (fsb.pick tgt).2 op [oa, ob]) (sem.alu op [va, vb])
                (o1.append sem env F o2 sa.1.1) (Nat.le_trans sa.1.1 sb.1.1) (sb.2 (sa.2 hwf)) hF htgt (by
                  intro n
                  simp only [PV.Core.exec, PV.Core.evalArgs, List.map_cons, List.map_nil, Res.done]
                  rw [opnd_stable oa fsa.next σ1.regs σ2.regs b1 (fun r hr => o2.low r hr (by simp)), v1, v2])
              refine ⟨he.1.symm, _, hw.1, ?_, ?_⟩
              · simp only [Opnd.eval, upd, if_true]; exact he.2
              · intro r hr; cases hr; exact hw.2
            · simp at he
          · simp at he
  | un op a =>
    simp only [flatE] at hf
    split at hf
    · cases hf
    · rename_i fsa ca oa ha
      have sa := flatE_step cf a fs none fsa ca oa ha
      simp only [PV.Src.evalExpr] at he
      split at he
      · rename_i s1 va hea
        simp only [Prod.mk.injEq, Except.ok.injEq] at he
        split at hf
        · -- a literal: folded
          split at hf
          · rename_i w
            split at hf
            · rename_i hneg
              simp only [Option.some.injEq, Prod.mk.injEq] at hf
              obtain ⟨e1, e2, e3⟩ := hf
              subst e1 e2 e3
              obtain ⟨e1, σ1, o1, v1, b1⟩ := hE a fs none fsa ca (.num w) st s1 va σ ha hea hwf hF (by simp) hrel
              subst e1
              refine ⟨he.1.symm, σ1, ⟨o1.run, o1.trace, o1.mem, fun r hr _ => o1.low r hr (by simp), fun x r hx _ => o1.var x r hx (by simp)⟩, ?_, by simp⟩
              simp only [Opnd.eval] at v1 ⊢
              rw [← he.2, if_pos hneg, v1, hok.neg]
            · cases hf
          · cases hf
        · simp only [Option.some.injEq, Prod.mk.injEq] at hf
          obtain ⟨e1, e2, e3⟩ := hf
          subst e1 e2 e3
          obtain ⟨e1, σ1, o1, v1, b1⟩ := hE a fs none fsa ca oa st s1 va σ ha hea hwf ((step_pick fsa tgt).trans hF) (by simp) hrel
          subst e1
          have hw := EOut.write sem env F tgt
            (if op == "neg" then PV.Core.Stmt.alu (fsa.pick tgt).2 "sub" [(.num cf.zero), oa]
              else if op == "not" then PV.Core.Stmt.alu (fsa.pick tgt).2 "seqz" [oa] else PV.Core.Stmt.alu (fsa.pick tgt).2 op [oa])
            (if op == "neg" then sem.alu "sub" [sem.ofNat 0, va] else if op == "not" then sem.alu "seqz" [va] else sem.alu op [va])
            o1 sa.1.1 (sa.2 hwf) hF htgt (by
              intro n
              by_cases h1 : (op == "neg") = true
              · simp only [h1, if_true, PV.Core.exec, PV.Core.evalArgs, List.map_cons, List.map_nil, Res.done]
                rw [show oa.eval σ1.regs = va from v1]
                simp only [Opnd.eval, hok.zero]
              · by_cases h2 : (op == "not") = true
                · simp only [h1, h2, if_true, if_false, Bool.false_eq_true, PV.Core.exec, PV.Core.evalArgs, List.map_cons, List.map_nil, Res.done]
                  rw [show oa.eval σ1.regs = va from v1]
                · simp only [h1, h2, if_false, Bool.false_eq_true, PV.Core.exec, PV.Core.evalArgs, List.map_cons, List.map_nil, Res.done]
                  rw [show oa.eval σ1.regs = va from v1])
          refine ⟨he.1.symm, _, hw.1, ?_, ?_⟩
          · simp only [Opnd.eval, upd, if_true]; exact he.2
          · intro r hr; cases hr; exact hw.2
      · simp at he
  | read q args =>
    simp only [flatE] at hf
    split at hf
    · cases hf
    · rename_i fsa ca os ha
      have sa := flatArgs_step cf args fs fsa ca os ha
      simp only [Option.some.injEq, Prod.mk.injEq] at hf
      obtain ⟨e1, e2, e3⟩ := hf
      subst e1 e2 e3
      simp only [PV.Src.evalExpr] at he
      split at he
      · rename_i s1 vs hea
        simp only [Prod.mk.injEq, Except.ok.injEq] at he
        obtain ⟨e1, σ1, o1, v1, b1⟩ := hA args fs fsa ca os st s1 vs σ ha hea hwf ((step_pick fsa tgt).trans hF) hrel
        subst e1
        have hw := EOut.write sem env F tgt (PV.Core.Stmt.load (fsa.pick tgt).2 q os) (env s1.trace q vs)
          o1 sa.1.1 (sa.2 hwf) hF htgt (by
            intro n
            simp only [PV.Core.exec, Res.done]
            rw [v1, o1.trace, ← hrel.trace])
        refine ⟨he.1.symm, _, hw.1, ?_, ?_⟩
        · simp only [Opnd.eval, upd, if_true]; exact he.2
        · intro r hr; cases hr; exact hw.2
      · simp at he
  | prim op args =>
    simp only [flatE] at hf
    split at hf
    · cases hf
    · rename_i fsa ca os ha
      have sa := flatArgs_step cf args fs fsa ca os ha
      split at hf
      · cases hf
      · simp only [Option.some.injEq, Prod.mk.injEq] at hf
        obtain ⟨e1, e2, e3⟩ := hf
        subst e1 e2 e3
        simp only [PV.Src.evalExpr] at he
        split at he
        · rename_i s1 vs hea
          simp only [Prod.mk.injEq, Except.ok.injEq] at he
          obtain ⟨e1, σ1, o1, v1, b1⟩ := hA args fs fsa ca os st s1 vs σ ha hea hwf ((step_pick fsa tgt).trans hF) hrel
          subst e1
          have hw := EOut.write sem env F tgt (PV.Core.Stmt.alu (fsa.pick tgt).2 op os) (sem.alu op vs)
            o1 sa.1.1 (sa.2 hwf) hF htgt (by
              intro n
              simp only [PV.Core.exec, Res.done]
              rw [v1])
          refine ⟨he.1.symm, _, hw.1, ?_, ?_⟩
          · simp only [Opnd.eval, upd, if_true]; exact he.2
          · intro r hr; cases hr; exact hw.2
        · simp at he
  | sget a =>
    simp only [flatE] at hf
    split at hf
    · cases hf
    · rename_i fsa ca oa ha
      have sa := flatE_step cf a fs none fsa ca oa ha
      simp only [Option.some.injEq, Prod.mk.injEq] at hf
      obtain ⟨e1, e2, e3⟩ := hf
      subst e1 e2 e3
      simp only [PV.Src.evalExpr] at he
      split at he
      · rename_i s1 va hea
        obtain ⟨e1, σ1, o1, v1, b1⟩ := hE a fs none fsa ca oa st s1 va σ ha hea hwf ((step_pick fsa tgt).trans hF) (by simp) hrel
        subst e1
        split at he
        · rename_i n hn
          split at he
          · rename_i hlt
            simp only [Prod.mk.injEq, Except.ok.injEq] at he
            have hw := EOut.write sem env F tgt (PV.Core.Stmt.getm (fsa.pick tgt).2 oa) (s1.mem n)
              o1 sa.1.1 (sa.2 hwf) hF htgt (by
                intro k
                simp only [PV.Core.exec, v1, hn, hlt, if_true, Res.done]
                rw [o1.mem, ← hrel.mem n])
            refine ⟨he.1.symm, _, hw.1, ?_, ?_⟩
            · simp only [Opnd.eval, upd, if_true]; exact he.2
            · intro r hr; cases hr; exact hw.2
          · simp at he
        · simp at he
      · simp at he
  | lvar _ => simp [flatE] at hf
  | ifexp c a b =>
    simp only [flatE] at hf
    split at hf
    · cases hf
    · rename_i fsa cc oc hc
      split at hf
      · cases hf
      · rename_i fsb ca oa ha
        split at hf
        · cases hf
        · rename_i fsc cb ob hb
          split at hf
          · cases hf
          · rename_i hcond
            simp only [Option.some.injEq, Prod.mk.injEq] at hf
            obtain ⟨e1, e2, e3⟩ := hf
            subst e1 e2 e3
            have hns : noSget a = true ∧ noSget b = true := by
              cases h1 : noSget a <;> cases h2 : noSget b <;> simp [h1, h2] at hcond ⊢
            have s0 := flatE_step cf c fs none fsa cc oc hc
            have s1 := flatE_step cf a fsa none fsb ca oa ha
            have s2 := flatE_step cf b fsb none fsc cb ob hb
            have hFc : Step fsc fsF := (step_pick fsc tgt).trans hF
            have wfa := s0.2 hwf
            have wfb := s1.2 wfa
            simp only [PV.Src.evalExpr] at he
            split at he
            · rename_i s1' vc hec
              obtain ⟨e1, σ1, o1, v1, b1⟩ := hE c fs none fsa cc oc st s1' vc σ hc hec hwf (s1.1.trans (s2.1.trans hFc)) (by simp) hrel
              subst e1
              have rel1 := rel_frame sem env F fsF hrel o1
              split at he
              · rename_i htrue
                simp only [PV.Src.truthy] at htrue
                obtain ⟨e2, σ2, o2, v2, b2⟩ := hE a fsa none fsb ca oa s1' st' v σ1 ha he wfa (s2.1.trans hFc) (by simp) rel1
                obtain ⟨σ3, o3, _⟩ := flatE_total sem env F cf fsF b fsb none fsc cb ob σ2 hb hns.2 wfb hFc (by simp)
                obtain ⟨σ4, o4, _⟩ := flatE_total sem env F cf fsF b fsb none fsc cb ob σ3 hb hns.2 wfb hFc (by simp)
                have hoc : oc.eval σ4.regs = vc := by
                  rw [opnd_stable oc fsa.next σ1.regs σ4.regs b1 (fun r hr => by
                    rw [o4.low r (Nat.lt_of_lt_of_le hr s1.1.1) (by simp), o3.low r (Nat.lt_of_lt_of_le hr s1.1.1) (by simp), o2.low r hr (by simp)]), v1]
                have hoa : oa.eval σ4.regs = v := by
                  rw [opnd_stable oa fsb.next σ2.regs σ4.regs b2 (fun r hr => by rw [o4.low r hr (by simp), o3.low r hr (by simp)]), v2]
                have o1234 := (((o1.append sem env F o2 s0.1.1).append sem env F o3 (Nat.le_trans s0.1.1 s1.1.1)).append sem env F o4 (Nat.le_trans s0.1.1 s1.1.1))
                have hw := EOut.write sem env F tgt (PV.Core.Stmt.alu (fsc.pick tgt).2 "select" [oc, oa, ob]) v
                  o1234 (Nat.le_trans s0.1.1 (Nat.le_trans s1.1.1 s2.1.1)) (s2.2 wfb) hF htgt (by
                    intro n
                    simp only [PV.Core.exec, PV.Core.evalArgs, List.map_cons, List.map_nil, Res.done]
                    rw [hoc, hoa, hok.select, if_pos htrue])
                refine ⟨e2, _, hw.1, ?_, ?_⟩
                · simp only [Opnd.eval, upd, if_true]
                · intro r hr; cases hr; exact hw.2
              · rename_i hfalse
                simp only [PV.Src.truthy] at hfalse
                obtain ⟨σ2, o2, _⟩ := flatE_total sem env F cf fsF a fsa none fsb ca oa σ1 ha hns.1 wfa (s2.1.trans hFc) (by simp)
                have rel2 := rel_frame sem env F fsF rel1 o2
                obtain ⟨e2, σ3, o3, v3, b3⟩ := hE b fsb none fsc cb ob s1' st' v σ2 hb he wfb hFc (by simp) rel2
                subst e2
                have rel3 := rel_frame sem env F fsF rel2 o3
                obtain ⟨_, σ4, o4, v4, b4⟩ := hE b fsb none fsc cb ob st' st' v σ3 hb he wfb hFc (by simp) rel3
                have hoc : oc.eval σ4.regs = vc := by
                  rw [opnd_stable oc fsa.next σ1.regs σ4.regs b1 (fun r hr => by
                    rw [o4.low r (Nat.lt_of_lt_of_le hr s1.1.1) (by simp), o3.low r (Nat.lt_of_lt_of_le hr s1.1.1) (by simp), o2.low r hr (by simp)]), v1]
                have o1234 := (((o1.append sem env F o2 s0.1.1).append sem env F o3 (Nat.le_trans s0.1.1 s1.1.1)).append sem env F o4 (Nat.le_trans s0.1.1 s1.1.1))
                have hw := EOut.write sem env F tgt (PV.Core.Stmt.alu (fsc.pick tgt).2 "select" [oc, oa, ob]) v
                  o1234 (Nat.le_trans s0.1.1 (Nat.le_trans s1.1.1 s2.1.1)) (s2.2 wfb) hF htgt (by
                    intro n
                    simp only [PV.Core.exec, PV.Core.evalArgs, List.map_cons, List.map_nil, Res.done]
                    rw [hoc, v4, hok.select, if_neg hfalse])
                refine ⟨rfl, _, hw.1, ?_, ?_⟩
                · simp only [Opnd.eval, upd, if_true]
                · intro r hr; cases hr; exact hw.2
            · simp at he
  | index _ _ => simp [flatE] at hf
  | call _ _ => simp [flatE] at hf

/-- **expressions**: the flattened code of an expression computes the value the reference semantics gives it -/
theorem sound_expr (hok : SemOk sem cf) : ∀ fuel, ESound sem env F P cf fsF fuel ∧ ASound sem env F P cf fsF fuel := by
  intro fuel
  induction fuel with
  | zero =>
    constructor
    · intro e fs tgt fs1 code o st st' v σ hf he
      simp [PV.Src.evalExpr] at he
    · intro es fs fs1 code os st st' vs σ hf he hwf hF hrel
      cases es with
      | nil =>
        simp only [flatArgs, Option.some.injEq, Prod.mk.injEq] at hf
        obtain ⟨e1, e2, e3⟩ := hf
        subst e1 e2 e3
        simp only [PV.Src.evalArgs, Prod.mk.injEq, Except.ok.injEq] at he
        exact ⟨he.1.symm, σ, EOut.nil sem env F fsF fs none σ, by simp [PV.Core.evalArgs, he.2], by simp⟩
      | cons e es => simp [PV.Src.evalArgs] at he
  | succ fuel ih => exact ⟨esound_of sem env F P cf fsF hok fuel ih.1 ih.2, asound_of sem env F P cf fsF fuel ih.1 ih.2⟩

end
end PV.Front
