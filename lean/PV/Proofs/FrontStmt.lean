import PV.Proofs.FrontSem
/-
Statement level of the front-end proof: tests, assignments, writes, `if`, `while`, `break` / `continue` (`sound_stmt`), and the
whole-program theorem `front_sound`.
-/
namespace PV.Front
open PV.IC10
open PV.Flatten (Cfg CStmt Reg seqAll cmpNames branchPair)
open PV.Core (SSt Res Exit)

variable {V : Type}

def exitOf : PV.Src.Signal V → Exit
  | .normal => .norm
  | .brk => .brk
  | .cont => .cont
  | .ret _ => .ret

/-! ### the global store -/

theorem get_set (s : PV.Src.Store V) (x y : String) (v : V) :
    (s.set x v).get y = if y = x then some v else s.get y := by
  unfold PV.Src.Store.set
  split
  · rename_i hany
    have hcomp : ((fun (p : String × V) => p.1 == y) ∘ fun p => if p.1 == x then (x, v) else p) = fun p => p.1 == y := by
      funext q
      by_cases h : q.1 = x <;> simp [h]
    simp only [PV.Src.Store.get, List.find?_map, hcomp]
    cases hf : s.find? (fun p => p.1 == y) with
    | none =>
      by_cases hy : y = x
      · subst hy
        exfalso
        rw [List.find?_eq_none] at hf
        rw [List.any_eq_true] at hany
        obtain ⟨q, hq, hq2⟩ := hany
        exact hf q hq hq2
      · simp [hy]
    | some q =>
      have hq : q.1 = y := by have := List.find?_some hf; simpa using this
      by_cases hy : y = x
      · have : q.1 = x := by rw [hq, hy]
        simp [hy, this]
      · have : ¬ q.1 = x := by rw [hq]; exact hy
        simp [hy, this]
  · simp only [PV.Src.Store.get, List.find?_cons]
    by_cases hy : y = x
    · simp [hy]
    · have : (x == y) = false := by simp [Ne.symm hy]
      simp [this, hy]


section
variable (sem : Sem V) (env : Env V) (F : Nat → CStmt V) (P : PV.Src.Program V) (cf : Cfg V) (fsF : FS)

theorem eout_nil_eq {fs : FS} {tgt : Option Nat} {σ σ' : SSt V} (h : EOut sem env F fsF fs tgt [] σ σ') : σ' = σ := by
  have := h.run 0
  simp only [seqAll, PV.Core.exec, Res.done, Res.ok.injEq, true_and] at this
  exact this.symm

theorem rel_assign {st : PV.Src.State V} {σ σ2 : SSt V} (hwfF : WF fsF) (x : String) (rx : Nat) (v : V) (hrel : Rel fsF st σ)
    (hx : fsF.lookup x = some rx) (h1 : σ2.regs rx = v) (h2 : ∀ y r, fsF.lookup y = some r → r ≠ rx → σ2.regs r = σ.regs r)
    (h3 : σ2.mem = σ.mem) (h4 : σ2.trace = σ.trace) : Rel fsF { st with globals := st.globals.set x v } σ2 := by
  refine ⟨fun y w hy => ?_, fun n => by rw [h3]; exact hrel.mem n, by rw [h4]; exact hrel.trace⟩
  simp only [get_set] at hy
  by_cases hyx : y = x
  · simp only [hyx, if_true, Option.some.injEq] at hy
    exact ⟨rx, by rw [hyx]; exact hx, by rw [h1, hy]⟩
  · simp only [hyx, if_false] at hy
    obtain ⟨r, hr1, hr2⟩ := hrel.vars y w hy
    refine ⟨r, hr1, ?_⟩
    rw [h2 y r hr1 (fun e => hyx (hwfF.2 y x rx (by rw [← e]; exact hr1) hx)), hr2]

/-- **tests**: the operand code of a test ends in a state where the emitted condition is the truth value of the test -/
theorem sound_test (hok : SemOk sem cf) (fuel : Nat) (c : PV.Src.Expr V) (truth : Bool) (fs fs1 : FS) (pre : List (CStmt V)) (cnd neg : String)
    (os : List (Opnd Reg V)) (st st' : PV.Src.State V) (v : V) (σ : SSt V)
    (hf : flatTest cf truth fs c = some (fs1, pre, cnd, neg, os)) (he : PV.Src.evalExpr sem env P fuel [] st c = (st', .ok v))
    (hwf : WF fs) (hF : Step fs1 fsF) (hrel : Rel fsF st σ) :
    st' = st ∧ ∃ σ', EOut sem env F fsF fs none pre σ σ' ∧ sem.cond cnd (PV.Core.evalArgs σ'.regs os) = sem.truthy v := by
  cases fuel with
  | zero => simp [PV.Src.evalExpr] at he
  | succ fuel =>
    have hE := (sound_expr sem env F P cf fsF hok fuel).1
    have hE1 := (sound_expr sem env F P cf fsF hok (fuel + 1)).1
    have hnot : ∀ (e : PV.Src.Expr V) (s1 : PV.Src.State V) (w : V), PV.Src.evalExpr sem env P (fuel + 1) [] st (.un "not" e) = (s1, .ok w) →
        ∃ ve, PV.Src.evalExpr sem env P fuel [] st e = (s1, .ok ve) ∧ w = sem.alu "seqz" [ve] := by
      intro e s1 w h
      simp only [PV.Src.evalExpr] at h
      split at h
      · rename_i s2 ve hee
        simp only [Prod.mk.injEq, Except.ok.injEq] at h
        refine ⟨ve, by rw [hee, h.1], ?_⟩
        rw [← h.2]; simp
      · simp at h
    cases c with
    | bin op a b =>
      simp only [flatTest] at hf
      split at hf
      · rename_i hcn
        split at hf
        · cases hf
        · rename_i fsa ca oa ha
          split at hf
          · cases hf
          · rename_i fsb cb ob hb
            split at hf
            · cases hf
            · rename_i c0 neg0 hbp
              split at hf
              · cases hf
              · simp only [Option.some.injEq, Prod.mk.injEq] at hf
                obtain ⟨e1, e2, e3, e4, e5⟩ := hf
                subst e1 e2 e3 e4 e5
                have sa := flatE_step cf a fs none fsa ca oa ha
                have sb := flatE_step cf b fsa none fsb cb ob hb
                simp only [PV.Src.evalExpr] at he
                split at he
                · rename_i s1 va hea
                  obtain ⟨e1, σ1, o1, v1, b1⟩ := hE a fs none fsa ca oa st s1 va σ ha hea hwf (sb.1.trans hF) (by simp) hrel
                  subst e1
                  split at he
                  · rename_i s2 vb heb
                    obtain ⟨e2, σ2, o2, v2, b2⟩ := hE b fsa none fsb cb ob s1 s2 vb σ1 hb heb (sa.2 hwf) hF (by simp) (rel_frame sem env F fsF hrel o1)
                    subst e2
                    simp only [Prod.mk.injEq, Except.ok.injEq] at he
                    refine ⟨he.1.symm, σ2, o1.append sem env F o2 sa.1.1, ?_⟩
                    simp only [PV.Core.evalArgs, List.map_cons, List.map_nil]
                    rw [opnd_stable oa fsa.next σ1.regs σ2.regs b1 (fun r hr => o2.low r hr (by simp)), v1, v2, ← he.2]
                    exact (hok.cmp op c0 neg0 hcn hbp va vb).symm
                  · simp at he
                · simp at he
      · split at hf
        · split at hf
          · cases hf
          · rename_i fsa ca oa ha
            simp only [Option.some.injEq, Prod.mk.injEq] at hf
            obtain ⟨e1, e2, e3, e4, e5⟩ := hf
            subst e1 e2 e3 e4 e5
            obtain ⟨e1, σ1, o1, v1, _⟩ := hE1 (.bin op a b) fs none fsa ca oa st st' v σ ha he hwf hF (by simp) hrel
            refine ⟨e1, σ1, o1, ?_⟩
            simp only [PV.Core.evalArgs, List.map_cons, List.map_nil]
            rw [v1]; exact (hok.nez v).symm
        · cases hf
    | read q args =>
      simp only [flatTest] at hf
      split at hf
      · split at hf
        · cases hf
        · rename_i fsa ca oa ha
          simp only [Option.some.injEq, Prod.mk.injEq] at hf
          obtain ⟨e1, e2, e3, e4, e5⟩ := hf
          subst e1 e2 e3 e4 e5
          obtain ⟨e1, σ1, o1, v1, _⟩ := hE1 (.read q args) fs none fsa ca oa st st' v σ ha he hwf hF (by simp) hrel
          refine ⟨e1, σ1, o1, ?_⟩
          simp only [PV.Core.evalArgs, List.map_cons, List.map_nil]
          rw [v1]; exact (hok.nez v).symm
      · cases hf
    | un op e =>
      by_cases hop : op = "not"
      · subst hop
        obtain ⟨ve, hee, hv⟩ := hnot e st' v he
        cases e with
        | gvar x =>
          simp only [flatTest] at hf
          split at hf
          · split at hf
            · rename_i r hr
              simp only [Option.some.injEq, Prod.mk.injEq] at hf
              obtain ⟨e1, e2, e3, e4, e5⟩ := hf
              subst e1 e2 e3 e4 e5
              have hfe : flatE cf fs none (.gvar x) = some (fs, ([] : List (CStmt V)), Opnd.reg r) := by simp [flatE, hr]
              obtain ⟨e1, σ1, o1, v1, _⟩ := hE (.gvar x) fs none fs [] (.reg r) st st' ve σ hfe hee hwf hF (by simp) hrel
              refine ⟨e1, σ1, o1, ?_⟩
              simp only [PV.Core.evalArgs, List.map_cons, List.map_nil]
              rw [v1, hv]; exact (hok.eqz ve).symm
            · cases hf
          · cases hf
        | read q args =>
          simp only [flatTest] at hf
          split at hf
          · split at hf
            · cases hf
            · rename_i fsa ca oa ha
              simp only [Option.some.injEq, Prod.mk.injEq] at hf
              obtain ⟨e1, e2, e3, e4, e5⟩ := hf
              subst e1 e2 e3 e4 e5
              obtain ⟨e1, σ1, o1, v1, _⟩ := hE (.read q args) fs none fsa ca oa st st' ve σ ha hee hwf hF (by simp) hrel
              refine ⟨e1, σ1, o1, ?_⟩
              simp only [PV.Core.evalArgs, List.map_cons, List.map_nil]
              rw [v1, hv]; exact (hok.eqz ve).symm
          · cases hf
        | bin op2 a b =>
          simp only [flatTest] at hf
          split at hf
          · split at hf
            · split at hf
              · cases hf
              · rename_i fsa ca oa ha
                simp only [Option.some.injEq, Prod.mk.injEq] at hf
                obtain ⟨e1, e2, e3, e4, e5⟩ := hf
                subst e1 e2 e3 e4 e5
                obtain ⟨e1, σ1, o1, v1, _⟩ := hE (.bin op2 a b) fs none fsa ca oa st st' ve σ ha hee hwf hF (by simp) hrel
                refine ⟨e1, σ1, o1, ?_⟩
                simp only [PV.Core.evalArgs, List.map_cons, List.map_nil]
                rw [v1, hv]; exact (hok.eqz ve).symm
            · cases hf
          · cases hf
        | _ => simp [flatTest] at hf
      · simp [flatTest, hop] at hf
    | gvar x =>
      simp only [flatTest] at hf
      split at hf
      · split at hf
        · rename_i r hr
          simp only [Option.some.injEq, Prod.mk.injEq] at hf
          obtain ⟨e1, e2, e3, e4, e5⟩ := hf
          subst e1 e2 e3 e4 e5
          simp only [PV.Src.evalExpr] at he
          split at he
          · rename_i w hw
            simp only [Prod.mk.injEq, Except.ok.injEq] at he
            obtain ⟨r', h1, h2⟩ := hrel.vars x w hw
            have : r' = r := by
              have := hF.2.1 x r hr
              rw [h1] at this; exact Option.some.inj this
            subst this
            refine ⟨he.1.symm, σ, EOut.nil sem env F fsF fs none σ, ?_⟩
            simp only [PV.Core.evalArgs, List.map_cons, List.map_nil, Opnd.eval]
            rw [h2, he.2]; exact (hok.nez v).symm
          · simp at he
        · cases hf
      · cases hf
    | _ => simp [flatTest] at hf


variable (once : List String)

/-- the result of running the code of a statement: the exit that corresponds to the signal, in a related state; the local store
    of the main code stays empty -/
def SOut (fuel : Nat) (c : CStmt V) (st' : PV.Src.State V) (loc' : PV.Src.Store V) (sig : PV.Src.Signal V) (σ : SSt V) : Prop :=
  loc' = [] ∧ ∃ σ', (∀ m, fuel ≤ m → PV.Core.exec sem env F m c σ = .ok (exitOf sig) σ') ∧ Rel fsF st' σ'

def SSound (fuel : Nat) : Prop :=
  ∀ (s : PV.Src.Stmt V) (fs fs1 : FS) (code : List (CStmt V)) (st st' : PV.Src.State V) (loc' : PV.Src.Store V) (sig : PV.Src.Signal V) (σ : SSt V),
    flatS cf once fs s = some (fs1, code) → PV.Src.execStmt sem env P fuel [] st s = (st', .ok (loc', sig)) →
    WF fs → Step fs1 fsF → Rel fsF st σ → SOut sem env F fsF fuel (seqAll code) st' loc' sig σ

def BSound (fuel : Nat) : Prop :=
  ∀ (ss : List (PV.Src.Stmt V)) (fs fs1 : FS) (code : List (CStmt V)) (st st' : PV.Src.State V) (loc' : PV.Src.Store V) (sig : PV.Src.Signal V) (σ : SSt V),
    flatB cf once fs ss = some (fs1, code) → PV.Src.execBlock sem env P fuel [] st ss = (st', .ok (loc', sig)) →
    WF fs → Step fs1 fsF → Rel fsF st σ → SOut sem env F fsF fuel (seqAll code) st' loc' sig σ

def WSound (fuel : Nat) : Prop :=
  ∀ (c : PV.Src.Expr V) (body : List (PV.Src.Stmt V)) (fs fsa fsb : FS) (cnd neg : String) (os : List (Opnd Reg V)) (cb : List (CStmt V))
    (st st' : PV.Src.State V) (loc' : PV.Src.Store V) (sig : PV.Src.Signal V) (σ : SSt V),
    flatTest cf false fs c = some (fsa, [], cnd, neg, os) → flatB cf once fsa body = some (fsb, cb) →
    PV.Src.execWhile sem env P fuel [] st c body = (st', .ok (loc', sig)) →
    WF fs → Step fsb fsF → Rel fsF st σ → SOut sem env F fsF fuel (PV.Core.Stmt.while cnd neg os (seqAll cb)) st' loc' sig σ

def LSound (fuel : Nat) : Prop :=
  ∀ (v : V) (body : List (PV.Src.Stmt V)) (fs fsb : FS) (cb : List (CStmt V))
    (st st' : PV.Src.State V) (loc' : PV.Src.Store V) (sig : PV.Src.Signal V) (σ : SSt V),
    cf.isOne v = true → flatB cf once fs body = some (fsb, cb) →
    PV.Src.execWhile sem env P fuel [] st (.num v) body = (st', .ok (loc', sig)) →
    WF fs → Step fsb fsF → Rel fsF st σ → SOut sem env F fsF fuel (PV.Core.Stmt.loop (seqAll cb)) st' loc' sig σ

theorem bsound_zero : BSound sem env F P cf fsF once 0 := by
  intro ss fs fs1 code st st' loc' sig σ hf he hwf hF hrel
  cases ss with
  | nil =>
    simp only [flatB, Option.some.injEq, Prod.mk.injEq] at hf
    obtain ⟨e1, e2⟩ := hf
    subst e1 e2
    simp only [PV.Src.execBlock, Prod.mk.injEq, Except.ok.injEq] at he
    obtain ⟨e1, e2, e3⟩ := he
    subst e1 e2 e3
    exact ⟨rfl, σ, fun m _ => by simp [seqAll, PV.Core.exec, Res.done, exitOf], hrel⟩
  | cons s rest => simp [PV.Src.execBlock] at he

theorem bsound_of (fuel : Nat) (hS : SSound sem env F P cf fsF once fuel) (hB : BSound sem env F P cf fsF once fuel) :
    BSound sem env F P cf fsF once (fuel + 1) := by
  intro ss fs fs1 code st st' loc' sig σ hf he hwf hF hrel
  cases ss with
  | nil =>
    simp only [flatB, Option.some.injEq, Prod.mk.injEq] at hf
    obtain ⟨e1, e2⟩ := hf
    subst e1 e2
    simp only [PV.Src.execBlock, Prod.mk.injEq, Except.ok.injEq] at he
    obtain ⟨e1, e2, e3⟩ := he
    subst e1 e2 e3
    exact ⟨rfl, σ, fun m _ => by simp [seqAll, PV.Core.exec, Res.done, exitOf], hrel⟩
  | cons s rest =>
    simp only [flatB] at hf
    split at hf
    · cases hf
    · rename_i fsa ca ha
      split at hf
      · cases hf
      · rename_i fsb cb hb
        simp only [Option.some.injEq, Prod.mk.injEq] at hf
        obtain ⟨e1, e2⟩ := hf
        subst e1 e2
        have sa := flatS_step cf once s fs fsa ca ha
        have sb := flatB_step cf once rest fsa fsb cb hb
        simp only [PV.Src.execBlock] at he
        split at he
        · rename_i s1 l1 hes
          obtain ⟨el, σ1, run1, rel1⟩ := hS s fs fsa ca st s1 l1 .normal σ ha hes hwf (sb.1.trans hF) hrel
          subst el
          obtain ⟨el2, σ2, run2, rel2⟩ := hB rest fsa fsb cb s1 st' loc' sig σ1 hb he (sa.2 hwf) hF rel1
          refine ⟨el2, σ2, fun m hm => ?_, rel2⟩
          rw [exec_seqAll_append, run1 m (by omega)]
          simp only [exitOf]
          exact run2 m (by omega)
        · rename_i hne
          obtain ⟨el, σ1, run1, rel1⟩ := hS s fs fsa ca st st' loc' sig σ ha he hwf (sb.1.trans hF) hrel
          refine ⟨el, σ1, fun m hm => ?_, rel1⟩
          rw [exec_seqAll_append, run1 m (by omega)]
          cases sig with
          | normal => exact (hne st' loc' he).elim
          | brk => simp [exitOf]
          | cont => simp [exitOf]
          | ret w => simp [exitOf]


theorem wsound_zero : WSound sem env F P cf fsF once 0 := by
  intro c body fs fsa fsb cnd neg os cb st st' loc' sig σ hf hb he
  simp [PV.Src.execWhile] at he

theorem lsound_zero : LSound sem env F P cf fsF once 0 := by
  intro v body fs fsb cb st st' loc' sig σ hone hb he
  simp [PV.Src.execWhile] at he

theorem wsound_of (hok : SemOk sem cf) (fuel : Nat) (hB : BSound sem env F P cf fsF once fuel) (hW : WSound sem env F P cf fsF once fuel) :
    WSound sem env F P cf fsF once (fuel + 1) := by
  intro c body fs fsa fsb cnd neg os cb st st' loc' sig σ hf hb he hwf hF hrel
  have sa := flatTest_step cf false c fs fsa [] cnd neg os hf
  have sb := flatB_step cf once body fsa fsb cb hb
  simp only [PV.Src.execWhile] at he
  split at he
  · rename_i s1 vc hec
    obtain ⟨e1, σ1, o1, hc⟩ := sound_test sem env F P cf fsF hok fuel c false fs fsa [] cnd neg os st s1 vc σ hf hec hwf (sb.1.trans hF) hrel
    subst e1
    have := eout_nil_eq sem env F fsF o1
    subst this
    split at he
    · rename_i htrue
      simp only [PV.Src.truthy] at htrue
      rw [← hc] at htrue
      split at he
      · -- the body ends normally: next iteration
        rename_i s2 l2 heb
        obtain ⟨el, σ2, run2, rel2⟩ := hB body fsa fsb cb s1 s2 l2 .normal σ1 hb heb (sa.2 hwf) hF hrel
        subst el
        obtain ⟨el3, σ3, run3, rel3⟩ := hW c body fs fsa fsb cnd neg os cb s2 st' loc' sig σ2 hf hb he hwf hF rel2
        refine ⟨el3, σ3, fun m hm => ?_, rel3⟩
        obtain ⟨m', rfl⟩ : ∃ m', m = m' + 1 := ⟨m - 1, by omega⟩
        simp only [PV.Core.exec, htrue, if_true]
        rw [run2 (m' + 1) (by omega)]
        simp only [exitOf]
        exact run3 m' (by omega)
      · -- `continue`
        rename_i s2 l2 heb
        obtain ⟨el, σ2, run2, rel2⟩ := hB body fsa fsb cb s1 s2 l2 .cont σ1 hb heb (sa.2 hwf) hF hrel
        subst el
        obtain ⟨el3, σ3, run3, rel3⟩ := hW c body fs fsa fsb cnd neg os cb s2 st' loc' sig σ2 hf hb he hwf hF rel2
        refine ⟨el3, σ3, fun m hm => ?_, rel3⟩
        obtain ⟨m', rfl⟩ : ∃ m', m = m' + 1 := ⟨m - 1, by omega⟩
        simp only [PV.Core.exec, htrue, if_true]
        rw [run2 (m' + 1) (by omega)]
        simp only [exitOf]
        exact run3 m' (by omega)
      · -- `break`
        rename_i s2 l2 heb
        obtain ⟨el, σ2, run2, rel2⟩ := hB body fsa fsb cb s1 s2 l2 .brk σ1 hb heb (sa.2 hwf) hF hrel
        subst el
        simp only [Prod.mk.injEq, Except.ok.injEq] at he
        obtain ⟨e1, e2, e3⟩ := he
        subst e1 e2 e3
        refine ⟨rfl, σ2, fun m hm => ?_, rel2⟩
        obtain ⟨m', rfl⟩ : ∃ m', m = m' + 1 := ⟨m - 1, by omega⟩
        simp only [PV.Core.exec, htrue, if_true]
        rw [run2 (m' + 1) (by omega)]
        simp [exitOf, Res.done]
      · -- anything else the body ends with leaves the loop
        rename_i hn1 hn2 hn3
        obtain ⟨el, σ2, run2, rel2⟩ := hB body fsa fsb cb s1 st' loc' sig σ1 hb he (sa.2 hwf) hF hrel
        refine ⟨el, σ2, fun m hm => ?_, rel2⟩
        obtain ⟨m', rfl⟩ : ∃ m', m = m' + 1 := ⟨m - 1, by omega⟩
        simp only [PV.Core.exec, htrue, if_true]
        rw [run2 (m' + 1) (by omega)]
        cases sig with
        | normal => exact (hn1 st' loc' he).elim
        | cont => exact (hn2 st' loc' he).elim
        | brk => exact (hn3 st' loc' he).elim
        | ret w => simp [exitOf]
    · rename_i hfalse
      simp only [PV.Src.truthy] at hfalse
      rw [← hc] at hfalse
      simp only [Prod.mk.injEq, Except.ok.injEq] at he
      obtain ⟨e1, e2, e3⟩ := he
      subst e1 e2 e3
      refine ⟨rfl, σ1, fun m hm => ?_, hrel⟩
      obtain ⟨m', rfl⟩ : ∃ m', m = m' + 1 := ⟨m - 1, by omega⟩
      simp [PV.Core.exec, hfalse, exitOf, Res.done]
  · simp at he


theorem lsound_of (hok : SemOk sem cf) (fuel : Nat) (hB : BSound sem env F P cf fsF once fuel) (hL : LSound sem env F P cf fsF once fuel) :
    LSound sem env F P cf fsF once (fuel + 1) := by
  intro v body fs fsb cb st st' loc' sig σ hone hb he hwf hF hrel
  simp only [PV.Src.execWhile] at he
  split at he
  · rename_i s1 vc hec
    have hv : s1 = st ∧ vc = v := by
      cases fuel with
      | zero => simp [PV.Src.evalExpr] at hec
      | succ k =>
        simp only [PV.Src.evalExpr, Prod.mk.injEq, Except.ok.injEq] at hec
        exact ⟨hec.1.symm, hec.2.symm⟩
    obtain ⟨e1, e2⟩ := hv
    subst e1 e2
    split at he
    · split at he
      · rename_i s2 l2 heb
        obtain ⟨el, σ2, run2, rel2⟩ := hB body fs fsb cb s1 s2 l2 .normal σ hb heb hwf hF hrel
        subst el
        obtain ⟨el3, σ3, run3, rel3⟩ := hL vc body fs fsb cb s2 st' loc' sig σ2 hone hb he hwf hF rel2
        refine ⟨el3, σ3, fun m hm => ?_, rel3⟩
        obtain ⟨m', rfl⟩ : ∃ m', m = m' + 1 := ⟨m - 1, by omega⟩
        simp only [PV.Core.exec]
        rw [run2 (m' + 1) (by omega)]
        simp only [exitOf]
        exact run3 m' (by omega)
      · rename_i s2 l2 heb
        obtain ⟨el, σ2, run2, rel2⟩ := hB body fs fsb cb s1 s2 l2 .cont σ hb heb hwf hF hrel
        subst el
        obtain ⟨el3, σ3, run3, rel3⟩ := hL vc body fs fsb cb s2 st' loc' sig σ2 hone hb he hwf hF rel2
        refine ⟨el3, σ3, fun m hm => ?_, rel3⟩
        obtain ⟨m', rfl⟩ : ∃ m', m = m' + 1 := ⟨m - 1, by omega⟩
        simp only [PV.Core.exec]
        rw [run2 (m' + 1) (by omega)]
        simp only [exitOf]
        exact run3 m' (by omega)
      · rename_i s2 l2 heb
        obtain ⟨el, σ2, run2, rel2⟩ := hB body fs fsb cb s1 s2 l2 .brk σ hb heb hwf hF hrel
        subst el
        simp only [Prod.mk.injEq, Except.ok.injEq] at he
        obtain ⟨e1, e2, e3⟩ := he
        subst e1 e2 e3
        refine ⟨rfl, σ2, fun m hm => ?_, rel2⟩
        obtain ⟨m', rfl⟩ : ∃ m', m = m' + 1 := ⟨m - 1, by omega⟩
        simp only [PV.Core.exec]
        rw [run2 (m' + 1) (by omega)]
        simp [exitOf, Res.done]
      · rename_i hn1 hn2 hn3
        obtain ⟨el, σ2, run2, rel2⟩ := hB body fs fsb cb s1 st' loc' sig σ hb he hwf hF hrel
        refine ⟨el, σ2, fun m hm => ?_, rel2⟩
        obtain ⟨m', rfl⟩ : ∃ m', m = m' + 1 := ⟨m - 1, by omega⟩
        simp only [PV.Core.exec]
        rw [run2 (m' + 1) (by omega)]
        cases sig with
        | normal => exact (hn1 st' loc' he).elim
        | cont => exact (hn2 st' loc' he).elim
        | brk => exact (hn3 st' loc' he).elim
        | ret w => simp [exitOf]
    · rename_i hfalse
      exact (hfalse (by simp only [PV.Src.truthy]; exact hok.one vc hone)).elim
  · simp at he


theorem ssound_zero : SSound sem env F P cf fsF once 0 := by
  intro s fs fs1 code st st' loc' sig σ hf he
  simp [PV.Src.execStmt] at he

theorem ssound_of (hok : SemOk sem cf) (hwfF : WF fsF) (fuel : Nat) (hB : BSound sem env F P cf fsF once fuel)
    (hW : WSound sem env F P cf fsF once fuel) (hL : LSound sem env F P cf fsF once fuel) :
    SSound sem env F P cf fsF once (fuel + 1) := by
  have hE := (sound_expr sem env F P cf fsF hok fuel).1
  have hA := (sound_expr sem env F P cf fsF hok fuel).2
  intro s fs fs1 code st st' loc' sig σ hf he hwf hF hrel
  cases s with
  | gassign x e =>
    simp only [flatS] at hf
    split at hf
    · cases hf
    · split at hf
      · cases hf
      · rename_i fsa ca o ha
        have sa := flatE_step cf e _ _ fsa ca o ha
        have hwr := wf_regOf fs x hwf
        have hlk := regOf_lookup fs x
        simp only [PV.Src.execStmt] at he
        split at he
        · rename_i s1 v hev
          simp only [Prod.mk.injEq, Except.ok.injEq] at he
          obtain ⟨e1, e2, e3⟩ := he
          subst e1 e2 e3
          have hFa : Step fsa fsF := by
            split at hf
            · split at hf
              · cases hf
              · simp only [Option.some.injEq, Prod.mk.injEq] at hf; rw [hf.1]; exact hF
            · split at hf
              · simp only [Option.some.injEq, Prod.mk.injEq] at hf; rw [hf.1]; exact hF
              · cases hf
          obtain ⟨e1, σ1, o1, v1, b1⟩ := hE e (fs.regOf x).1 (some (fs.regOf x).2) fsa ca o st s1 v σ ha hev hwr hFa
            (fun t ht => by cases ht; exact hwr.1 x _ hlk) hrel
          subst e1
          have hxF : fsF.lookup x = some (fs.regOf x).2 := hFa.2.1 x _ (sa.1.2.1 x _ hlk)
          split at hf
          · rename_i w
            split at hf
            · cases hf
            · simp only [Option.some.injEq, Prod.mk.injEq] at hf
              obtain ⟨e1, e2⟩ := hf
              subst e1 e2
              refine ⟨rfl, { σ1 with regs := upd σ1.regs (fs.regOf x).2 (sem.alu "move" [w]) }, fun m hm => ?_, ?_⟩
              · rw [exec_seqAll_append, o1.run m]
                simp [seqAll, PV.Core.exec, PV.Core.evalArgs, Opnd.eval, exitOf, Res.done]
              · refine rel_assign fsF hwfF x (fs.regOf x).2 v hrel hxF ?_ ?_ o1.mem o1.trace
                · simp only [upd, if_true, hok.move]; exact v1
                · intro y r hy hne
                  simp only [upd, if_neg hne]
                  exact o1.var y r hy (by intro e; exact hne (Option.some.inj e).symm)
          · rename_i r
            split at hf
            · rename_i hr
              simp only [Option.some.injEq, Prod.mk.injEq] at hf
              obtain ⟨e1, e2⟩ := hf
              subst e1 e2
              subst hr
              refine ⟨rfl, σ1, fun m hm => ?_, ?_⟩
              · rw [o1.run m]; simp [exitOf, Res.done]
              · exact rel_assign fsF hwfF x _ v hrel hxF v1
                  (fun y r' hy hne => o1.var y r' hy (by intro e; exact hne (Option.some.inj e).symm)) o1.mem o1.trace
            · cases hf
        · simp at he
  | write q args =>
    simp only [flatS] at hf
    split at hf
    · cases hf
    · rename_i fsa ca os ha
      simp only [Option.some.injEq, Prod.mk.injEq] at hf
      obtain ⟨e1, e2⟩ := hf
      subst e1 e2
      simp only [PV.Src.execStmt] at he
      split at he
      · rename_i s1 vs hev
        simp only [Prod.mk.injEq, Except.ok.injEq] at he
        obtain ⟨e1, e2, e3⟩ := he
        subst e1 e2 e3
        obtain ⟨e1, σ1, o1, v1, b1⟩ := hA args fs fsa ca os st s1 vs σ ha hev hwf hF hrel
        subst e1
        have rel1 := rel_frame sem env F fsF hrel o1
        refine ⟨rfl, { σ1 with trace := ⟨q, vs⟩ :: σ1.trace }, fun m hm => ?_, ⟨rel1.vars, rel1.mem, by simp [rel1.trace]⟩⟩
        rw [exec_seqAll_append, o1.run m]
        simp [seqAll, PV.Core.exec, v1, exitOf, Res.done]
      · simp at he
  | sput a v =>
    simp only [flatS] at hf
    split at hf
    · cases hf
    · rename_i fsa ca oa ha
      split at hf
      · cases hf
      · rename_i fsb cb ob hb
        simp only [Option.some.injEq, Prod.mk.injEq] at hf
        obtain ⟨e1, e2⟩ := hf
        subst e1 e2
        have sa := flatE_step cf a fs none fsa ca oa ha
        have sb := flatE_step cf v fsa none fsb cb ob hb
        simp only [PV.Src.execStmt] at he
        split at he
        · rename_i s1 va hea
          obtain ⟨e1, σ1, o1, v1, b1⟩ := hE a fs none fsa ca oa st s1 va σ ha hea hwf (sb.1.trans hF) (by simp) hrel
          subst e1
          split at he
          · rename_i s2 vv heb
            obtain ⟨e2, σ2, o2, v2, b2⟩ := hE v fsa none fsb cb ob s1 s2 vv σ1 hb heb (sa.2 hwf) hF (by simp) (rel_frame sem env F fsF hrel o1)
            subst e2
            split at he
            · rename_i n hn
              split at he
              · rename_i hlt
                simp only [Prod.mk.injEq, Except.ok.injEq] at he
                obtain ⟨e1, e2, e3⟩ := he
                subst e1 e2 e3
                have o12 := o1.append sem env F o2 sa.1.1
                have rel2 := rel_frame sem env F fsF hrel o12
                have hoa : oa.eval σ2.regs = va := by
                  rw [opnd_stable oa fsa.next σ1.regs σ2.regs b1 (fun r hr => o2.low r hr (by simp)), v1]
                refine ⟨rfl, { σ2 with mem := updMem σ2.mem n vv }, fun m hm => ?_, ⟨rel2.vars, fun k => ?_, rel2.trace⟩⟩
                · rw [exec_seqAll_append, o12.run m]
                  simp [seqAll, PV.Core.exec, hoa, hn, hlt, v2, exitOf, Res.done]
                · simp only [updMem]; split
                  · rfl
                  · exact rel2.mem k
              · simp at he
            · simp at he
          · simp at he
        · simp at he
  | ite c t e =>
    simp only [flatS] at hf
    split at hf
    · cases hf
    · rename_i fsa pre cnd neg os ha
      have sa := flatTest_step cf true c fs fsa pre cnd neg os ha
      split at hf
      · cases hf
      · rename_i fsb ct hb
        have sb := flatB_step cf once t fsa fsb ct hb
        simp only [PV.Src.execStmt] at he
        split at he
        · rename_i s1 vc hec
          split at hf
          · -- no `else`
            rename_i hempty
            simp only [Option.some.injEq, Prod.mk.injEq] at hf
            obtain ⟨e1, e2⟩ := hf
            subst e1 e2
            obtain ⟨e1, σ1, o1, hc⟩ := sound_test sem env F P cf fsF hok fuel c true fs fsa pre cnd neg os st s1 vc σ ha hec hwf (sb.1.trans hF) hrel
            subst e1
            have rel1 := rel_frame sem env F fsF hrel o1
            split at he
            · rename_i htrue
              simp only [PV.Src.truthy] at htrue
              rw [← hc] at htrue
              obtain ⟨el, σ2, run2, rel2⟩ := hB t fsa fsb ct s1 st' loc' sig σ1 hb he (sa.2 hwf) hF rel1
              refine ⟨el, σ2, fun m hm => ?_, rel2⟩
              rw [exec_seqAll_append, o1.run m]
              simp only [seqAll, PV.Core.exec, htrue, if_true]
              exact run2 m (by omega)
            · rename_i hfalse
              simp only [PV.Src.truthy] at hfalse
              rw [← hc] at hfalse
              have he0 : e = [] := by cases e with | nil => rfl | cons _ _ => simp at hempty
              subst he0
              simp only [PV.Src.execBlock, Prod.mk.injEq, Except.ok.injEq] at he
              obtain ⟨e1, e2, e3⟩ := he
              subst e1 e2 e3
              refine ⟨rfl, σ1, fun m hm => ?_, rel1⟩
              rw [exec_seqAll_append, o1.run m]
              simp [seqAll, PV.Core.exec, hfalse, exitOf, Res.done]
          · split at hf
            · cases hf
            · rename_i fsc ce hcc
              have sc := flatB_step cf once e fsb fsc ce hcc
              simp only [Option.some.injEq, Prod.mk.injEq] at hf
              obtain ⟨e1, e2⟩ := hf
              subst e1 e2
              obtain ⟨e1, σ1, o1, hc⟩ := sound_test sem env F P cf fsF hok fuel c true fs fsa pre cnd neg os st s1 vc σ ha hec hwf (sb.1.trans (sc.1.trans hF)) hrel
              subst e1
              have rel1 := rel_frame sem env F fsF hrel o1
              split at he
              · rename_i htrue
                simp only [PV.Src.truthy] at htrue
                rw [← hc] at htrue
                obtain ⟨el, σ2, run2, rel2⟩ := hB t fsa fsb ct s1 st' loc' sig σ1 hb he (sa.2 hwf) (sc.1.trans hF) rel1
                refine ⟨el, σ2, fun m hm => ?_, rel2⟩
                rw [exec_seqAll_append, o1.run m]
                simp only [seqAll, PV.Core.exec, htrue, if_true]
                exact run2 m (by omega)
              · rename_i hfalse
                simp only [PV.Src.truthy] at hfalse
                rw [← hc] at hfalse
                obtain ⟨el, σ2, run2, rel2⟩ := hB e fsb fsc ce s1 st' loc' sig σ1 hcc he (sb.2 (sa.2 hwf)) hF rel1
                refine ⟨el, σ2, fun m hm => ?_, rel2⟩
                rw [exec_seqAll_append, o1.run m]
                simp only [seqAll, PV.Core.exec, hfalse, if_false, Bool.false_eq_true]
                exact run2 m (by omega)
        · simp at he
  | «while» c body =>
    simp only [PV.Src.execStmt] at he
    simp only [flatS] at hf
    split at hf
    · rename_i v
      split at hf
      · rename_i hone
        split at hf
        · cases hf
        · rename_i fsa cb ha
          simp only [Option.some.injEq, Prod.mk.injEq] at hf
          obtain ⟨e1, e2⟩ := hf
          subst e1 e2
          obtain ⟨el, σ2, run2, rel2⟩ := hL v body fs fsa cb st st' loc' sig σ hone ha he hwf hF hrel
          exact ⟨el, σ2, fun m hm => by simp only [seqAll]; exact run2 m (by omega), rel2⟩
      · cases hf
    · split at hf
      · cases hf
      · rename_i fsa pre cnd neg os ha
        split at hf
        · cases hf
        · rename_i hpre
          have hpre0 : pre = [] := by cases pre with | nil => rfl | cons _ _ => simp at hpre
          subst hpre0
          split at hf
          · cases hf
          · rename_i fsb cb hb
            simp only [Option.some.injEq, Prod.mk.injEq] at hf
            obtain ⟨e1, e2⟩ := hf
            subst e1 e2
            obtain ⟨el, σ2, run2, rel2⟩ := hW c body fs fsa fsb cnd neg os cb st st' loc' sig σ ha hb he hwf hF hrel
            exact ⟨el, σ2, fun m hm => by simp only [seqAll]; exact run2 m (by omega), rel2⟩
  | brk =>
    simp only [flatS, Option.some.injEq, Prod.mk.injEq] at hf
    obtain ⟨e1, e2⟩ := hf
    subst e1 e2
    simp only [PV.Src.execStmt, Prod.mk.injEq, Except.ok.injEq] at he
    obtain ⟨e1, e2, e3⟩ := he
    subst e1 e2 e3
    exact ⟨rfl, σ, fun m _ => by simp [seqAll, PV.Core.exec, exitOf], hrel⟩
  | cont =>
    simp only [flatS, Option.some.injEq, Prod.mk.injEq] at hf
    obtain ⟨e1, e2⟩ := hf
    subst e1 e2
    simp only [PV.Src.execStmt, Prod.mk.injEq, Except.ok.injEq] at he
    obtain ⟨e1, e2, e3⟩ := he
    subst e1 e2 e3
    exact ⟨rfl, σ, fun m _ => by simp [seqAll, PV.Core.exec, exitOf], hrel⟩
  | pass =>
    simp only [flatS, Option.some.injEq, Prod.mk.injEq] at hf
    obtain ⟨e1, e2⟩ := hf
    subst e1 e2
    simp only [PV.Src.execStmt, Prod.mk.injEq, Except.ok.injEq] at he
    obtain ⟨e1, e2, e3⟩ := he
    subst e1 e2 e3
    exact ⟨rfl, σ, fun m _ => by simp [seqAll, PV.Core.exec, exitOf, Res.done], hrel⟩
  | yield =>
    simp only [flatS, Option.some.injEq, Prod.mk.injEq] at hf
    obtain ⟨e1, e2⟩ := hf
    subst e1 e2
    simp only [PV.Src.execStmt, Prod.mk.injEq, Except.ok.injEq] at he
    obtain ⟨e1, e2, e3⟩ := he
    subst e1 e2 e3
    exact ⟨rfl, { σ with trace := ⟨"yield", []⟩ :: σ.trace }, fun m _ => by simp [seqAll, PV.Core.exec, exitOf, Res.done],
      ⟨hrel.vars, hrel.mem, by simp [hrel.trace]⟩⟩
  | sleep e =>
    simp only [flatS] at hf
    split at hf
    · cases hf
    · rename_i fsa ca oa ha
      simp only [Option.some.injEq, Prod.mk.injEq] at hf
      obtain ⟨e1, e2⟩ := hf
      subst e1 e2
      simp only [PV.Src.execStmt] at he
      split at he
      · rename_i s1 v hev
        simp only [Prod.mk.injEq, Except.ok.injEq] at he
        obtain ⟨e1, e2, e3⟩ := he
        subst e1 e2 e3
        obtain ⟨e1, σ1, o1, v1, b1⟩ := hE e fs none fsa ca oa st s1 v σ ha hev hwf hF (by simp) hrel
        subst e1
        have rel1 := rel_frame sem env F fsF hrel o1
        refine ⟨rfl, { σ1 with trace := ⟨"sleep", [v]⟩ :: σ1.trace }, fun m hm => ?_, ⟨rel1.vars, rel1.mem, by simp [rel1.trace]⟩⟩
        rw [exec_seqAll_append, o1.run m]
        simp [seqAll, PV.Core.exec, v1, exitOf, Res.done]
      · simp at he
  | lassign _ _ => simp [flatS] at hf
  | forRange _ _ _ _ _ _ => simp [flatS] at hf
  | forList _ _ _ _ => simp [flatS] at hf
  | ret _ => simp [flatS] at hf
  | expr _ => simp [flatS] at hf
  | hcf => simp [flatS] at hf
  | push _ => simp [flatS] at hf


/-- **statements, blocks and loops**: by induction on the fuel of the reference semantics -/
theorem sound_stmt (hok : SemOk sem cf) (hwfF : WF fsF) : ∀ fuel,
    SSound sem env F P cf fsF once fuel ∧ BSound sem env F P cf fsF once fuel ∧ WSound sem env F P cf fsF once fuel ∧ LSound sem env F P cf fsF once fuel := by
  intro fuel
  induction fuel with
  | zero => exact ⟨ssound_zero sem env F P cf fsF once, bsound_zero sem env F P cf fsF once, wsound_zero sem env F P cf fsF once, lsound_zero sem env F P cf fsF once⟩
  | succ fuel ih =>
    exact ⟨ssound_of sem env F P cf fsF once hok hwfF fuel ih.2.1 ih.2.2.1 ih.2.2.2, bsound_of sem env F P cf fsF once fuel ih.1 ih.2.1,
      wsound_of sem env F P cf fsF once hok fuel ih.2.1 ih.2.2.1, lsound_of sem env F P cf fsF once hok fuel ih.2.1 ih.2.2.2⟩

end

theorem wf_empty : WF {} := ⟨fun x r h => by simp [FS.lookup] at h, fun x y r h => by simp [FS.lookup] at h⟩

/-- **the front end is correct on its fragment**: if the reference semantics runs the main code of a function-free program to the
    end (with signal `sig`, state `st'`), the flattened program ends with the corresponding exit in a core state with the same
    effect trace and the same own-stack memory — for every environment and every fuel at least the source's -/
theorem front_sound (sem : Sem V) (env : Env V) (F : Nat → CStmt V) (cf : Cfg V) (hok : SemOk sem cf) (p : PV.Src.Program V) (s : CStmt V)
    (hflat : flatten cf p = some s) (fuel : Nat) (zero : V) (st' : PV.Src.State V) (loc' : PV.Src.Store V) (sig : PV.Src.Signal V)
    (hrun : PV.Src.execBlock sem env p fuel [] { globals := [], mem := fun _ => zero, sp := 0, trace := [] } p.main = (st', .ok (loc', sig)))
    (σ0 : SSt V) (hmem : ∀ n, σ0.mem n = zero) (htr : σ0.trace = []) :
    ∃ σ', (∀ m, fuel ≤ m → PV.Core.exec sem env F m s σ0 = .ok (exitOf sig) σ') ∧ σ'.trace = st'.trace ∧ ∀ n, σ'.mem n = st'.mem n := by
  unfold flatten at hflat
  split at hflat
  · cases hflat
  · simp only [] at hflat
    split at hflat
    · cases hflat
    · rename_i fsF code hb
      simp only [Option.some.injEq] at hflat
      subst hflat
      have sb := flatB_step cf _ p.main {} fsF code hb
      have hwfF := sb.2 wf_empty
      have hrel : Rel fsF ({ globals := [], mem := fun _ => zero, sp := 0, trace := [] } : PV.Src.State V) σ0 :=
        ⟨fun x v h => by simp [PV.Src.Store.get] at h, fun n => (hmem n).symm, htr.symm⟩
      obtain ⟨_, σ', run, rel⟩ := (sound_stmt sem env F p cf fsF _ hok hwfF fuel).2.1 p.main {} fsF code _ st' loc' sig σ0 hb hrun wf_empty (Step.refl fsF) hrel
      exact ⟨σ', run, rel.trace.symm, fun n => (rel.mem n).symm⟩

end PV.Front
