import PV.Model.Leaf
import PV.Proofs.Cfg
import PV.Proofs.AllocSound
/-!
Leaf functions return to their caller (C06, static part).

`leaf_step`: inside a body accepted by `checkLeaf`, one step keeps `ra` and either stays inside, stops the chip, or is the
return `j ra` to the line `ra` holds.  `leaf_returns`: from any state inside the body, for every number of steps, either the
run has stayed inside (or stopped) with `ra` untouched, or it left exactly once, through `j ra`, landing on the line the
caller's `jal` put into `ra`, with registers, stack and effects as they were at the return instruction.
`call_leaf_returns`: a `jal` to such a body comes back to the line after the `jal` — if it comes back at all.
-/
namespace PV.Leaf
open PV.IC10
set_option linter.unusedSectionVars false
set_option linter.unusedVariables false

section
variable {R V : Type} [DecidableEq R] [Special R]
variable (sem : Sem V) (env : Env V) (P : List (Instr R V)) (lo hi : Nat)

def Inside (t : St R V) : Prop := t.halted = false ∧ lo ≤ t.pc ∧ t.pc < hi

theorem checkLeaf_line (h : checkLeaf sem P lo hi = true) (pc : Nat) (h1 : lo ≤ pc) (h2 : pc < hi) :
    ∃ i, P[pc]? = some i ∧ lineOk sem lo hi pc i = true := by
  unfold checkLeaf at h
  rw [List.all_eq_true] at h
  have := h (pc - lo) (by simp; omega)
  have e : lo + (pc - lo) = pc := by omega
  rw [e] at this
  cases hp : P[pc]? with
  | none => rw [hp] at this; cases this
  | some i => rw [hp] at this; exact ⟨i, rfl, this⟩

/-- `ra` survives an instruction that is no `jal` and does not name `ra` as its destination -/
theorem writeBack_keeps_ra (hsp : (Special.sp : R) ≠ Special.ra) (f : R → V) (dst : Option R) (o : Out V)
    (hra : o.ra = none) (hd : dst ≠ some Special.ra) : writeBack f dst o Special.ra = f Special.ra := by
  have hne2 : (Special.ra : R) ≠ Special.sp := Ne.symm hsp
  unfold writeBack
  rw [hra]
  cases dst with
  | none => cases o.sp <;> simp [updOpt, upd, hne2]
  | some d =>
    have hne : (Special.ra : R) ≠ d := by intro e; apply hd; rw [e]
    cases o.sp <;> cases o.dst <;> simp [updOpt, upd, hne2, hne]

theorem applyOut_regs (s : St R V) (dst : Option R) (o : Out V) : (applyOut s dst o).regs = writeBack s.regs dst o := by
  unfold applyOut; cases o.next <;> rfl

/-- one step inside an accepted body -/
theorem leaf_step (hsp : (Special.sp : R) ≠ Special.ra) (hck : checkLeaf sem P lo hi = true) (t : St R V) (hin : Inside lo hi t) :
    (step sem env P t).regs Special.ra = t.regs Special.ra ∧
    ((step sem env P t).halted = true ∨ Inside lo hi (step sem env P t) ∨
      (∃ a, sem.toAddr (t.regs Special.ra) = some a ∧ step sem env P t = { t with pc := a })) := by
  obtain ⟨hh, h1, h2⟩ := hin
  obtain ⟨i, hi', hok⟩ := checkLeaf_line sem P lo hi hck t.pc h1 h2
  simp only [lineOk, Bool.and_eq_true, bne_iff_ne, ne_eq, Bool.or_eq_true] at hok
  obtain ⟨⟨hjal, hdst⟩, hctl⟩ := hok
  have hstep : step sem env P t = applyOut t i.dst (exec sem env i.kind (i.args.map (Opnd.eval t.regs)) (t.regs Special.sp) t.pc t.mem t.trace) := by
    simp only [step, hh, hi', Bool.false_eq_true, if_false]
  have hra : (exec sem env i.kind (i.args.map (Opnd.eval t.regs)) (t.regs Special.sp) t.pc t.mem t.trace).ra = none := by
    cases hx : (exec sem env i.kind (i.args.map (Opnd.eval t.regs)) (t.regs Special.sp) t.pc t.mem t.trace).ra with
    | none => rfl
    | some v =>
      have := PV.AllocCheck.exec_ra_some sem env i.kind (i.args.map (Opnd.eval t.regs)) (t.regs Special.sp) t.pc t.mem t.trace (by rw [hx]; rfl)
      exact absurd this hjal
  constructor
  · rw [hstep, applyOut_regs]
    exact writeBack_keeps_ra hsp t.regs i.dst _ hra hdst
  · rcases hctl with hret | hsucc
    · -- the return
      obtain ⟨k, d, args⟩ := i
      simp only [isRet, Bool.and_eq_true, beq_iff_eq] at hret
      obtain ⟨hk, ha⟩ := hret
      subst hk
      match args, ha with
      | [.reg r], ha =>
        have hr : r = Special.ra := by simpa using ha
        subst hr
        cases hta : sem.toAddr (t.regs Special.ra) with
        | none =>
          left
          rw [hstep]
          simp [exec, Opnd.eval, target, hta, applyOut]
        | some a =>
          right; right
          refine ⟨a, rfl, ?_⟩
          rw [hstep]
          have hd : d ≠ some Special.ra := hdst
          have hw : writeBack t.regs d ({ next := Next.jump a } : Out V) = t.regs := by
            unfold writeBack
            cases d <;> simp [updOpt]
          simp only [exec, List.map_cons, List.map_nil, Opnd.eval, List.headD_cons, target, hta, applyOut, hw, List.nil_append]
          cases t; simp_all
    · cases hs : PV.Cfg.succs sem t.pc i with
      | none => rw [hs] at hsucc; cases hsucc
      | some l =>
        rw [hs] at hsucc
        simp only at hsucc
        rcases PV.Cfg.step_pc_mem_succs sem env P t i l hh hi' hs with hhalt | hmem
        · exact Or.inl hhalt
        · cases hh' : (step sem env P t).halted with
          | true => exact Or.inl rfl
          | false =>
            right; left
            rw [List.all_eq_true] at hsucc
            have := hsucc _ hmem
            simp only [inside, Bool.and_eq_true, decide_eq_true_eq] at this
            exact ⟨hh', this.1, this.2⟩

/-- **the only way out of a leaf body is the return to the caller's `ra`** -/
theorem leaf_returns (hsp : (Special.sp : R) ≠ Special.ra) (hck : checkLeaf sem P lo hi = true) (s : St R V) (hin : Inside lo hi s) :
    ∀ n, (∀ k, k ≤ n → (run sem env P k s).regs Special.ra = s.regs Special.ra ∧
                 ((run sem env P k s).halted = true ∨ Inside lo hi (run sem env P k s))) ∨
         (∃ k a, k < n ∧ Inside lo hi (run sem env P k s) ∧ sem.toAddr (s.regs Special.ra) = some a ∧
                 run sem env P (k + 1) s = { run sem env P k s with pc := a }) := by
  have run_succ : ∀ k (u : St R V), run sem env P (k + 1) u = step sem env P (run sem env P k u) := by
    intro k
    induction k with
    | zero => intro u; rfl
    | succ k ih => intro u; exact ih (step sem env P u)
  intro n
  induction n with
  | zero =>
    left
    intro k hk
    have : k = 0 := by omega
    subst this
    exact ⟨rfl, Or.inr hin⟩
  | succ n ih =>
    rcases ih with hall | ⟨k, a, hk, hins, hta, hrun⟩
    · obtain ⟨hra, hst⟩ := hall n (Nat.le_refl n)
      rcases hst with hhalt | hins
      · -- stopped: nothing changes any more
        left
        intro k hk
        by_cases hkn : k ≤ n
        · exact hall k hkn
        · have : k = n + 1 := by omega
          subst this
          rw [run_succ]
          have : step sem env P (run sem env P n s) = run sem env P n s := by simp [step, hhalt]
          rw [this]
          exact ⟨hra, Or.inl hhalt⟩
      · obtain ⟨hra', hnext⟩ := leaf_step sem env P lo hi hsp hck _ hins
        rcases hnext with hh | hin' | ⟨a, hta, hret⟩
        · left
          intro k hk
          by_cases hkn : k ≤ n
          · exact hall k hkn
          · have : k = n + 1 := by omega
            subst this
            rw [run_succ]
            exact ⟨by rw [hra', hra], Or.inl hh⟩
        · left
          intro k hk
          by_cases hkn : k ≤ n
          · exact hall k hkn
          · have : k = n + 1 := by omega
            subst this
            rw [run_succ]
            exact ⟨by rw [hra', hra], Or.inr hin'⟩
        · right
          refine ⟨n, a, by omega, hins, by rw [← hra]; exact hta, ?_⟩
          rw [run_succ]; exact hret
    · right
      exact ⟨k, a, by omega, hins, hta, hrun⟩

/-- **a call to a leaf function comes back to the line after the call**: the `jal` at line `c` enters the body at `lo` with
    `ra = c + 1`; whenever the run leaves the body it does so through `j ra`, at line `c + 1`, and nothing but the program
    counter changes in that step -/
theorem call_leaf_returns (hsp : (Special.sp : R) ≠ Special.ra) (hck : checkLeaf sem P lo hi = true)
    (hof : ∀ n, sem.toAddr (sem.ofNat n) = some n) (hlo : lo < hi)
    (s : St R V) (c : Nat) (v : V) (d : Option R) (rest : List (Opnd R V)) (hh : s.halted = false) (hpc : s.pc = c)
    (hi' : P[c]? = some ⟨.jal, d, Opnd.num v :: rest⟩) (hv : sem.toAddr v = some lo) (hd : d ≠ some Special.ra) :
    Inside lo hi (step sem env P s) ∧ (step sem env P s).regs Special.ra = sem.ofNat (c + 1) ∧
    ∀ n, (∀ k, k ≤ n → (run sem env P (k + 1) s).halted = true ∨ Inside lo hi (run sem env P (k + 1) s)) ∨
         (∃ k, k < n ∧ Inside lo hi (run sem env P (k + 1) s) ∧
                 run sem env P (k + 2) s = { run sem env P (k + 1) s with pc := c + 1 }) := by
  have hstep : step sem env P s = applyOut s d (exec sem env .jal ((Opnd.num v :: rest).map (Opnd.eval s.regs)) (s.regs Special.sp) s.pc s.mem s.trace) := by
    simp only [step, hh, hpc, hi', Bool.false_eq_true, if_false]
  have hex : exec sem env .jal ((Opnd.num v :: rest).map (Opnd.eval s.regs)) (s.regs Special.sp) s.pc s.mem s.trace =
      { ra := some (sem.ofNat (c + 1)), next := .jump lo } := by
    simp [exec, Opnd.eval, target, hv, hpc]
  have hne2 : (Special.ra : R) ≠ Special.sp := Ne.symm hsp
  have hregs : (step sem env P s).regs Special.ra = sem.ofNat (c + 1) := by
    rw [hstep, hex, applyOut_regs]
    unfold writeBack
    cases d with
    | none => simp [updOpt, upd]
    | some d' => simp [updOpt, upd]
  have hins : Inside lo hi (step sem env P s) := by
    rw [hstep, hex]
    simp only [applyOut]
    exact ⟨rfl, Nat.le_refl lo, hlo⟩
  refine ⟨hins, hregs, ?_⟩
  intro n
  have hrun : ∀ k, run sem env P (k + 1) s = run sem env P k (step sem env P s) := fun k => rfl
  rcases leaf_returns sem env P lo hi hsp hck (step sem env P s) hins n with hall | ⟨k, a, hk, hin, hta, hr⟩
  · left
    intro k hk
    rw [hrun]
    exact (hall k hk).2
  · right
    refine ⟨k, hk, by rw [hrun]; exact hin, ?_⟩
    rw [hregs, hof] at hta
    have : a = c + 1 := by injection hta with e; exact e.symm
    subst this
    have e2 : run sem env P (k + 2) s = run sem env P (k + 1) (step sem env P s) := rfl
    rw [e2, hrun, hr]

end
end PV.Leaf
