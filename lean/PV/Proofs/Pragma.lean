import PV.Model.Pragma
/-! Helper lemmas for C15. -/
namespace PV.Pragma
open PV.PyStr

/-- final value of option `n` (currently `b`) after the directives `ds` -/
def final (ds : List (Name × Bool)) (n : Name) (b : Bool) : Bool :=
  ds.foldl (fun acc d => if d.1 = n then d.2 else acc) b

theorem setOpt_eq_map (o : Opts) (name : Name) (v : Bool) :
    setOpt o name v = o.map (fun p => (p.1, if name = p.1 then v else p.2)) := by
  unfold setOpt
  apply List.map_congr_left
  intro ⟨n, b⟩ _
  by_cases h : n = name
  · simp [h]
  · have h' : ¬ name = n := fun e => h e.symm
    simp [h, h']

theorem applyAll_eq_map (ds : List (Name × Bool)) (o : Opts) :
    applyAll ds o = o.map (fun p => (p.1, final ds p.1 p.2)) := by
  induction ds generalizing o with
  | nil => simp [applyAll, final]
  | cons d ds ih =>
    have : applyAll (d :: ds) o = applyAll ds (setOpt o d.1 d.2) := by simp [applyAll]
    rw [this, ih, setOpt_eq_map, List.map_map]
    apply List.map_congr_left
    intro p _
    simp [final]

theorem final_none (ds : List (Name × Bool)) (n : Name) (b : Bool)
    (h : ∀ d ∈ ds, d.1 ≠ n) : final ds n b = b := by
  induction ds generalizing b with
  | nil => rfl
  | cons d ds ih =>
    have hd : d.1 ≠ n := h d (by simp)
    simp only [final, List.foldl_cons, hd, if_false]
    exact ih b (fun x hx => h x (by simp [hx]))

theorem final_append (ds es : List (Name × Bool)) (n : Name) (b : Bool) :
    final (ds ++ es) n b = final es n (final ds n b) := by
  simp [final, List.foldl_append]

/-- the last directive naming `n` decides -/
theorem final_last (ds es : List (Name × Bool)) (n : Name) (v b : Bool)
    (h : ∀ d ∈ es, d.1 ≠ n) : final (ds ++ (n, v) :: es) n b = v := by
  rw [final_append]
  simp only [final, List.foldl_cons, if_true]
  exact final_none es n v h

theorem final_absorb (ds : List (Name × Bool)) (n : Name) (b b' : Bool)
    (h : ∃ d ∈ ds, d.1 = n) : final ds n b = final ds n b' := by
  induction ds generalizing b b' with
  | nil => simp at h
  | cons d ds ih =>
    by_cases hd : d.1 = n
    · simp [final, hd]
    · obtain ⟨x, hx, hxn⟩ := h
      have hx' : x ∈ ds := by
        rcases List.mem_cons.mp hx with rfl | h'
        · exact absurd hxn hd
        · exact h'
      simp only [final, List.foldl_cons, hd, if_false]
      exact ih b b' ⟨x, hx', hxn⟩

theorem final_idem (ds : List (Name × Bool)) (n : Name) (b : Bool) :
    final ds n (final ds n b) = final ds n b := by
  by_cases h : ∃ d ∈ ds, d.1 = n
  · exact final_absorb ds n _ _ h
  · have h' : ∀ d ∈ ds, d.1 ≠ n := fun d hd e => h ⟨d, hd, e⟩
    rw [final_none ds n _ h']

theorem lookup_map (o : Opts) (f : Name → Bool → Bool) (n : Name) :
    lookup (o.map (fun p => (p.1, f p.1 p.2))) n = (lookup o n).map (f n) := by
  induction o with
  | nil => simp [lookup]
  | cons p o ih =>
    unfold lookup at ih ⊢
    by_cases h : p.1 = n
    · simp [List.find?_cons, h]
    · simp only [List.map_cons, List.find?_cons, h, decide_false]
      exact ih

/-! ### string lemmas -/

theorem dropWhile_append_single {p : Char → Bool} (l : List Char) (c : Char) (hc : p c = false) :
    (l ++ [c]).dropWhile p = l.dropWhile p ++ [c] := by
  induction l with
  | nil => simp [List.dropWhile, hc]
  | cons a l ih =>
    by_cases ha : p a
    · simp [List.dropWhile_cons, ha, ih]
    · simp [List.dropWhile_cons, ha]

/-- `rstrip` leaves a leading non-space character in place -/
theorem rstrip_cons_nonspace (c : Char) (cs : List Char) (hc : isSpace c = false) :
    ∃ r, rstrip (c :: cs) = c :: r := by
  unfold rstrip
  simp only [List.reverse_cons]
  rw [dropWhile_append_single _ _ hc]
  simp

/-- the first character of `strip l` is the first non-blank character of `l` -/
theorem strip_head (l : List Char) : (strip l).head? = (lstrip l).head? := by
  unfold strip
  cases h : lstrip l with
  | nil => simp [rstrip]
  | cons c cs =>
    have hc : isSpace c = false := by
      unfold lstrip at h
      have hne : List.dropWhile isSpace l ≠ [] := by rw [h]; simp
      have := List.head_dropWhile_not isSpace hne
      simp only [h, List.head_cons] at this
      exact this
    obtain ⟨r, hr⟩ := rstrip_cons_nonspace c cs hc
    simp [hr]

theorem startsWith_hash_iff (l : List Char) : startsWith l ['#'] = true ↔ l.head? = some '#' := by
  cases l with
  | nil => simp [startsWith]
  | cons c cs =>
    simp only [startsWith, List.isPrefixOf, Bool.and_true, beq_iff_eq, List.head?_cons,
      Option.some.injEq]
    exact eq_comm

end PV.Pragma
