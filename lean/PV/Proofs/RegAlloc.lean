import PV.Model.RegAlloc
/-! `assign_colors` gives different colours to overlapping intervals. -/
namespace PV.RegAlloc

/-- colours that are in use or reusable, as one list -/
def St.colours (st : St) : List Nat := st.active.map (·.2) ++ st.free

/-- invariant after processing the symbols `done` (each with its colour), the last of them starting at `t` -/
structure Inv (st : St) (done : List (Iv × Nat)) (t : Nat) : Prop where
  /-- every processed interval that has not ended at `t` is active with its colour -/
  unexpired : ∀ d ∈ done, t < d.1.2 → (d.1.2, d.2) ∈ st.active
  nodup : st.colours.Nodup
  bound : ∀ c ∈ st.colours, c < st.next

theorem inv_init : Inv St.init [] 0 where
  unexpired := by intro d hd; simp at hd
  nodup := by simp [St.colours, St.init]
  bound := by intro c hc; simp [St.colours, St.init] at hc

theorem filter_split_perm (l : List (Nat × Nat)) (p : Nat × Nat → Bool) :
    ((l.filter (fun x => !p x)).map (·.2) ++ (l.filter p).map (·.2)).Perm (l.map (·.2)) := by
  induction l with
  | nil => simp
  | cons x xs ih =>
    by_cases hx : p x = true
    · simp only [List.filter_cons, hx, Bool.not_true, Bool.false_eq_true, if_false, if_true, List.map_cons]
      exact (List.perm_middle).trans (List.Perm.cons _ ih)
    · have hx' : p x = false := by simpa using hx
      simp only [List.filter_cons, hx', Bool.not_false, if_true, Bool.false_eq_true, if_false, List.map_cons, List.cons_append]
      exact List.Perm.cons _ ih

/-- the colour list after expiring: still-active colours followed by the enlarged free list — a permutation of before -/
theorem expire_perm (st : St) (t : Nat) :
    ((st.active.filter (fun p => !(decide (p.1 ≤ t)))).map (·.2) ++
      (st.free ++ (st.active.filter (fun p => decide (p.1 ≤ t))).map (·.2))).Perm st.colours := by
  unfold St.colours
  have h := filter_split_perm st.active (fun p => decide (p.1 ≤ t))
  -- still ++ (free ++ freed)  ~  still ++ (freed ++ free) ~ (still ++ freed) ++ free ~ active ++ free
  refine (List.Perm.append_left _ List.perm_append_comm).trans ?_
  rw [← List.append_assoc]
  exact List.Perm.append_right _ h

theorem getLast?_mem {α : Type} (l : List α) (c : α) (h : l.getLast? = some c) : l = l.dropLast ++ [c] := by
  induction l with
  | nil => simp at h
  | cons x xs ih =>
    cases xs with
    | nil => simp at h; simp [h]
    | cons y ys =>
      have : (y :: ys).getLast? = some c := by simpa [List.getLast?_cons_cons] using h
      have := ih this
      simp only [List.dropLast_cons_cons, List.cons_append]
      rw [← this]

/-- one step of the colouring keeps the invariant, and the new colour differs from the colour of every processed
    interval that overlaps the new one -/
theorem step_inv (st : St) (done : List (Iv × Nat)) (t : Nat) (s : Iv) (hinv : Inv st done t) (hts : t ≤ s.1) :
    Inv (stepSym st s).1 ((s, (stepSym st s).2) :: done) s.1 ∧
    ∀ d ∈ done, s.1 < d.1.2 → d.2 ≠ (stepSym st s).2 := by
  obtain ⟨hun, hnd, hbd⟩ := hinv
  -- notation
  have hperm := expire_perm st s.1
  have hnd' := (List.Perm.nodup_iff hperm).mpr hnd
  have hbd' : ∀ c ∈ (st.active.filter (fun p => !(decide (p.1 ≤ s.1)))).map (·.2) ++
      (st.free ++ (st.active.filter (fun p => decide (p.1 ≤ s.1))).map (·.2)), c < st.next :=
    fun c hc => hbd c (hperm.subset hc)
  -- every overlapping processed interval is still active
  have hstill : ∀ d ∈ done, s.1 < d.1.2 → (d.1.2, d.2) ∈ st.active.filter (fun p => !(decide (p.1 ≤ s.1))) := by
    intro d hd hlt
    have hin := hun d hd (by omega)
    rw [List.mem_filter]
    refine ⟨hin, ?_⟩
    simp; omega
  unfold stepSym
  simp only
  cases hlast : (st.free ++ (st.active.filter (fun p => decide (p.1 ≤ s.1))).map (·.2)).getLast? with
  | some c =>
    simp only
    have hfree := getLast?_mem _ c hlast
    -- c is not among the still-active colours
    have hc_notin : c ∉ (st.active.filter (fun p => !(decide (p.1 ≤ s.1)))).map (·.2) := by
      intro hmem
      rw [hfree] at hnd'
      have := List.nodup_append.mp hnd'
      exact this.2.2 c hmem c (by simp) rfl
    refine ⟨⟨?_, ?_, ?_⟩, ?_⟩
    · intro d hd hlt
      rcases List.mem_cons.mp hd with rfl | hd'
      · simp
      · exact List.mem_append_left _ (hstill d hd' hlt)
    · -- nodup: (still ++ [(s.2,c)]).map snd ++ free'.dropLast  ~  still.map snd ++ (free'.dropLast ++ [c])
      unfold St.colours
      simp only [List.map_append, List.map_cons, List.map_nil]
      rw [hfree] at hnd'
      refine (List.Perm.nodup_iff ?_).mpr hnd'
      rw [List.append_assoc]
      exact List.Perm.append_left _ List.perm_append_comm
    · intro x hx
      unfold St.colours at hx
      simp only [List.map_append, List.map_cons, List.map_nil] at hx
      apply hbd' x
      rw [hfree]
      simp only [List.mem_append, List.mem_cons, List.mem_nil_iff, or_false] at hx ⊢
      rcases hx with (h | h) | h
      · exact Or.inl h
      · exact Or.inr (Or.inr h)
      · exact Or.inr (Or.inl h)
    · intro d hd hlt e
      apply hc_notin
      rw [← e]
      exact List.mem_map.mpr ⟨(d.1.2, d.2), hstill d hd hlt, rfl⟩
  | none =>
    simp only
    have hnil : st.free ++ (st.active.filter (fun p => decide (p.1 ≤ s.1))).map (·.2) = [] :=
      List.getLast?_eq_none_iff.mp hlast
    rw [hnil] at hnd' hbd'
    refine ⟨⟨?_, ?_, ?_⟩, ?_⟩
    · intro d hd hlt
      rcases List.mem_cons.mp hd with rfl | hd'
      · simp
      · exact List.mem_append_left _ (hstill d hd' hlt)
    · unfold St.colours
      simp only [List.map_append, List.map_cons, List.map_nil, List.append_nil]
      rw [List.append_nil] at hnd'
      rw [List.nodup_append]
      refine ⟨hnd', by simp, ?_⟩
      intro a ha b hb
      simp at hb
      have := hbd' a (by simpa using ha)
      omega
    · intro x hx
      unfold St.colours at hx
      simp only [List.map_append, List.map_cons, List.map_nil, List.append_nil, List.mem_append, List.mem_cons, List.mem_nil_iff, or_false] at hx
      show x < st.next + 1
      rcases hx with h | h
      · have := hbd' x (by simpa using h); omega
      · omega
    · intro d hd hlt e
      have hm : d.2 ∈ (st.active.filter (fun p => !(decide (p.1 ≤ s.1)))).map (·.2) :=
        List.mem_map.mpr ⟨(d.1.2, d.2), hstill d hd hlt, rfl⟩
      have := hbd' d.2 (by simpa using hm)
      omega

/-- all later symbols get colours different from an earlier overlapping one -/
theorem colorsFrom_proper (l : List Iv) : ∀ (st : St) (done : List (Iv × Nat)) (t : Nat), Inv st done t →
    (∀ s ∈ l, t ≤ s.1) → l.Pairwise (fun a b => a.1 ≤ b.1) →
    (∀ d ∈ done, ∀ j (hj : j < l.length), l[j].1 < d.1.2 →
        d.2 ≠ (colorsFrom st l)[j]'(by
          have : (colorsFrom st l).length = l.length := by
            clear hj
            induction l generalizing st with
            | nil => rfl
            | cons x xs ih => simp [colorsFrom, ih]
          omega)) := by
  induction l with
  | nil => intro st done t _ _ _ d _ j hj; simp at hj
  | cons s rest ih =>
    intro st done t hinv hge hsorted d hd j hj hov
    obtain ⟨hinv', hne⟩ := step_inv st done t s hinv (hge s (by simp))
    have hs := List.pairwise_cons.mp hsorted
    cases j with
    | zero =>
      simp only [colorsFrom, List.getElem_cons_zero]
      exact hne d hd (by simpa using hov)
    | succ k =>
      simp only [colorsFrom, List.getElem_cons_succ]
      have hk : k < rest.length := by simpa using hj
      exact ih (stepSym st s).1 ((s, (stepSym st s).2) :: done) s.1 hinv'
        (fun x hx => hs.1 x hx) hs.2 d (List.mem_cons_of_mem _ hd) k hk (by simpa using hov)

end PV.RegAlloc
