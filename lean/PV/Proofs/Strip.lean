import PV.Model.Strip
/-!
Label removal preserves behaviour (programs of direct control flow).

`strip_sim_fwd` / `strip_sim_bwd`: for a program `P` whose lines `L` are no-ops (the label lines) and whose other lines are
`simple` (no `jal`, no relative branch, direct jumps with a literal line as target), `strip P` and `P` started in related states
stay related forever — same registers, stack, effect trace, halting; the stripped program is at line `rho L pc` — where `P`
spends extra steps on its label lines: every state of `P` is matched by an earlier-or-equal step count of `strip P`, and every
state of `strip P` by a later-or-equal step count of `P`.  Hence the two programs have exactly the same effect traces.
-/
namespace PV.Strip
open PV.IC10
set_option linter.unusedSectionVars false
set_option linter.unusedVariables false

theorem rho_succ_kept (L : Nat → Bool) (t : Nat) (h : L t = false) : rho L (t + 1) = rho L t + 1 := by simp [rho, h]
theorem rho_succ_lab (L : Nat → Bool) (t : Nat) (h : L t = true) : rho L (t + 1) = rho L t := by simp [rho, h]

theorem rho_mono_add (L : Nat → Bool) (a d : Nat) : rho L a ≤ rho L (a + d) := by
  induction d with
  | zero => simp
  | succ d ih =>
    have : rho L (a + (d + 1)) = rho L (a + d) + (if L (a + d) then 0 else 1) := rfl
    omega

theorem rho_mono (L : Nat → Bool) {a b : Nat} (h : a ≤ b) : rho L a ≤ rho L b := by
  have := rho_mono_add L a (b - a)
  rwa [Nat.add_sub_cancel' h] at this

section
variable {R V : Type} [DecidableEq R] [Special R]
variable (sem : Sem V) (lit : Nat → V) (L : Nat → Bool)

/-! ### lines of the stripped program -/

theorem stripFrom_get : ∀ (P : List (Instr R V)) (base i : Nat) (x : Instr R V), P[i]? = some x → L (base + i) = false →
    (stripFrom sem lit L base P)[rho L (base + i) - rho L base]? = some (renum sem lit L x) := by
  intro P
  induction P with
  | nil => intro base i x h; simp at h
  | cons y rest ih =>
    intro base i x h hl
    cases i with
    | zero =>
      simp only [List.getElem?_cons_zero, Option.some.injEq] at h
      subst h
      simp only [Nat.add_zero] at hl
      simp [stripFrom, hl]
    | succ i =>
      simp only [List.getElem?_cons_succ] at h
      have e : base + (i + 1) = base + 1 + i := by omega
      rw [e] at hl ⊢
      have := ih (base + 1) i x h hl
      have hm : rho L (base + 1) ≤ rho L (base + 1 + i) := rho_mono_add L (base + 1) i
      cases hb : L base with
      | true =>
        simp only [stripFrom, hb, if_true]
        rw [rho_succ_lab L base hb] at this
        exact this
      | false =>
        simp only [stripFrom, hb, Bool.false_eq_true, if_false]
        rw [rho_succ_kept L base hb] at this hm
        have e2 : rho L (base + 1 + i) - rho L base = (rho L (base + 1 + i) - (rho L base + 1)) + 1 := by omega
        rw [e2, List.getElem?_cons_succ]
        exact this

theorem stripFrom_length : ∀ (P : List (Instr R V)) (base : Nat),
    (stripFrom sem lit L base P).length = rho L (base + P.length) - rho L base := by
  intro P
  induction P with
  | nil => intro base; simp [stripFrom]
  | cons y rest ih =>
    intro base
    have e : base + (y :: rest).length = base + 1 + rest.length := by simp; omega
    have hm : rho L (base + 1) ≤ rho L (base + 1 + rest.length) := rho_mono_add L (base + 1) rest.length
    rw [e]
    cases hb : L base with
    | true =>
      simp only [stripFrom, hb, if_true, ih, rho_succ_lab L base hb]
    | false =>
      simp only [stripFrom, hb, Bool.false_eq_true, if_false, List.length_cons, ih]
      rw [rho_succ_kept L base hb] at hm ⊢
      omega

theorem strip_get (P : List (Instr R V)) (i : Nat) (x : Instr R V) (h : P[i]? = some x) (hl : L i = false) :
    (strip sem lit L P)[rho L i]? = some (renum sem lit L x) := by
  have := stripFrom_get sem lit L P 0 i x h (by simpa using hl)
  simpa [strip, rho] using this

theorem strip_get_none (P : List (Instr R V)) (i : Nat) (h : P[i]? = none) : (strip sem lit L P)[rho L i]? = none := by
  apply List.getElem?_eq_none_iff.mpr
  have hlen : P.length ≤ i := List.getElem?_eq_none_iff.mp h
  have := stripFrom_length sem lit L P 0
  simp only [Nat.zero_add, rho, Nat.sub_zero] at this
  unfold strip
  rw [this]
  exact rho_mono L hlen

/-! ### one instruction -/

def mapNext : Next → Next
  | .jump n => .jump (rho L n)
  | x => x

def mapOut (o : Out V) : Out V := { o with next := mapNext L o.next }

theorem lastIsLine_spec : ∀ (args : List (Opnd R V)), lastIsLine sem args = true →
    ∃ front v t, args = front ++ [Opnd.num v] ∧ sem.toAddr v = some t ∧
      renumLast sem lit L args = front ++ [Opnd.num (lit (rho L t))] := by
  intro args
  induction args with
  | nil => intro h; simp [lastIsLine] at h
  | cons o rest ih =>
    intro h
    cases rest with
    | nil =>
      cases o with
      | reg r => simp [lastIsLine] at h
      | num v =>
        simp only [lastIsLine, Option.isSome_iff_exists] at h
        obtain ⟨t, ht⟩ := h
        exact ⟨[], v, t, rfl, ht, by simp [renumLast, renumOpnd, ht]⟩
    | cons o2 rest2 =>
      have h' : lastIsLine sem (o2 :: rest2) = true := by simpa [lastIsLine] using h
      obtain ⟨front, v, t, e, ht, er⟩ := ih h'
      refine ⟨o :: front, v, t, by simp [e], ht, ?_⟩
      show o :: renumLast sem lit L (o2 :: rest2) = _
      rw [er]; rfl

theorem dropLast_snoc {α : Type} (l : List α) (a : α) : (l ++ [a]).dropLast = l := by simp
theorem getLastD_snoc {α : Type} (l : List α) (a d : α) : (l ++ [a]).getLastD d = a := by
  induction l with
  | nil => rfl
  | cons x xs ih => cases xs <;> simp_all [List.getLastD]

/-- **one instruction, two line numberings**: the renumbered instruction at line `pc'` does what the original does at line
    `pc`, with its jump target renumbered -/
theorem exec_renum (env : Env V) (hlit : ∀ n, sem.toAddr (lit n) = some n) (x : Instr R V) (hs : simple sem x = true)
    (f : R → V) (spv : V) (pc pc' : Nat) (mem : Nat → V) (tr : List (Eff V)) :
    exec sem env (renum sem lit L x).kind ((renum sem lit L x).args.map (Opnd.eval f)) spv pc' mem tr =
      mapOut L (exec sem env x.kind (x.args.map (Opnd.eval f)) spv pc mem tr) := by
  obtain ⟨k, d, args⟩ := x
  simp only [simple, Bool.and_eq_true, Bool.not_eq_true', Bool.or_eq_true] at hs
  obtain ⟨hex, hdir⟩ := hs
  cases k with
  | jal => simp [isExcluded] at hex
  | brr c => simp [isExcluded] at hex
  | jmp =>
    have hd : lastIsLine sem args = true ∧ args.length = 1 := by simpa [isDirect] using hdir
    obtain ⟨front, v, t, e, ht, er⟩ := lastIsLine_spec sem lit L args hd.1
    have hf : front = [] := by
      have := hd.2; rw [e] at this; simp at this; exact this
    subst hf
    simp only [List.nil_append] at e er
    subst e
    simp [renum, isDirect, er, exec, Opnd.eval, target, ht, hlit, mapOut, mapNext]
  | br c =>
    have hd : lastIsLine sem args = true := by simpa [isDirect] using hdir
    obtain ⟨front, v, t, e, ht, er⟩ := lastIsLine_spec sem lit L args hd
    subst e
    simp only [renum, isDirect, if_true, er, exec, List.map_append, List.map_cons, List.map_nil, Opnd.eval, dropLast_snoc, getLastD_snoc]
    split <;> simp [target, ht, hlit, mapOut, mapNext]
  | brq q neg =>
    have hd : lastIsLine sem args = true := by simpa [isDirect] using hdir
    obtain ⟨front, v, t, e, ht, er⟩ := lastIsLine_spec sem lit L args hd
    subst e
    simp only [renum, isDirect, if_true, er, exec, List.map_append, List.map_cons, List.map_nil, Opnd.eval, dropLast_snoc, getLastD_snoc]
    split <;> simp [target, ht, hlit, mapOut, mapNext]
  | alu op => simp [renum, isDirect, exec, mapOut, mapNext]
  | load q => simp [renum, isDirect, exec, mapOut, mapNext]
  | store q => simp [renum, isDirect, exec, mapOut, mapNext]
  | yield => simp [renum, isDirect, exec, mapOut, mapNext]
  | sleep => simp [renum, isDirect, exec, mapOut, mapNext]
  | hcf => simp [renum, isDirect, exec, mapOut, mapNext]
  | nop => simp [renum, isDirect, exec, mapOut, mapNext]
  | bad w => simp [renum, isDirect, exec, mapOut, mapNext]
  | push =>
    simp only [renum, isDirect, Bool.false_eq_true, if_false, exec]
    split
    · split <;> simp [mapOut, mapNext]
    · simp [mapOut, mapNext]
  | pop =>
    simp only [renum, isDirect, Bool.false_eq_true, if_false, exec]
    split
    · split <;> simp [mapOut, mapNext]
    · simp [mapOut, mapNext]
  | peek =>
    simp only [renum, isDirect, Bool.false_eq_true, if_false, exec]
    split
    · split <;> simp [mapOut, mapNext]
    · simp [mapOut, mapNext]
  | poke =>
    simp only [renum, isDirect, Bool.false_eq_true, if_false, exec]
    split
    · split
      · split <;> simp [mapOut, mapNext]
      · simp [mapOut, mapNext]
    · simp [mapOut, mapNext]
  | getdb =>
    simp only [renum, isDirect, Bool.false_eq_true, if_false, exec]
    split
    · split
      · split <;> simp [mapOut, mapNext]
      · simp [mapOut, mapNext]
    · simp [mapOut, mapNext]

theorem renum_dst (x : Instr R V) : (renum sem lit L x).dst = x.dst := by
  unfold renum; split <;> rfl

/-! ### the simulation -/

/-- same registers, stack, effects, halting; the stripped program is at the renumbered line -/
structure Sim (s s' : St R V) : Prop where
  regs : s'.regs = s.regs
  mem : s'.mem = s.mem
  trace : s'.trace = s.trace
  halted : s'.halted = s.halted
  pc : s'.pc = rho L s.pc

theorem applyOut_sim (s s' : St R V) (h : Sim L s s') (hl : L s.pc = false) (dst : Option R) (o : Out V) :
    Sim L (applyOut s dst o) (applyOut s' dst (mapOut L o)) := by
  obtain ⟨hr, hm, ht, hh, hp⟩ := h
  cases hn : o.next with
  | seq =>
    simp only [applyOut, mapOut, hn, mapNext, hr, hm, ht, hp]
    exact ⟨rfl, rfl, rfl, rfl, (rho_succ_kept L s.pc hl).symm⟩
  | jump n =>
    simp only [applyOut, mapOut, hn, mapNext, hr, hm, ht, hp]
    exact ⟨rfl, rfl, rfl, rfl, rfl⟩
  | halt =>
    simp only [applyOut, mapOut, hn, mapNext, hr, hm, ht, hp]
    exact ⟨rfl, rfl, rfl, rfl, rfl⟩
  | fault w =>
    simp only [applyOut, mapOut, hn, mapNext, hr, hm, ht, hp]
    exact ⟨rfl, rfl, rfl, rfl, rfl⟩

variable (env : Env V) (P : List (Instr R V))

/-- the lines `L` are label lines (they do nothing), every other line is covered -/
structure Ok : Prop where
  labels : ∀ i, L i = true → P[i]? = some ⟨.nop, none, []⟩
  simple : ∀ i x, P[i]? = some x → L i = false → simple sem x = true
  lit : ∀ n, sem.toAddr (lit n) = some n

/-- a step on a label line: the stripped program waits -/
theorem step_label (hok : Ok sem lit L P) (s s' : St R V) (h : Sim L s s') (hh : s.halted = false) (hl : L s.pc = true) :
    Sim L (step sem env P s) s' := by
  have hi := hok.labels s.pc hl
  obtain ⟨hr, hm, ht, hhalt, hp⟩ := h
  simp only [step, hh, Bool.false_eq_true, if_false, hi, exec, applyOut, writeBack, updOpt, List.map_nil, List.nil_append]
  exact ⟨hr, hm, ht, by rw [hhalt, hh], by rw [hp, rho_succ_lab L s.pc hl]⟩

/-- a step anywhere else: both programs step -/
theorem step_kept (hok : Ok sem lit L P) (s s' : St R V) (h : Sim L s s') (hl : s.halted = true ∨ L s.pc = false) :
    Sim L (step sem env P s) (step sem env (strip sem lit L P) s') := by
  cases hh : s.halted with
  | true =>
    have hh' : s'.halted = true := by rw [h.halted, hh]
    simp only [step, hh, hh', if_true]
    exact h
  | false =>
    have hl' : L s.pc = false := by
      rcases hl with hl | hl
      · rw [hh] at hl; cases hl
      · exact hl
    have hh' : s'.halted = false := by rw [h.halted, hh]
    cases hi : P[s.pc]? with
    | none =>
      have hq := strip_get_none sem lit L P s.pc hi
      rw [← h.pc] at hq
      simp only [step, hh, hh', Bool.false_eq_true, if_false, hi, hq]
      exact ⟨h.regs, h.mem, h.trace, rfl, h.pc⟩
    | some x =>
      have hq := strip_get sem lit L P s.pc x hi hl'
      rw [← h.pc] at hq
      have hsx := hok.simple s.pc x hi hl'
      simp only [step, hh, hh', Bool.false_eq_true, if_false, hi, hq]
      rw [h.regs, h.mem, h.trace, renum_dst, exec_renum sem lit L env hok.lit x hsx s.regs (s.regs Special.sp) s.pc s'.pc s.mem s.trace]
      exact applyOut_sim L s s' h hl' x.dst _

/-- **every state of the labelled program is a state of the stripped one**, reached in at most as many steps -/
theorem strip_sim_fwd (hok : Ok sem lit L P) : ∀ (m : Nat) (s s' : St R V), Sim L s s' →
    ∃ k, k ≤ m ∧ Sim L (run sem env P m s) (run sem env (strip sem lit L P) k s') := by
  intro m
  induction m with
  | zero => intro s s' h; exact ⟨0, Nat.le_refl 0, h⟩
  | succ m ih =>
    intro s s' h
    by_cases hl : s.halted = true ∨ L s.pc = false
    · obtain ⟨k, hk, hs⟩ := ih _ _ (step_kept sem lit L env P hok s s' h hl)
      exact ⟨k + 1, by omega, hs⟩
    · have hh : s.halted = false := by
        cases hx : s.halted with
        | true => exact absurd (Or.inl hx) hl
        | false => rfl
      have hl' : L s.pc = true := by
        cases hx : L s.pc with
        | false => exact absurd (Or.inr hx) hl
        | true => rfl
      obtain ⟨k, hk, hs⟩ := ih _ _ (step_label sem lit L env P hok s s' h hh hl')
      exact ⟨k, by omega, hs⟩

/-- the labelled program leaves its label lines: after finitely many steps it is halted or at a kept line -/
theorem skip_labels (hok : Ok sem lit L P) : ∀ (d : Nat) (s s' : St R V), P.length - s.pc ≤ d → Sim L s s' →
    ∃ j, Sim L (run sem env P j s) s' ∧ ((run sem env P j s).halted = true ∨ L (run sem env P j s).pc = false) := by
  intro d
  induction d with
  | zero =>
    intro s s' hd h
    refine ⟨0, h, ?_⟩
    cases hx : L s.pc with
    | false => exact Or.inr hx
    | true =>
      have := hok.labels s.pc hx
      have hlt : s.pc < P.length := by
        apply Decidable.byContradiction; intro hne
        have : P[s.pc]? = none := List.getElem?_eq_none_iff.mpr (by omega)
        simp_all
      omega
  | succ d ih =>
    intro s s' hd h
    by_cases hl : s.halted = true ∨ L s.pc = false
    · exact ⟨0, h, hl⟩
    · have hh : s.halted = false := by
        cases hx : s.halted with
        | true => exact absurd (Or.inl hx) hl
        | false => rfl
      have hl' : L s.pc = true := by
        cases hx : L s.pc with
        | false => exact absurd (Or.inr hx) hl
        | true => rfl
      have hs := step_label sem lit L env P hok s s' h hh hl'
      have hpc : (step sem env P s).pc = s.pc + 1 := by
        simp [step, hh, hok.labels s.pc hl', exec, applyOut]
      obtain ⟨j, hj, hend⟩ := ih (step sem env P s) s' (by rw [hpc]; omega) hs
      exact ⟨j + 1, hj, hend⟩

theorem run_add (a b : Nat) (s : St R V) : run sem env P (a + b) s = run sem env P b (run sem env P a s) := by
  induction a generalizing s with
  | zero => simp [run]
  | succ n ih => rw [Nat.succ_add]; simp [run, ih]

/-- **every state of the stripped program is a state of the labelled one**, reached in at least as many steps -/
theorem strip_sim_bwd (hok : Ok sem lit L P) : ∀ (k : Nat) (s s' : St R V), Sim L s s' →
    ∃ m, k ≤ m ∧ Sim L (run sem env P m s) (run sem env (strip sem lit L P) k s') := by
  intro k
  induction k with
  | zero => intro s s' h; exact ⟨0, Nat.le_refl 0, h⟩
  | succ k ih =>
    intro s s' h
    obtain ⟨j, hj, hend⟩ := skip_labels sem lit L env P hok (P.length - s.pc) s s' (Nat.le_refl _) h
    have hs := step_kept sem lit L env P hok _ s' hj hend
    obtain ⟨m, hm, hfin⟩ := ih _ _ hs
    refine ⟨j + (1 + m), by omega, ?_⟩
    rw [run_add, run_add]
    exact hfin

/-- **label removal preserves behaviour**: the effect traces of the two programs are the same, step for step up to the
    steps spent on label lines -/
theorem strip_traces (hok : Ok sem lit L P) (s s' : St R V) (h : Sim L s s') :
    (∀ m, ∃ k, k ≤ m ∧ (run sem env P m s).trace = (run sem env (strip sem lit L P) k s').trace ∧
        (run sem env P m s).halted = (run sem env (strip sem lit L P) k s').halted) ∧
    (∀ k, ∃ m, k ≤ m ∧ (run sem env P m s).trace = (run sem env (strip sem lit L P) k s').trace ∧
        (run sem env P m s).halted = (run sem env (strip sem lit L P) k s').halted) := by
  constructor
  · intro m
    obtain ⟨k, hk, hs⟩ := strip_sim_fwd sem lit L env P hok m s s' h
    exact ⟨k, hk, hs.trace.symm, hs.halted.symm⟩
  · intro k
    obtain ⟨m, hm, hs⟩ := strip_sim_bwd sem lit L env P hok k s s' h
    exact ⟨m, hm, hs.trace.symm, hs.halted.symm⟩

end
end PV.Strip
