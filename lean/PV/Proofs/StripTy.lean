import PV.Model.StripTy
import PV.Proofs.Strip
/-!
Label removal preserves behaviour — programs with calls.

`SimT T s s'`: the labelled program's state `s` and the label-free program's state `s'` agree on every register and stack
cell that `T` does not mark, hold the line numbers `a` / `rho L a` in the marked ones, have the same effects and halting, and
`s'` is at line `rho L s.pc`.  `step_kept_typed`: a step that `tyStep` accepts preserves the relation (with the new typing).
`strip_sim_typed`: along a run whose typing never fails (`tyRun … ≠ none`, evaluated by the driver on the runs it performs)
the two programs stay related: same effect traces, same halting.
-/
namespace PV.Strip
open PV.IC10
set_option linter.unusedSectionVars false
set_option linter.unusedVariables false

section
variable {R V : Type} [DecidableEq R] [Special R]
variable (sem : Sem V) (L : Nat → Bool)

/-- equal values, or the same line number in the two numberings -/
def VR (b : Bool) (v v' : V) : Prop :=
  if b then ∃ a, v = sem.ofNat a ∧ v' = sem.ofNat (rho L a) else v' = v

theorem VR_false (v v' : V) : VR sem L false v v' ↔ v' = v := by simp [VR]
theorem VR_true (v v' : V) : VR sem L true v v' ↔ ∃ a, v = sem.ofNat a ∧ v' = sem.ofNat (rho L a) := by simp [VR]

structure SimT (T : Ty R) (s s' : St R V) : Prop where
  regs : ∀ r, VR sem L (T.reg r) (s.regs r) (s'.regs r)
  mem : ∀ n, VR sem L (T.mem n) (s.mem n) (s'.mem n)
  trace : s'.trace = s.trace
  halted : s'.halted = s.halted
  pc : s'.pc = rho L s.pc
  sp : T.reg Special.sp = false

/-- outcomes of the same instruction in the two programs -/
structure OutRel (bd bm : Bool) (o o' : Out V) : Prop where
  dst : (o.dst = none ∧ o'.dst = none) ∨ (∃ v v', o.dst = some v ∧ o'.dst = some v' ∧ VR sem L bd v v')
  sp : o'.sp = o.sp
  ra : (o.ra = none ∧ o'.ra = none) ∨ (∃ a, o.ra = some (sem.ofNat a) ∧ o'.ra = some (sem.ofNat (rho L a)))
  mem : (o.mem = none ∧ o'.mem = none) ∨ (∃ n v v', o.mem = some (n, v) ∧ o'.mem = some (n, v') ∧ VR sem L bm v v')
  effs : o'.effs = o.effs
  next : o'.next = mapNext L o.next

/-- the typing after an outcome -/
def tyAfter (T : Ty R) (dst : Option R) (bd bm : Bool) (o : Out V) : Ty R :=
  let T1 := if o.ra.isSome then T.setReg Special.ra true else T
  let T2 := match dst, o.dst with
    | some d, some _ => T1.setReg d bd
    | _, _ => T1
  match o.mem with
  | some (n, _) => T2.setMem n bm
  | none => T2

theorem writeBack_VR (hsp : (Special.sp : R) ≠ Special.ra) (T : Ty R) (f f' : R → V) (hT : T.reg Special.sp = false)
    (hf : ∀ r, VR sem L (T.reg r) (f r) (f' r)) (dst : Option R) (bd bm : Bool) (o o' : Out V) (h : OutRel sem L bd bm o o') :
    ∀ r, VR sem L ((tyAfter T dst bd bm o).reg r) (writeBack f dst o r) (writeBack f' dst o' r) := by
  intro r
  have hmemreg : (tyAfter T dst bd bm o).reg r =
      (match dst, o.dst with
        | some d, some _ => (if o.ra.isSome then T.setReg Special.ra true else T).setReg d bd
        | _, _ => (if o.ra.isSome then T.setReg Special.ra true else T)).reg r := by
    unfold tyAfter
    cases o.mem with
    | none => rfl
    | some p => rfl
  rw [hmemreg]
  obtain ⟨hd, hs, hr, _, _, _⟩ := h
  -- the register file after `sp` and `ra`
  have h2 : ∀ x, VR sem L ((if o.ra.isSome then T.setReg Special.ra true else T).reg x)
      (updOpt (updOpt f Special.sp o.sp) Special.ra o.ra x) (updOpt (updOpt f' Special.sp o'.sp) Special.ra o'.ra x) := by
    intro x
    rw [hs]
    rcases hr with ⟨hr1, hr2⟩ | ⟨a, hr1, hr2⟩
    · rw [hr1, hr2]
      simp only [Option.isSome_none, Bool.false_eq_true, if_false, updOpt]
      cases hos : o.sp with
      | none => simpa [updOpt] using hf x
      | some v =>
        simp only [updOpt, upd]
        by_cases hx : x = Special.sp
        · subst hx; simp [hT, VR]
        · simpa [hx] using hf x
    · rw [hr1, hr2]
      simp only [Option.isSome_some, if_true, updOpt, upd, Ty.setReg]
      by_cases hx : x = Special.ra
      · subst hx; simp only [if_true]; exact (VR_true sem L _ _).mpr ⟨a, rfl, rfl⟩
      · simp only [hx, if_false]
        cases hos : o.sp with
        | none => simpa [updOpt] using hf x
        | some v =>
          simp only [updOpt, upd]
          by_cases hx2 : x = Special.sp
          · subst hx2; simp [hT, VR]
          · simpa [hx2] using hf x
  unfold writeBack
  cases dst with
  | none => exact h2 r
  | some d =>
    rcases hd with ⟨hd1, hd2⟩ | ⟨v, v', hd1, hd2, hv⟩
    · rw [hd1, hd2]; simpa using h2 r
    · rw [hd1, hd2]
      by_cases hx : r = d
      · subst hx
        have e1 : ((if o.ra.isSome then T.setReg Special.ra true else T).setReg r bd).reg r = bd := by simp [Ty.setReg]
        show VR sem L (((if o.ra.isSome then T.setReg Special.ra true else T).setReg r bd).reg r) _ _
        rw [e1]
        simpa [upd] using hv
      · have e1 : ((if o.ra.isSome then T.setReg Special.ra true else T).setReg d bd).reg r =
            (if o.ra.isSome then T.setReg Special.ra true else T).reg r := by simp [Ty.setReg, hx]
        show VR sem L (((if o.ra.isSome then T.setReg Special.ra true else T).setReg d bd).reg r) _ _
        rw [e1]
        simpa [upd, hx] using h2 r

theorem applyOut_simT (hsp : (Special.sp : R) ≠ Special.ra) (T : Ty R) (s s' : St R V) (h : SimT sem L T s s') (hl : L s.pc = false)
    (dst : Option R) (bd bm : Bool) (o o' : Out V) (ho : OutRel sem L bd bm o o')
    (hspd : (tyAfter T dst bd bm o).reg Special.sp = false) :
    SimT sem L (tyAfter T dst bd bm o) (applyOut s dst o) (applyOut s' dst o') := by
  have hregs := writeBack_VR sem L hsp T s.regs s'.regs h.sp h.regs dst bd bm o o' ho
  have hmem : ∀ n, VR sem L ((tyAfter T dst bd bm o).mem n)
      ((match o.mem with | some (a, v) => updMem s.mem a v | none => s.mem) n)
      ((match o'.mem with | some (a, v) => updMem s'.mem a v | none => s'.mem) n) := by
    intro n
    rcases ho.mem with ⟨hm1, hm2⟩ | ⟨a, v, v', hm1, hm2, hv⟩
    · rw [hm1, hm2]
      have : (tyAfter T dst bd bm o).mem n = T.mem n := by
        unfold tyAfter; rw [hm1]
        cases dst <;> cases o.dst <;> cases o.ra <;> simp [Ty.setReg]
      rw [this]; exact h.mem n
    · rw [hm1, hm2]
      have : (tyAfter T dst bd bm o).mem n = if n = a then bm else T.mem n := by
        unfold tyAfter; rw [hm1]
        cases dst <;> cases o.dst <;> cases o.ra <;> simp [Ty.setReg, Ty.setMem]
      rw [this]
      simp only [updMem]
      by_cases hn : n = a
      · subst hn; simpa using hv
      · simpa [hn] using h.mem n
  have hnext := ho.next
  have heffs := ho.effs
  cases hn : o.next with
  | seq =>
    rw [hn] at hnext
    simp only [applyOut, hn, hnext, mapNext, heffs, h.trace, h.pc]
    exact ⟨hregs, hmem, rfl, rfl, (rho_succ_kept L s.pc hl).symm, hspd⟩
  | jump n =>
    rw [hn] at hnext
    simp only [applyOut, hn, hnext, mapNext, heffs, h.trace, h.pc]
    exact ⟨hregs, hmem, rfl, rfl, rfl, hspd⟩
  | halt =>
    rw [hn] at hnext
    simp only [applyOut, hn, hnext, mapNext, heffs, h.trace, h.pc]
    exact ⟨hregs, hmem, rfl, rfl, rfl, hspd⟩
  | fault w =>
    rw [hn] at hnext
    simp only [applyOut, hn, hnext, mapNext, heffs, h.trace, h.pc]
    exact ⟨hregs, hmem, rfl, rfl, rfl, hspd⟩

/-! ### one instruction under a typing -/

section instr
variable (lit : Nat → V) (env : Env V)

theorem opnd_VR (T : Ty R) (f f' : R → V) (hf : ∀ r, VR sem L (T.reg r) (f r) (f' r)) (o : Opnd R V) :
    VR sem L (opTy T o) (o.eval f) (o.eval f') := by
  cases o with
  | reg r => exact hf r
  | num v => simp [opTy, Opnd.eval, VR]

theorem opnd_untyped (T : Ty R) (f f' : R → V) (hf : ∀ r, VR sem L (T.reg r) (f r) (f' r)) (o : Opnd R V) (h : opTy T o = false) :
    o.eval f' = o.eval f := by
  have := opnd_VR sem L T f f' hf o
  rw [h] at this
  exact (VR_false sem L _ _).mp this

theorem args_untyped (T : Ty R) (f f' : R → V) (hf : ∀ r, VR sem L (T.reg r) (f r) (f' r)) :
    ∀ (args : List (Opnd R V)), useOk T args = true → args.map (Opnd.eval f') = args.map (Opnd.eval f) := by
  intro args
  induction args with
  | nil => intro _; rfl
  | cons o rest ih =>
    intro h
    simp only [useOk, List.all_cons, Bool.and_eq_true, Bool.not_eq_true'] at h
    simp only [List.map_cons]
    rw [opnd_untyped sem L T f f' hf o h.1, ih (by simpa [useOk] using h.2)]

theorem useOk_front (T : Ty R) (front : List (Opnd R V)) (x : Opnd R V) (h : useOk T (front ++ [x]) = true) : useOk T front = true := by
  simp only [useOk, List.all_append, Bool.and_eq_true] at h ⊢
  exact h.1

theorem tyAfter_plain (T : Ty R) (dst : Option R) (bd bm : Bool) (o : Out V) (hra : o.ra = none) (hm : o.mem = none) (hd : o.dst = none) :
    tyAfter T dst bd bm o = T := by
  unfold tyAfter
  rw [hra, hm, hd]
  cases dst <;> rfl

/-- the relation between the outcomes of one well-typed instruction in the two programs, and the typing afterwards -/
theorem exec_rel (hsp : (Special.sp : R) ≠ Special.ra) (hlit : ∀ n, sem.toAddr (lit n) = some n) (hof : ∀ n, sem.toAddr (sem.ofNat n) = some n)
    (T T' : Ty R) (s s' : St R V) (h : SimT sem L T s s') (hl : L s.pc = false) (i : Instr R V)
    (ht : tyStep sem T s i = some T') :
    ∃ bd bm, OutRel sem L bd bm (exec sem env i.kind (i.args.map (Opnd.eval s.regs)) (s.regs Special.sp) s.pc s.mem s.trace)
        (exec sem env i.kind ((renum sem lit L i).args.map (Opnd.eval s'.regs)) (s'.regs Special.sp) s'.pc s'.mem s'.trace) ∧
      tyAfter T i.dst bd bm (exec sem env i.kind (i.args.map (Opnd.eval s.regs)) (s.regs Special.sp) s.pc s.mem s.trace) = T' ∧
      T'.reg Special.sp = false := by
  have hspv : s'.regs Special.sp = s.regs Special.sp := by
    have := h.regs Special.sp
    rw [h.sp] at this
    exact (VR_false sem L _ _).mp this
  have htr : s'.trace = s.trace := h.trace
  have hTsp := h.sp
  obtain ⟨k, d, args⟩ := i
  simp only [tyStep, hTsp, Bool.false_eq_true, if_false] at ht
  have plain : ∀ (o : Out V), o.ra = none → o.mem = none → o.sp = none → o.dst = none → (o.next = .seq ∨ (∃ w, o.next = .fault w) ∨ o.next = .halt) →
      OutRel sem L false false o o := by
    intro o h1 h2 h3 h4 h5
    refine ⟨Or.inl ⟨h4, h4⟩, rfl, Or.inl ⟨h1, h1⟩, Or.inl ⟨h2, h2⟩, rfl, ?_⟩
    rcases h5 with h5 | ⟨w, h5⟩ | h5 <;> rw [h5] <;> rfl
  cases k with
  | alu op =>
    simp only at ht
    split at ht
    · rename_i hu
      injection ht with ht; subst ht
      have hv := args_untyped sem L T s.regs s'.regs h.regs args hu
      simp only [renum, isDirect, Bool.false_eq_true, if_false, exec, hv]
      refine ⟨false, false, ⟨Or.inr ⟨_, _, rfl, rfl, (VR_false sem L _ _).mpr rfl⟩, rfl, Or.inl ⟨rfl, rfl⟩, Or.inl ⟨rfl, rfl⟩, rfl, rfl⟩, ?_, ?_⟩
      · cases d <;> rfl
      · cases d with
        | none => exact hTsp
        | some d' => simp only [Ty.setDst, Ty.setReg]; split <;> simp [hTsp]
    · cases ht
  | load q =>
    simp only at ht
    split at ht
    · rename_i hu
      injection ht with ht; subst ht
      have hv := args_untyped sem L T s.regs s'.regs h.regs args hu
      simp only [renum, isDirect, Bool.false_eq_true, if_false, exec, hv, htr]
      refine ⟨false, false, ⟨Or.inr ⟨_, _, rfl, rfl, (VR_false sem L _ _).mpr rfl⟩, rfl, Or.inl ⟨rfl, rfl⟩, Or.inl ⟨rfl, rfl⟩, rfl, rfl⟩, ?_, ?_⟩
      · cases d <;> rfl
      · cases d with
        | none => exact hTsp
        | some d' => simp only [Ty.setDst, Ty.setReg]; split <;> simp [hTsp]
    · cases ht
  | store q =>
    simp only at ht
    split at ht
    · rename_i hu
      injection ht with ht; subst ht
      have hv := args_untyped sem L T s.regs s'.regs h.regs args hu
      simp only [renum, isDirect, Bool.false_eq_true, if_false, exec, hv]
      exact ⟨false, false, ⟨Or.inl ⟨rfl, rfl⟩, rfl, Or.inl ⟨rfl, rfl⟩, Or.inl ⟨rfl, rfl⟩, rfl, rfl⟩, tyAfter_plain T d _ _ _ rfl rfl rfl, hTsp⟩
    · cases ht
  | yield =>
    simp only at ht
    split at ht
    · injection ht with ht; subst ht
      simp only [renum, isDirect, Bool.false_eq_true, if_false, exec]
      exact ⟨false, false, ⟨Or.inl ⟨rfl, rfl⟩, rfl, Or.inl ⟨rfl, rfl⟩, Or.inl ⟨rfl, rfl⟩, rfl, rfl⟩, tyAfter_plain T d _ _ _ rfl rfl rfl, hTsp⟩
    · cases ht
  | sleep =>
    simp only at ht
    split at ht
    · rename_i hu
      injection ht with ht; subst ht
      have hv := args_untyped sem L T s.regs s'.regs h.regs args hu
      simp only [renum, isDirect, Bool.false_eq_true, if_false, exec, hv]
      exact ⟨false, false, ⟨Or.inl ⟨rfl, rfl⟩, rfl, Or.inl ⟨rfl, rfl⟩, Or.inl ⟨rfl, rfl⟩, rfl, rfl⟩, tyAfter_plain T d _ _ _ rfl rfl rfl, hTsp⟩
    · cases ht
  | hcf =>
    simp only at ht
    split at ht
    · injection ht with ht; subst ht
      simp only [renum, isDirect, Bool.false_eq_true, if_false, exec]
      exact ⟨false, false, ⟨Or.inl ⟨rfl, rfl⟩, rfl, Or.inl ⟨rfl, rfl⟩, Or.inl ⟨rfl, rfl⟩, rfl, rfl⟩, tyAfter_plain T d _ _ _ rfl rfl rfl, hTsp⟩
    · cases ht
  | nop =>
    simp only at ht
    split at ht
    · injection ht with ht; subst ht
      simp only [renum, isDirect, Bool.false_eq_true, if_false, exec]
      exact ⟨false, false, ⟨Or.inl ⟨rfl, rfl⟩, rfl, Or.inl ⟨rfl, rfl⟩, Or.inl ⟨rfl, rfl⟩, rfl, rfl⟩, tyAfter_plain T d _ _ _ rfl rfl rfl, hTsp⟩
    · cases ht
  | bad w =>
    simp only at ht
    split at ht
    · injection ht with ht; subst ht
      simp only [renum, isDirect, Bool.false_eq_true, if_false, exec]
      exact ⟨false, false, ⟨Or.inl ⟨rfl, rfl⟩, rfl, Or.inl ⟨rfl, rfl⟩, Or.inl ⟨rfl, rfl⟩, rfl, rfl⟩, tyAfter_plain T d _ _ _ rfl rfl rfl, hTsp⟩
    · cases ht
  | brr c => simp at ht
  | br c =>
    simp only at ht
    split at ht
    · rename_i hu
      injection ht with ht; subst ht
      simp only [Bool.and_eq_true] at hu
      obtain ⟨front, v, t, e, hta, er⟩ := lastIsLine_spec sem lit L args hu.2
      subst e
      have hv := args_untyped sem L T s.regs s'.regs h.regs front (useOk_front T front _ hu.1)
      simp only [renum, isDirect, if_true, er, exec, List.map_append, List.map_cons, List.map_nil, Opnd.eval, dropLast_snoc, getLastD_snoc, hv]
      refine ⟨false, false, ?_, ?_, hTsp⟩
      · split
        · exact ⟨Or.inl ⟨rfl, rfl⟩, rfl, Or.inl ⟨rfl, rfl⟩, Or.inl ⟨rfl, rfl⟩, rfl, by simp [target, hta, hlit, mapNext]⟩
        · exact ⟨Or.inl ⟨rfl, rfl⟩, rfl, Or.inl ⟨rfl, rfl⟩, Or.inl ⟨rfl, rfl⟩, rfl, rfl⟩
      · split <;> exact tyAfter_plain T d _ _ _ rfl rfl rfl
    · cases ht
  | brq q neg =>
    simp only at ht
    split at ht
    · rename_i hu
      injection ht with ht; subst ht
      simp only [Bool.and_eq_true] at hu
      obtain ⟨front, v, t, e, hta, er⟩ := lastIsLine_spec sem lit L args hu.2
      subst e
      have hv := args_untyped sem L T s.regs s'.regs h.regs front (useOk_front T front _ hu.1)
      simp only [renum, isDirect, if_true, er, exec, List.map_append, List.map_cons, List.map_nil, Opnd.eval, dropLast_snoc, getLastD_snoc, hv, htr]
      refine ⟨false, false, ?_, ?_, hTsp⟩
      · split
        · exact ⟨Or.inl ⟨rfl, rfl⟩, rfl, Or.inl ⟨rfl, rfl⟩, Or.inl ⟨rfl, rfl⟩, rfl, by simp [target, hta, hlit, mapNext]⟩
        · exact ⟨Or.inl ⟨rfl, rfl⟩, rfl, Or.inl ⟨rfl, rfl⟩, Or.inl ⟨rfl, rfl⟩, rfl, rfl⟩
      · split <;> exact tyAfter_plain T d _ _ _ rfl rfl rfl
    · cases ht
  | jmp =>
    simp only at ht
    match args, ht with
    | [.num v], ht =>
      simp only at ht
      split at ht
      · rename_i hu
        injection ht with ht; subst ht
        obtain ⟨t, hta⟩ := Option.isSome_iff_exists.mp hu
        simp only [renum, isDirect, if_true, renumLast, renumOpnd, hta, exec, List.map_cons, List.map_nil, Opnd.eval, List.headD_cons]
        exact ⟨false, false, ⟨Or.inl ⟨rfl, rfl⟩, rfl, Or.inl ⟨rfl, rfl⟩, Or.inl ⟨rfl, rfl⟩, rfl, by simp [target, hta, hlit, mapNext]⟩,
          tyAfter_plain T d _ _ _ rfl rfl rfl, hTsp⟩
      · cases ht
    | [.reg r], ht =>
      simp only at ht
      split at ht
      · rename_i hu
        injection ht with ht; subst ht
        have hr := h.regs r
        rw [hu] at hr
        obtain ⟨a, ha, ha'⟩ := (VR_true sem L _ _).mp hr
        simp only [renum, isDirect, if_true, renumLast, renumOpnd, exec, List.map_cons, List.map_nil, Opnd.eval, List.headD_cons, ha, ha']
        exact ⟨false, false, ⟨Or.inl ⟨rfl, rfl⟩, rfl, Or.inl ⟨rfl, rfl⟩, Or.inl ⟨rfl, rfl⟩, rfl, by simp [target, hof, mapNext]⟩,
          tyAfter_plain T d _ _ _ rfl rfl rfl, hTsp⟩
      · cases ht
  | jal =>
    simp only at ht
    match args, ht with
    | [.num v], ht =>
      simp only at ht
      split at ht
      · rename_i hu
        injection ht with ht; subst ht
        obtain ⟨t, hta⟩ := Option.isSome_iff_exists.mp hu
        simp only [renum, isDirect, if_true, renumLast, renumOpnd, hta, exec, List.map_cons, List.map_nil, Opnd.eval, List.headD_cons]
        refine ⟨false, false, ⟨Or.inl ⟨rfl, rfl⟩, rfl, Or.inr ⟨s.pc + 1, rfl, ?_⟩, Or.inl ⟨rfl, rfl⟩, rfl, by simp [target, hta, hlit, mapNext]⟩, ?_, ?_⟩
        · rw [h.pc, rho_succ_kept L s.pc hl]
        · unfold tyAfter
          cases d <;> rfl
        · simp [Ty.setReg, hsp, hTsp]
      · cases ht
  | push =>
    simp only at ht
    match args, ht with
    | [o], ht =>
      simp only at ht
      simp only [renum, isDirect, Bool.false_eq_true, if_false, exec, hspv, List.map_cons, List.map_nil, List.headD_cons]
      cases hta : sem.toAddr (s.regs Special.sp) with
      | none =>
        rw [hta] at ht
        injection ht with ht; subst ht
        exact ⟨false, false, plain _ rfl rfl rfl rfl (Or.inr (Or.inl ⟨_, rfl⟩)), tyAfter_plain T d _ _ _ rfl rfl rfl, hTsp⟩
      | some a =>
        rw [hta] at ht
        simp only at ht
        by_cases ha : a < stackSize
        · rw [if_pos ha] at ht
          injection ht with ht; subst ht
          simp only [if_pos ha]
          refine ⟨false, opTy T o, ⟨Or.inl ⟨rfl, rfl⟩, rfl, Or.inl ⟨rfl, rfl⟩, Or.inr ⟨a, _, _, rfl, rfl, opnd_VR sem L T s.regs s'.regs h.regs o⟩, rfl, rfl⟩, ?_, ?_⟩
          · unfold tyAfter; cases d <;> rfl
          · exact hTsp
        · rw [if_neg ha] at ht
          injection ht with ht; subst ht
          simp only [if_neg ha]
          exact ⟨false, false, plain _ rfl rfl rfl rfl (Or.inr (Or.inl ⟨_, rfl⟩)), tyAfter_plain T d _ _ _ rfl rfl rfl, hTsp⟩
  | pop =>
    simp only at ht
    simp only [renum, isDirect, Bool.false_eq_true, if_false, exec, hspv]
    cases d with
    | none =>
      injection ht with ht; subst ht
      -- no destination: only `sp` moves (or the chip faults)
      cases hta : sem.toAddr (s.regs Special.sp) with
      | none => exact ⟨false, false, plain _ rfl rfl rfl rfl (Or.inr (Or.inl ⟨_, rfl⟩)), tyAfter_plain T none _ _ _ rfl rfl rfl, hTsp⟩
      | some a1 =>
        cases a1 with
        | zero => exact ⟨false, false, plain _ rfl rfl rfl rfl (Or.inr (Or.inl ⟨_, rfl⟩)), tyAfter_plain T none _ _ _ rfl rfl rfl, hTsp⟩
        | succ a =>
          simp only
          by_cases ha : a < stackSize
          · simp only [if_pos ha]
            refine ⟨T.mem a, false, ⟨Or.inr ⟨_, _, rfl, rfl, h.mem a⟩, rfl, Or.inl ⟨rfl, rfl⟩, Or.inl ⟨rfl, rfl⟩, rfl, rfl⟩, ?_, hTsp⟩
            unfold tyAfter; rfl
          · simp only [if_neg ha]
            exact ⟨false, false, plain _ rfl rfl rfl rfl (Or.inr (Or.inl ⟨_, rfl⟩)), tyAfter_plain T none _ _ _ rfl rfl rfl, hTsp⟩
    | some d' =>
      simp only at ht
      by_cases hd : d' = Special.sp
      · rw [if_pos hd] at ht; cases ht
      · rw [if_neg hd] at ht
        cases hta : sem.toAddr (s.regs Special.sp) with
        | none =>
          rw [hta] at ht; injection ht with ht; subst ht
          exact ⟨false, false, plain _ rfl rfl rfl rfl (Or.inr (Or.inl ⟨_, rfl⟩)), tyAfter_plain T _ _ _ _ rfl rfl rfl, hTsp⟩
        | some a1 =>
          rw [hta] at ht
          cases a1 with
          | zero =>
            injection ht with ht; subst ht
            exact ⟨false, false, plain _ rfl rfl rfl rfl (Or.inr (Or.inl ⟨_, rfl⟩)), tyAfter_plain T _ _ _ _ rfl rfl rfl, hTsp⟩
          | succ a =>
            simp only at ht ⊢
            by_cases ha : a < stackSize
            · rw [if_pos ha] at ht
              injection ht with ht; subst ht
              simp only [if_pos ha]
              refine ⟨T.mem a, false, ⟨Or.inr ⟨_, _, rfl, rfl, h.mem a⟩, rfl, Or.inl ⟨rfl, rfl⟩, Or.inl ⟨rfl, rfl⟩, rfl, rfl⟩, ?_, ?_⟩
              · unfold tyAfter; rfl
              · simp [Ty.setReg, Ne.symm hd, hTsp]
            · rw [if_neg ha] at ht
              injection ht with ht; subst ht
              simp only [if_neg ha]
              exact ⟨false, false, plain _ rfl rfl rfl rfl (Or.inr (Or.inl ⟨_, rfl⟩)), tyAfter_plain T _ _ _ _ rfl rfl rfl, hTsp⟩
  | peek =>
    simp only at ht
    simp only [renum, isDirect, Bool.false_eq_true, if_false, exec, hspv]
    cases d with
    | none =>
      injection ht with ht; subst ht
      cases hta : sem.toAddr (s.regs Special.sp) with
      | none => exact ⟨false, false, plain _ rfl rfl rfl rfl (Or.inr (Or.inl ⟨_, rfl⟩)), tyAfter_plain T none _ _ _ rfl rfl rfl, hTsp⟩
      | some a1 =>
        cases a1 with
        | zero => exact ⟨false, false, plain _ rfl rfl rfl rfl (Or.inr (Or.inl ⟨_, rfl⟩)), tyAfter_plain T none _ _ _ rfl rfl rfl, hTsp⟩
        | succ a =>
          simp only
          by_cases ha : a < stackSize
          · simp only [if_pos ha]
            refine ⟨T.mem a, false, ⟨Or.inr ⟨_, _, rfl, rfl, h.mem a⟩, rfl, Or.inl ⟨rfl, rfl⟩, Or.inl ⟨rfl, rfl⟩, rfl, rfl⟩, ?_, hTsp⟩
            unfold tyAfter; rfl
          · simp only [if_neg ha]
            exact ⟨false, false, plain _ rfl rfl rfl rfl (Or.inr (Or.inl ⟨_, rfl⟩)), tyAfter_plain T none _ _ _ rfl rfl rfl, hTsp⟩
    | some d' =>
      simp only at ht
      by_cases hd : d' = Special.sp
      · rw [if_pos hd] at ht; cases ht
      · rw [if_neg hd] at ht
        cases hta : sem.toAddr (s.regs Special.sp) with
        | none =>
          rw [hta] at ht; injection ht with ht; subst ht
          exact ⟨false, false, plain _ rfl rfl rfl rfl (Or.inr (Or.inl ⟨_, rfl⟩)), tyAfter_plain T _ _ _ _ rfl rfl rfl, hTsp⟩
        | some a1 =>
          rw [hta] at ht
          cases a1 with
          | zero =>
            injection ht with ht; subst ht
            exact ⟨false, false, plain _ rfl rfl rfl rfl (Or.inr (Or.inl ⟨_, rfl⟩)), tyAfter_plain T _ _ _ _ rfl rfl rfl, hTsp⟩
          | succ a =>
            simp only at ht ⊢
            by_cases ha : a < stackSize
            · rw [if_pos ha] at ht
              injection ht with ht; subst ht
              simp only [if_pos ha]
              refine ⟨T.mem a, false, ⟨Or.inr ⟨_, _, rfl, rfl, h.mem a⟩, rfl, Or.inl ⟨rfl, rfl⟩, Or.inl ⟨rfl, rfl⟩, rfl, rfl⟩, ?_, ?_⟩
              · unfold tyAfter; rfl
              · simp [Ty.setReg, Ne.symm hd, hTsp]
            · rw [if_neg ha] at ht
              injection ht with ht; subst ht
              simp only [if_neg ha]
              exact ⟨false, false, plain _ rfl rfl rfl rfl (Or.inr (Or.inl ⟨_, rfl⟩)), tyAfter_plain T _ _ _ _ rfl rfl rfl, hTsp⟩
  | poke =>
    simp only at ht
    simp only [renum, isDirect, Bool.false_eq_true, if_false, exec]
    match args, ht with
    | [ao, vo], ht =>
      simp only at ht
      cases hao : opTy T ao with
      | true => rw [hao] at ht; simp at ht
      | false =>
        rw [hao] at ht
        simp only [Bool.false_eq_true, if_false] at ht
        have ea := opnd_untyped sem L T s.regs s'.regs h.regs ao hao
        simp only [List.map_cons, List.map_nil, ea]
        cases hta : sem.toAddr (ao.eval s.regs) with
        | none =>
          rw [hta] at ht; injection ht with ht; subst ht
          exact ⟨false, false, plain _ rfl rfl rfl rfl (Or.inr (Or.inl ⟨_, rfl⟩)), tyAfter_plain T _ _ _ _ rfl rfl rfl, hTsp⟩
        | some n =>
          rw [hta] at ht
          simp only at ht
          by_cases hn : n < stackSize
          · rw [if_pos hn] at ht
            injection ht with ht; subst ht
            simp only [if_pos hn]
            refine ⟨false, opTy T vo, ⟨Or.inl ⟨rfl, rfl⟩, rfl, Or.inl ⟨rfl, rfl⟩, Or.inr ⟨n, _, _, rfl, rfl, opnd_VR sem L T s.regs s'.regs h.regs vo⟩, rfl, rfl⟩, ?_, hTsp⟩
            unfold tyAfter; cases d <;> rfl
          · rw [if_neg hn] at ht
            injection ht with ht; subst ht
            simp only [if_neg hn]
            exact ⟨false, false, plain _ rfl rfl rfl rfl (Or.inr (Or.inl ⟨_, rfl⟩)), tyAfter_plain T _ _ _ _ rfl rfl rfl, hTsp⟩
    | [], ht =>
      simp only [useOk, List.all_nil, if_true] at ht
      injection ht with ht; subst ht
      exact ⟨false, false, plain _ rfl rfl rfl rfl (Or.inr (Or.inl ⟨_, rfl⟩)), tyAfter_plain T _ _ _ _ rfl rfl rfl, hTsp⟩
    | [x], ht =>
      simp only at ht
      split at ht
      · injection ht with ht; subst ht
        exact ⟨false, false, plain _ rfl rfl rfl rfl (Or.inr (Or.inl ⟨_, rfl⟩)), tyAfter_plain T _ _ _ _ rfl rfl rfl, hTsp⟩
      · cases ht
    | x :: y :: z :: rest, ht =>
      simp only at ht
      split at ht
      · injection ht with ht; subst ht
        exact ⟨false, false, plain _ rfl rfl rfl rfl (Or.inr (Or.inl ⟨_, rfl⟩)), tyAfter_plain T _ _ _ _ rfl rfl rfl, hTsp⟩
      · cases ht
  | getdb =>
    simp only at ht
    simp only [renum, isDirect, Bool.false_eq_true, if_false, exec]
    match args, ht with
    | [ao], ht =>
      simp only at ht
      cases hao : opTy T ao with
      | true => rw [hao] at ht; simp at ht
      | false =>
        rw [hao] at ht
        simp only [Bool.false_eq_true, if_false] at ht
        have ea := opnd_untyped sem L T s.regs s'.regs h.regs ao hao
        simp only [List.map_cons, List.map_nil, ea]
        cases d with
        | none =>
          injection ht with ht; subst ht
          cases hta : sem.toAddr (ao.eval s.regs) with
          | none => exact ⟨false, false, plain _ rfl rfl rfl rfl (Or.inr (Or.inl ⟨_, rfl⟩)), tyAfter_plain T none _ _ _ rfl rfl rfl, hTsp⟩
          | some n =>
            simp only
            by_cases hn : n < stackSize
            · simp only [if_pos hn]
              refine ⟨T.mem n, false, ⟨Or.inr ⟨_, _, rfl, rfl, h.mem n⟩, rfl, Or.inl ⟨rfl, rfl⟩, Or.inl ⟨rfl, rfl⟩, rfl, rfl⟩, ?_, hTsp⟩
              unfold tyAfter; rfl
            · simp only [if_neg hn]
              exact ⟨false, false, plain _ rfl rfl rfl rfl (Or.inr (Or.inl ⟨_, rfl⟩)), tyAfter_plain T none _ _ _ rfl rfl rfl, hTsp⟩
        | some d' =>
          simp only at ht
          by_cases hd : d' = Special.sp
          · rw [if_pos hd] at ht; cases ht
          · rw [if_neg hd] at ht
            cases hta : sem.toAddr (ao.eval s.regs) with
            | none =>
              rw [hta] at ht; injection ht with ht; subst ht
              exact ⟨false, false, plain _ rfl rfl rfl rfl (Or.inr (Or.inl ⟨_, rfl⟩)), tyAfter_plain T _ _ _ _ rfl rfl rfl, hTsp⟩
            | some n =>
              rw [hta] at ht
              simp only at ht ⊢
              by_cases hn : n < stackSize
              · rw [if_pos hn] at ht
                injection ht with ht; subst ht
                simp only [if_pos hn]
                refine ⟨T.mem n, false, ⟨Or.inr ⟨_, _, rfl, rfl, h.mem n⟩, rfl, Or.inl ⟨rfl, rfl⟩, Or.inl ⟨rfl, rfl⟩, rfl, rfl⟩, ?_, ?_⟩
                · unfold tyAfter; rfl
                · simp [Ty.setReg, Ne.symm hd, hTsp]
              · rw [if_neg hn] at ht
                injection ht with ht; subst ht
                simp only [if_neg hn]
                exact ⟨false, false, plain _ rfl rfl rfl rfl (Or.inr (Or.inl ⟨_, rfl⟩)), tyAfter_plain T _ _ _ _ rfl rfl rfl, hTsp⟩
    | [], ht =>
      simp only [useOk, List.all_nil, if_true] at ht
      injection ht with ht; subst ht
      exact ⟨false, false, plain _ rfl rfl rfl rfl (Or.inr (Or.inl ⟨_, rfl⟩)), tyAfter_plain T _ _ _ _ rfl rfl rfl, hTsp⟩
    | x :: y :: rest, ht =>
      simp only at ht
      split at ht
      · injection ht with ht; subst ht
        exact ⟨false, false, plain _ rfl rfl rfl rfl (Or.inr (Or.inl ⟨_, rfl⟩)), tyAfter_plain T _ _ _ _ rfl rfl rfl, hTsp⟩
      · cases ht

end instr

/-! ### steps and runs -/

section runs
variable (lit : Nat → V) (env : Env V) (P : List (Instr R V))

structure OkT : Prop where
  labels : ∀ i, L i = true → P[i]? = some ⟨.nop, none, []⟩
  lit : ∀ n, sem.toAddr (lit n) = some n
  ofNat : ∀ n, sem.toAddr (sem.ofNat n) = some n

theorem renum_kind (x : Instr R V) : (renum sem lit L x).kind = x.kind := by
  unfold renum; split <;> rfl

/-- a step on a label line: the label-free program waits, the typing stays -/
theorem step_label_typed (hok : OkT sem L lit P) (T : Ty R) (s s' : St R V) (h : SimT sem L T s s') (hh : s.halted = false)
    (hl : L s.pc = true) : SimT sem L T (step sem env P s) s' := by
  have hi := hok.labels s.pc hl
  obtain ⟨hr, hm, ht, hhalt, hp, hs⟩ := h
  simp only [step, hh, Bool.false_eq_true, if_false, hi, exec, applyOut, writeBack, updOpt, List.map_nil, List.nil_append]
  exact ⟨hr, hm, ht, by rw [hhalt, hh], by rw [hp, rho_succ_lab L s.pc hl], hs⟩

/-- a well-typed step on a kept line: both programs step and stay related under the new typing -/
theorem step_kept_typed (hsp : (Special.sp : R) ≠ Special.ra) (hok : OkT sem L lit P) (T T' : Ty R) (s s' : St R V)
    (h : SimT sem L T s s') (hh : s.halted = false) (hl : L s.pc = false) (i : Instr R V) (hi : P[s.pc]? = some i)
    (ht : tyStep sem T s i = some T') :
    SimT sem L T' (step sem env P s) (step sem env (strip sem lit L P) s') := by
  have hh' : s'.halted = false := by rw [h.halted, hh]
  have hq := strip_get sem lit L P s.pc i hi hl
  rw [← h.pc] at hq
  obtain ⟨bd, bm, hrel, hty, hsp'⟩ := exec_rel sem L lit env hsp hok.lit hok.ofNat T T' s s' h hl i ht
  have := applyOut_simT sem L hsp T s s' h hl i.dst bd bm _ _ hrel (by rw [hty]; exact hsp')
  rw [hty] at this
  simp only [step, hh, hh', Bool.false_eq_true, if_false, hi, hq, renum_dst, renum_kind]
  exact this

theorem run_halted (s : St R V) (hh : s.halted = true) : ∀ n, run sem env P n s = s := by
  intro n
  induction n with
  | zero => rfl
  | succ n ih =>
    show run sem env P n (step sem env P s) = s
    have : step sem env P s = s := by simp [step, hh]
    rw [this]; exact ih

/-- **label removal preserves behaviour along every well-typed run** (programs with calls included): if the typing of the
    first `m` steps of the labelled program never fails, the label-free program reaches a related state in at most `m` steps —
    same effect trace, same halting, registers and stack equal except for line numbers held where the typing says -/
theorem strip_sim_typed (hsp : (Special.sp : R) ≠ Special.ra) (hok : OkT sem L lit P) :
    ∀ (m : Nat) (T T'' : Ty R) (s s' : St R V), SimT sem L T s s' → tyRun sem env P L m s T = some T'' →
      ∃ k, k ≤ m ∧ SimT sem L T'' (run sem env P m s) (run sem env (strip sem lit L P) k s') := by
  intro m
  induction m with
  | zero =>
    intro T T'' s s' h ht
    simp only [tyRun, Option.some.injEq] at ht
    subst ht
    exact ⟨0, Nat.le_refl 0, h⟩
  | succ m ih =>
    intro T T'' s s' h ht
    cases hh : s.halted with
    | true =>
      simp only [tyRun, hh, if_true, Option.some.injEq] at ht
      subst ht
      rw [run_halted sem env P s hh]
      exact ⟨0, Nat.zero_le _, h⟩
    | false =>
      simp only [tyRun, hh, Bool.false_eq_true, if_false] at ht
      cases hi : P[s.pc]? with
      | none =>
        rw [hi] at ht
        simp only [Option.some.injEq] at ht
        subst ht
        have hh' : s'.halted = false := by rw [h.halted, hh]
        have hq := strip_get_none sem lit L P s.pc hi
        rw [← h.pc] at hq
        have e1 : step sem env P s = { s with halted := true } := by simp [step, hh, hi]
        have e2 : step sem env (strip sem lit L P) s' = { s' with halted := true } := by simp [step, hh', hq]
        refine ⟨1, by omega, ?_⟩
        show SimT sem L T (run sem env P m (step sem env P s)) (step sem env (strip sem lit L P) s')
        rw [e1, e2, run_halted sem env P _ rfl]
        exact ⟨h.regs, h.mem, h.trace, rfl, h.pc, h.sp⟩
      | some i =>
        rw [hi] at ht
        simp only at ht
        cases hl : L s.pc with
        | true =>
          rw [hl] at ht
          simp only [if_true] at ht
          obtain ⟨k, hk, hs⟩ := ih T T'' _ s' (step_label_typed sem L lit env P hok T s s' h hh hl) ht
          exact ⟨k, by omega, hs⟩
        | false =>
          rw [hl] at ht
          simp only [Bool.false_eq_true, if_false] at ht
          cases hts : tyStep sem T s i with
          | none => rw [hts] at ht; cases ht
          | some T' =>
            rw [hts] at ht
            simp only at ht
            obtain ⟨k, hk, hs⟩ := ih T' T'' _ _ (step_kept_typed sem L lit env P hsp hok T T' s s' h hh hl i hi hts) ht
            exact ⟨k + 1, by omega, hs⟩

/-- the observable part: same effect trace, same halting -/
theorem strip_traces_typed (hsp : (Special.sp : R) ≠ Special.ra) (hok : OkT sem L lit P) (regs : R → V) (mem : Nat → V) (m : Nat)
    (hwt : (tyRun sem env P L m (⟨regs, mem, 0, [], false⟩ : St R V) Ty.none).isSome = true) :
    ∃ k, k ≤ m ∧
      (run sem env (strip sem lit L P) k ⟨regs, mem, 0, [], false⟩).trace = (run sem env P m ⟨regs, mem, 0, [], false⟩).trace ∧
      (run sem env (strip sem lit L P) k ⟨regs, mem, 0, [], false⟩).halted = (run sem env P m ⟨regs, mem, 0, [], false⟩).halted := by
  obtain ⟨T'', hT⟩ := Option.isSome_iff_exists.mp hwt
  have h0 : SimT sem L (Ty.none : Ty R) (⟨regs, mem, 0, [], false⟩ : St R V) ⟨regs, mem, 0, [], false⟩ :=
    ⟨fun r => by simp [Ty.none, VR], fun n => by simp [Ty.none, VR], rfl, rfl, rfl, rfl⟩
  obtain ⟨k, hk, hs⟩ := strip_sim_typed sem L lit env P hsp hok m Ty.none T'' _ _ h0 hT
  exact ⟨k, hk, hs.trace, hs.halted⟩

end runs

end
end PV.Strip
