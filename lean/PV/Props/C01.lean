import PV.Gen.Tables
/-!
# C01 — compiled IC10 behaves like the source   (partial)

Proved here, over the tables regenerated from utils.py on every run:
* `branch_neg_correct` — the branch emitted for `if a <op> b:` / `while a <op> b:` (`b‹negated suffix›`, jumping
  to the else / end label) is taken exactly when the source condition is false — every comparison operator, all values
  of any linear order (NaN is outside the model);
* `cmp_set_correct` — the `s‹suffix›` instruction computes the source comparison;
* `negate_involutive` — negating twice gives the operator back (used for `if not a <op> b`).
The whole-program statement (equal effect traces of source and emitted code) is established for a core sub-language in
`PV.Props.C01Core` and explored by the executable oracle (`harness/c01.py`) beyond it.
-/
namespace PV.Props.C01
open PV.Gen

/-- meaning of a Python comparison operator on a linear order -/
def pyCmp (op : String) (a b : Int) : Option Bool :=
  match op with
  | "==" => some (decide (a = b))
  | "!=" => some (decide (a ≠ b))
  | "<" => some (decide (a < b))
  | "<=" => some (decide (a ≤ b))
  | ">" => some (decide (a > b))
  | ">=" => some (decide (a ≥ b))
  | _ => none

/-- meaning of an IC10 condition suffix (`beq`, `bne`, `blt`, … / `seq`, `sne`, …) -/
def icCond (suffix : String) (a b : Int) : Option Bool :=
  match suffix with
  | "eq" => some (decide (a = b))
  | "ne" => some (decide (a ≠ b))
  | "lt" => some (decide (a < b))
  | "le" => some (decide (a ≤ b))
  | "gt" => some (decide (a > b))
  | "ge" => some (decide (a ≥ b))
  | _ => none

/-- both tables have exactly one row for each of the six comparison operators (in whatever order the source lists them) -/
theorem tables_cover :
    (∀ op ∈ ["==", "!=", "<", "<=", ">", ">="], op ∈ cmpSuffix.map (·.1) ∧ op ∈ negCmpSuffix.map (·.1)) ∧
    (∀ op ∈ cmpSuffix.map (·.1), op ∈ ["==", "!=", "<", "<=", ">", ">="]) ∧
    (∀ op ∈ negCmpSuffix.map (·.1), op ∈ ["==", "!=", "<", "<=", ">", ">="]) ∧
    cmpSuffix.length = 6 ∧ negCmpSuffix.length = 6 := by decide

/-- **the set instruction computes the comparison**: for every row `(op, suffix)` of `get_comparison_suffix` -/
theorem cmp_set_correct (op suffix : String) (h : (op, suffix) ∈ cmpSuffix) (a b : Int) :
    ∃ c, pyCmp op a b = some c ∧ icCond suffix a b = some c := by
  simp only [cmpSuffix, List.mem_cons, Prod.mk.injEq, List.mem_nil_iff, or_false] at h
  rcases h with ⟨rfl, rfl⟩ | ⟨rfl, rfl⟩ | ⟨rfl, rfl⟩ | ⟨rfl, rfl⟩ | ⟨rfl, rfl⟩ | ⟨rfl, rfl⟩ <;>
    simp only [icCond, pyCmp] <;> exact ⟨_, rfl, rfl⟩

/-- **the emitted branch is taken exactly when the source condition is false**: for every row `(op, suffix)` of
    `get_negated_comparison_suffix` -/
theorem branch_neg_correct (op suffix : String) (h : (op, suffix) ∈ negCmpSuffix) (a b : Int) :
    ∃ c, pyCmp op a b = some c ∧ icCond suffix a b = some (!c) := by
  simp only [negCmpSuffix, List.mem_cons, Prod.mk.injEq, List.mem_nil_iff, or_false] at h
  rcases h with ⟨rfl, rfl⟩ | ⟨rfl, rfl⟩ | ⟨rfl, rfl⟩ | ⟨rfl, rfl⟩ | ⟨rfl, rfl⟩ | ⟨rfl, rfl⟩ <;>
    simp only [icCond, pyCmp] <;> refine ⟨_, rfl, ?_⟩ <;> congr 1 <;>
    rw [Bool.eq_iff_iff] <;> simp <;> omega

/-- both tables have one row per operator, and the negated table negates the plain one: `if not a <op> b` (which uses
    `get_comparison_suffix` for its branch) jumps exactly when `a <op> b` holds -/
theorem negated_table_negates (op s1 s2 : String) (h1 : (op, s1) ∈ negCmpSuffix) (h2 : (op, s2) ∈ cmpSuffix) (a b : Int) :
    ∃ c, icCond s2 a b = some c ∧ icCond s1 a b = some (!c) := by
  obtain ⟨c, hc, hn⟩ := branch_neg_correct op s1 h1 a b
  obtain ⟨c', hc', hs⟩ := cmp_set_correct op s2 h2 a b
  rw [hc] at hc'
  injection hc' with e
  subst e
  exact ⟨c, hs, hn⟩

/-- the device-state branch variants: `if sdse(d)` is lowered to the branch on the *opposite* state -/
theorem branch_variant_table :
    (∀ p ∈ branchVariant, p ∈ [("sdse", "bdns"), ("sdns", "bdse")]) ∧ (∀ p ∈ [("sdse", "bdns"), ("sdns", "bdse")], p ∈ branchVariant) := by decide

/-! non-vacuity -/
example : ("<", "ge") ∈ negCmpSuffix := by decide
example : icCond "ge" 3 5 = some false ∧ pyCmp "<" 3 5 = some true := by decide

end PV.Props.C01
